#!/bin/bash
# usage: tools/try_patch.sh <patch.diff> <tier> <seed> <prop ids...>
# applies the patch to /repo, runs the listed checks, reverts /repo straight afterwards.
patch=$1; tier=$2; seed=$3; shift 3
cd /repo && git apply $patch || { echo "patch does not apply"; exit 2; }
trap 'git -C /repo checkout -- . ' EXIT
cd /verif
for p in "$@"; do
  VERIF_SEED=$seed ./check $p --tier $tier > /tmp/try_$p.log 2>&1; e=$?
  echo "$p exit=$e $(grep -c '^VIOLATION' /tmp/try_$p.log) violation line(s): $(grep '^VIOLATION' /tmp/try_$p.log | head -1)"
done

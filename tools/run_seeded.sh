#!/bin/bash
# usage: tools/run_seeded.sh [jobs] [seed] — every seeded breaking change must be reported (exit 1) by the quick check of its property;
# every harmless refactoring must pass all checks it is run against.
jobs=${1:-4}; export VERIF_SEED=${2:-0}
cd /verif
ls -d seeded/C* | xargs -P $jobs -I{} bash -c 'd={}; id=$(basename $d); p=${id%%-*}; r=$(tools/check_mutant.sh /verif/$d quick $p 2>&1 | tail -1 | cut -c1-150); echo "$id :: $r"'

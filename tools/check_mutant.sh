#!/bin/bash
# usage: tools/check_mutant.sh <dir with patch.diff> <tier> <prop ids...>  — fresh scratch worktree + patch, checks run with REPO=<worktree>
d=$1; tier=$2; shift 2
wt=$(mktemp -d /tmp/chkmut.XXXXXX)
git -C /repo worktree add --detach $wt HEAD >/dev/null 2>&1 || { echo "worktree failed"; exit 2; }
(cd $wt && git apply $d/patch.diff) || { echo "patch does not apply"; git -C /repo worktree remove --force $wt
# the private Lean project copy / output directory the harness made for this scratch tree
h=$(python3 -c "import hashlib,os,sys;print(hashlib.sha1(os.path.realpath(sys.argv[1]).encode()).hexdigest()[:12])" $wt)
rm -rf /tmp/fast_ticc_verif_lean_$h /tmp/fast_ticc_verif_lean_$h.lock /tmp/fast_ticc_verif_out_$h 2>/dev/null; exit 2; }
cd /verif
for p in "$@"; do
  out=$(REPO=$wt ./check $p --tier $tier 2>&1); e=$?
  v=$(echo "$out" | grep '^VIOLATION' | head -1)
  what=""
  if [ -n "$v" ]; then rp=$(echo "$v" | sed 's/.*replay=\([^ ]*\).*/\1/'); what=$(python3 -c "import json,sys; d=json.load(open(sys.argv[1])); print(d['kind']+': '+d['theorem_or_relation'][:160])" $rp 2>/dev/null); fi
  echo "$p exit=$e ${v:+[$(echo $v | grep -o 'no-failing-input-found')]} $what"
done
git -C /repo worktree remove --force $wt
# the private Lean project copy / output directory the harness made for this scratch tree
h=$(python3 -c "import hashlib,os,sys;print(hashlib.sha1(os.path.realpath(sys.argv[1]).encode()).hexdigest()[:12])" $wt)
rm -rf /tmp/fast_ticc_verif_lean_$h /tmp/fast_ticc_verif_lean_$h.lock /tmp/fast_ticc_verif_out_$h 2>/dev/null


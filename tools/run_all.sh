#!/bin/bash
# usage: tools/run_all.sh <tier> <seed> [jobs]   — runs every check against $REPO (default /repo); logs under /tmp/verif_runs
tier=${1:-quick}; seed=${2:-0}; jobs=${3:-4}
here="$(cd "$(dirname "${BASH_SOURCE[0]}")/.." && pwd)"
out=/tmp/verif_runs/${tier}_${seed}; mkdir -p $out
cd $here
ids=$(python3 -c "import json;print(' '.join(c['property_id'] for c in json.load(open('MANIFEST.json'))['checks']))")
printf '%s\n' $ids | xargs -P $jobs -I{} bash -c "s=\$(date +%s); VERIF_SEED=$seed ./check {} --tier $tier > $out/{}.log 2>&1; echo \"{} exit=\$? \$(( \$(date +%s)-s ))s \$(grep -c '^VIOLATION' $out/{}.log) violations \$(grep -c '^KNOWN-FINDING' $out/{}.log) known\""

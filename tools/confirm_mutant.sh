#!/bin/bash
# usage: tools/confirm_mutant.sh <dir with patch.diff demo.py> [--suite]
# Confirms in a fresh scratch worktree of /repo: demo passes without the patch, fails with it; (optionally) the
# unedited 31-test suite passes with it.  Prints a one-line verdict.
d=$1; suite=$2
wt=$(mktemp -d /tmp/confirm.XXXXXX)
git -C /repo worktree add --detach $wt HEAD >/dev/null 2>&1 || { echo "worktree failed"; exit 2; }
cd $wt
NUMBA_DISABLE_JIT=1 /venv/bin/python $d/demo.py > $wt/.demo_clean.log 2>&1; clean=$?
git apply $d/patch.diff || { echo "patch does not apply"; git -C /repo worktree remove --force $wt; exit 2; }
NUMBA_DISABLE_JIT=1 /venv/bin/python $d/demo.py > $wt/.demo_mut.log 2>&1; mut=$?
st="skipped"
if [ "$suite" == "--suite" ]; then
  OPENBLAS_NUM_THREADS=2 /venv/bin/python -m pytest -q -p no:cacheprovider --timeout=900 tests > $wt/.suite.log 2>&1; st="exit=$? $(tail -1 $wt/.suite.log)"
fi
echo "demo clean exit=$clean ; demo with patch exit=$mut ; suite with patch: $st"
tail -2 $wt/.demo_mut.log
cd /; git -C /repo worktree remove --force $wt

#!/usr/bin/env python3
"""Aggregate evidence/*.json: which executable lines of src/fast_ticc were executed by NO check of the last runs
(in-process work only).  Usage: tools/source_coverage.py [--md]"""
import json, glob, os, sys
ROOT = os.path.dirname(os.path.dirname(os.path.abspath(__file__)))


def expand(ranges):
    out = set()
    for r in ranges:
        a, _, b = r.partition("-")
        out.update(range(int(a), int(b or a) + 1))
    return out


never, execd, per_check = {}, {}, {}
for path in sorted(glob.glob(os.path.join(ROOT, "evidence", "C*.json"))):
    e = json.load(open(path))
    sc = e.get("coverage", {}).get("source_line_coverage")
    if not sc or "files" not in sc:
        continue
    per_check[e["property_id"]] = (sc["executed_lines"], sc["executable_lines"])
    for f, v in sc["files"].items():
        n = expand(v["never_executed"])
        execd[f] = v["executable"]
        never[f] = n if f not in never else (never[f] & n)
tot = sum(execd.values())
miss = sum(len(v) for v in never.values())
print(f"union over {len(per_check)} checks: {tot - miss} of {tot} executable lines executed ({100.0 * (tot - miss) / max(1, tot):.1f}%)")
for f in sorted(never):
    if never[f]:
        rs, run = [], []
        for ln in sorted(never[f]):
            if run and ln == run[-1] + 1:
                run.append(ln)
            else:
                if run:
                    rs.append(run)
                run = [ln]
        rs.append(run)
        print(f"  {f}: never executed by any check: " + ", ".join(str(r[0]) if len(r) == 1 else f"{r[0]}-{r[-1]}" for r in rs))
if "--per-check" in sys.argv:
    for k, (a, b) in sorted(per_check.items()):
        print(f"  {k}: {a}/{b}")

#!/usr/bin/env python3
"""Regenerate MANIFEST.json from the table below (kept by hand)."""
import json, os
HERE = os.path.dirname(os.path.abspath(__file__))
ROOT = os.path.dirname(HERE)
TABLE = json.load(open(os.path.join(HERE, 'manifest_table.json')))
props = [json.loads(l) for l in open(os.path.join(ROOT, 'properties.jsonl'))]
ids = [p['id'] for p in props]
checks = []
for pid in ids:
    t = TABLE['checks'].get(pid)
    if not t:
        continue
    checks.append({
        "property_id": pid,
        "quick_cmd": f"./check {pid} --tier quick",
        "thorough_cmd": f"./check {pid} --tier thorough",
        "evidence_file": f"evidence/{pid}.json",
        "replay_cmd_template": f"./check {pid} --replay {{path}}",
        "engine": "lean4-model+correspondence",
        "level_claimed": {"category": t['category'], "text": t['text'], "design_ref": f"DESIGN.md section 5, {pid}"},
        "level_note": t['note'],
        "technique": t['technique'],
    })
na = [{"property_id": pid, "reason": TABLE['not_applicable'].get(pid, "check not yet built in this round (see DESIGN.md section 5 for the plan); nothing is claimed for it yet")}
      for pid in ids if pid not in TABLE['checks']]
m = {
    "version": 1,
    "setup_cmd": "cd lean && lake build",
    "hooks": {
        "guard": "FAST_TICC_VERIF",
        "enable": "no source hooks are needed: the harness imports fast_ticc from /repo/src and observes it by wrapping module attributes (phase functions, the ADMM entry point, random.sample) at run time; FAST_TICC_VERIF is reserved and currently read by nothing in /repo",
        "baseline_off_cmd": "cd /repo && env -u FAST_TICC_VERIF /venv/bin/python -m pytest -ra -q -p no:cacheprovider --timeout=900 --continue-on-collection-errors",
        "source_commits": [],
        "add_only": True
    },
    "engines": [{
        "name": "lean4-model+correspondence",
        "path": "lean/ (Lean 4 model, theorems, compiled model driver) + harness/ (Python correspondence, oracles)",
        "serves_properties": [c['property_id'] for c in checks],
        "kind_free_text": "machine-checked proof in Lean 4 about an executable model; the model is tied to /repo on every run (a) by a differential correspondence check of model and implementation on the same inputs and recorded histories, (b) by source-derived constants and loop structure regenerated from the AST, and (c) for the pure index / list / kernel helpers by a Python-to-Lean translator (harness/py2lean.py -> Generated/Kernels.lean) with theorems that the translated functions equal the hand-written model"
    }],
    "checks": checks,
    "notes": TABLE.get('notes', ''),
    "not_applicable": na,
}
json.dump(m, open(os.path.join(ROOT, 'MANIFEST.json'), 'w'), indent=1)
print("wrote MANIFEST.json with", len(checks), "checks;", len(na), "not yet claimed")

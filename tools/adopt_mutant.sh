#!/bin/bash
# usage: tools/adopt_mutant.sh <Cxx> <suffix e.g. r4> <src out dir> [extra check ids...]
# copies the agent's deliverables to seeded/<Cxx>-<suffix>/, confirms (demo clean/mutated + unedited suite), runs the quick check(s)
id=$1; suf=$2; src=$3; shift 3
here="$(cd "$(dirname "${BASH_SOURCE[0]}")/.." && pwd)"
dst=$here/seeded/$id-$suf
mkdir -p $dst
cp $src/patch.diff $src/demo.py $src/meta.json $dst/ || exit 2
# demo paths: make demo independent of the agent's scratch location (it inserts os.getcwd()/src itself)
echo "== confirm"; $here/tools/confirm_mutant.sh $dst --suite
echo "== checks"; $here/tools/check_mutant.sh $dst quick $id "$@"

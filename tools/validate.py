#!/usr/bin/env python3
"""Validate MANIFEST.json and evidence/*.json against the schemas (uses python3-vt's jsonschema)."""
import glob, json, sys
import jsonschema
ok = True
m = json.load(open('/verif/MANIFEST.json'))
jsonschema.validate(m, json.load(open('/root/.vp/MANIFEST.schema.json')))
print("MANIFEST ok:", len(m['checks']), "checks")
es = json.load(open('/root/.vp/EVIDENCE.schema.json'))
for c in m['checks']:
    p = '/verif/' + c['evidence_file'] if not c['evidence_file'].startswith('/') else c['evidence_file']
    try:
        e = json.load(open(p))
        jsonschema.validate(e, es)
        assert e['level'] == c['level_claimed']['category'], (e['level'], c['level_claimed']['category'])
        print(" ", c['property_id'], "evidence ok", e['tier'], e['coverage'].get('evaluations'), e['coverage'].get('distinct_nontrivial'), e['coverage'].get('obligations'), e['coverage'].get('discharged'), e['wall_s'])
    except Exception as ex:
        ok = False
        print(" ", c['property_id'], "EVIDENCE PROBLEM:", str(ex)[:300])
sys.exit(0 if ok else 1)

"""Replay a traced real run in the whole-run Lean model (lean/FastTicc/Model/Run.lean).

Oracles taken from the real run: ADMM outputs (MRF + log-determinant per round and cluster), the spread
ranking key, the needy-set order and the random draws of every repopulation.  Everything else (membership,
means, cost table, labelling, loop control) is computed by the model at exact rationals and compared."""
import math
from fractions import Fraction

import numpy as np

import ticc_util as tu
from common import frac_str, show_list


def fr(x):
    return frac_str(Fraction(float(x)))


def build_line(cfg, tr, stacked, assign_log):
    rounds = tr.rounds()
    if not rounds or rounds[0][0]["phase"] != "stats":
        return None
    T, d = stacked.shape
    K = cfg["K"]
    init = rounds[0][0]["in_before"]["labels"]
    if init is None or not tr.kernel_calls:
        return None
    kb = tr.kernel_calls[0]["beta"]
    betas = [float(x) for x in kb] if isinstance(kb, np.ndarray) else [float(kb)] * T
    blocks = []
    for r, evs in enumerate(rounds):
        names = [e["phase"] for e in evs]
        if names[-3:] != ["stats", "opt", "relabel"] or any(e["error"] is not None for e in evs):
            return None
        opt = evs[-2]["out_snap"]
        thetas = [np.atleast_2d(c["train"]) for c in opt["clusters"]]
        logdets = [c["logdet"] for c in opt["clusters"]]
        if any(l is None or not math.isfinite(float(l)) for l in logdets) or any(not np.all(np.isfinite(t)) for t in thetas):
            return None
        spreads, order, picks = [0.0] * K, [], []
        if names[0] == "repop":
            e = evs[0]
            comp = [c["comp"] for c in e["in_before"]["clusters"]]
            spreads = [float(np.linalg.norm(c)) if c is not None and np.asarray(c).dtype != object else 0.0 for c in comp]
            if e["out"] is not e["in"]:
                labs = [lab for (sid, lab) in assign_log if sid == id(e["out"]) and lab is not None]
                moves = tu.moves_from_assignments(e["in_before"]["labels"], labs[:-1] if False else labs)
                # the relabel phase never assigns to this object, so all its assignments are refills
                order = [rcp for (_d, rcp, _p, _l, _n) in moves]
                picks = [pos for (_d, _r, pos, _l, _n) in moves]
                needy = [k for k in range(K) if e["in_before"]["labels"].count(k) < 2]
                order = order + [k for k in needy if k not in order]
        blocks.append("#".join([
            show_list(thetas, lambda t: show_list(t.tolist(), lambda row: show_list(row, fr), ";"), "|"),
            show_list(logdets, fr), show_list(spreads, fr), show_list(order), show_list(picks, lambda l: show_list(l), ";")]))
    nw = float(d * np.log(2 * math.pi))
    line = (f"replayrun {T} {d} {K} {cfg['m']} {cfg['limit']} 1/2 {fr(nw)} {show_list(betas, fr)} "
            f"{show_list(stacked.tolist(), lambda row: show_list(row, fr), ';')} {show_list(init)} " + "@".join(blocks))
    impl_labels = [[int(x) for x in evs[-1]["out"].point_labels] for evs in rounds]
    return line, impl_labels, betas


def compare(ctx, cfg, tr, model_out, impl_labels, betas):
    """returns 'equal' | 'near-tie' | 'break'."""
    parts = model_out.split(" ")
    if parts[0] != "ok":
        ctx.violation("correspondence-break", f"whole-run model failed ({model_out[:60]}) on a run the implementation completed", cfg)
        return "break"
    mrounds = int(parts[1])
    mlabels = [[int(x) for x in l.split(",")] for l in parts[2].split(";")]
    for r, (ml, il) in enumerate(zip(mlabels, impl_labels)):
        if ml == il:
            continue
        # different labelling: acceptable only if both cost the same (to rounding) under the real round's table
        table = tr.kernel_calls[r]["table"]
        ft = [[Fraction(float(x)) for x in row] for row in table.tolist()]
        fb = [Fraction(b) for b in betas]

        def cost(ls):
            c = sum(ft[i][l] for i, l in enumerate(ls))
            return c + sum(fb[i] for i in range(len(ls) - 1) if ls[i] != ls[i + 1])
        scale = float(sum(abs(x) for row in ft for x in row)) + 1.0
        if abs(float(cost(ml) - cost(il))) <= 1e-9 * scale:
            return "near-tie"       # later rounds legitimately diverge
        ctx.violation("correspondence-break",
                      f"whole-run model and implementation disagree on the labelling of round {r} "
                      f"(costs {float(cost(ml))} vs {float(cost(il))} under the round's table)", cfg)
        return "break"
    if mrounds != len(impl_labels):
        ctx.violation("correspondence-break", f"whole-run model ran {mrounds} rounds, implementation {len(impl_labels)}", cfg)
        return "break"
    return "equal"

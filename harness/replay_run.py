"""Replay a traced real run in the whole-run Lean model (lean/FastTicc/Model/Run.lean).

Oracles taken from the real run: ADMM outputs (MRF + log-determinant per round and cluster), the spread
ranking key, the needy-set order and the random draws of every repopulation.  Everything else (membership,
means, cost table, labelling, loop control) is computed by the model at exact rationals and compared."""
import math
from fractions import Fraction

import numpy as np

import ticc_util as tu
from common import frac_str, show_list


BIC_THRESHOLD = 2e-5    # cluster_metrics.py; the extracted constant is tied to it by constants_tie_bic (C16)


def fr(x):
    return frac_str(Fraction(float(x)))


def build_line(cfg, tr, stacked, assign_log, fit=False, series=None):
    """fit=False: replayrun (labels per round); fit=True: replayfit (whole result); fit='front': replayfront (raw
    `series` in, per-series padded label lists out — the model stacks, fits, splits and pads itself)."""
    rounds = tr.rounds()
    if not rounds or rounds[0][0]["phase"] != "stats":
        return None
    T, d = stacked.shape
    K = cfg["K"]
    init = rounds[0][0]["in_before"]["labels"]
    if init is None or not tr.kernel_calls:
        return None
    kb = tr.kernel_calls[0]["beta"]
    betas = [float(x) for x in kb] if isinstance(kb, np.ndarray) else [float(kb)] * T
    blocks = []
    for r, evs in enumerate(rounds):
        names = [e["phase"] for e in evs]
        if names[-3:] != ["stats", "opt", "relabel"] or any(e["error"] is not None for e in evs):
            return None
        opt = evs[-2]["out_snap"]
        thetas = [np.atleast_2d(c["train"]) for c in opt["clusters"]]
        logdets = [c["logdet"] for c in opt["clusters"]]
        if any(l is None or not math.isfinite(float(l)) for l in logdets) or any(not np.all(np.isfinite(t)) for t in thetas):
            return None
        spreads, order, picks = [0.0] * K, [], []
        if names[0] == "repop":
            e = evs[0]
            comp = [c["comp"] for c in e["in_before"]["clusters"]]
            spreads = [float(np.linalg.norm(c)) if c is not None and np.asarray(c).dtype != object else 0.0 for c in comp]
            if e["out"] is not e["in"]:
                labs = [lab for (sid, lab) in assign_log if sid == id(e["out"]) and lab is not None]
                moves = tu.moves_from_assignments(e["in_before"]["labels"], labs[:-1] if False else labs)
                # the relabel phase never assigns to this object, so all its assignments are refills
                order = [rcp for (_d, rcp, _p, _l, _n) in moves]
                picks = [pos for (_d, _r, pos, _l, _n) in moves]
                needy = [k for k in range(K) if e["in_before"]["labels"].count(k) < 2]
                order = order + [k for k in needy if k not in order]
        fields = [
            show_list(thetas, lambda t: show_list(t.tolist(), lambda row: show_list(row, fr), ";"), "|"),
            show_list(logdets, fr), show_list(spreads, fr), show_list(order), show_list(picks, lambda l: show_list(l), ";")]
        if fit is True and len(tr.admm_calls) == K * len(rounds):
            # raw (compressed) solver outputs of this round's K tasks + the covariance floor: the model re-inflates and
            # filters them itself (OptPhase.reconstruct) and must arrive at exactly the recorded MRFs
            raws = [c_["result"] for c_ in tr.admm_calls[r * K:(r + 1) * K]]
            if all(x is not None and np.all(np.isfinite(x)) for x in raws):
                fields += [show_list(raws, lambda v: show_list(np.asarray(v).ravel().tolist(), fr), ";"), fr(cfg.get("eps", 0))]
        blocks.append("#".join(fields))
    nw = float(d * np.log(2 * math.pi))
    head = f"replayrun {T} {d} {K} {cfg['m']} {cfg['limit']} 1/2 {fr(nw)} "
    if fit:
        # whole-result replay: log T, the BIC counting threshold (from the source) and the estimator flag
        head = (f"replayfit {T} {d} {K} {cfg['m']} {cfg['limit']} 1/2 {fr(nw)} {fr(np.log(T))} {fr(BIC_THRESHOLD)} "
                f"{1 if cfg['biased'] else 0} ")
    if fit == "front":
        head = (f"replayfront {1 if cfg['joint'] else 0} 0 {cfg['W']} {K} {cfg['m']} {cfg['limit']} 1/2 {fr(nw)} {fr(np.log(T))} "
                f"{fr(BIC_THRESHOLD)} {1 if cfg['biased'] else 0} {show_list(betas, fr)} "
                + show_list([np.asarray(s_, dtype=float).tolist() for s_ in series],
                            lambda s_: show_list(s_, lambda row: show_list(row, fr), ';'), '|')
                + f" {show_list(init)} " + "@".join(blocks))
        impl_labels = [[int(x) for x in evs[-1]["out"].point_labels] for evs in rounds]
        return head, impl_labels, betas
    line = (head + f"{show_list(betas, fr)} "
            f"{show_list(stacked.tolist(), lambda row: show_list(row, fr), ';')} {show_list(init)} " + "@".join(blocks))
    impl_labels = [[int(x) for x in evs[-1]["out"].point_labels] for evs in rounds]
    return line, impl_labels, betas


def compare(ctx, cfg, tr, model_out, impl_labels, betas):
    """returns 'equal' | 'near-tie' | 'break'."""
    parts = model_out.split(" ")
    if parts[0] != "ok":
        ctx.violation("correspondence-break", f"whole-run model failed ({model_out[:60]}) on a run the implementation completed", cfg)
        return "break"
    mrounds = int(parts[1])
    mlabels = [[int(x) for x in l.split(",")] for l in parts[2].split(";")]
    for r, (ml, il) in enumerate(zip(mlabels, impl_labels)):
        if ml == il:
            continue
        # different labelling: acceptable only if both cost the same (to rounding) under the real round's table
        table = tr.kernel_calls[r]["table"]
        ft = [[Fraction(float(x)) for x in row] for row in table.tolist()]
        fb = [Fraction(b) for b in betas]

        def cost(ls):
            c = sum(ft[i][l] for i, l in enumerate(ls))
            return c + sum(fb[i] for i in range(len(ls) - 1) if ls[i] != ls[i + 1])
        scale = float(sum(abs(x) for row in ft for x in row)) + 1.0
        if abs(float(cost(ml) - cost(il))) <= 1e-9 * scale:
            return "near-tie"       # later rounds legitimately diverge
        ctx.violation("correspondence-break",
                      f"whole-run model and implementation disagree on the labelling of round {r} "
                      f"(costs {float(cost(ml))} vs {float(cost(il))} under the round's table)", cfg)
        return "break"
    if mrounds != len(impl_labels):
        ctx.violation("correspondence-break", f"whole-run model ran {mrounds} rounds, implementation {len(impl_labels)}", cfg)
        return "break"
    return "equal"


def _close(a, b, rel=1e-8, scale=0.0):
    a, b = float(a), float(b)
    if not (math.isfinite(a) and math.isfinite(b)):
        return False
    return abs(a - b) <= rel * (abs(a) + abs(b)) + rel * scale + 1e-300


def compare_report(ctx, cfg, res, model_out, impl_final_labels, fields=("cost", "ll", "bic", "ch")):
    """whole-result replay (Final.report) vs the result object of the real run.
    returns 'equal' | 'near-tie' | 'break'.  Every model value is the exact rational value of the formula on the
    same float inputs, so only rounding separates the two sides."""
    parts = model_out.split(" ")
    if parts[0] != "ok" or len(parts) != 15:
        ctx.violation("correspondence-break", f"whole-result model failed ({model_out[:60]}) on a run the implementation completed", cfg)
        return "break"
    labels = [int(x) for x in parts[2].split(",")]
    if labels != impl_final_labels:
        return "near-tie"      # a different but equally cheap labelling (decided by replayrun's comparison)
    F = lambda x: float(Fraction(x))
    L = lambda x: [] if x == "-" else [F(y) for y in x.split(",")]
    cost, allv, total, mean, median = F(parts[3]), L(parts[4]), F(parts[5]), F(parts[6]), F(parts[7])
    cmeans, cmeds, params, bic, ch = L(parts[8]), L(parts[9]), int(parts[10]), F(parts[11]), F(parts[12])
    K = cfg["K"]
    mag = sum(abs(x) for x in allv) + 1.0
    bad = []
    if parts[14].startswith("rawdiff"):
        bad.append("the MRFs reconstructed by the model from the raw solver outputs (re-inflate + floor) differ from the "
                   f"implementation's in rounds {parts[14][8:]}")
    ctx.count("whole_result_replay:raw-solver-output-" + ("checked" if parts[14] == "rawok" else "absent" if parts[14] == "-" else "diff"))
    if int(parts[1]) < 1:
        bad.append("rounds")
    if "cost" in fields and not _close(res.label_assignment_cost, cost, scale=mag):
        bad.append(f"label_assignment_cost {float(res.label_assignment_cost)} vs {cost}")
    got_all = [float(x) for x in res.all_log_likelihood]
    if "ll" not in fields:
        pass
    elif len(got_all) != len(allv) or any(not _close(a, b, scale=mag / max(1, len(allv))) for a, b in zip(got_all, allv)):
        bad.append("all_log_likelihood")
    if "ll" in fields and not _close(res.overall_log_likelihood, total, scale=mag):
        bad.append("overall_log_likelihood")
    if "ll" in fields and not _close(res.overall_log_likelihood_mean, mean, scale=mag / max(1, len(allv))):
        bad.append("overall_log_likelihood_mean")
    if "ll" in fields and not _close(res.overall_log_likelihood_median, median, scale=mag / max(1, len(allv))):
        bad.append("overall_log_likelihood_median")
    for name, got, want in (("cluster_log_likelihood_mean", res.cluster_log_likelihood_mean, cmeans),
                            ("cluster_log_likelihood_median", res.cluster_log_likelihood_median, cmeds)):
        if "ll" in fields and (len(got) != len(want) or any(not _close(a, b, scale=mag / max(1, len(allv))) for a, b in zip(got, want))):
            bad.append(name)
    T = len(labels)
    if "bic" in fields and not _close(res.bayesian_information_criterion, bic, scale=params * math.log(max(T, 2)) + 1.0):
        bad.append(f"bayesian_information_criterion {float(res.bayesian_information_criterion)} vs {bic} (params {params})")
    nonempty = all(labels.count(k) > 0 for k in range(K))
    if "ch" in fields and K >= 2 and T > K and nonempty and not _close(res.calinski_harabasz_index, ch, rel=1e-7):
        bad.append(f"calinski_harabasz_index {float(res.calinski_harabasz_index)} vs {ch}")
    if bad:
        ctx.violation("correspondence-break", "whole-result model (Final.report) and the returned result disagree on: "
                      + "; ".join(bad), cfg)
        return "break"
    return "equal"


def whole_result_section(ctx, cfgs, fields, want):
    """the complete result of traced real runs must be Final.report of the composed Lean model run on the same data,
    initial labelling, random draws and ADMM outputs (compared on `fields`)."""
    import oracles
    from fast_ticc import data_preparation as dp
    fit_lines, fit_meta = [], []
    for cfg in cfgs:
        if len(fit_lines) >= want:
            break
        if cfg.get("force_final") or cfg.get("beta_vector_seed") is not None or cfg.get("synthetic"):
            continue
        if not all(k in cfg for k in ("lens", "W", "N", "K", "m", "limit", "biased")):
            continue
        if cfg.get("shift") and max(abs(float(x)) for x in cfg["shift"]) > 1e5:
            continue        # exact-vs-float comparison at 1e-8 is not meaningful on a 1e6+ offset (rounding of the means)
        if cfg.get("completion") is not None:
            continue        # solver calls are recorded in completion order there
        npts = sum(l - cfg["W"] + 1 for l in cfg["lens"])
        if npts * cfg["N"] * cfg["W"] > 1500:
            continue
        with tu.record_label_assignments() as assign_log:
            res, tr, err, series = tu.execute(cfg)
        if err is not None or tr is None or not tr.kernel_calls:
            continue
        stacked = dp.stack_training_data_multiple_series(series, cfg["W"])
        built = build_line(cfg, tr, stacked, list(assign_log), fit=True)
        if built is None:
            ctx.count("whole_result_replay:not-replayable")
            continue
        flat, _ = oracles.flat_labels(res.point_labels)
        fit_lines.append(built[0])
        fit_meta.append((cfg, res, [x for x in flat if x >= 0]))
    for (cfg, res, lab), mo in zip(fit_meta, ctx.driver.run(fit_lines)):
        verdict = compare_report(ctx, cfg, res, mo, lab, fields)
        ctx.count("whole_result_replay:" + verdict)


def front_end_section(ctx, cfgs, want):
    """complete front-end calls replayed in the composed front-end model (FrontEnd.single / FrontEnd.joint): raw series
    in; the model stacks the windows, runs the whole fit on the recorded oracles, splits and pads; the per-series label
    lists must be EXACTLY the lists the real front end returned (markers included)."""
    lines, meta = [], []
    for cfg in cfgs:
        if len(lines) >= want:
            break
        if cfg.get("force_final") or cfg.get("beta_vector_seed") is not None or cfg.get("synthetic") or cfg.get("dtype"):
            continue
        if not all(k in cfg for k in ("lens", "W", "N", "K", "m", "limit", "biased", "joint")):
            continue
        npts = sum(l - cfg["W"] + 1 for l in cfg["lens"])
        if npts * cfg["N"] * cfg["W"] > 1500:
            continue
        with tu.record_label_assignments() as assign_log:
            res, tr, err, series = tu.execute(cfg)
        if err is not None or tr is None or not tr.kernel_calls:
            continue
        from fast_ticc import data_preparation as dp
        stacked = dp.stack_training_data_multiple_series(series, cfg["W"])
        built = build_line(cfg, tr, stacked, list(assign_log), fit="front", series=series)
        if built is None:
            ctx.count("front_end_replay:not-replayable")
            continue
        lists = [[int(x) for x in l] for l in res.point_labels] if cfg["joint"] else [[int(x) for x in res.point_labels]]
        lines.append(built[0])
        meta.append((cfg, res, lists, built[1][-1]))
    for (cfg, res, lists, last_labels), mo in zip(meta, ctx.driver.run(lines)):
        parts = mo.split(" ")
        if parts[0] != "ok" or len(parts) != 7:
            ctx.violation("correspondence-break", f"front-end model failed ({mo[:60]}) on a call the implementation completed", cfg)
            ctx.count("front_end_replay:break")
            continue
        mlists = [[int(x) for x in l.split(",")] if l != "-" else [] for l in parts[2].split(";")]
        if [x for l in mlists for x in l if x >= 0] != last_labels:
            ctx.count("front_end_replay:near-tie")     # a different, equally cheap labelling (judged by replayrun in C09)
            continue
        if mlists != lists:
            ctx.violation("correspondence-break", "front-end model (stack, fit, split, pad) and the real front end return different "
                          f"label lists: lengths {[len(l) for l in mlists]} vs {[len(l) for l in lists]}", cfg)
            ctx.count("front_end_replay:break")
            continue
        ctx.count("front_end_replay:equal")

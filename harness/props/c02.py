"""C02 — the cluster MRF is the block-Toeplitz graphical-lasso optimum."""
import math
import random as pyrandom
import warnings
from fractions import Fraction

import numpy as np

import common
import oracles
import ticc_util as tu
from common import show_list, frac_str

LEVEL = "other"
LEAN_PROPS = ["FastTicc.Props.C02", "FastTicc.Props.Compose", "FastTicc.Props.C03", "FastTicc.Props.C11", "FastTicc.Props.C18", "FastTicc.Props.C02matrix", "FastTicc.Props.C02opt", "FastTicc.Props.AdmmSolve", "FastTicc.Props.C02conv", "FastTicc.Props.PyFor"]
LEAN_HELPERS = ["FastTicc.Proofs.Admm", "FastTicc.Proofs.Compose", "FastTicc.Proofs.AdmmMatrix", "FastTicc.Proofs.LogDet"]
LEAN_TRANSLATED = {"FastTicc.Props.TrSoft": ["soft_threshold_prox"],
                   "FastTicc.Props.TrZUpdate": ["soft_threshold_prox", "compute_lambda_sum", "admm_update_z", "locations_compressed",
                                                "locations_index_slices"],
                   "FastTicc.Props.TrAdmmLoop": ["run_admm_optimization", "admm_update_u", "admm_update_z"],
                   "FastTicc.Props.TrCheck": ["check_convergence", "admm_update_x", "reinflate_matrix", "run_admm_optimization", "admm_update_u",
                                              "admm_update_z"]}
RULE = ("(a) step functions (soft threshold, lambda sum, Z update, U update, stopping rule) on dyadic inputs for all (N,W) "
        "with NW<=8 (thorough: <=24), scalar and matrix lambda, rho in {1/8..8}, vs the model at Rat; X update against its "
        "stationarity characterisation; (b) the entry point on generated PSD covariances (full rank, rank deficient, "
        "diagonal, strongly correlated), lambda scalar / constant matrix / non-constant symmetric matrix, rho in [0.1,10], "
        "with and without a rho-update callback: on runs stopped by the rule the class-wise KKT certificate, the Toeplitz "
        "defect and 20 feasible perturbations are evaluated; (c) the region rho=1, lambda<=1, eig(S) in [0.25,4] must stop "
        "within the budget; non-trivial = NW>=2 and lambda>0; distinct by input")
EXPLANATION = ("Theorems (Lean): soft_threshold_minimises (the value the Z-update writes minimises the class objective over "
               "all reals), softThreshold_closed_form, zUpdate_toeplitz (the Z iterate is constant on every class: block "
               "Toeplitz), zUpdate_length, uUpdate_fixed_iff, xUpdate_eigenvalues / eig_stationary (rho X - X^-1 = "
               "rho(Z-U) - S eigenvalue-wise, X positive definite), fixed_point_class_kkt (class-wise KKT certificate at a "
               "fixed point). NOT proved: convergence within the iteration budget (explored by dense sampling, max "
               "iterations reported) and that the KKT certificate implies global optimality (needs concavity of log det "
               "on the SPD cone; cited). The model is tied to the code step by step at exact rationals.")
ASSUMPTIONS = ["numpy.linalg.eigh returns an orthonormal eigenbasis", "KKT residual bounds derived from the solver's own stopping tolerances"]


def classes(N, W):
    return [(b, r, c) for b in range(W) for r in range(N) for c in range(r if b == 0 else 0, N)]


def positions(b, r, c, N, W):
    return [(i * N + r, b * N + i * N + c) for i in range(W - b)]


def gen_psd(rng, n):
    rs = np.random.RandomState(rng.randrange(2 ** 31))
    kind = rng.choice(["full", "rank-deficient", "diagonal", "correlated"])
    if kind == "full":
        X = rs.randn(4 * n + 3, n)
        S = np.cov(X.T)
    elif kind == "rank-deficient":
        X = rs.randn(max(2, n // 2), n)
        S = np.cov(X.T)
    elif kind == "diagonal":
        S = np.diag(rs.uniform(0.2, 3.0, size=n))
    else:
        z = rs.randn(5 * n, 1)
        S = np.cov((z + 0.05 * rs.randn(5 * n, n)).T)
    return kind, np.atleast_2d(S)


def gen_lambda(rng, n, N, W):
    kind = rng.choice(["scalar", "scalar", "const-matrix", "matrix", "zero"])
    if kind == "zero":
        return kind, 0.0
    if kind == "scalar":
        return kind, float(rng.choice([1e-3, 0.05, 0.11, 0.5, 1.0, 2.0, 5.0]))
    if kind == "const-matrix":
        return kind, np.full((n, n), float(rng.choice([0.05, 0.25, 1.0])))
    rs = np.random.RandomState(rng.randrange(2 ** 31))
    M = rs.uniform(0.01, 1.5, size=(n, n))
    return kind, (M + M.T) / 2


def lambda_class_sum(lam, b, r, c, N, W):
    if isinstance(lam, np.ndarray):
        return float(sum(lam[R, C] for (R, C) in positions(b, r, c, N, W)))
    return float(lam) * (W - b)


def objective(theta, S, lam):
    sign, ld = np.linalg.slogdet(theta)
    if sign <= 0:
        return math.inf
    L = lam if isinstance(lam, np.ndarray) else np.full(theta.shape, float(lam))
    return -ld + float(np.sum(S * theta)) + float(np.sum(np.abs(L * theta)))


def run(ctx):
    _run_main(ctx)
    if ctx.replay is None:
        _verbose_and_copies(ctx)
        _whole_solve_replay(ctx)


def _run_main(ctx):
    common.setup_repo_import()
    from fast_ticc import admm, matrix_compression as mc
    from fast_ticc.admm import solver
    from fast_ticc.containers import arguments

    replay = ctx.replay
    # ---------------- (a) step-wise correspondence
    if replay is None or replay.get("step"):
        nwmax = 8 if ctx.quick() else 24
        shapes = [(N, W) for N in range(1, 7) for W in range(1, 9) if N * W <= nwmax]
        if replay is not None:
            shapes = [tuple(replay["NW"])]
        reps = 2 if ctx.quick() else 6
        lines, meta = [], []
        gen_z, gen_u = [], []
        for (N, W) in shapes:
            n = N * W
            m = n * (n + 1) // 2
            for rep in range(reps):
                rs = np.random.RandomState(ctx.seed * 977 + N * 131 + W * 17 + rep)
                rho = float(ctx.rng.choice([0.125, 0.5, 1, 2, 8]))
                x = np.round(rs.uniform(-2, 2, size=m) * 32) / 32
                u = np.round(rs.uniform(-1, 1, size=m) * 32) / 32
                use_matrix = rep % 2 == 1
                if use_matrix:
                    M = np.round(rs.uniform(0, 1.5, size=(n, n)) * 16) / 16
                    lam = (M + M.T) / 2
                    lam_s = "matrix " + show_list(lam.tolist(), lambda r: show_list(r, lambda v: frac_str(Fraction(v))), ";")
                else:
                    lam = float(ctx.rng.choice([0.0, 0.125, 0.5, 1.0]))
                    lam_s = f"scalar {frac_str(Fraction(lam))}"
                args = arguments.ADMMArguments(window_size=W, num_data_series=N, rho=rho, rho_update=None,
                                               sparsity_weight=lam, absolute_tolerance=1e-6, relative_tolerance=1e-6,
                                               max_iterations=10, verbose=False)
                z = solver.admm_update_z(args, u, x)
                unew = solver.admm_update_u(u, x, z)
                # the Z-update TRANSLATED from the source (with the translated lambda sum, class positions and soft
                # threshold inside), at exact rationals, on the same arguments
                fl = lambda v: frac_str(Fraction(float(v)))
                lam_tok = ("m:" + show_list(lam.tolist(), lambda r: show_list(r, fl), ";")) if use_matrix else ("s:" + fl(lam))
                gen_z.append((f"{W}~{N}~{fl(rho)}~{lam_tok} {show_list(u, fl)} {show_list(x, fl)}",
                              "ok " + show_list(z, fl), {"step": True, "NW": [N, W], "rep": rep}))
                gen_u.append((f"{show_list(u, fl)} {show_list(x, fl)} {show_list(z, fl)}", "ok " + show_list(unew, fl),
                              {"step": True, "NW": [N, W], "rep": rep}))
                lines.append(f"zupdate {frac_str(Fraction(rho))} {lam_s} {N} {W} "
                             f"{show_list(u, lambda v: frac_str(Fraction(float(v))))} {show_list(x, lambda v: frac_str(Fraction(float(v))))}")
                meta.append(("z", (N, W, rep), z))
                lines.append(f"uupdate {show_list(u, lambda v: frac_str(Fraction(float(v))))} "
                             f"{show_list(x, lambda v: frac_str(Fraction(float(v))))} {show_list(z, lambda v: frac_str(Fraction(float(v))))}")
                meta.append(("u", (N, W, rep), unew))
                # Toeplitz structure + class optimality, directly on the implementation
                for (b, r, c) in classes(N, W):
                    idx = [R * n - R * (R - 1) // 2 + (C - R) for (R, C) in positions(b, r, c, N, W)]
                    vals = z[idx]
                    if not np.all(vals == vals[0]):
                        ctx.violation("impl-violation", f"Z update is not constant on class {(b, r, c)}",
                                      {"step": True, "NW": [N, W]}, {"site": "z-toeplitz"})
                        break
                    s = x[idx] + u[idx]
                    Lam = lambda_class_sum(lam, b, r, c, N, W)

                    def g(zz):
                        return Lam * abs(zz) + rho / 2 * float(np.sum((zz - s) ** 2))
                    z0 = float(vals[0])
                    if any(g(z0) > g(z0 + dz) + 1e-12 * (1 + abs(g(z0))) for dz in (1e-3, -1e-3, 0.1, -0.1, -z0)):
                        ctx.violation("impl-violation", f"Z update value of class {(b, r, c)} does not minimise the class objective",
                                      {"step": True, "NW": [N, W]}, {"site": "z-minimiser"})
                        break
                # stopping rule
                zold = np.round(rs.uniform(-2, 2, size=m) * 32) / 32
                conv = solver.check_convergence(args, u, x, z, zold)
                nrm = np.linalg.norm
                nums = [math.sqrt(m), 1e-6, 1e-6, nrm(x), nrm(z), nrm(rho * u), nrm(x - z), nrm(rho * (z - zold))]
                lines.append("stoprule " + show_list(nums, lambda v: frac_str(Fraction(float(v)))))
                meta.append(("stop", (N, W, rep), bool(conv[0])))
                ctx.case(("step", N, W, rep), nontrivial=n >= 2)
            ctx.count("step_shapes")
        for (kind, key, impl), mo in zip(meta, ctx.driver.run(lines)):
            if kind == "stop":
                if str(impl).lower() != mo:
                    ctx.violation("correspondence-break", "stopRule vs check_convergence", {"step": True, "NW": list(key[:2])})
                continue
            mv = [float(Fraction(v)) for v in common.parse_list(mo, str)]
            if len(mv) != len(impl) or not all(oracles.rel_close(a, b, 1e-12, 1e-12) for a, b in zip(impl, mv)):
                ctx.violation("correspondence-break", f"{'zUpdate' if kind == 'z' else 'uUpdate'} vs implementation",
                              {"step": True, "NW": list(key[:2]), "rep": key[2]})
        ctx.gen_compare("admm_update_z", gen_z, tol=1e-12)
        ctx.gen_compare("admm_update_u", gen_u, tol=1e-12)
        # scalar helpers
        lines, impl = [], []
        for _ in range(200 if ctx.quick() else 2000):
            s = Fraction(ctx.rng.randint(-64, 64), 8)
            lam = Fraction(ctx.rng.randint(0, 32), 8)
            rr = Fraction(ctx.rng.randint(1, 40), 8)
            lines.append(f"softthr {frac_str(s)} {frac_str(lam)} {frac_str(rr)}")
            impl.append(float(solver.soft_threshold_prox(float(s), float(lam), float(rr))))
        for a, mo in zip(impl, ctx.driver.run(lines)):
            if not oracles.rel_close(a, float(Fraction(mo)), 1e-13, 1e-15):
                ctx.violation("correspondence-break", "softThreshold vs soft_threshold_prox", {"step": True, "NW": [1, 1]})
        # the function TRANSLATED from the source (Generated/Kernels.lean), at exact rationals, on arguments for which the
        # double division is exact (the divisor a power of two): exact agreement with the implementation
        gen_cases = []
        for _ in range(200 if ctx.quick() else 2000):
            s_ = Fraction(ctx.rng.randint(-64, 64), 8)
            lam_ = Fraction(ctx.rng.randint(0, 32), 8)
            rr_ = Fraction(2) ** ctx.rng.randint(-3, 3)
            got = solver.soft_threshold_prox(float(s_), float(lam_), float(rr_))
            gen_cases.append((f"{frac_str(s_)} {frac_str(lam_)} {frac_str(rr_)}", "ok " + frac_str(Fraction(float(got))),
                              {"step": True, "soft": [str(s_), str(lam_), str(rr_)]}))
        ctx.gen_compare("soft_threshold_prox", gen_cases)
        # X update characterisation
        for _ in range(30 if ctx.quick() else 300):
            n = ctx.rng.randint(1, 8)
            kind, S = gen_psd(ctx.rng, n)
            rs = np.random.RandomState(ctx.rng.randrange(2 ** 31))
            A0 = rs.randn(n, n)
            zmu = (A0 + A0.T) / 2
            rho = float(ctx.rng.choice([0.1, 1, 3, 10]))
            X = mc.reinflate_matrix(solver.x_update_prox(S, zmu, rho))
            A = rho * zmu - S
            try:
                np.linalg.cholesky(X)
                res = np.linalg.norm(rho * X - np.linalg.inv(X) - A)
                ok = res <= 1e-8 * (1 + np.linalg.norm(A)) * max(1.0, np.linalg.cond(X) * 1e-6)
            except np.linalg.LinAlgError:
                ok = False
            if not ok:
                ctx.violation("impl-violation", "X update is not the positive-definite solution of rho X - X^-1 = rho(Z-U) - S",
                              {"step": True, "NW": [n, 1]}, {"site": "x-update"})
            ctx.count("x_update_cases")

    # ---------------- outer loop: sweeps, first sweep never tested, returns the last X iterate
    if replay is None:
        lines, impl = [], []
        for _ in range(40 if ctx.quick() else 400):
            maxit = ctx.rng.randint(1, 8)
            stops = [ctx.rng.choice([0, 0, 1]) for _ in range(maxit)]
            sweeps = {"n": 0, "last_x": None}
            ox, oc = solver.admm_update_x, solver.check_convergence

            def ux(args, u, z, S, _o=ox):
                sweeps["n"] += 1
                sweeps["last_x"] = _o(args, u, z, S)
                return sweeps["last_x"]

            def cc(args, u, x, z, z_old, _o=oc):
                out = _o(args, u, x, z, z_old)
                return (bool(stops[sweeps["n"] - 1]),) + tuple(out[1:])
            rs = np.random.RandomState(ctx.rng.randrange(2 ** 31))
            S = np.atleast_2d(np.cov(rs.randn(8, 2).T))
            with tu.patched(solver, "admm_update_x", ux), tu.patched(solver, "check_convergence", cc):
                res = admm.admm_optimize_theta(S, 0.1, 1, 2, max_iterations=maxit)
            lines.append(f"admmloop {maxit} {show_list(stops)}")
            impl.append((maxit, stops, sweeps["n"], np.array_equal(np.asarray(res.theta), np.asarray(sweeps["last_x"]))))
        for (maxit, stops, n, same), mo in zip(impl, ctx.driver.run(lines)):
            case = {"step": True, "NW": [2, 1], "maxit": maxit, "stops": stops}
            if not same:
                ctx.violation("impl-violation", "the optimiser did not return the X iterate of its last sweep", case, {"site": "returns-last-x"})
            want = next((k + 1 for k in range(1, maxit) if stops[k]), maxit)
            if n != want:
                ctx.violation("impl-violation", f"{n} sweeps performed; the rule first holds after sweep {want} (first sweep is never tested)",
                              case, {"site": "sweep-count"})
            if int(mo.split(" ")[1]) != n:
                ctx.violation("correspondence-break", f"admmLoop (model) performs {mo.split(' ')[1]} sweeps, implementation {n}", case)
            ctx.case(("loop", maxit, tuple(stops)), nontrivial=maxit >= 2)
        ctx.count("outer_loop_scripts", len(impl))

    # ---------------- (b) entry point with KKT certificate
    if replay is not None:
        probs = [replay] if replay.get("problem") else []
    else:
        probs = [c for c in ctx.corpus if c.get("problem")]
        for i in range(36 if ctx.quick() else 500):
            N = ctx.rng.choice([1, 2, 2, 3, 4])
            W = ctx.rng.choice([1, 2, 3, 4]) if ctx.quick() else ctx.rng.choice([1, 2, 3, 5, 8])
            probs.append({"problem": True, "N": N, "W": W, "seed": ctx.rng.randrange(2 ** 31),
                          "rho": ctx.rng.choice([1, 1, 0.1, 0.5, 3.0, 10.0]), "rho_update": ctx.rng.random() < 0.25,
                          "unconditional": i % 3 == 0})
    if replay is None:
        # interaction grid: every lambda form x every kind of rho schedule (a schedule that ENDS at a rho different
        # from the initial one is what a stale rho-dependent precomputation would get wrong)
        for lk in ("scalar", "const-matrix", "matrix"):
            for sched in ("up", "down", "balance", "spike"):
                probs.append({"problem": True, "N": ctx.rng.choice([2, 3]), "W": ctx.rng.choice([2, 3]),
                              "seed": ctx.rng.randrange(2 ** 31), "rho": 1.0, "rho_update": True,
                              "unconditional": False, "grid_lambda": lk, "grid_sched": sched})
    if replay is None:
        # DEGENERATE covariances with every penalty form: the exactly-zero matrix (what a one-window cluster, or a cluster of
        # identical windows, hands the solver) and a one-hot matrix; a closed form "for the trivial case" has to honour the
        # block-Toeplitz tying like the iteration does
        for lk in ("scalar", "const-matrix", "matrix", "matrix"):
            for ck in ("zero", "one-hot"):
                probs.append({"problem": True, "N": ctx.rng.choice([1, 2, 2, 3]), "W": ctx.rng.choice([2, 3, 4]),
                              "seed": ctx.rng.randrange(2 ** 31), "rho": 1.0, "rho_update": False, "unconditional": False,
                              "degenerate_cov": ck, "degenerate_lambda": lk})
        # sizes beyond every small-integer boundary: N*W >= 256 makes the compressed vector longer than 2^15, the row
        # offsets exceed 2^15 and the position lists of a class are hundreds long (a narrow index or counter type, a
        # table sized for "ordinary" problems show here and nowhere below); rho = 1, spectrum in [0.25, 4]: must stop
        for (Nb, Wb) in ([ctx.rng.choice([(1, 256), (2, 128), (2, 130)])] if ctx.quick() else [(1, 256), (2, 128), (3, 90), (4, 70)]):
            probs.append({"problem": True, "N": Nb, "W": Wb, "seed": ctx.rng.randrange(2 ** 31), "rho": 1, "rho_update": False,
                          "unconditional": True, "big": True})
    max_iter_seen = 0
    for c in probs:
        r = pyrandom.Random(c["seed"])
        N, W = c["N"], c["W"]
        n = N * W
        if c.get("unconditional"):
            rs = np.random.RandomState(r.randrange(2 ** 31))
            Q, _ = np.linalg.qr(rs.randn(n, n))
            S = (Q * rs.uniform(0.25, 4.0, size=n)) @ Q.T
            S = (S + S.T) / 2
            lam_kind, lam = "scalar", float(r.choice([0.0, 0.01, 0.11, 0.5, 1.0]) if not c.get("big") else r.choice([0.11, 0.3]))
            if c.get("big"):
                ctx.count("problems_with_NW>=256")
            rho, cb = 1, None
            kind = "eig[0.25,4]"
        else:
            kind, S = gen_psd(r, n)
            lam_kind, lam = gen_lambda(r, n, N, W)
            rho = c["rho"]
            if c.get("degenerate_cov"):
                S = np.zeros((n, n))
                if c["degenerate_cov"] == "one-hot":
                    S[r.randrange(n), r.randrange(n)] = 0.0
                    j_ = r.randrange(n)
                    S[j_, j_] = 1.5
                kind = "degenerate:" + c["degenerate_cov"]
                rs_d = np.random.RandomState(c["seed"] % 2 ** 31)
                if c["degenerate_lambda"] == "scalar":
                    lam_kind, lam = "scalar", 0.3
                elif c["degenerate_lambda"] == "const-matrix":
                    lam_kind, lam = "const-matrix", np.full((n, n), 0.3)
                else:
                    Md = rs_d.uniform(0.2, 1.5, size=(n, n))
                    lam_kind, lam = "matrix", (Md + Md.T) / 2
                ctx.count("degenerate_covariance_problems")
            cb = (lambda rho_, rp, tp, rd, td: rho_ * 2 if rp > 10 * rd else (rho_ / 2 if rd > 10 * rp else rho_)) if c["rho_update"] else None
            if c.get("grid_lambda"):
                rs_g = np.random.RandomState(c["seed"] % 2 ** 31)
                Qg, _ = np.linalg.qr(rs_g.randn(n, n))
                S = (Qg * rs_g.uniform(0.25, 4.0, size=n)) @ Qg.T
                S = (S + S.T) / 2
                kind = "eig[0.25,4]"
                if c["grid_lambda"] == "scalar":
                    lam_kind, lam = "scalar", 0.3
                elif c["grid_lambda"] == "const-matrix":
                    lam_kind, lam = "const-matrix", np.full((n, n), 0.3)
                else:
                    Mg = rs_g.uniform(0.05, 0.8, size=(n, n))
                    lam_kind, lam = "matrix", (Mg + Mg.T) / 2
                calls_seen = {"n": 0}
                sched = c["grid_sched"]

                def cb(rho_, rp, tp, rd, td, _c=calls_seen, _s=sched):
                    _c["n"] += 1
                    if _s == "up":
                        return rho_ * 1.5 if _c["n"] <= 4 else rho_
                    if _s == "down":
                        return rho_ / 1.5 if _c["n"] <= 4 else rho_
                    if _s == "spike":
                        # a transient: a huge step parameter for exactly one sweep, restored on the next call (twice)
                        return {2: rho_ * 1e6, 3: rho_ / 1e6, 6: rho_ * 1e5, 7: rho_ / 1e5}.get(_c["n"], rho_)
                    if _c["n"] > 25:
                        return rho_
                    return rho_ * 2 if rp > 10 * rd else (rho_ / 2 if rd > 10 * rp else rho_)
                ctx.count(f"grid:{lam_kind}/{sched}")
        # a sequence of solves in one process: an array-valued lambda is UPDATED IN PLACE between solves
        # (same object, new contents), as a caller sweeping the penalty would do
        n_seq = 3 if (isinstance(lam, np.ndarray) and c.get("seed", 0) % 2 == 0) else 1
        for seq_i in range(n_seq):
            if seq_i > 0:
                lam *= (8.0 if seq_i == 1 else 0.03125)
                ctx.count("inplace_lambda_updates")
            calls = []
            orig = solver.check_convergence

            def cc(args, u, x, z, z_old):
                out = orig(args, u, x, z, z_old)
                calls.append((bool(out[0]), float(out[2]), float(out[4]), float(args.rho)))
                return out
            with tu.patched(solver, "check_convergence", cc), warnings.catch_warnings():
                warnings.simplefilter("ignore")
                res = admm.admm_optimize_theta(S.copy(), lam, W, N, rho=rho, rho_update=cb)
            iters = len(calls) + 1
            # "stops before exhausting its iteration budget": the rule fired at the last check, OR the solver returned
            # after fewer sweeps than its budget for whatever reason - the returned matrix is held to the same standard
            stopped = bool(calls and calls[-1][0]) or iters < 1000
            if iters < 1000 and not (calls and calls[-1][0]):
                ctx.count("returned_early_without_the_rule")
            if stopped:
                max_iter_seen = max(max_iter_seen, iters)
            ctx.count("stopped_by_rule" if stopped else "budget_exhausted")
            ctx.count("lambda:" + lam_kind)
            ctx.count("cov:" + kind)
            if c.get("unconditional") and not stopped:
                ctx.violation("impl-violation", f"rho=1, lambda={lam}, eig(S) in [0.25,4]: did not stop within the budget",
                              c, {"site": "unconditional-convergence"})
            if stopped:
                theta = mc.reinflate_matrix(res.theta)
                if calls:
                    tol_p, tol_d, rho_f = calls[-1][1], calls[-1][2], calls[-1][3]
                else:
                    # returned without ever consulting the stopping rule: held to the tolerances the rule would have used
                    # on the returned vector (absolute 1e-6, relative 1e-6, the code's 1e-4 slack)
                    xv_ = np.asarray(res.theta, dtype=float)
                    tol_p = tol_d = math.sqrt(xv_.size) * 1e-6 + 1e-4 + 1e-6 * float(np.linalg.norm(xv_))
                    rho_f = float(rho)
                bad = None
                if not np.array_equal(theta, theta.T) or not np.all(np.isfinite(theta)):
                    bad = "not symmetric / not finite"
                else:
                    try:
                        np.linalg.cholesky(theta)
                    except np.linalg.LinAlgError:
                        bad = "not positive definite"
                if bad is None:
                    G = np.linalg.inv(theta) - S
                    for (b, rr_, cc_) in classes(N, W):
                        pos = positions(b, rr_, cc_, N, W)
                        vals = np.array([theta[R, C] for (R, C) in pos])
                        if np.max(vals) - np.min(vals) > 4 * tol_p:
                            bad = f"not block-Toeplitz to within the stopping tolerance on class {(b, rr_, cc_)} (spread {np.max(vals) - np.min(vals):.2e})"
                            break
                        g = float(sum(G[R, C] for (R, C) in pos))
                        Lam = lambda_class_sum(lam, b, rr_, cc_, N, W)
                        zc = float(np.mean(vals))
                        # X-update stationarity gives X^-1 - S = rho (U' + Z - Z_old) exactly and the Z-update's
                        # optimality gives rho * sum_class U' in Lambda * d|z_class| exactly, so the class residual (with
                        # the sign pattern of Z, which X's class mean shares beyond 2 tol_p) is rho * sum_class (Z - Z_old):
                        # at most sqrt(r) times the DUAL tolerance - the step parameter does not enter
                        bound = 3 * math.sqrt(len(pos)) * tol_d + 1e-9 * (1 + abs(g))
                        if abs(zc) > 2 * tol_p:
                            resid = abs(g - Lam * math.copysign(1, zc))
                        else:
                            resid = max(0.0, abs(g) - Lam)
                        if resid > bound:
                            bad = (f"KKT certificate fails on class {(b, rr_, cc_)}: |sum(X^-1 - S) - Lambda sign(z)| = {resid:.3e} "
                                   f"> {bound:.3e} (z={zc:.3e}, Lambda={Lam:.3g})")
                            break
                if bad is None:
                    f0 = objective(theta, S, lam)
                    rs = np.random.RandomState(c["seed"] % 2 ** 31)
                    for _ in range(20):
                        D = np.zeros((n, n))
                        for (b, rr_, cc_) in classes(N, W):
                            v = rs.randn()
                            for (R, C) in positions(b, rr_, cc_, N, W):
                                D[R, C] = v
                                D[C, R] = v
                        D /= max(np.linalg.norm(D), 1e-12)
                        for t in (1e-2, 1e-1):
                            f1 = objective(theta + t * D, S, lam)
                            if f1 < f0 - t * (n * 3 * (tol_d + rho_f * tol_p) * 4) - 1e-9 * (1 + abs(f0)):
                                bad = f"a block-Toeplitz perturbation lowers the objective by {f0 - f1:.3e} (step {t})"
                                break
                        if bad:
                            break
                if bad:
                    ctx.violation("impl-violation", f"stopped run ({lam_kind} lambda, rho={rho}, cov {kind}, N={N}, W={W}): {bad}",
                                  c, {"site": "kkt"})
        lam_pos = (isinstance(lam, np.ndarray) or lam > 0)
        ctx.case(("problem", repr(sorted(c.items()))), nontrivial=n >= 2 and lam_pos,
                 sample={"N": N, "W": W, "lambda": lam_kind, "rho": rho, "cov": kind, "stopped": stopped, "iterations": iters}
                 if len(ctx.samples) < 6 else None)
    ctx.extra["max_iterations_seen_on_stopped_runs"] = max_iter_seen


def _whole_solve_replay(ctx):
    """complete real solves replayed in the composed solve model (AdmmSolve.solve): the X update's outputs and the
    norms of every convergence check are recorded; the model recomputes Z and U of every sweep at exact rationals,
    evaluates the stopping rule and runs the loop; the number of sweeps must be equal, the returned vector must be
    the last X, and the final Z and U must agree to rounding."""
    import math
    from fast_ticc import admm
    from fast_ticc.admm import solver
    lines, meta = [], []
    for rep in range(6 if ctx.quick() else 60):
        N, W = ctx.rng.choice([(1, 1), (1, 2), (2, 1), (2, 2), (1, 3), (3, 1), (2, 3)])
        n = N * W
        rs = np.random.RandomState(ctx.rng.randrange(2 ** 31))
        A = rs.randn(3 * n + 2, n)
        S = np.atleast_2d(np.cov(A.T))
        use_matrix = rep % 3 == 2
        if use_matrix:
            M = np.round(rs.uniform(0, 0.5, size=(n, n)) * 16) / 16
            lam = (M + M.T) / 2
            lam_s = "matrix " + show_list(lam.tolist(), lambda r: show_list(r, lambda v: frac_str(Fraction(v))), ";")
        else:
            lam = float(ctx.rng.choice([0.0, 0.125, 0.25, 0.5]))
            lam_s = f"scalar {frac_str(Fraction(lam))}"
        rho = float(ctx.rng.choice([0.5, 1.0, 2.0]))
        maxit = ctx.rng.choice([1, 2, 5, 40, 400])
        rec = {"x": [], "z": [], "u": [], "norms": []}
        ox, oz, ou, oc = solver.admm_update_x, solver.admm_update_z, solver.admm_update_u, solver.check_convergence

        def ux(args, u, z, S_, _o=ox):
            out = _o(args, u, z, S_)
            rec["x"].append(np.array(out, copy=True))
            return out

        def uz(args, u, x, _o=oz):
            out = _o(args, u, x)
            rec["z"].append(np.array(out, copy=True))
            return out

        def uu(u, x, z, _o=ou):
            out = _o(u, x, z)
            rec["u"].append(np.array(out, copy=True))
            return out

        def cc(args, u, x, z, z_old, _o=oc):
            nm = np.linalg.norm
            rec["norms"].append((len(rec["x"]) - 1, [float(nm(x)), float(nm(z)), float(nm(args.rho * u)),
                                                    float(nm(x - z)), float(nm(args.rho * (z - z_old)))]))
            return _o(args, u, x, z, z_old)
        with tu.patched(solver, "admm_update_x", ux), tu.patched(solver, "admm_update_z", uz), \
                tu.patched(solver, "admm_update_u", uu), tu.patched(solver, "check_convergence", cc):
            res = admm.admm_optimize_theta(S, lam, W, N, rho=rho, max_iterations=maxit)
        sweeps = len(rec["x"])
        if sweeps > 120:
            continue                      # keep the exact replay small
        norms = [[0.0] * 5 for _ in range(sweeps)]
        for (i, v) in rec["norms"]:
            norms[i] = v
        fr = lambda v: frac_str(Fraction(float(v)))
        m = n * (n + 1) // 2
        lines.append(f"replaysolve {frac_str(Fraction(rho))} {lam_s} {N} {W} {maxit} {fr(math.sqrt(m))} 1/1000000 1/1000000 "
                     + show_list(rec["x"], lambda v: show_list(v.tolist(), fr), ";") + " "
                     + show_list(norms, lambda v: show_list(v, fr), ";"))
        meta.append(({"solve": True, "N": N, "W": W, "rho": rho, "lam": "matrix" if use_matrix else lam, "maxit": maxit},
                     sweeps, np.asarray(res.theta, dtype=float), rec))
    for (case, sweeps, theta, rec), mo in zip(meta, ctx.driver.run(lines)):
        parts = mo.split(" ")
        if len(parts) != 4:
            ctx.violation("correspondence-break", f"whole-solve model rejected the replay ({mo[:60]})", case)
            continue
        msweeps = int(parts[0])
        P = lambda t: np.array([float(Fraction(v)) for v in (t.split(",") if t != "-" else [])])
        mx, mz, mu = P(parts[1]), P(parts[2]), P(parts[3])
        bad = []
        if msweeps != sweeps:
            bad.append(f"sweeps {msweeps} (model) vs {sweeps}")
        if not np.array_equal(theta, rec["x"][-1]):
            ctx.violation("impl-violation", "the optimiser did not return the X iterate of its last sweep", case, {"site": "returns-last-x"})
        if msweeps == sweeps:
            sc = 1.0 + float(np.max(np.abs(rec["x"][-1])))
            if mx.shape != theta.shape or np.max(np.abs(mx - theta)) > 0:
                bad.append("returned X")
            if mz.shape != rec["z"][-1].shape or np.max(np.abs(mz - rec["z"][-1])) > 1e-9 * sc:
                bad.append("final Z")
            if mu.shape != rec["u"][-1].shape or np.max(np.abs(mu - rec["u"][-1])) > 1e-9 * sc * max(1, sweeps):
                bad.append("final U")
        if bad:
            ctx.violation("correspondence-break", "whole-solve model (AdmmSolve.solve) and the real solver disagree on: " + "; ".join(bad), case)
        ctx.count("whole_solve_replay:" + ("break" if bad else "equal"))
        ctx.case(("solve", repr(sorted(case.items()))), nontrivial=sweeps >= 2)


def _verbose_and_copies(ctx):
    """glue around the solver: verbose logging must not change the result; argument bundles copy field by field."""
    import logging
    from fast_ticc import admm
    from fast_ticc.containers import arguments
    rs = np.random.RandomState(ctx.seed + 202)
    for rep in range(3):
        N, W = [(1, 2), (2, 2), (2, 3)][rep]
        n = N * W
        A = rs.randn(3 * n, n)
        S = np.cov(A.T).reshape(n, n)
        quiet_ = admm.admm_optimize_theta(S, 0.25, W, N, max_iterations=200, verbose=False)
        lg = logging.getLogger("fast_ticc")
        old = lg.level
        lg.setLevel(logging.CRITICAL)
        try:
            loud = admm.admm_optimize_theta(S, 0.25, W, N, max_iterations=200, verbose=True)
        finally:
            lg.setLevel(old)
        if np.asarray(quiet_.theta).tobytes() != np.asarray(loud.theta).tobytes():
            ctx.violation("impl-violation", "verbose=True changes the optimiser's result", {"N": N, "W": W}, {"site": "verbose"})
        ctx.count("verbose_vs_quiet_solves")
        # the same with a budget the solve EXHAUSTS (the return after the last sweep, past the per-sweep diagnostics,
        # instead of the return after the stopping rule) and with a listener that formats every DEBUG record
        for budget in (1, 2, 7):
            q2 = admm.admm_optimize_theta(S, 0.25, W, N, max_iterations=budget, verbose=False)
            with tu.debug_logging():
                l2 = admm.admm_optimize_theta(S, 0.25, W, N, max_iterations=budget, verbose=True)
            if np.asarray(q2.theta).tobytes() != np.asarray(l2.theta).tobytes():
                ctx.violation("impl-violation", f"verbose=True changes the result of a solve that exhausts its budget of {budget} sweeps",
                              {"N": N, "W": W, "budget": budget}, {"site": "verbose"})
            ctx.count("verbose_vs_quiet_budget_exhausted_solves")
    a = arguments.ADMMArguments(window_size=3, num_data_series=2, rho=1.5, rho_update=None, sparsity_weight=0.25,
                                absolute_tolerance=1e-6, relative_tolerance=1e-5, max_iterations=77, verbose=False)
    for cp in (a.shallow_copy(), a.deep_copy()):
        same = all(getattr(cp, f) == getattr(a, f) for f in ("window_size", "num_data_series", "rho", "sparsity_weight",
                                                              "absolute_tolerance", "relative_tolerance", "max_iterations", "verbose"))
        if cp is a or not same:
            ctx.violation("impl-violation", "a copy of the solver's argument bundle does not carry the same fields", {}, {"site": "admm-args-copy"})
        cp.rho = 9.0
        if a.rho != 1.5:
            ctx.violation("impl-violation", "writing rho on a copy of the solver's argument bundle changed the original", {}, {"site": "admm-args-copy"})
    ctx.case(("verbose-and-copies",), nontrivial=True)

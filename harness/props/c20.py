"""C20 — failures surface as exceptions, never as a partial result."""
import gc
import json
import multiprocessing
import os
import signal
import subprocess
import sys
import time
import warnings

import numpy as np

import common
import ticc_util as tu
from common import show_list

LEVEL = "other"
LEAN_PROPS = ["FastTicc.Props.C20", "FastTicc.Props.Compose", "FastTicc.Props.C09"]
LEAN_HELPERS = ["FastTicc.Proofs.MainLoop", "FastTicc.Proofs.Compose"]
RULE = ("fault enumeration: the optimisation task of EVERY (round, cluster) of a 3-cluster run is made to fail in turn, with "
        "the default single-worker pool and with a 4-worker pool (CUPCAKE_ENABLE_MULTIPROCESSING), plus two failing tasks "
        "in one round, a fault in each phase function, the no-donor error and both wrong-front-end calls; after each "
        "failure: exception type/message, wall-clock bound, live child processes (garbage collector disabled), and a "
        "following clean call compared bitwise with the same call in a fresh process; non-trivial = fault reached; "
        "distinct by (pool mode, fault point)")
EXPLANATION = ("Theorems (Lean): round_error_iff, fault_surfaces, run_error_from_a_round, no_partial_result (a failing "
               "phase/round is never swallowed and no result is produced), gather_error_first / gather_ok_iff (the first "
               "failure in cluster order is raised), pool_never_left_open (repaired pool handling ends joined on every "
               "path), pool_leak_pinned (the pinned handling does not), wrong_front_end_is_type_error. Explored, not "
               "proved: process clean-up by multiprocessing itself, absence of hangs, and that a later call is unaffected "
               "— observed for every injection point. The control-flow model is tied to the code by comparing, for every "
               "fault point, the model's outcome (which error, or success when the fault is never reached) with the real run.")
ASSUMPTIONS = ["AsyncResult.get re-raises the worker's exception; a worker that dies (signal, os._exit) is outside the claim",
               "fork start method; the failing wrapper is inherited by the workers"]

FRESH = r'''
import sys, json, os
os.environ["NUMBA_DISABLE_JIT"] = "1"
sys.path.insert(0, sys.argv[1]); sys.path.insert(0, os.path.join(sys.argv[2], "src"))
import common
common.REPO = sys.argv[2]
import ticc_util as tu, fast_ticc, hashlib
cfg = json.loads(sys.argv[3])
series = tu.config_data(cfg)
tu.seed_all(cfg["seed"])
with tu.quiet():
    r = fast_ticc.ticc_labels(series[0], **tu.config_kwargs(cfg))
f = tu.result_fields(r)
print(hashlib.sha1(repr(sorted((k, repr(v)) for k, v in f.items())).encode()).hexdigest())
'''


def digest(res):
    import hashlib
    f = tu.result_fields(res)
    return hashlib.sha1(repr(sorted((k, repr(v)) for k, v in f.items())).encode()).hexdigest()


class Watchdog:
    """A hang cannot be interrupted reliably from inside (the stuck call may sit in pool clean-up), so a
    timer thread reports the violation and ends the process."""

    def __init__(self, seconds, on_hang):
        import threading
        self.timer = threading.Timer(seconds, on_hang)
        self.timer.daemon = True

    def __enter__(self):
        self.timer.start()

    def __exit__(self, *a):
        self.timer.cancel()
        return False


def reap_abandoned_pools():
    """shut abandoned pools down through their own terminate() (killing workers directly can
    deadlock the pool's handler threads)."""
    import multiprocessing.pool
    for obj in gc.get_objects():
        try:
            if isinstance(obj, multiprocessing.pool.Pool):
                obj.terminate()
                obj.join()
        except Exception:
            pass
    for c in multiprocessing.active_children():
        c.join(2)


PROTOCOL_EXCEPTIONS = ["StopIteration", "StopAsyncIteration", "AttributeError", "KeyError", "IndexError", "LookupError", "TypeError",
                       "TimeoutError", "multiprocessing.TimeoutError", "EOFError", "BrokenPipeError", "OSError", "AssertionError",
                       "NotImplementedError", "MemoryError", "RecursionError", "BufferError"]


def run(ctx):
    common.setup_repo_import()
    import fast_ticc
    from fast_ticc import admm, cluster_maintenance as cm, graphical_lasso as gl, cluster_label_assignment as cla

    import random as pyrandom
    r0 = pyrandom.Random(ctx.seed + 20)
    K, limit = 3, 3
    cfg = {"joint": False, "N": 2, "W": 2, "K": K, "lens": [120], "beta": 5.0, "lam": 0.11, "m": 3, "limit": limit,
           "biased": False, "eps": 0, "seed": r0.randrange(2 ** 31), "data_seed": r0.randrange(2 ** 31), "scale": 1.0,
           "regimes": 3}
    if ctx.replay is not None and "cfg" in ctx.replay:
        cfg = ctx.replay["cfg"]
    series = tu.config_data(cfg)
    kw = tu.config_kwargs(cfg)

    def call(num_processors=1, eps=None):
        tu.seed_all(cfg["seed"])
        k2 = dict(kw)
        k2["num_processors"] = num_processors
        if eps is not None:
            k2["min_meaningful_covariance"] = eps
        with tu.quiet(), warnings.catch_warnings():
            warnings.simplefilter("ignore")
            return fast_ticc.ticc_labels(series[0], **k2)

    # reference: clean call here (real pool) and in a fresh process
    with tu.Trace(capture_kernel=False, wrap_admm=False) as tr:
        ref = call()
    ref_digest = digest(ref)
    rounds_clean = len(tr.rounds())
    labs = [[int(x) for x in evs[-1]["out"].point_labels] for evs in tr.rounds()]
    ids, script = {}, []
    for l in labs:
        script.append(ids.setdefault(tuple(l), len(ids) + 1))
    p = subprocess.run([sys.executable, "-c", FRESH, common.HERE, common.REPO, json.dumps(cfg)],
                       capture_output=True, text=True, timeout=300)
    fresh_digest = p.stdout.strip().splitlines()[-1] if p.returncode == 0 and p.stdout.strip() else None
    if fresh_digest is None:
        raise RuntimeError("fresh-process reference failed: " + p.stderr[-400:])
    if fresh_digest != ref_digest:
        ctx.violation("impl-violation", "a clean call differs from the same call in a fresh process", {"cfg": cfg}, {"site": "fresh-process"})
    ctx.extra["clean_rounds"] = rounds_clean

    # fault plan
    plans = []
    if ctx.replay is not None and "plan" in ctx.replay:
        plans = [ctx.replay["plan"]]
    else:
        for mp in (False, True):
            for idx in range(limit * K):
                plans.append({"kind": "task", "mp": mp, "fail": [idx]})
            plans.append({"kind": "task", "mp": mp, "fail": [1, 2]})
            plans.append({"kind": "task", "mp": mp, "fail": [K + 0, K + 2]})
        # the error NumPy's own linear algebra raises (eigh / inv: LinAlgError), with and without a covariance floor
        # requested (the documented hyper-parameter min_meaningful_covariance): first round, every cluster
        for idx in range(K):
            plans.append({"kind": "task", "mp": False, "fail": [idx], "exc": "LinAlgError", "eps": [1e-6, 0.05, None][idx % 3]})
        plans.append({"kind": "task", "mp": True, "fail": [1], "exc": "LinAlgError", "eps": 1e-3})
        # error classes that Python's own control constructs give a meaning to (iteration protocol, attribute and key
        # look-ups with defaults, sequence iteration, pool time-outs and pipe errors, resource exhaustion): a solver task
        # failing with one of them, in the first round and in a later one, must surface like any other failure
        for j, nm in enumerate(PROTOCOL_EXCEPTIONS):
            plans.append({"kind": "task", "mp": False, "fail": [K + (j % K) if j % 2 == 0 else (j % K)], "exc": nm})
        plans.append({"kind": "task", "mp": True, "fail": [K + 1], "exc": "StopIteration"})
        for ph in ("repop", "stats", "opt-phase", "relabel"):
            for rnd in ((0, 1) if ph != "repop" else (1, 2)):
                plans.append({"kind": "phase", "mp": False, "phase": ph, "round": rnd})
        plans += [{"kind": "no-donor", "mp": False}, {"kind": "no-donor-late", "mp": False},
                  {"kind": "wrong-single", "mp": False}, {"kind": "wrong-joint", "mp": False}]
        if not ctx.quick():
            plans += [dict(p, mp=True) for p in plans if p["kind"] == "phase"]

    model_lines, model_meta = [], []
    for plan in plans:
        mpflag = plan.get("mp", False)
        old_env = os.environ.pop("CUPCAKE_ENABLE_MULTIPROCESSING", None)
        if mpflag:
            os.environ["CUPCAKE_ENABLE_MULTIPROCESSING"] = "1"
        patches = []
        expected_reached = True
        expect_exc = None
        if plan["kind"] == "task":
            counter = multiprocessing.Value("i", 0)
            fail = set(plan["fail"])
            orig = admm.admm_optimize_theta

            # the injected error's type varies: an error that happens to be an IndexError / AttributeError /
            # KeyError must surface as itself, not be re-interpreted by a front end
            exc_types = [FloatingPointError, IndexError, AttributeError, ValueError, KeyError, ZeroDivisionError]
            exc_type = exc_types[(min(fail) + (3 if mpflag else 0)) % len(exc_types)]
            if plan.get("exc") == "LinAlgError":
                exc_type = np.linalg.LinAlgError
            elif plan.get("exc"):
                import builtins
                exc_type = multiprocessing.TimeoutError if plan["exc"] == "multiprocessing.TimeoutError" else getattr(builtins, plan["exc"])
                ctx.count("task_fault_class:" + plan["exc"])

            def failing(*a, _exc=exc_type, **k):
                with counter.get_lock():
                    i = counter.value
                    counter.value += 1
                if i in fail:
                    raise _exc(f"injected fault in task {i}")
                return orig(*a, **k)
            failing.__module__ = "fast_ticc.admm"
            failing.__qualname__ = "admm_optimize_theta"
            failing.__name__ = "admm_optimize_theta"
            patches.append(tu.patched(admm, "admm_optimize_theta", failing))
            first = min(fail)
            expected_reached = (first // K) < rounds_clean
            expect_exc = (exc_type.__name__, f"task {first}" if not mpflag else "injected fault in task")
            model_lines.append(f"mainloop {limit} 0 {show_list(script)} {first // K} opt")
            model_meta.append(plan)
        elif plan["kind"] == "phase":
            target = {"repop": (cm, "repopulate_empty_clusters"), "stats": (cm, "update_all_cluster_statistics"),
                      "opt-phase": (gl, "optimize_markov_random_fields"), "relabel": (cla, "predict_cluster_labels")}[plan["phase"]]
            state = {"n": 0}
            phase_exc = [ArithmeticError, IndexError, AttributeError, LookupError][(plan["round"] + len(plan["phase"])) % 4]
            orig = getattr(*target)
            first_round = 1 if plan["phase"] == "repop" else 0

            def phase_fail(*a, _o=orig, **k):
                rnd = state["n"] + first_round
                state["n"] += 1
                if rnd == plan["round"]:
                    raise phase_exc(f"injected fault in phase {plan['phase']} of round {rnd}")
                return _o(*a, **k)
            patches.append(tu.patched(target[0], target[1], phase_fail))
            expected_reached = plan["round"] < rounds_clean
            expect_exc = (phase_exc.__name__, f"round {plan['round']}")
            model_lines.append(f"mainloop {limit} 0 {show_list(script)} {plan['round']} {plan['phase'].replace('-phase', '')}")
            model_meta.append(plan)
        # run under watchdog with the collector off
        gc.collect()
        gc.disable()
        t0 = time.time()
        res = err = None
        kids = []
        try:
            import contextlib
            def on_hang(_plan=plan):
                ctx.violation("impl-violation", "call did not return within 90 s after an injected failure (hang)",
                              {"cfg": cfg, "plan": {k: v for k, v in _plan.items() if not k.startswith("_")}}, {"site": "hang"})
                ctx.case((_plan["kind"], _plan.get("mp"), "hang"), nontrivial=True)
                ctx.extra["aborted_after_hang"] = True
                sys.stdout = sys.__stdout__        # the stuck call runs under a stdout redirection
                try:
                    common.finish(ctx)
                    sys.stdout.flush()
                except BaseException:
                    import traceback
                    traceback.print_exc()
                    print(f"VIOLATION property={ctx.prop} replay=replays/unwritten no-failing-input-found", flush=True)
                finally:
                    for c in multiprocessing.active_children():
                        try:
                            c.kill()
                        except Exception:
                            pass
                    os._exit(1)
            with contextlib.ExitStack() as st, Watchdog(90, on_hang):
                for pch in patches:
                    st.enter_context(pch)
                try:
                    if plan["kind"] == "no-donor":
                        expect_exc = ("RuntimeError", "donor")
                        k2 = dict(kw)
                        k2["min_cluster_size"] = 10 ** 6
                        orig_p = cla.predict_cluster_labels

                        def starve(model, data, _o=orig_p):
                            out = _o(model, data)
                            lab = [int(x) for x in out.point_labels]
                            other = next((x for x in lab if x != lab[0]), (lab[0] + 1) % K)
                            out.point_labels = [other if x == lab[0] else x for x in lab]
                            return out
                        st.enter_context(tu.patched(cla, "predict_cluster_labels", starve))
                        tu.seed_all(cfg["seed"])
                        with tu.quiet(), warnings.catch_warnings():
                            warnings.simplefilter("ignore")
                            res = fast_ticc.ticc_labels(series[0], **k2)
                        expect_exc = ("RuntimeError", "donor")
                    elif plan["kind"] == "no-donor-late":
                        expect_exc = ("RuntimeError", "donor")
                        # all points collapse into one cluster; with 3m <= T' < 4m that donor can serve two of the
                        # three empty clusters, so the THIRD refill of the round must raise the donor-shortage error
                        k2 = dict(kw)
                        k2["num_clusters"] = 4
                        npts = series[0].shape[0] - cfg["W"] + 1
                        k2["min_cluster_size"] = npts // 3 - 1 if 3 * (npts // 3 - 1) <= npts < 4 * (npts // 3 - 1) else npts // 4 + 1
                        k2["iteration_limit"] = 3
                        orig_p = cla.predict_cluster_labels

                        def collapse(model, data, _o=orig_p):
                            out = _o(model, data)
                            out.point_labels = [2] * len(out.point_labels)
                            return out
                        st.enter_context(tu.patched(cla, "predict_cluster_labels", collapse))
                        tu.seed_all(cfg["seed"])
                        with tu.quiet(), warnings.catch_warnings():
                            warnings.simplefilter("ignore")
                            res = fast_ticc.ticc_labels(series[0], **k2)
                        expect_exc = ("RuntimeError", "donor")
                    elif plan["kind"] == "wrong-single":
                        expect_exc = ("TypeError", "ticc_joint_labels")
                        with tu.quiet():
                            res = fast_ticc.ticc_labels([series[0], series[0]], **kw)
                        expect_exc = ("TypeError", "ticc_joint_labels")
                    elif plan["kind"] == "wrong-joint":
                        expect_exc = ("TypeError", "ticc_labels")
                        with tu.quiet():
                            res = fast_ticc.ticc_joint_labels(series[0], **kw)
                        expect_exc = ("TypeError", "ticc_labels")
                    else:
                        res = call(4 if mpflag else 1, eps=plan.get("eps"))
                except Exception as e:
                    err = e
            kids = multiprocessing.active_children()
        finally:
            gc.enable()
            os.environ.pop("CUPCAKE_ENABLE_MULTIPROCESSING", None)
            if old_env is not None:
                os.environ["CUPCAKE_ENABLE_MULTIPROCESSING"] = old_env
        wall = time.time() - t0
        payload = {"cfg": cfg, "plan": plan}
        plan["_outcome"] = "raised" if err is not None else "returned"
        if expected_reached:
            if err is None:
                ctx.violation("impl-violation", "a failing task/phase did not surface: the call returned a result",
                              payload, {"site": "fault-swallowed"})
            elif expect_exc and (type(err).__name__ != expect_exc[0] or expect_exc[1] not in str(err)):
                ctx.violation("impl-violation", f"expected {expect_exc[0]} mentioning '{expect_exc[1]}', got {type(err).__name__}: {err}",
                              payload, {"site": "wrong-exception"})
        else:
            if err is not None:
                ctx.violation("impl-violation", f"fault point is never reached in this run, yet the call raised {type(err).__name__}: {err}",
                              payload, {"site": "spurious-exception"})
            elif digest(res) != ref_digest:
                ctx.violation("impl-violation", "unreached fault changed the result", payload, {"site": "spurious-change"})
        if kids:
            ctx.violation("impl-violation", f"{len(kids)} worker process(es) still alive after the call "
                          f"{'raised' if err is not None else 'returned'} (garbage collector disabled)", payload, {"site": "pool-leak"})
            reap_abandoned_pools()
        # the next clean call behaves as if the failed call had not happened
        nxt = call()
        if digest(nxt) != fresh_digest:
            ctx.violation("impl-violation", "the call following a failed call differs from the same call in a fresh process",
                          payload, {"site": "next-call"})
        if multiprocessing.active_children():
            ctx.violation("impl-violation", "worker processes left after a clean call", payload, {"site": "pool-leak"})
        ctx.count("pool:4-workers" if mpflag else "pool:default")
        ctx.count("kind:" + plan["kind"])
        ctx.count("fault_reached" if expected_reached else "fault_not_reached")
        ctx.case((plan["kind"], mpflag, repr(sorted((k, repr(v)) for k, v in plan.items() if not k.startswith("_")))),
                 nontrivial=expected_reached,
                 sample={"plan": {k: v for k, v in plan.items() if not k.startswith("_")}, "outcome": plan["_outcome"],
                         "exception": None if err is None else f"{type(err).__name__}: {str(err)[:60]}", "wall_s": round(wall, 2),
                         "live_children": len(kids)} if len(ctx.samples) < 6 else None)

    # ---------------- model vs implementation on every fault point
    for plan, mo in zip(model_meta, ctx.driver.run(model_lines)):
        if "_outcome" not in plan:
            continue
        m_raised = mo.startswith("err")
        if m_raised != (plan["_outcome"] == "raised"):
            ctx.violation("correspondence-break", f"fault model predicts {'error' if m_raised else 'success'}, implementation {plan['_outcome']}",
                          {"cfg": cfg, "plan": {k: v for k, v in plan.items() if not k.startswith('_')}, "model": mo})
        if m_raised and "terminatedJoined" not in mo.split(" ")[2]:
            ctx.violation("correspondence-break", "repaired pool model does not end joined", {"model": mo})
    # gather order: first failure in cluster order
    outs = ctx.driver.run(["gather v1,e7,e9", "gather v1,v2,v3", "gather e4,v1"])
    if outs != ["err 7", "ok 1,2,3", "err 4"]:
        ctx.violation("correspondence-break", "gather model sanity", {"model": outs})

    # ---------------- failing calls UNDER LOAD (separate process, its own watchdog): every solver task of the call raises
    # (or the first raises and the others deliver large results) while busy processes compete for the CPUs, many times
    # over; a clean-up that kills workers while results are still being delivered can dead-lock the pool (the
    # call never returns), and one that abandons the pool leaves workers behind
    if ctx.replay is None or ctx.replay.get("pool_stress"):
        import subprocess as _sp
        import sys as _sys
        plans = [("1", 200), ("mp4", 200), ("big1", 40), ("bigmp4", 40)] if ctx.quick() else \
                [("1", 1500), ("mp4", 1500), ("big1", 300), ("bigmp4", 300)]
        if ctx.replay is not None:
            plans = [tuple(ctx.replay["pool_stress"])]
        for mode, calls in plans:
            env = dict(os.environ, REPO=common.REPO)
            try:
                pr = _sp.run([_sys.executable, os.path.join(common.HERE, "pool_stress.py"), str(calls), "24", "60", mode],
                             capture_output=True, text=True, env=env, timeout=1500)
                line = (pr.stdout.strip().splitlines() or ["?"])[-1]
            except _sp.TimeoutExpired:
                line = "HANG ?"
            ctx.count(f"stress:{mode}:{line.split(' ')[0]}")
            what = None
            if line.startswith("HANG"):
                what = f"a failing call did not return within 60 s under CPU load (mode {mode}, after {line.split(' ')[1]} failing calls)"
            elif line.startswith("LEFTOVER"):
                what = f"worker processes alive when the exception reached the caller (mode {mode}: {line})"
            elif line.startswith("RETURNED"):
                what = f"a call whose solver tasks fail returned a result (mode {mode}: {line})"
            elif not line.startswith("ok"):
                ctx.notes.append(f"pool stress ({mode}) did not run: {line[:200]} {pr.stderr[-300:] if 'pr' in dir() else ''}")
            if what:
                ctx.violation("impl-violation", what, {"pool_stress": [mode, calls]}, {"site": "hang" if line.startswith("HANG") else "stress"})
            ctx.case(("stress", mode, calls), nontrivial=True)

    # ---------------- wrong-kind calls AFTER legal calls on the same underlying data (the halves of one recording fitted
    # separately, concatenated, and jointly - then handed to the wrong front end): what earlier calls left behind in
    # the process (caches keyed by content, remembered shapes) must not make the wrong call succeed
    if ctx.replay is None:
        half = (series[0].shape[0] // 2)
        a_, b_ = np.array(series[0][:half], copy=True), np.array(series[0][half:2 * half], copy=True)
        kq = dict(kw, iteration_limit=2)

        def quiet_call(fn, arg):
            tu.seed_all(cfg["seed"])
            with tu.quiet(), warnings.catch_warnings():
                warnings.simplefilter("ignore")
                return fn(arg, **kq)
        for fn, arg in ((fast_ticc.ticc_labels, a_), (fast_ticc.ticc_labels, np.vstack([a_, b_])),
                        (fast_ticc.ticc_joint_labels, [a_, b_]), (fast_ticc.ticc_labels, b_)):
            try:
                quiet_call(fn, arg)
                ctx.count("priming_calls")
            except Exception as e:            # a legal call that raises is not this scenario's business
                ctx.count("priming_calls_raised:" + type(e).__name__)
        for what, fn, arg, other in (("ticc_labels given a list of series", fast_ticc.ticc_labels, [a_, b_], "ticc_joint_labels"),
                                     ("ticc_labels given a tuple of series", fast_ticc.ticc_labels, (a_, b_), "ticc_joint_labels"),
                                     ("ticc_joint_labels given one 2-d array", fast_ticc.ticc_joint_labels, np.vstack([a_, b_]), "ticc_labels"),
                                     ("ticc_joint_labels given one 2-d array", fast_ticc.ticc_joint_labels, a_, "ticc_labels")):
            try:
                quiet_call(fn, arg)
                ctx.violation("impl-violation", f"{what}, after legal calls on the same data: returned a result instead of raising",
                              {"cfg": cfg, "scenario": "wrong-kind-after-legal"}, {"site": "fault-swallowed"})
            except TypeError as e:
                if other not in str(e):
                    ctx.violation("impl-violation", f"{what}: TypeError does not name {other}: {e}", {"cfg": cfg}, {"site": "wrong-exception"})
            except Exception as e:
                ctx.violation("impl-violation", f"{what}, after legal calls on the same data: expected TypeError naming {other}, got "
                              f"{type(e).__name__}: {str(e)[:120]}", {"cfg": cfg, "scenario": "wrong-kind-after-legal"}, {"site": "wrong-exception"})
            ctx.count("wrong_kind_after_legal")
        ctx.case(("wrong-kind-after-legal",), nontrivial=True)

    # ---------------- the wrong front end over the SHAPES of the wrong argument: lists and tuples of k equally shaped series for
    # every k around the window size (k = W - 1, W, W + 1: where a 3-d coercion of the list would stack to zero / one / few
    # windows), ragged lists, a list of one; and a 2-d array of every orientation for the joint front end
    if ctx.replay is None:
        r_w = pyrandom.Random(ctx.seed + 2020)
        base_arr = np.array(series[0][:max(12, min(40, series[0].shape[0]))], copy=True)
        for W_ in ((2, 3, 4) if ctx.quick() else (2, 3, 4, 5, 7, 10)):
            for k_ in sorted({1, 2, W_ - 1, W_, W_ + 1} - {0}):
                for mk in (list, tuple):
                    arg = mk(np.array(base_arr, copy=True) for _ in range(k_))
                    kq2 = dict(kw, window_size=W_, iteration_limit=2)
                    try:
                        tu.seed_all(cfg["seed"])
                        with tu.quiet(), warnings.catch_warnings():
                            warnings.simplefilter("ignore")
                            fast_ticc.ticc_labels(arg, **kq2)
                        ctx.violation("impl-violation", f"ticc_labels given a {mk.__name__} of {k_} equally shaped series (window {W_}) "
                                      "returned a result instead of raising", {"cfg": cfg, "scenario": "wrong-shapes", "k": k_, "W": W_},
                                      {"site": "fault-swallowed"})
                    except TypeError as e:
                        if "ticc_joint_labels" not in str(e):
                            ctx.violation("impl-violation", f"ticc_labels given a {mk.__name__} of {k_} series: TypeError does not name "
                                          f"ticc_joint_labels: {e}", {"cfg": cfg, "k": k_, "W": W_}, {"site": "wrong-exception"})
                    except Exception as e:
                        ctx.violation("impl-violation", f"ticc_labels given a {mk.__name__} of {k_} equally shaped series (window {W_}): expected "
                                      f"TypeError naming ticc_joint_labels, got {type(e).__name__}: {str(e)[:120]}",
                                      {"cfg": cfg, "scenario": "wrong-shapes", "k": k_, "W": W_}, {"site": "wrong-exception"})
                    ctx.count("wrong_front_end_shapes")
        ctx.case(("wrong-front-end-shapes",), nontrivial=True)

    # ---------------- documented argument errors of the helpers: each surfaces as the exception the code names, none
    # returns a value (these are the error branches the runs above never enter)
    if ctx.replay is None:
        from fast_ticc import matrix_compression as mc
        from fast_ticc.admm import solver, unique_values as uv
        probes = [
            ("sparsity weight of an unsupported type", ValueError,
             lambda: solver.compute_lambda_sum("0.1", 0, 0, 0, 2, 2)),
            ("compressing a non-square matrix", RuntimeError, lambda: mc.compress_matrix(np.zeros((2, 3)))),
            # (with a window size <= 0 every block id is out of range, so the IndexError branch comes first; the
            # ValueError branch for the window size is unreachable — either exception is a surfaced failure)
            ("window size 0 in the class-location helper", (IndexError, ValueError), lambda: uv.locations_index_slices(0, 0, 0, 2, 0)),
            ("sensor count 0 in the class-location helper", ValueError, lambda: uv.locations_index_slices(0, 0, 0, 0, 3)),
            ("block id beyond the window", IndexError, lambda: uv.locations_index_slices(5, 0, 0, 2, 3)),
        ]
        for what, exc, fn in probes:
            try:
                out = fn()
                ctx.violation("impl-violation", f"{what}: returned {type(out).__name__} instead of raising {getattr(exc, '__name__', exc)}",
                              {"probe": what}, {"site": "argument-error"})
            except exc:
                ctx.count("argument_errors_surfaced")
            except (TypeError, AttributeError) as e:
                # a refactoring may have changed a private signature: not a finding, note it
                ctx.notes.append(f"argument-error probe '{what}' not applicable: {type(e).__name__}")
            except Exception as e:
                ctx.violation("impl-violation", f"{what}: raised {type(e).__name__} ({str(e)[:60]}) instead of {getattr(exc, '__name__', exc)}",
                              {"probe": what}, {"site": "argument-error"})
            ctx.case(("probe", what), nontrivial=True)

"""C16 — the Bayesian information criterion matches its definition."""
import math
import types
import warnings
from fractions import Fraction

import random as pyrandom

import numpy as np

import common
import oracles
import replay_run
import ticc_util as tu
from common import show_list, frac_str

LEVEL = "other"
LEAN_PROPS = ["FastTicc.Props.C16", "FastTicc.Props.C05", "FastTicc.Props.Final", "FastTicc.Props.OptPhase"]
LEAN_HELPERS = ["FastTicc.Proofs.Result", "FastTicc.Proofs.Final"]
LEAN_TRANSLATED = {"FastTicc.Props.TrBic": ["bayesian_information_criterion"]}
RULE = ("(a) synthetic models: label patterns (one run, many runs, returning labels, unused clusters, joint sequences) "
        "x MRFs with entries around the 2e-5 threshold, and a scale sweep of determinants far outside the double range; "
        "(b) completed runs: value recomputed from the final model state; non-trivial = >=2 runs of labels; distinct by input")
EXPLANATION = ("Theorems (Lean): the parameter count equals the sum over maximal runs of equal labels of that cluster's "
               "count of entries with |x| > 2e-5 (runsParams_eq_sum_over_maximal_runs, runs_single, runs_counted_per_run, "
               "runs_unused_cluster_ignored, nnz_row/nnz_append), the value is P ln T - 2 sum(ln det - tr) (bic_eq), and "
               "ln det = sum of log pivots (C05 log_prod_eq_sum_log). Explored, not proved: floating-point evaluation of "
               "log / slogdet / trace and the finiteness clause at extreme scales (scale sweep NW up to 150, "
               "log-determinants to +-3000). The model is tied to the code by exact comparison of the parameter count and "
               "1e-9-relative comparison of the value on every input.")
ASSUMPTIONS = ["np.linalg.slogdet / np.log accurate to rounding", "threshold 2e-5 re-extracted from the source AST on every run"]


def fake_model(labels, thetas, covs, eps=0, beta=1.0):
    """a real ModelState (real argument bundle and cluster containers) carrying the given MRFs / covariances."""
    from fast_ticc.containers import arguments, model_state
    n = thetas[0].shape[0]
    args = arguments.UserArguments(sparsity_weight=0.11, iteration_limit=5, label_switching_cost=beta, min_cluster_size=2,
                                   min_meaningful_covariance=eps, num_clusters=len(thetas), num_processors=1,
                                   window_size=1, biased_covariance=False)
    st = model_state.ModelState.empty_model(args, np.zeros((len(labels), n)))
    st.point_labels = list(labels)
    for c, t, s in zip(st.clusters, thetas, covs):
        c.train_inverse, c.empirical_covariance = t, s
        c.inverse_covariance, c.computed_covariance = t, np.linalg.inv(t)
        c.stacked_data_mean = np.zeros(n)
        c.log_determinant = float(np.linalg.slogdet(t)[1])
    return st


def indep_bic(labels, thetas, covs, P):
    lle = 0.0
    for t, s in zip(thetas, covs):
        L = np.linalg.cholesky(t)
        logdet = 2.0 * math.fsum(math.log(x) for x in np.diag(L))
        lle += logdet - float(np.sum(t * s.T))
    return P * math.log(len(labels)) - 2 * lle


def gen_syn(rng):
    K = rng.randint(1, 4)
    n = rng.randint(1, 3)
    style = rng.choice(["one-run", "many", "return", "unused", "random"])
    T = rng.randint(2, 40)
    if style == "one-run":
        labels = [rng.randrange(K)] * T
    elif style == "return" and K >= 2:
        a, b = rng.sample(range(K), 2)
        labels = [a] * rng.randint(1, 5) + [b] * rng.randint(1, 5) + [a] * rng.randint(1, 5)
    elif style == "unused" and K >= 2:
        labels = [rng.randrange(K - 1) for _ in range(T)]
    else:
        labels, cur = [], rng.randrange(K)
        for _ in range(T):
            if rng.random() < 0.3:
                cur = rng.randrange(K)
            labels.append(cur)
    thr = Fraction(1, 50000)
    thetas = []
    for _ in range(K):
        m = [[Fraction(0)] * n for _ in range(n)]
        for i in range(n):
            m[i][i] = Fraction(rng.randint(2, 9))
            for j in range(i):
                v = rng.choice([Fraction(0), thr, -thr, thr * Fraction(3, 4), thr * Fraction(5, 4), -thr * Fraction(5, 4),
                                Fraction(rng.randint(-8, 8), 16)])
                m[i][j] = m[j][i] = v
        thetas.append([[str(x) for x in row] for row in m])
    return {"synthetic": True, "labels": labels, "thetas": thetas, "style": style,
            "cov_seed": rng.randrange(2 ** 31)}


def run(ctx):
    common.setup_repo_import()
    from fast_ticc import cluster_metrics as cmx

    if ctx.replay is not None:
        syn = [ctx.replay] if ctx.replay.get("synthetic") else []
        sweeps = [ctx.replay] if ctx.replay.get("sweep") else []
        cfgs = [ctx.replay] if not (ctx.replay.get("synthetic") or ctx.replay.get("sweep") or ctx.replay.get("long")) else []
    else:
        syn = [c for c in ctx.corpus if c.get("synthetic")] + [gen_syn(ctx.rng) for _ in range(200 if ctx.quick() else 3000)]
        sweeps = [{"sweep": True, "n": n, "log10scale": s} for n in ((10, 100) if ctx.quick() else (10, 50, 100, 150))
                  for s in (-12, -6, -4, 0, 4, 6, 12)]
        cfgs = [c for c in ctx.corpus if not (c.get("synthetic") or c.get("sweep"))] + \
               [tu.gen_config(ctx.rng) for _ in range(12 if ctx.quick() else 150)]
        for j in range(3 if ctx.quick() else 20):
            # a per-pair switching-cost vector with exact zeros at a few positions and long runs of one label across them
            vc = tu.gen_config(ctx.rng, joint=False)
            for k_ in ("dtype", "completion", "flat", "beta_form"):
                vc.pop(k_, None)
            vc.update({"beta": ctx.rng.choice([25.0, 200, 5.0]), "beta_zero_vector": ctx.rng.randrange(2 ** 31), "K": 2,
                       "regimes": 2, "limit": max(2, vc["limit"])})
            cfgs.append(vc)
        for K1 in (2, 3):
            # the degenerate but legal shape N = W = 1 (0-d covariances, 1x1 MRFs), scripted every run
            cfg = tu.gen_config(ctx.rng, joint=False)
            cfg.update({"N": 1, "W": 1, "K": K1, "lens": [ctx.rng.randint(40, 70)], "regimes": K1})
            cfgs.append(cfg)
        for i in range(5 if ctx.quick() else 50):
            # a covariance floor that really zeroes entries: P, the log-determinants and the traces must all refer to
            # the RETURNED (filtered) matrices
            cfg = tu.gen_config(ctx.rng)
            cfg.update({"eps": [0.02, 0.05, 0.2][i % 3], "lam": [0.0, 0.01, 0.05][i % 3]})
            cfgs.append(cfg)

    # ---------------- (a) synthetic: count exact, value 1e-9
    thr_line = ctx.driver.run(["bicthreshold"])[0]
    thr = Fraction(thr_line)
    lines = []
    for c in syn:
        for t in c["thetas"]:
            lines.append(f"nnz {frac_str(thr)} {show_list(t, lambda r: show_list(r, lambda x: frac_str(Fraction(x))), ';')}")
    nn = iter(ctx.driver.run(lines))
    lines2 = []
    params_all = []
    for c in syn:
        params = [int(next(nn)) for _ in c["thetas"]]
        params_all.append(params)
        lines2.append(f"runsparams {show_list(params)} {show_list(c['labels'])}")
    outs = ctx.driver.run(lines2)
    for c, params, mo in zip(syn, params_all, outs):
        P_model = int(mo)
        thetas = [np.array([[float(Fraction(x)) for x in row] for row in t]) for t in c["thetas"]]
        rs = np.random.RandomState(c["cov_seed"])
        covs = []
        for t in thetas:
            a = rs.randn(t.shape[0], t.shape[0])
            covs.append(a @ a.T / 4 + np.eye(t.shape[0]))
        # independent count: |x| > 2e-5 per maximal run
        P_ind = 0
        prev = None
        for l in c["labels"]:
            if l != prev:
                P_ind += int(sum(1 for row in c["thetas"][l] for x in row if abs(Fraction(x)) > Fraction(1, 50000)))
            prev = l
        eps_c = [0, 1e-6, 1e-5, 1e-3][c["cov_seed"] % 4]      # the covariance floor must not move the 2e-5 counting threshold
        # the hyper-parameters the criterion does not depend on are varied too: the switching cost as a per-pair vector with
        # exact zeros (zeros INSIDE runs of one label among them), a scalar zero, a large scalar
        bsel = c["cov_seed"] % 5
        if bsel == 0:
            beta_c = np.full(len(c["labels"]), 7.5)
            beta_c[rs.rand(len(c["labels"])) < 0.4] = 0.0
        else:
            beta_c = [1.0, 0.0, 400, 1.0, 2.5][bsel]
        got = float(cmx.bayesian_information_criterion(fake_model(c["labels"], thetas, covs, eps_c, beta_c)))
        want = indep_bic(c["labels"], thetas, covs, P_ind)
        if not oracles.rel_close(got, want, 1e-9, 1e-9):
            ctx.violation("impl-violation", f"BIC {got} != definition {want} (P={P_ind})", c, {"site": "bic-value"})
        if P_model != P_ind:
            ctx.violation("correspondence-break", f"runsParams/nnz give P={P_model}, definition gives {P_ind}", c)
        elif not oracles.rel_close(got, indep_bic(c["labels"], thetas, covs, P_model), 1e-9, 1e-9):
            ctx.violation("correspondence-break", "model parameter count does not reproduce the implementation's value", c)
        ctx.count("style:" + c["style"])
        runs = 1 + sum(1 for a, b in zip(c["labels"], c["labels"][1:]) if a != b)
        ctx.case(("syn", tuple(c["labels"]), repr(c["thetas"])), nontrivial=runs >= 2,
                 sample={"labels": c["labels"][:12], "params_per_cluster": params, "P": P_ind} if len(ctx.samples) < 3 else None)

    # ---------------- LONG label sequences (tens of thousands of windows): runs that straddle, end on and start on the
    # powers of two at which blocked / vectorised counters change course (2^12, 2^15, 2^16, 2^17); direct oracle only
    if ctx.replay is None or ctx.replay.get("long"):
        plans = [ctx.replay] if ctx.replay is not None else \
            [{"long": True, "T": T_, "K": K_, "seed": ctx.rng.randrange(2 ** 31)}
             for (T_, K_) in ([(70000, 2), (140000, 3), (9000, 3)] if ctx.quick() else
                              [(70000, 2), (140000, 3), (9000, 3), (33000, 2), (66000, 4), (270000, 2)])]
        for c in plans:
            r = pyrandom.Random(c["seed"])
            T_, K_ = c["T"], c["K"]
            edges = [e for e in (4096, 8192, 32768, 65536, 131072, 196608, 262144) if e < T_]
            cuts = set(r.sample(range(1, T_), r.randint(2, 9)))
            for e in edges:
                u = r.random()
                if u < 0.25:
                    cuts.add(e)                  # a switch exactly ON the edge
                elif u < 0.5:
                    cuts.add(e - 1)              # ... one window before it
                else:
                    cuts.discard(e)              # a run straddling the edge
            labels, cur, prev_cut = [], r.randrange(K_), 0
            for cut in sorted(cuts) + [T_]:
                labels.extend([cur] * (cut - prev_cut))
                prev_cut = cut
                cur = (cur + 1 + r.randrange(K_ - 1)) % K_
            n = 2
            rs = np.random.RandomState(c["seed"] % 2 ** 31)
            thetas, covs = [], []
            for _ in range(K_):
                a = rs.randn(n, n) * 0.3
                thetas.append(np.eye(n) * 2 + a @ a.T)
                b = rs.randn(n, n)
                covs.append(b @ b.T / 4 + np.eye(n))
            P_ind, prev = 0, None
            for l in labels:
                if l != prev:
                    P_ind += int(np.sum(np.abs(thetas[l]) > 2e-5))
                prev = l
            got = float(cmx.bayesian_information_criterion(fake_model(labels, thetas, covs, 0)))
            want = indep_bic(labels, thetas, covs, P_ind)
            if not oracles.rel_close(got, want, 1e-9, 1e-9):
                ctx.violation("impl-violation", f"BIC {got} != definition {want} for {T_} windows in {len(cuts) + 1} runs (P={P_ind})",
                              c, {"site": "bic-value", "long": True})
            ctx.count("long_label_sequences")
            ctx.case(("long", T_, K_, c["seed"]), nontrivial=True)

    # ---------------- scale sweep: finite whenever the MRFs are positive definite
    for c in sweeps:
        n, s = c["n"], 10.0 ** c["log10scale"]
        rs = np.random.RandomState(n * 31 + c["log10scale"] + 100)
        a = rs.randn(n, n) * 0.05
        theta = (np.eye(n) + a @ a.T) * s
        cov = np.linalg.inv(theta)
        labels = [0] * 5 + [1] * 5
        with warnings.catch_warnings():
            warnings.simplefilter("ignore")
            got = float(cmx.bayesian_information_criterion(fake_model(labels, [theta, theta], [cov, cov])))
        want = indep_bic(labels, [theta, theta], [cov, cov], int(2 * np.sum(np.abs(theta) > 2e-5)))
        if not math.isfinite(got):
            ctx.violation("impl-violation", f"BIC is {got} for positive-definite MRFs (n={n}, scale=1e{c['log10scale']})",
                          c, {"site": "bic-finite"})
        elif not oracles.rel_close(got, want, 1e-9, 1e-6):
            ctx.violation("impl-violation", f"BIC {got} != definition {want} at scale 1e{c['log10scale']}", c, {"site": "bic-value"})
        ctx.count("sweep_points")
        ctx.case(("sweep", n, c["log10scale"]), nontrivial=True)

    # ---------------- (b) completed runs
    for cfg in cfgs:
        res, tr, err, series = tu.execute(cfg, capture_kernel=False)
        if err is not None or not tr.events or tr.events[-1]["phase"] != "relabel":
            ctx.count("runs_not_completed")
            ctx.case(("cfg", repr(sorted(cfg.items()))))
            continue
        final = tr.events[-1]["out"]
        labels = [int(x) for x in final.point_labels]
        thetas = [np.asarray(c.train_inverse) for c in final.clusters]
        covs = [np.atleast_2d(np.asarray(c.empirical_covariance)) for c in final.clusters]
        thetas = [np.atleast_2d(t) for t in thetas]
        P = 0
        prev = None
        for l in labels:
            if l != prev:
                P += int(np.sum(np.abs(thetas[l]) > 2e-5))
            prev = l
        try:
            want = indep_bic(labels, thetas, covs, P)
        except np.linalg.LinAlgError:
            ctx.count("runs_final_mrf_not_pd")
            continue
        got = float(res.bayesian_information_criterion)
        if not oracles.rel_close(got, want, 1e-9, 1e-6):
            ctx.violation("impl-violation", f"reported BIC {got} != definition {want} recomputed from the final model",
                          cfg, {"site": "bic-value"})
        ctx.count("runs_checked")
        if cfg.get("eps"):
            ctx.count("runs_with_floor")
        runs = 1 + sum(1 for a, b in zip(labels, labels[1:]) if a != b)
        ctx.case(("cfg", repr(sorted(cfg.items()))), nontrivial=runs >= 2,
                 sample={"T": len(labels), "runs": runs, "P": P, "bic": got} if len(ctx.samples) < 6 else None)

    # ---------------- (c) whole-result replay (Final.report): the BIC of a traced real run vs the composed model
    replay_run.whole_result_section(ctx, [c for c in cfgs if not c.get("eps")], ("bic",), 3 if ctx.quick() else 25)
    # … and with a covariance floor: the model re-inflates and FILTERS the raw solver outputs itself (OptPhase.reconstruct)
    replay_run.whole_result_section(ctx, [c for c in cfgs if c.get("eps")], ("bic",), 2 if ctx.quick() else 15)

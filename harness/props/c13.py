"""C13 — model state: labels and cluster membership always describe one partition."""
import hashlib
import random as pyrandom
import re
import warnings

import numpy as np

import common
import ticc_util as tu
from common import show_list

LEVEL = "proof"
LEAN_PROPS = ["FastTicc.Props.C13", "FastTicc.Props.C13b"]
LEAN_HELPERS = ["FastTicc.Proofs.Heap"]
RULE = ("random operation histories (assign, shallow/deep copy, repopulate, statistics, optimise, relabel; length <= 25) "
        "on real ModelState objects, replayed on the heap model; after EVERY step the canonical dump of ALL states "
        "created so far (labels, member lists, alias partition from id(), content classes) is compared; plus every "
        "phase boundary of traced real runs; non-trivial = history contains at least one phase and one copy/assign; "
        "distinct by history")
EXPLANATION = ("Lean: assign_establishes_inv, assign_frame, repop/stats/opt/relabel_phase_spec (ownership kept, returned "
               "state satisfies the partition invariant, every earlier state's labels/membership/fitted statistics "
               "unchanged), round_spec, init_spec, deepCopy_disjoint, deepCopy_pinned_shares, shallow_assign_hazard. "
               "Correspondence: heap model vs real objects after every operation (exact alias partition); oracle: "
               "invariant, frame and copy isolation checked directly on the objects.")
ASSUMPTIONS = ["id() identifies objects (all objects are kept alive during a history)",
               "content equality is checked one-directionally (model says equal => implementation equal)"]

T, N, W = 30, 2, 1


def content(a):
    if a is None:
        return "-"
    arr = np.asarray(a)
    if arr.dtype == object:
        return "0"
    return hashlib.sha1(arr.tobytes() + str(arr.shape).encode()).hexdigest()[:10]


def arr_tok(a):
    return "-" if a is None else f"o{id(a)}/{content(a)}"


def dump(states):
    items, cells, args = [], [], []
    for i, st in enumerate(states):
        lab = "None:-" if st._point_labels is None else f"o{id(st._point_labels)}:" + show_list([int(x) for x in st._point_labels])
        a = st.arguments
        K = a.num_clusters
        if st._point_labels is None:
            inv = all(c.member_points == [] for c in st.clusters)
        else:
            inv = all(k < len(st.clusters) and st.clusters[k].member_points ==
                      [j for j, x in enumerate(st._point_labels) if x == k] for k in range(K))
        inv = inv and len(st.clusters) == K
        items.append(f"S{i}:L={lab}:CL=o{id(st.clusters)}:C=" + show_list([f"c{id(c)}" for c in st.clusters])
                     + f":A=a{id(a)}:D={arr_tok(st.stacked_training_data)}:P={arr_tok(st.point_log_likelihood)}"
                     + f":cost={'-' if st.label_assignment_cost is None else 0}:inv={'true' if inv else 'false'}")
        for c in st.clusters:
            if all(c is not d for d in cells):
                cells.append(c)
        if all(a is not b for b in args):
            args.append(a)
    for c in cells:
        ld = "-" if c.log_determinant is None else "L" + hashlib.sha1(repr(float(c.log_determinant)).encode()).hexdigest()[:8]
        items.append(f"c{id(c)}:m=" + show_list([int(x) for x in c.member_points])
                     + f":cc={arr_tok(c.computed_covariance)}:ec={arr_tok(c.empirical_covariance)}"
                     + f":ic={arr_tok(c.inverse_covariance)}:mu={arr_tok(c.stacked_data_mean)}"
                     + f":ti={arr_tok(c.train_inverse)}:ld={ld}")
    for a in args:
        def p(x):
            return arr_tok(x) if isinstance(x, np.ndarray) else "s"
        items.append(f"a{id(a)}:lam={p(a.sparsity_weight)}:beta={p(a.label_switching_cost)}:K={a.num_clusters}")
    return " ".join(items)


TOK = re.compile(r"\b([oca])(\d+)(?:/(\w+))?|:ld=(\w+|-)")


def canon(s):
    """rename identities by first occurrence; return (skeleton, [content tokens in order])."""
    names = {}
    contents = []

    def rep(m):
        if m.group(4) is not None:
            contents.append(("ld", m.group(4)))
            return ":ld=*"
        key = (m.group(1), m.group(2))
        if key not in names:
            names[key] = f"{m.group(1)}#{len(names)}"
        if m.group(3) is not None:
            contents.append(("v", m.group(3)))
        return names[key]
    return TOK.sub(rep, s), contents


def gen_history(rng):
    K = rng.choice([2, 3, 3, 4])
    return {"K": K, "lam": rng.choice(["s", "a"]), "beta": rng.choice(["s", "a"]),
            "seed": rng.randrange(2 ** 31), "len": rng.randint(4, 25), "m": rng.choice([2, 3, 5])}


def balanced_labels(r, K, empty=None, m=3):
    if empty is not None and r.random() < 0.6:
        # boundary sizes for the donors: exactly 2m, 2m+1, 3m-1, 3m; the rest goes to the last donor
        others = [k for k in range(K) if k != empty]
        sizes = {empty: r.choice([0, 1])}
        left = T - sizes[empty]
        for k in others[:-1]:
            sizes[k] = min(r.choice([2 * m, 2 * m, 2 * m + 1, 3 * m - 1, 3 * m]), left - 2)
            left -= sizes[k]
        sizes[others[-1]] = left
        lab = [k for k in range(K) for _ in range(sizes[k])]
        r.shuffle(lab)
        return lab
    lab = [k for k in range(K) for _ in range(T // K)]
    lab += [r.randrange(K) for _ in range(T - len(lab))]
    r.shuffle(lab)
    if empty is not None:
        other = (empty + 1) % K
        keep = r.choice([0, 1])
        seen = 0
        for j, x in enumerate(lab):
            if x == empty:
                if seen >= keep:
                    lab[j] = other
                seen += 1
    return lab


def play(ctx, hist, cm, gl, cla, arguments, model_state):
    """run one history on real objects; returns (ops for the model, dumps per step, problems)."""
    r = pyrandom.Random(hist["seed"])
    K = hist["K"]
    data = tu.make_series(r, T, N, regimes=K, seg=(5, 12))
    lam = 0.1 if hist["lam"] == "s" else np.full((N * W, N * W), 0.1)
    beta = 2.0 if hist["beta"] == "s" else np.full((T,), 2.0)
    args = arguments.UserArguments(sparsity_weight=lam, iteration_limit=5, label_switching_cost=beta,
                                   min_cluster_size=hist.get("m", 3), min_meaningful_covariance=0, num_clusters=K,
                                   num_processors=1, window_size=W, biased_covariance=False)
    states = [model_state.ModelState.empty_model(args, data)]
    flags = [{"lab": False, "stats": False, "mrf": False, "minsize": 0, "phase": True}]
    keep = [states[0], args, data]           # keep every object alive: id() must stay unique
    ops = [f"init:{K}:{hist['lam']}:{hist['beta']}"]
    dumps = [dump(states)]
    problems = []
    kinds = set()
    pyrandom.seed(hist["seed"])
    np.random.seed(hist["seed"] % 2 ** 32)
    force = None
    for _ in range(hist["len"]):
        s = r.randrange(len(states))
        if force is not None and r.random() < 0.8:
            s = force
        elif r.random() < 0.35:
            fitted = [i for i, f in enumerate(flags) if f["mrf"] and f["lab"]]
            if fitted:
                s = r.choice(fitted)
        st, fl = states[s], flags[s]
        choices = ["assign", "assign", "shallow"]
        if fl["lab"]:
            choices += ["deep"]
            if fl["minsize"] >= 2:
                choices += ["stats", "stats", "repop"]
                if fl["stats"]:
                    choices += ["opt", "opt"]
                if fl["mrf"] and fl["stats"]:
                    choices += ["relabel", "relabel"]
            elif fl["mrf"]:
                choices += ["repop", "repop", "repop"]
        op = r.choice(choices)
        if force == s and fl["mrf"] and partition_ok(st):
            op = "repop"
        elif fl["mrf"] and fl["lab"] and force is None and r.random() < 0.4:
            op = "assign"
        force = None
        if op == "repop" and not partition_ok(st):
            # repopulation asserts that the member lists match the labels; a state broken by the
            # documented shallow-copy hazard is outside the phase's precondition
            op = "shallow"
        kinds.add(op)
        before = [tu.snapshot_state(x) for x in states]
        input_ok = partition_ok(st)
        new_state = None
        if op == "assign":
            empty = r.randrange(K) if (fl["mrf"] and r.random() < 0.6) else None
            if empty is not None:
                force = s                      # next: repopulate this state (main-loop order)
            lab = balanced_labels(r, K, empty, hist.get("m", 3))
            if fl["lab"] and r.random() < 0.15:
                lab = [int(x) for x in st.point_labels]      # equal content: the setter must be a no-op
            elif fl["lab"] and empty is None and r.random() < 0.45:
                # a NEAR-IDENTICAL labelling: one or two points moved between two clusters, every other cluster keeps
                # its points — membership must still be re-derived for ALL clusters (the state's lists may have been
                # changed behind its back through a shallow copy that shares its cluster objects)
                lab = [int(x) for x in st.point_labels]
                a_, b_ = r.sample(range(K), 2)
                idx = [i_ for i_, x_ in enumerate(lab) if x_ == a_]
                for i_ in r.sample(idx, min(len(idx), r.choice([1, 2]))) if len(idx) > 2 else []:
                    lab[i_] = b_
                kinds.add("assign-near")
            keep.append(lab)
            changed = (st._point_labels is None) or ([int(x) for x in st._point_labels] != lab)
            st.point_labels = lab
            ops.append(f"assign:{s}:{show_list(lab)}")
            # flags of every state sharing this state's clusters are unknown now; recompute sizes lazily
            fl["lab"] = True
        elif op == "shallow":
            new_state = st.shallow_copy()
            ops.append(f"shallow:{s}")
            flags.append(dict(fl, phase=False))
        elif op == "deep":
            new_state = st.deep_copy()
            ops.append(f"deep:{s}")
            flags.append(dict(fl, phase=False))
            ids_new = reachable_ids(new_state)
            ids_old = reachable_ids(st)
            shared = ids_new & ids_old
            if shared:
                problems.append(("deep-copy-shares", f"deep copy shares {len(shared)} mutable object(s) with its source",
                                 {"site": "deep-copy-shares"}))
        elif op == "repop":
            with tu.record_label_assignments() as assigned:
                try:
                    out = cm.repopulate_empty_clusters(st)
                except RuntimeError:
                    continue        # no donor: nothing was returned; skip the op (no state created)
            moves = [lab for (_sid, lab) in assigned if lab is not None]
            ops.append(f"repop:{s}:{show_list(moves, lambda l: show_list(l), ';')}")
            if out is not st:
                new_state = out
                flags.append({"lab": True, "stats": False, "mrf": fl["mrf"], "minsize": 0, "phase": True})
        elif op == "stats":
            with warnings.catch_warnings():
                warnings.simplefilter("ignore")
                new_state = cm.update_all_cluster_statistics(st, data)
            ops.append(f"stats:{s}")
            flags.append({"lab": True, "stats": True, "mrf": fl["mrf"], "minsize": 0, "phase": True})
        elif op == "opt":
            new_state = gl.optimize_markov_random_fields(st, data, tu.InlinePool())
            ops.append(f"opt:{s}")
            flags.append({"lab": True, "stats": True, "mrf": True, "minsize": 0, "phase": True})
        elif op == "relabel":
            new_state = cla.predict_cluster_labels(st, data)
            ops.append(f"relabel:{s}:{show_list([int(x) for x in new_state.point_labels])}")
            flags.append({"lab": True, "stats": True, "mrf": True, "minsize": 0, "phase": True})
        if new_state is not None:
            states.append(new_state)
            keep.append(new_state)
        for x in states:
            keep.extend(x.clusters)
            keep.append(x.clusters)
            keep.append(x._point_labels)
            for c in x.clusters:
                keep.extend([c.computed_covariance, c.empirical_covariance, c.inverse_covariance,
                             c.stacked_data_mean, c.train_inverse, c._member_points])
        # refresh derived flags
        for x, f in zip(states, flags):
            f["minsize"] = min((len(c.member_points) for c in x.clusters), default=0) if x._point_labels is not None else 0
            f["stats"] = all(real_arr(c.empirical_covariance) and real_arr(c.stacked_data_mean) for c in x.clusters)
            f["mrf"] = all(real_arr(c.train_inverse) and real_arr(c.computed_covariance) for c in x.clusters)
        # ---- direct oracle
        after = [tu.snapshot_state(x) for x in states[:len(before)]]
        if op in ("repop", "stats", "opt", "relabel", "deep", "shallow"):
            for i, (b, a) in enumerate(zip(before, after)):
                if not tu.snapshots_equal(b, a):
                    problems.append(("phase-frame", f"{op} on state {s} altered labels/membership/fitted statistics of state {i}",
                                     {"site": "phase-frame", "op": op}))
                    break
        if op in ("repop", "stats", "opt", "relabel") and new_state is not None and input_ok:
            if not partition_ok(new_state):
                problems.append(("phase-inv", f"{op} handed on a state whose membership does not match its labels",
                                 {"site": "phase-inv", "op": op}))
        if op in ("repop", "stats", "opt", "relabel") and new_state is not None and new_state is not st and input_ok:
            # failing-input search for an aliased phase output: if the output shares a cluster object with the
            # input, relabelling the output (on a structure-preserving copy of both) breaks the input's partition
            if {id(c) for c in new_state.clusters} & {id(c) for c in st.clusters}:
                import copy as _copy
                with tu.quiet():
                    st2, out2 = _copy.deepcopy((st, new_state))
                    rot = [(int(x) + 1) % K for x in out2.point_labels]
                    out2.point_labels = rot
                if not partition_ok(st2):
                    problems.append(("phase-output-aliases-input",
                                     f"{op} returned a state sharing a cluster object with the state it was given: assigning "
                                     f"labels to the returned state leaves the given state's membership not matching its labels",
                                     {"site": "phase-output-aliases-input", "op": op}))
        if op == "assign":
            # frame of the label setter (assign_frame): a state that shares no cluster OBJECT with the assigned state
            # keeps its labels, membership and statistics (sharing through a shallow state copy is the documented hazard)
            mine = {id(c) for c in st.clusters}
            for i, (b, a, x) in enumerate(zip(before, after, states)):
                if x is st or ({id(c) for c in x.clusters} & mine):
                    continue
                if not tu.snapshots_equal(b, a):
                    problems.append(("assign-frame", f"assigning labels to state {s} altered labels/membership/statistics of "
                                     f"state {i}, which shares no cluster object with it", {"site": "assign-frame"}))
                    break
        if op == "assign" and (changed or input_ok) and not partition_ok(st):
            problems.append(("assign-inv", "membership not re-derived by the label setter", {"site": "assign-inv"}))
        dumps.append(dump(states))
    return ops, dumps, problems, kinds


def real_arr(a):
    return isinstance(a, np.ndarray) and a.dtype != object


def partition_ok(st):
    K = st.arguments.num_clusters
    if len(st.clusters) != K or st.point_labels is None:
        return False
    lab = [int(x) for x in st.point_labels]
    return all(st.clusters[k].member_points == [i for i, x in enumerate(lab) if x == k] for k in range(K))


def reachable_ids(st):
    ids = {id(st.clusters), id(st.arguments), id(st._point_labels), id(st.stacked_training_data)}
    if st.point_log_likelihood is not None:
        ids.add(id(st.point_log_likelihood))
    a = st.arguments
    for x in (a.sparsity_weight, a.label_switching_cost):
        if isinstance(x, np.ndarray):
            ids.add(id(x))
    for c in st.clusters:
        ids.add(id(c))
        ids.add(id(c._member_points))
        for x in (c.computed_covariance, c.empirical_covariance, c.inverse_covariance, c.stacked_data_mean, c.train_inverse):
            if x is not None:
                ids.add(id(x))
    ids.discard(id(None))
    return ids


def check_histories(ctx, hists, cm, gl, cla, arguments, model_state):
    lines, played = [], []
    for h in hists:
        ops, dumps, problems, kinds = play(ctx, h, cm, gl, cla, arguments, model_state)
        for (site, msg, sig) in problems:
            ctx.violation("impl-violation", msg, dict(h, ops=ops), sig)
        lines.append("heap 1 " + " ".join(ops))
        played.append((h, ops, dumps, kinds))
    outs = ctx.driver.run(lines)
    for (h, ops, dumps, kinds), mo in zip(played, outs):
        msteps = mo.split(" # ")
        if len(msteps) != len(dumps):
            ctx.violation("correspondence-break", "heap model rejected the history", dict(h, ops=ops, model=mo[:200]))
            continue
        for i, (md, pd) in enumerate(zip(msteps, dumps)):
            ms, mc = canon(md.strip())
            ps, pc = canon(pd.strip())
            ok = ms == ps and len(mc) == len(pc)
            if ok:
                fmap = {}
                for (mk, mv), (pk, pv) in zip(mc, pc):
                    if mv == "-" or pv == "-":
                        ok = ok and (mv == pv)
                    elif fmap.setdefault((mk, mv), pv) != pv:
                        ok = False
            if not ok:
                ctx.violation("correspondence-break", f"heap model vs real objects after step {i} ({ops[i]})",
                              dict(h, ops=ops[:i + 1], model=ms[:1500], impl=ps[:1500]))
                break
        for k in kinds:
            ctx.count("op:" + k)
        nontrivial = bool(kinds & {"repop", "stats", "opt", "relabel"}) and bool(kinds & {"assign", "shallow", "deep"})
        ctx.case(("hist", tuple(ops)), nontrivial,
                 sample={"ops": [o.split(":")[0] + ":" + o.split(":")[1] for o in ops[1:]][:12]} if len(ctx.samples) < 3 else None)



def run(ctx):
    common.setup_repo_import()
    from fast_ticc import cluster_maintenance as cm, graphical_lasso as gl, cluster_label_assignment as cla
    from fast_ticc.containers import arguments, model_state

    if ctx.replay is not None:
        hists = [ctx.replay] if "len" in ctx.replay else []
        cfgs = [] if "len" in ctx.replay else [ctx.replay]
    else:
        hists = [c for c in ctx.corpus if "len" in c] + [gen_history(ctx.rng) for _ in range(120 if ctx.quick() else 2500)]
        cfgs = [c for c in ctx.corpus if "len" not in c] + [tu.gen_config(ctx.rng) for _ in range(6 if ctx.quick() else 60)]
        # solver tasks that finish OUT OF ORDER (a later cluster's task before an earlier one's, >= 3 clusters): the state
        # the optimise phase hands on must still have cluster k in slot k
        for comp in (["reverse", "rotate", 5] if ctx.quick() else ["reverse", "rotate"] + list(range(12))):
            cfg = tu.gen_config(ctx.rng)
            cfg.update({"K": ctx.rng.choice([3, 4]), "completion": comp, "limit": max(2, cfg["limit"])})
            cfgs.append(cfg)

        # a positive covariance floor with variances on both sides of it (flat-lined stretch, stuck sensor, tiny amplitudes)
        cfgs += tu.threshold_configs(ctx.rng, 4 if ctx.quick() else 24)

    check_histories(ctx, hists, cm, gl, cla, arguments, model_state)

    # ---------------- MANY clusters: cluster counts at and around the powers of two at which a label / key stored in a narrow
    # integer type wraps (255, 256, 257; 65535, 65536, 65537); every label value present, -1 ("not clustered") too
    if ctx.replay is None or "many_clusters" in (ctx.replay or {}):
        import random as _pr
        Ks = [ctx.replay["many_clusters"]] if ctx.replay is not None else \
            ([255, 256, 257, 65536] if ctx.quick() else [127, 128, 129, 255, 256, 257, 1000, 65535, 65536, 65537])
        for K_ in Ks:
            r_ = _pr.Random(ctx.seed * 7 + K_)
            T_ = K_ + r_.randint(50, 400)
            labels_ = list(range(K_)) + [r_.randrange(K_) for _ in range(T_ - K_ - 3)] + [K_ - 1, -1, K_ - 1]
            r_.shuffle(labels_)
            ua = arguments.UserArguments(sparsity_weight=0.11, iteration_limit=2, label_switching_cost=1.0, min_cluster_size=1,
                                         min_meaningful_covariance=0, num_clusters=K_, num_processors=1, window_size=1,
                                         biased_covariance=False)
            st_ = model_state.ModelState.empty_model(ua, np.zeros((T_, 1)))
            st_.point_labels = list(labels_)
            want_ = {}
            for i_, l_ in enumerate(labels_):
                if l_ >= 0:
                    want_.setdefault(l_, []).append(i_)
            wrong = [k for k in range(K_) if [int(x) for x in st_.clusters[k].member_points] != want_.get(k, [])]
            if wrong or len(st_.clusters) != K_:
                ctx.violation("impl-violation", f"K = {K_}: after assigning a labelling the member list of cluster {wrong[:1]} does not hold "
                              "exactly the points carrying its label", {"many_clusters": K_}, {"site": "phase-inv", "op": "assign-labels"})
            ctx.count("many_cluster_states")
            ctx.case(("many-clusters", K_), nontrivial=True)

    # ---------------- phase boundaries of traced real runs
    for cfg in cfgs:
        res, tr, err, series = tu.execute(cfg)
        if tr is None:
            continue
        for e in tr.events:
            if e["error"] is not None:
                continue
            if not tu.snapshots_equal(e["in_before"], e["in_after"]):
                ctx.violation("impl-violation", f"phase {e['phase']} altered the state it was given", cfg,
                              {"site": "phase-frame", "op": e["phase"]})
            if not partition_ok(e["out"]):
                ctx.violation("impl-violation", f"phase {e['phase']} handed on a state whose membership does not match its labels",
                              cfg, {"site": "phase-inv", "op": e["phase"]})
        ctx.count("traced_runs")
        if cfg.get("threshold_kind"):
            ctx.count("traced_runs_with_floor:" + cfg["threshold_kind"] + ("" if err is None else ":raised"))
        ctx.count("traced_phase_boundaries", len(tr.events))
        ctx.case(("cfg", repr(sorted(cfg.items()))), nontrivial=len(tr.events) >= 4)

"""C09 — main loop: bounded, stops only at a fixed point, returns what it scored."""
import numpy as np

import common
import oracles
import replay_run
import ticc_util as tu
from common import show_list

LEVEL = "proof"
LEAN_PROPS = ["FastTicc.Props.C09", "FastTicc.Props.Compose", "FastTicc.Props.C01", "FastTicc.Props.C08", "FastTicc.Props.Run", "FastTicc.Props.Final", "FastTicc.Props.FrontEnd"]
LEAN_HELPERS = ["FastTicc.Proofs.MainLoop", "FastTicc.Proofs.Compose", "FastTicc.Proofs.Run", "FastTicc.Proofs.Final"]
RULE = ("(a) scripted label histories driven through the real fit_stacked_data (the relabel phase's output labelling is "
        "replaced by the script): converge at every round j<=limit+1, oscillate forever, limit in [1,8], labellings that "
        "empty a cluster to force repopulation; (b) traced real runs on random small data; non-trivial = at least 2 "
        "rounds; distinct by (script, limit) / configuration")
EXPLANATION = ("Lean: rounds_bounds, round_shape, history_chain, early_stop_only_at_repeat, stops_at_first_repeat, "
               "first_round_never_compared, returns_last_round, fixed_point_on_early_stop for all phase functions and "
               "limits (+ C01 optimality of the relabel phase, C08 repop_noop). Correspondence: rounds, phase trace, "
               "per-round labellings and the returned labelling of the real loop equal the model's on scripted "
               "histories; oracle: the same clauses checked on the traces of real runs, incl. object identity of the "
               "returned MRFs with the last round's.")
ASSUMPTIONS = ["phases are observed by wrapping the module attributes the main loop calls them through"]


def labelling_pool(rng, T, K):
    """distinct labellings of T points; ids >= 100 have a cluster with < 2 points."""
    pool = {}
    for i in range(8):
        cuts = sorted(rng.sample(range(4, T - 4), K - 1))
        lab, k, prev = [], 0, 0
        order = list(range(K))
        rng.shuffle(order)
        for c in cuts + [T]:
            lab += [order[k]] * (c - prev)
            prev, k = c, k + 1
        pool[i + 1] = lab
    # near-identical labellings: same label multiset / same label sum (two points swapped), or different only at
    # the very first / very last point — a sloppy equality test would take them for equal
    a = list(pool[1])
    i0 = next(i for i, x in enumerate(a) if x != a[-1])
    a[i0], a[-1] = a[-1], a[i0]
    pool[9] = a
    b = list(pool[2])
    b[-1] = (b[-1] + 1) % K
    pool[10] = b
    c = list(pool[3])
    c[0] = (c[0] + 1) % K
    pool[11] = c
    for i in range(3):
        base = list(pool[i + 1])
        victim = rng.randrange(K)
        other = (victim + 1) % K
        keep = rng.choice([0, 1])
        seen = 0
        for j, x in enumerate(base):
            if x == victim:
                if seen >= keep:
                    base[j] = other
                seen += 1
        pool[100 + i] = base
    return pool


def gen_script(rng):
    limit = rng.randint(1, 8)
    style = rng.choice(["converge", "cycle", "repop", "immediate", "long", "near-equal", "near-equal"])
    if style == "converge":
        j = rng.randint(1, limit + 1)
        ids = [rng.randint(1, 8)]
        while len(ids) < j:
            nxt = rng.randint(1, 8)
            if nxt != ids[-1]:
                ids.append(nxt)
        script, cyc = ids + [ids[-1]], 0
    elif style == "cycle":
        n = rng.randint(2, 4)
        script, cyc = rng.sample(range(1, 9), n), 1
    elif style == "repop":
        script, cyc = [rng.randint(1, 8), 100 + rng.randint(0, 2), rng.randint(1, 8), 100 + rng.randint(0, 2)], 1
    elif style == "near-equal":
        x, y = rng.choice([(1, 9), (2, 10), (3, 11), (9, 1), (10, 2)])
        script, cyc = [rng.randint(4, 8)] * rng.randint(0, 1) + [x, y, y], 0
        limit = max(limit, 4)
    elif style == "immediate":
        a = rng.randint(1, 8)
        script, cyc = [a, a], 0
    else:
        script, cyc = [rng.randint(1, 8) for _ in range(rng.randint(3, 9))], rng.choice([0, 1])
    return {"scripted": True, "limit": limit, "script": script, "cyc": cyc, "style": style,
            "seed": rng.randrange(2 ** 31)}


def check_trace(ctx, cfg, tr, res, limit, needy_rule=True):
    """the clauses of C09 on a traced real execution. Returns list of per-round labellings."""
    rounds = tr.rounds()
    sig = {"site": "main-loop"}
    n = len(rounds)
    labs = []
    prev_out = None
    for j, evs in enumerate(rounds):
        names = [e["phase"] for e in evs]
        want = ["stats", "opt", "relabel"] if j == 0 else ["repop", "stats", "opt", "relabel"]
        if names != want:
            ctx.violation("impl-violation", f"round {j} ran phases {names}, expected {want}", cfg, dict(sig, clause="round-shape"))
            return None
        for a, b in zip(evs, evs[1:]):
            if b["in"] is not a["out"]:
                ctx.violation("impl-violation", f"round {j}: phase {b['phase']} was not applied to the output of {a['phase']}",
                              cfg, dict(sig, clause="chain"))
                return None
        if prev_out is not None and evs[0]["in"] is not prev_out:
            ctx.violation("impl-violation", f"round {j} did not start from the previous round's state", cfg, dict(sig, clause="chain"))
            return None
        if j > 0 and needy_rule:
            e = evs[0]
            needy = any(len(c["members"]) < 2 for c in e["in_before"]["clusters"])
            if (not needy) and e["out"] is not e["in"]:
                ctx.violation("impl-violation", "repopulation changed the state although no cluster has fewer than 2 points",
                              cfg, dict(sig, clause="repop-only-if-needy"))
            if needy and e["out"] is e["in"]:
                ctx.violation("impl-violation", "a cluster has fewer than 2 points but repopulation did nothing",
                              cfg, dict(sig, clause="repop-only-if-needy"))
        # the optimise phase gives every cluster the solver's output for ITS OWN covariance (whatever order the tasks
        # completed in): match this round's solver calls to clusters by the covariance they were handed
        ev_o = evs[-2]
        if ev_o["phase"] == "opt" and ev_o.get("out_snap") is not None and tr.admm_calls and ev_o.get("in_before"):
            from fast_ticc import matrix_compression as _mc
            Kc = len(ev_o["out_snap"]["clusters"])
            calls = tr.admm_calls[j * Kc:(j + 1) * Kc]
            eps_ = float(ev_o["out"].arguments.min_meaningful_covariance)
            for k in range(Kc):
                emp = ev_o["in_before"]["clusters"][k]["emp"]
                mine = [c_ for c_ in calls if c_["cov_copy"] is not None and emp is not None
                        and np.shape(c_["cov_copy"]) == np.shape(emp) and np.array_equal(c_["cov_copy"], emp)]
                if len(mine) != 1 or mine[0]["result"] is None or len(calls) != Kc:
                    continue          # identical covariances (or an untraced solver): nothing to tell apart
                want = np.atleast_2d(_mc.reinflate_matrix(np.array(mine[0]["result"], copy=True)))
                if eps_ > 0:
                    want = np.where(np.abs(want) < eps_, 0.0, want)
                got = np.atleast_2d(ev_o["out_snap"]["clusters"][k]["train"])
                if got.shape != want.shape or not np.array_equal(got, want):
                    ctx.violation("impl-violation", f"round {j}: the MRF stored for cluster {k} is not the solver's output for "
                                  f"cluster {k}'s own covariance", cfg, dict(sig, clause="own-fit"))
                    return None
            ctx.count("opt_phase_own_fit_checked")
        prev_out = evs[-1]["out"]
        labs.append([int(x) for x in prev_out.point_labels])
    if not (1 <= n <= limit):
        ctx.violation("impl-violation", f"{n} rounds with iteration_limit={limit}", cfg, dict(sig, clause="bounds"))
    if n < limit and (n < 2 or labs[-1] != labs[-2]):
        ctx.violation("impl-violation", "stopped before the limit although the last two labellings differ", cfg, dict(sig, clause="early-stop"))
    for j in range(1, n - 1):
        if labs[j] == labs[j - 1]:
            ctx.violation("impl-violation", f"rounds {j - 1} and {j} agree but the loop went on", cfg, dict(sig, clause="stops-at-first-repeat"))
    if res is not None and n >= 1:
        final = rounds[-1][-1]["out"]
        W = final.arguments.window_size
        flat = res.point_labels if not (len(res.point_labels) and isinstance(res.point_labels[0], list)) else None
        returned = [int(x) for x in (flat if flat is not None else sum(res.point_labels, [])) if int(x) >= 0]
        if returned != labs[-1]:
            ctx.violation("impl-violation", "returned labels are not the last round's labelling", cfg, dict(sig, clause="returns-last"))
        if float(res.label_assignment_cost) != float(final.label_assignment_cost):
            ctx.violation("impl-violation", "returned cost is not the last round's cost", cfg, dict(sig, clause="returns-last"))
        for k, m in enumerate(res.markov_random_fields):
            if m is not final.clusters[k].train_inverse and not np.array_equal(m, final.clusters[k].train_inverse):
                ctx.violation("impl-violation", f"returned MRF {k} is not the last round's MRF", cfg, dict(sig, clause="returns-last"))
                break
        ev_opt = rounds[-1][-2]
        for k, m in enumerate(res.markov_random_fields):
            if not np.array_equal(m, ev_opt["out_snap"]["clusters"][k]["train"]):
                ctx.violation("impl-violation", f"returned MRF {k} was not fitted in the last round", cfg, dict(sig, clause="returns-last"))
                break
    return labs


def run(ctx):
    common.setup_repo_import()
    from fast_ticc import cluster_label_assignment as cla

    if ctx.replay is not None:
        scripts = [ctx.replay] if ctx.replay.get("scripted") else []
        cfgs = [] if ctx.replay.get("scripted") else [ctx.replay]
    else:
        scripts = [c for c in ctx.corpus if c.get("scripted")] + [gen_script(ctx.rng) for _ in range(40 if ctx.quick() else 500)]
        cfgs = [c for c in ctx.corpus if not c.get("scripted")] + [tu.gen_config(ctx.rng) for _ in range(16 if ctx.quick() else 200)]
        # data with a flat-lined stretch (exactly repeated rows): a cluster made of identical windows is NOT under-populated
        cfgs += [tu.flat_config(ctx.rng) for _ in range(3 if ctx.quick() else 30)]
        n_plain = len(cfgs)
        # small-amplitude data, light penalty, regimes alike in level: NEGATIVE costs under several clusters at once
        cfgs += tu.concentrated_configs(ctx.rng, 4 if ctx.quick() else 40)
        # a covariance floor that really zeroes entries, with a LOW switching cost (labels contested): the model that is
        # scored, the model that is returned and every quantity derived from them (log-determinants) must be the filtered one
        for j in range(4 if ctx.quick() else 30):
            fc = tu.gen_config(ctx.rng, joint=False)
            for k_ in ("dtype", "completion", "flat"):
                fc.pop(k_, None)
            fc.update({"N": 2, "W": 2, "K": 2, "regimes": ctx.rng.choice([2, 3]), "beta": ctx.rng.choice([0.5, 1.0]),
                       "eps": ctx.rng.choice([0.2, 0.3, 0.1]), "lam": ctx.rng.choice([0.0, 0.01, 0.05]), "m": 5,
                       "limit": ctx.rng.choice([3, 6, 10]), "floor_contested": True})
            fc["lens"] = [1 + ctx.rng.randint(160, 210)]
            cfgs.append(fc)
        for i, c in enumerate(cfgs[:n_plain]):
            if i % 3 == 2:
                # the solver tasks of a round complete OUT OF ORDER (as with a real multi-worker pool); >= 3 clusters so
                # that a later task can be done while an earlier one is still running
                c["completion"] = ["reverse", "rotate", ctx.rng.randrange(1000)][(i // 3) % 3]
                c["K"] = max(3, c["K"])
            if i % 2 == 1 and not c["joint"] and "beta_vector_seed" not in c:
                c["beta_vector_seed"] = ctx.rng.randrange(2 ** 31)     # per-pair switching cost with zeros mixed in
                c["regimes"] = 4                                       # more regimes than clusters: labels are contested
                c["K"] = 2 if i % 4 == 1 else c["K"]

    # ---------------- (a) scripted histories through the real loop
    T, N, W, K = 70, 2, 2, 3
    lines = [f"mainloop {s['limit']} {s['cyc']} {show_list(s['script'])} x x" for s in scripts]
    outs = ctx.driver.run(lines)
    import random as pyrandom
    for s, mo in zip(scripts, outs):
        r = pyrandom.Random(s["seed"])
        data = tu.make_series(r, T, N, regimes=3, seg=(10, 25))
        pool = labelling_pool(r, T - W + 1, K)
        counter = {"j": 0}
        orig = cla.predict_cluster_labels

        def scripted_relabel(model, test_data):
            out = orig(model, test_data)
            j = counter["j"]
            idx = s["script"][j % len(s["script"])] if s["cyc"] else s["script"][min(j, len(s["script"]) - 1)]
            out.point_labels = list(pool[idx])
            counter["j"] = j + 1
            return out
        tu.seed_all(s["seed"])
        err = res = None
        with tu.patched(cla, "predict_cluster_labels", scripted_relabel):
            with tu.Trace(capture_kernel=False, max_rounds=s["limit"] + 3) as tr:
                try:
                    res = tu.run_single(data, window_size=W, num_clusters=K, label_switching_cost=5.0,
                                        min_cluster_size=3, iteration_limit=s["limit"])
                except Exception as e:
                    err = e
                except tu.RunawayLoop as e:
                    err = e
        ctx.count(f"script:{s['style']}")
        if isinstance(err, tu.RunawayLoop):
            ctx.violation("impl-violation", f"iteration_limit={s['limit']} not honoured on a scripted label history: {err}",
                          s, {"site": "main-loop", "clause": "bounds"})
            ctx.case(("script", tuple(s["script"]), s["cyc"], s["limit"]), nontrivial=True)
            continue
        if err is not None:
            ctx.count("scripted_raised:" + type(err).__name__)
            ctx.case(("script", tuple(s["script"]), s["limit"], s["cyc"]))
            continue
        labs = check_trace(ctx, s, tr, res, s["limit"])
        parts = mo.split(" ")
        if parts[0] != "ok" or labs is None:
            if labs is not None:
                ctx.violation("correspondence-break", "model loop failed on a fault-free script", dict(s, model=mo))
            continue
        m_rounds, m_final, m_trace, m_hist = int(parts[1]), int(parts[2]), parts[3], common.parse_list(parts[4])
        impl_trace = ",".join(e["phase"] for e in tr.events)
        impl_hist = [(m_hist[j] if j < len(m_hist) and l == pool.get(m_hist[j]) else -1) for j, l in enumerate(labs)]
        if (len(labs) != m_rounds or impl_trace != m_trace or impl_hist != m_hist
                or [int(x) for x in res.point_labels if int(x) >= 0] != pool[m_final]):
            ctx.violation("correspondence-break", "main-loop model vs fit_stacked_data on a scripted history",
                          dict(s, impl_rounds=len(labs), impl_hist=impl_hist, model=mo))
        if any(i >= 100 for i in s["script"]):
            ctx.count("scripts_with_repopulation")
        ctx.case(("script", tuple(s["script"]), s["limit"], s["cyc"]), nontrivial=len(labs) >= 2,
                 sample={"limit": s["limit"], "script": s["script"], "cyc": s["cyc"], "rounds": len(labs)}
                 if len(ctx.samples) < 4 else None)

    # ---------------- (b) traced real runs
    real_lines, real_meta = [], []
    whole_lines, whole_meta = [], []
    for cfg in cfgs:
        cfg_run = dict(cfg)
        if cfg.get("beta_vector_seed") is not None:
            rs_b = np.random.RandomState(cfg["beta_vector_seed"])
            npts_b = cfg["lens"][0] - cfg["W"] + 1
            bvec = np.round(rs_b.uniform(1, 30, size=npts_b) * 4) / 4
            bvec[rs_b.rand(npts_b) < 0.15] = 0.0
            cfg_run["beta"] = bvec
        with tu.record_label_assignments() as assign_log:
            res, tr, err, series = tu.execute(cfg_run)
        if err is None and tr is not None:
            # the returned labelling must be a minimum-cost labelling for the returned model: recompute the last
            # round's cost table from the fitted (mean, MRF) of that round and solve it independently
            from props import c05
            from fast_ticc import data_preparation as dp0
            rounds0 = tr.rounds()
            if rounds0 and [e["phase"] for e in rounds0[-1]][-2:] == ["opt", "relabel"]:
                snap = rounds0[-1][-2]["out_snap"]
                stk = dp0.stack_training_data_multiple_series(series, cfg["W"])
                try:
                    tab = np.array([[-c05.indep_ll(stk[p_], np.atleast_1d(cs["mean"]), np.atleast_2d(cs["train"]))
                                     for cs in snap["clusters"]] for p_ in range(stk.shape[0])])
                    bb = cfg_run["beta"]
                    bvals = [float(x) for x in bb] if isinstance(bb, np.ndarray) else [float(bb)] * stk.shape[0]
                    if cfg["joint"] and len(series) > 1:
                        tab = None        # joint boundary pricing is C07's (known finding K1)
                    if tab is not None and np.all(np.isfinite(tab)):
                        if int(np.sum(np.sum(tab < 0, axis=1) >= 2)) > 0:
                            ctx.count("runs_with_windows_of_negative_cost_under_several_clusters")
                        opt_cost, _ = oracles.textbook_dp_float(tab, np.array(bvals))
                        lab_final = [int(x) for x in rounds0[-1][-1]["out"].point_labels]
                        got_cost = oracles.path_cost_float(tab, bvals, lab_final)
                        if got_cost > opt_cost + 1e-7 * (1 + abs(opt_cost)):
                            ctx.violation("impl-violation",
                                          f"the returned labelling costs {got_cost} under the returned model; a labelling of cost {opt_cost} exists",
                                          cfg, {"site": "main-loop", "clause": "returned-labelling-optimal"})
                        rep_cost = float(res.label_assignment_cost)
                        if abs(rep_cost - got_cost) > 1e-7 * (1 + abs(got_cost)):
                            ctx.violation("impl-violation",
                                          f"the reported cost {rep_cost} is not the cost {got_cost} of the returned labelling under the "
                                          "returned model (means and Markov random fields as returned)",
                                          cfg, {"site": "main-loop", "clause": "reported-cost-is-returned-model-cost"})
                        ctx.count("returned_labelling_optimality_checked")
                except np.linalg.LinAlgError:
                    pass
        if err is None and tr is not None and cfg.get("completion") is None and len(whole_lines) < (8 if ctx.quick() else 60):
            from fast_ticc import data_preparation as dp
            stacked = dp.stack_training_data_multiple_series(series, cfg["W"])
            if stacked.shape[0] * stacked.shape[1] <= 1500:
                built = replay_run.build_line(cfg, tr, stacked, list(assign_log)) if tr.kernel_calls else None
                if built is not None:
                    whole_lines.append(built[0])
                    whole_meta.append((cfg, tr, built[1], built[2]))
        if isinstance(err, tu.RunawayLoop):
            ctx.violation("impl-violation", f"iteration_limit={cfg['limit']} not honoured: {err}", cfg,
                          {"site": "main-loop", "clause": "bounds"})
            ctx.case(("cfg", repr(sorted(cfg.items()))), nontrivial=True)
            continue
        if err is not None:
            ctx.count("runs_raised:" + type(err).__name__)
            ctx.case(("cfg", repr(sorted(cfg.items()))))
            continue
        labs = check_trace(ctx, cfg, tr, res, cfg["limit"])
        if labs is None:
            continue
        if tr.kernel_calls and tr.kernel_calls[-1]["labels"] != labs[-1]:
            ctx.violation("impl-violation", "returned labelling is not what the labelling step produced for the returned model",
                          cfg, {"site": "main-loop", "clause": "returns-last"})
        # the same history through the loop model: ids of the distinct per-round labellings
        ids, script = {}, []
        for l in labs:
            script.append(ids.setdefault(tuple(l), len(ids) + 1))
        real_lines.append(f"mainloop {cfg['limit']} 0 {show_list(script)} x x")
        real_meta.append((cfg, script, ",".join(e["phase"] for e in tr.events)))
        ctx.count("real_runs")
        ctx.count("real_converged" if len(labs) < cfg["limit"] else "real_hit_limit")
        ctx.case(("cfg", repr(sorted(cfg.items()))), nontrivial=len(labs) >= 2,
                 sample={"limit": cfg["limit"], "rounds": len(labs), "joint": cfg["joint"]} if len(ctx.samples) < 6 else None)

    for (cfg, script, impl_trace), mo in zip(real_meta, ctx.driver.run(real_lines)):
        parts = mo.split(" ")
        # the model, fed the labellings the real run produced, must stop where the real run stopped
        # (unless the real run's history is shorter than the limit only because it converged: same thing)
        if parts[0] != "ok" or int(parts[1]) != len(script) or parts[3] != impl_trace or \
                common.parse_list(parts[4]) != script:
            ctx.violation("correspondence-break", "main-loop model vs fit_stacked_data on a real run's label history",
                          dict(cfg, script=script, impl_trace=impl_trace, model=mo))

    # ---------------- whole-run replay: the real run must be a run of the composed Lean model
    for (cfg, tr, impl_labels, betas), mo in zip(whole_meta, ctx.driver.run(whole_lines)):
        verdict = replay_run.compare(ctx, cfg, tr, mo, impl_labels, betas)
        ctx.count("whole_run_replay:" + verdict)

    # ---------------- failing first round: an initial labelling that leaves a cluster without windows.  The model's
    # statistics phase fails ("empty-cluster", first_round_empty_cluster_iff); the real run must raise (the size
    # assertion of the statistics phase) before any optimisation, never return a result.
    if ctx.replay is None:
        import random as pyrandom2
        from fractions import Fraction
        from fast_ticc import data_preparation as dp2
        e_lines, e_meta = [], []
        for rep in range(4 if ctx.quick() else 40):
            r = pyrandom2.Random(ctx.rng.randrange(2 ** 31))
            K2, W2, N2 = r.choice([2, 3, 4]), r.choice([1, 2]), r.choice([1, 2])
            data = tu.make_series(r, 30 + W2, N2, regimes=2, seg=(8, 15))
            npts = data.shape[0] - W2 + 1
            empty_k = r.randrange(K2)
            others = [k for k in range(K2) if k != empty_k]
            init = [r.choice(others) for _ in range(npts)] if rep % 4 else \
                [others[i % len(others)] for i in range(npts)]
            if rep % 4 == 3:
                init = [i % K2 for i in range(npts)]       # control: no empty cluster, the run must complete
            with tu.patched(cla, "build_initial_clusters", lambda num_clusters, training_data, _i=init: list(_i)):
                tu.seed_all(rep)
                err = res = None
                with tu.Trace(capture_kernel=False, max_rounds=5) as tr0:
                    try:
                        with tu.quiet():
                            res = tu.run_single(data, window_size=W2, num_clusters=K2, label_switching_cost=3.0,
                                                min_cluster_size=2, iteration_limit=2)
                    except Exception as e:
                        err = e
            has_empty = any(init.count(k) == 0 for k in range(K2))
            ctx.count("first_round_empty:" + ("raised" if err is not None else "returned"))
            if has_empty and err is None:
                ctx.violation("impl-violation", "a run whose initial labelling leaves a cluster without windows returned a result",
                              {"init": init, "K": K2}, {"site": "main-loop", "clause": "empty-initial-cluster"})
            if has_empty and err is not None and any(e["phase"] == "opt" for e in tr0.events):
                ctx.violation("impl-violation", "an empty initial cluster reached the optimisation phase",
                              {"init": init, "K": K2}, {"site": "main-loop", "clause": "empty-initial-cluster"})
            stacked = dp2.stack_training_data(data, W2)
            fr = lambda x: common.frac_str(Fraction(float(x)))
            # (limit 1 on the model side: only the first round is compared, no solver oracles are supplied)
            e_lines.append(f"replayrun {npts} {stacked.shape[1]} {K2} 2 1 1/2 0 {show_list([3.0] * npts, fr)} "
                           f"{show_list(stacked.tolist(), lambda row: show_list(row, fr), ';')} {show_list(init)} -")
            e_meta.append((has_empty, err, init, K2))
            ctx.case(("empty-init", rep, K2, tuple(init)), nontrivial=has_empty)
        for (has_empty, err, init, K2), mo in zip(e_meta, ctx.driver.run(e_lines)):
            model_fails = mo.startswith("err empty-cluster")
            if model_fails != has_empty or (model_fails and err is None):
                ctx.violation("correspondence-break", "whole-run model vs implementation on an initial labelling with an empty cluster "
                              f"(model: {mo[:40]}, implementation raised: {type(err).__name__ if err else None})", {"init": init, "K": K2})

"""C11 — compressed-matrix and Toeplitz-class index maps are exact bijections."""
import numpy as np

import common
from common import show_list

LEVEL = "proof"
LEAN_PROPS = ["FastTicc.Props.C11", "FastTicc.Props.OptPhase"]
LEAN_HELPERS = ["FastTicc.Proofs.Index"]
LEAN_TRANSLATED = {"FastTicc.Props.TrIndex": ["_size_including_this_row", "_elements_in_row_after_target", "_compressed_index",
                                             "_block_start_coordinates", "_unique_variable_locations",
                                             "locations_compressed", "locations_index_slices"],
                   "FastTicc.Props.TrCompress": ["_upper_triangle_indices", "_uncompress_upper_triangle", "_upper_to_full",
                                                 "compress_matrix", "reinflate_matrix"]}
RULE = ("exhaustive enumeration: every matrix size n <= Nmax for the compression maps "
        "(every (r,c) pair), every (N,W) with N<=10, W<=14 for the class maps (every class); "
        "a case is one (n) or one (N,W) shape; non-trivial = n>=2 resp. N*W>=2; distinct by shape")
EXPLANATION = ("Theorems (FastTicc/Props/C11.lean) prove the bijection / partition claims for all sizes; "
               "the correspondence compares the model's executable index maps with the real helpers "
               "exhaustively on the property's own finite domain, and a direct oracle re-checks the "
               "partition / round-trip claims on the implementation's outputs.")
ASSUMPTIONS = ["float sqrt in _full_matrix_size is modelled by the integer square root",
               "(inf+inf)-inf = NaN and -0.0 -> +0.0 on the diagonal are outside the model (exact arithmetic)"]


def run(ctx):
    common.setup_repo_import()
    from fast_ticc import matrix_compression as mc
    from fast_ticc.admm import unique_values as uv

    if ctx.replay is not None:
        shapes_n = [ctx.replay["n"]] if "n" in ctx.replay else []
        shapes_nw = [tuple(ctx.replay["NW"])] if "NW" in ctx.replay else []
    else:
        nmax = 150 if ctx.quick() else 400
        shapes_n = list(range(0, nmax + 1))
        shapes_nw = [(N, W) for N in range(1, 11) for W in range(1, 15)]
        # a few LARGE shapes beyond the exhaustive domain (matrix sizes past 255 and 256: index arithmetic in a narrow
        # integer type, table-driven rewrites and caches first go wrong at sizes like these)
        shapes_nw += [(32, 8), (73, 5)] if ctx.quick() else [(32, 8), (64, 4), (73, 5), (16, 16), (100, 3), (51, 5)]
        shapes_n += [255, 256, 257, 365] if ctx.quick() else [255, 256, 257, 300, 365, 400]
        ctx.exhaustive = True
        for c in ctx.corpus:
            if "n" in c and c["n"] not in shapes_n:
                shapes_n.append(c["n"])
            if "NW" in c and tuple(c["NW"]) not in shapes_nw:
                shapes_nw.append(tuple(c["NW"]))

    def clear():
        # every memoised helper of the two modules, whatever it is called
        for mod in (mc, uv):
            for obj in list(vars(mod).values()):
                if callable(getattr(obj, "cache_clear", None)):
                    obj.cache_clear()

    def impl_triu_of(n):
        """row-major order of the compressed form, observed through the PUBLIC compress_matrix."""
        if n == 0:
            return []
        code = np.arange(n * n, dtype=float).reshape(n, n)
        v = mc.compress_matrix(code)
        return [(int(x) // n, int(x) % n) for x in v]

    def impl_full_size(m, n_expected):
        f = getattr(mc, "_full_matrix_size", None)
        if f is not None:
            return int(f(m))
        return int(mc.reinflate_matrix(np.zeros(m)).shape[0]) if m > 0 else 0

    cidx_fn = getattr(uv, "_compressed_index", None)
    uvl_fn = getattr(uv, "_unique_variable_locations", None)
    bsc_fn = getattr(uv, "_block_start_coordinates", None)
    for name, f in (("_compressed_index", cidx_fn), ("_unique_variable_locations", uvl_fn), ("_block_start_coordinates", bsc_fn)):
        if f is None:
            ctx.notes.append(f"private helper unique_values.{name} not found: observed through the public list functions only")

    # ------------------------------------------------------------ compression maps
    model_n_cidx = 40 if ctx.quick() else 70     # all (r,c) through the model up to this n
    model_n_mat = 10 if ctx.quick() else 16      # reinflate/compress through the model
    lines, meta = [], []
    for n in shapes_n:
        lines.append(f"triu {n}")
        meta.append(("triu", n))
        lines.append(f"fullsize {n * (n + 1) // 2}")
        meta.append(("fullsize", n))
        if n <= model_n_cidx:
            for r in range(n):
                for c in range(n):
                    lines.append(f"cidx {r} {c} {n}")
                    meta.append(("cidx", n, r, c))
    model_out = dict(zip(meta, ctx.driver.run(lines)))

    gen_cidx, gen_comp, gen_reinf = [], [], []
    for pass_no in range(2):        # caches cleared / not cleared
        if pass_no == 0:
            clear()
        for n in shapes_n:
            bad = None
            impl_triu = impl_triu_of(n)
            want = model_out[("triu", n)]
            got = show_list(impl_triu, lambda p: f"{p[0]}:{p[1]}")
            if got != want:
                ctx.violation("correspondence-break", "triuIdx vs _upper_triangle_indices", {"n": n})
                bad = "triu"
            # oracle: row-major upper triangle, each once
            expect = [(r, c) for r in range(n) for c in range(r, n)]
            if impl_triu != expect:
                ctx.violation("impl-violation", "upper-triangle index list is not the row-major upper triangle",
                              {"n": n}, {"site": "triu"})
            m = n * (n + 1) // 2
            fs = impl_full_size(m, n)
            if str(int(fs)) != model_out[("fullsize", n)]:
                ctx.violation("correspondence-break", "fullSize vs _full_matrix_size", {"n": n})
            if int(fs) != n:
                ctx.violation("impl-violation", f"_full_matrix_size({m}) = {fs}, expected {n}",
                              {"n": n}, {"site": "fullsize"})
            # closed-form index == rank, for every (r, c)
            rank = {p: k for k, p in enumerate(impl_triu)}
            for r in (range(n) if cidx_fn is not None else ()):
                for c in range(n):
                    try:
                        k = cidx_fn(r, c, n)
                        s = str(int(k))
                        if not isinstance(k, int):
                            s = "nonint"
                    except IndexError:
                        k, s = None, "err"
                    if n <= 40 and s != "nonint" and pass_no == 0:
                        gen_cidx.append((f"{r} {c} {n}", "err IndexError" if s == "err" else "ok " + s, {"n": n, "r": r, "c": c}))
                    if n <= model_n_cidx and s != model_out[("cidx", n, r, c)]:
                        ctx.violation("correspondence-break", "compressedIndex? vs _compressed_index",
                                      {"n": n, "r": r, "c": c, "impl": s})
                    if c >= r:
                        if k is None or rank[(r, c)] != k:
                            ctx.violation("impl-violation",
                                          f"_compressed_index({r},{c},{n}) = {k}, rank is {rank[(r, c)]}",
                                          {"n": n, "r": r, "c": c}, {"site": "cidx"})
                    elif k is not None:
                        ctx.violation("impl-violation",
                                      f"_compressed_index({r},{c},{n}) below the diagonal did not raise",
                                      {"n": n, "r": r, "c": c}, {"site": "cidx-lower"})
            # round trips on the implementation (integer-valued: float arithmetic exact)
            if n >= 1:
                rs = np.random.RandomState(ctx.seed * 7919 + n)
                A = rs.randint(-1000, 1000, size=(n, n)).astype(float)
                S = np.triu(A) + np.triu(A, 1).T
                v = mc.compress_matrix(S)
                back = mc.reinflate_matrix(v)
                if v.shape != (m,) or not np.array_equal(back, S) or not np.array_equal(back, back.T):
                    ctx.violation("impl-violation", "reinflate(compress(S)) != S", {"n": n}, {"site": "roundtrip"})
                w = rs.randint(-1000, 1000, size=(m,)).astype(float)
                if not np.array_equal(mc.compress_matrix(mc.reinflate_matrix(w)), w):
                    ctx.violation("impl-violation", "compress(reinflate(v)) != v", {"n": n}, {"site": "roundtrip"})
                # … and on arbitrary finite doubles: random bit patterns over the whole exponent range (subnormals, the
                # smallest normals, up to 2^1022 so that doubling the diagonal cannot overflow), compared by value
                bits = rs.randint(0, 2 ** 63 - 1, size=(n, n), dtype=np.int64)
                F = bits.view(np.float64).copy()
                F[~np.isfinite(F) | (np.abs(F) > 2.0 ** 1022)] = 1.5
                F[rs.rand(n, n) < 0.3] *= -1.0
                tiny = np.array([5e-324, 1.5e-323, 2.2250738585072014e-308, 2.225073858507202e-308, 3e-310, -7e-320])
                for i_ in range(n):
                    if rs.rand() < 0.5:
                        F[i_, i_] = tiny[rs.randint(len(tiny))]
                SF = np.triu(F) + np.triu(F, 1).T
                vf = mc.compress_matrix(SF)
                if not np.array_equal(mc.reinflate_matrix(vf), SF):
                    ctx.violation("impl-violation", "reinflate(compress(S)) != S for a symmetric matrix of finite doubles "
                                  "(subnormal / extreme magnitudes)", {"n": n}, {"site": "roundtrip-float"})
                if not np.array_equal(mc.compress_matrix(mc.reinflate_matrix(vf.copy())), vf):
                    ctx.violation("impl-violation", "compress(reinflate(v)) != v for a vector of finite doubles",
                                  {"n": n}, {"site": "roundtrip-float"})
                if n <= 12 and pass_no == 0:
                    # the functions TRANSLATED from the source, on the same (integer-valued) inputs
                    rows_ = lambda M_: show_list([[int(x) for x in r_] for r_ in M_], lambda r_: show_list(r_), ";")
                    gen_comp.append((rows_(S), "ok " + show_list([int(x) for x in v]), {"n": n}))
                    gen_reinf.append((show_list([int(x) for x in w]), "ok " + rows_(mc.reinflate_matrix(w)), {"n": n}))
                if n <= model_n_mat and pass_no == 0:
                    cells = [int(x) for x in S.reshape(-1)]
                    o = ctx.driver.run([f"compress {n} {show_list(cells)}",
                                        f"reinflate {show_list([int(x) for x in w])}"])
                    if o[0] != show_list([int(x) for x in v]):
                        ctx.violation("correspondence-break", "compress vs compress_matrix", {"n": n})
                    want_re = f"{n} " + show_list([int(x) for x in mc.reinflate_matrix(w).reshape(-1)])
                    if o[1] != want_re:
                        ctx.violation("correspondence-break", "reinflate vs reinflate_matrix", {"n": n})
            if pass_no == 0:
                ctx.case(("n", n), nontrivial=n >= 2,
                         sample={"n": n, "triu_len": len(impl_triu)} if n in (0, 1, 3, 150) else None)
                ctx.count("compression_sizes")
            if bad:
                break

    # the closed-form index TRANSLATED from the source (Generated/Kernels.lean) on the same arguments
    ctx.gen_compare("_compressed_index", gen_cidx or [])
    ctx.gen_compare("compress_matrix", gen_comp + [("1,2,3;4,5,6", "err RuntimeError", {})])
    ctx.gen_compare("reinflate_matrix", gen_reinf)

    # ------------------------------------------------------------ class maps
    lines, meta = [], []
    for (N, W) in shapes_nw:
        lines.append(f"classes {N} {W}")
        meta.append(("classes", N, W))
        for b in range(W):
            for r in range(N):
                for c in range(N):
                    lines.append(f"positions {b} {r} {c} {N} {W}")
                    meta.append(("pos", N, W, b, r, c))
        lines.append(f"blockstarts {W} {N} {W}")      # block id out of range -> err
        meta.append(("bs_err", N, W))
    lines.append("blockstarts 0 0 3")
    meta.append(("bs_err0",))
    model_out = dict(zip(meta, ctx.driver.run(lines)))

    gen_loc, gen_slices = [], []
    for pass_no in range(2):
        if pass_no == 0:
            clear()
        for (N, W) in shapes_nw:
            n = N * W
            # classes iterated by the Z update: b<W, r<N, c in [r if b==0 else 0, N)
            cls = [(b, r, c) for b in range(W) for r in range(N)
                   for c in range(r if b == 0 else 0, N)]
            if show_list(cls, lambda k: f"{k[0]}:{k[1]}:{k[2]}") != model_out[("classes", N, W)]:
                ctx.violation("correspondence-break", "classes", {"NW": [N, W]})
            seen = {}
            for b in range(W):
                for r in range(N):
                    for c in range(N):
                        (rows, cols) = uv.locations_index_slices(b, r, c, N, W)
                        rows, cols = [int(x) for x in rows], [int(x) for x in cols]
                        # positions are taken from the PUBLIC slice form only (a private helper may legitimately
                        # return any iterable, e.g. a generator, as long as its public callers materialise it)
                        pos = list(zip(rows, cols))
                        in_upper = (b > 0) or (c >= r)
                        if pass_no == 0:
                            gen_slices.append((f"{b} {r} {c} {N} {W}", "ok " + show_list(rows) + " " + show_list(cols),
                                               {"NW": [N, W], "class": [b, r, c]}))
                        if in_upper:
                            comp = list(uv.locations_compressed(b, r, c, N, W))
                            comp_s = show_list([int(x) for x in comp])
                            if pass_no == 0:
                                gen_loc.append((f"{b} {r} {c} {N} {W}", "ok " + comp_s, {"NW": [N, W], "class": [b, r, c]}))
                        else:
                            # below-diagonal entries of the diagonal block are outside the
                            # upper triangle: the compressed form must refuse them
                            try:
                                uv.locations_compressed(b, r, c, N, W)
                                comp, comp_s = None, "noerr"
                            except IndexError:
                                comp, comp_s = None, None
                                if pass_no == 0:
                                    gen_loc.append((f"{b} {r} {c} {N} {W}", "err IndexError", {"NW": [N, W], "class": [b, r, c]}))
                        got = (show_list(pos, lambda p: f"{p[0]}:{p[1]}") + " "
                               + (comp_s if comp_s is not None else "") + " "
                               + show_list(rows) + " " + show_list(cols))
                        want = model_out[("pos", N, W, b, r, c)]
                        if comp_s is None:
                            # model lists totalised indices for the out-of-triangle class; compare the rest
                            wp = want.split(" ")
                            want = wp[0] + "  " + wp[2] + " " + wp[3]
                        if got != want:
                            ctx.violation("correspondence-break", "positions/locCompressed/locSlices",
                                          {"NW": [N, W], "class": [b, r, c], "impl": got, "model": want})
                        if not in_upper:
                            continue
                        # direct oracle
                        if len(pos) != W - b:
                            ctx.violation("impl-violation", f"class {(b, r, c)} has {len(pos)} positions, expected {W - b}",
                                          {"NW": [N, W], "class": [b, r, c]}, {"site": "class-size"})
                        if list(zip(rows, cols)) != [tuple(p) for p in pos]:
                            ctx.violation("impl-violation", "slice form and position list differ",
                                          {"NW": [N, W], "class": [b, r, c]}, {"site": "slices"})
                        if len(comp) != len(pos):
                            ctx.violation("impl-violation", f"class {(b, r, c)}: compressed form lists {len(comp)} indices for "
                                          f"{len(pos)} positions", {"NW": [N, W], "class": [b, r, c]}, {"site": "loc-compressed"})
                        for (p, k) in zip(pos, comp):
                            R, C = p
                            if not (0 <= R <= C < n):
                                ctx.violation("impl-violation", f"position {p} outside the upper triangle",
                                              {"NW": [N, W], "class": [b, r, c]}, {"site": "upper"})
                                continue
                            if (R % N, C % N, C // N - R // N) != (r, c, b):
                                ctx.violation("impl-violation", f"position {p} is not entry {(r, c)} of block {b}",
                                              {"NW": [N, W], "class": [b, r, c]}, {"site": "toeplitz"})
                            rank = R * n - R * (R - 1) // 2 + (C - R)
                            if k != rank:
                                ctx.violation("impl-violation", f"compressed index {k} of {p} != rank {rank}",
                                              {"NW": [N, W], "class": [b, r, c]}, {"site": "loc-compressed"})
                            if p in seen:
                                ctx.violation("impl-violation", f"position {p} in two classes {seen[p]} and {(b, r, c)}",
                                              {"NW": [N, W]}, {"site": "disjoint"})
                            seen[p] = (b, r, c)
            if len(seen) != n * (n + 1) // 2:
                ctx.violation("impl-violation", f"classes cover {len(seen)} of {n * (n + 1) // 2} positions",
                              {"NW": [N, W]}, {"site": "cover"})
            # argument checks
            try:
                if bsc_fn is not None:
                    bsc_fn(W, N, W)
                else:
                    uv.locations_index_slices(W, 0, 0, N, W)
                s = "noerr"
            except IndexError:
                s = "err"
            if s != model_out[("bs_err", N, W)]:
                ctx.violation("correspondence-break", "blockStarts? error behaviour", {"NW": [N, W]})
            if pass_no == 0:
                ctx.case(("NW", N, W), nontrivial=N * W >= 2,
                         sample={"N": N, "W": W, "classes": len(cls)} if (N, W) in ((2, 3), (10, 14)) else None)
                ctx.count("class_shapes")
    # the class maps TRANSLATED from the source on the same arguments (incl. the documented argument errors)
    ctx.gen_compare("locations_compressed", gen_loc + [("5 0 0 2 3", "err IndexError", {}), ("0 0 0 0 3", "err ValueError", {})])
    ctx.gen_compare("locations_index_slices", gen_slices + [("5 0 0 2 3", "err IndexError", {}), ("0 0 0 0 3", "err ValueError", {}),
                                                            ("-1 0 0 2 3", "err IndexError", {})])
    try:
        if bsc_fn is not None:
            bsc_fn(0, 0, 3)
        else:
            uv.locations_index_slices(0, 0, 0, 0, 3)
        s = "noerr"
    except ValueError:
        s = "err"
    if ctx.replay is None and s != model_out[("bs_err0",)]:
        ctx.violation("correspondence-break", "blockStarts? N=0 behaviour", {})

    if ctx.replay is None or "fault" in (ctx.replay or {}):
        fault_section(ctx, mc, uv, clear)
    if ctx.replay is None or "threads" in (ctx.replay or {}):
        reentrancy_section(ctx, mc)


def reentrancy_section(ctx, mc):
    """RE-ENTRANCY: the maps are exact for every SCHEDULE - several threads of one process compress / re-inflate matrices
    of the same size at the same time (a thread pool of solvers, a server handling two requests), each on its own data;
    every result must be the exact map of its caller's argument.  Thread switches are made frequent for the duration."""
    import sys
    import threading
    plans = [ctx.replay["threads"]] if ctx.replay is not None else ([(60, 4, 120), (6, 4, 400)] if ctx.quick() else
                                                                   [(60, 4, 400), (6, 4, 2000), (25, 8, 400), (120, 3, 100)])
    old_iv = sys.getswitchinterval()
    sys.setswitchinterval(1e-6)
    try:
        for (n, nthreads, iters) in plans:
            m = n * (n + 1) // 2
            vecs = [np.arange(m, dtype=float) * (t + 1) + 1000.0 * t for t in range(nthreads)]
            fulls = []
            for v in vecs:
                M = np.zeros((n, n))
                k = 0
                for r in range(n):
                    M[r, r:] = v[k:k + n - r]
                    M[r:, r] = v[k:k + n - r]
                    k += n - r
                fulls.append(M)
            bad = []
            start = threading.Barrier(nthreads)

            def work(t):
                start.wait()
                for _ in range(iters):
                    got = mc.reinflate_matrix(vecs[t].copy())
                    if not np.array_equal(got, fulls[t]):
                        bad.append((t, "reinflate_matrix"))
                        return
                    back = mc.compress_matrix(fulls[t].copy())
                    if not np.array_equal(back, vecs[t]):
                        bad.append((t, "compress_matrix"))
                        return
            ths = [threading.Thread(target=work, args=(t,)) for t in range(nthreads)]
            for th in ths:
                th.start()
            for th in ths:
                th.join()
            if bad:
                ctx.violation("impl-violation", f"{bad[0][1]} returned another caller's matrix / a wrong result to thread {bad[0][0]} while "
                              f"{nthreads} threads worked on {n} x {n} matrices at the same time",
                              {"threads": [n, nthreads, iters]}, {"site": "re-entrancy"})
            ctx.count("concurrent_thread_rounds", nthreads * iters)
            ctx.case(("threads", n, nthreads, iters), nontrivial=True)
    finally:
        sys.setswitchinterval(old_iv)


def fault_section(ctx, mc, uv, clear):
    """TRANSIENT FAULTS: the maps must be exact after any history, including one in which an allocation failed once.
    For every NumPy function the two modules call (read off their source), on a first use of a size (memo tables
    cleared): the function raises MemoryError exactly once; each public operation may raise, but whatever it RETURNS -
    during the fault and on every later call - must be the exact map (checked against positions enumerated in pure
    Python, not against NumPy's own index helpers)."""
    import ast
    import inspect
    import numpy
    names = set()
    for mod in (mc, uv):
        try:
            tree = ast.parse(inspect.getsource(mod))
        except (OSError, SyntaxError):
            continue
        for node in ast.walk(tree):
            if isinstance(node, ast.Call) and isinstance(node.func, ast.Attribute) and isinstance(node.func.value, ast.Name) \
                    and node.func.value.id in ("np", "numpy"):
                names.add(node.func.attr)
    faults = (MemoryError,)
    shapes = [(1, 3), (2, 3), (1, 1)] if ctx.quick() else [(1, 3), (2, 3), (1, 1), (3, 2), (2, 5), (1, 7)]
    targets = [ctx.replay["fault"]] if ctx.replay is not None else sorted(names)
    for name in targets:
        orig = getattr(numpy, name, None)
        if orig is None or not callable(orig):
            continue
        for (N, W) in shapes:
            n = N * W
            rs = np.random.RandomState(n * 31 + 7)
            A = rs.randn(n, n)
            M = (A + A.T) / 2
            want_v = [float(M[r, c]) for r in range(n) for c in range(r, n)]
            v = rs.randn(n * (n + 1) // 2)
            want_M = [[0.0] * n for _ in range(n)]
            k = 0
            for r in range(n):
                for c in range(r, n):
                    want_M[r][c] = want_M[c][r] = float(v[k])
                    k += 1
            cls = [(b, r, c) for b in range(W) for r in range(N) for c in range(N) if not (b == 0 and c < r)]
            want_pos = {}
            for (b, r, c) in cls:
                pos = [(r + j * N, c + (j + b) * N) for j in range(W - b)]
                rank = {}
                kk = 0
                for rr in range(n):
                    for cc in range(rr, n):
                        rank[(rr, cc)] = kk
                        kk += 1
                want_pos[(b, r, c)] = (pos, [rank[p_] for p_ in pos])

            def judge(phase):
                bad = []
                ops = (("compress_matrix", lambda: [float(x) for x in mc.compress_matrix(M.copy())], want_v),
                       ("reinflate_matrix", lambda: [[float(x) for x in row] for row in mc.reinflate_matrix(v.copy())], want_M))
                for (opn, f, want) in ops:
                    try:
                        got = f()
                    except faults:
                        ctx.count("fault_calls_raised")
                        continue
                    if got != want:
                        bad.append(f"{opn} returned a wrong result {phase} (size {n})")
                for (b, r, c) in cls:
                    try:
                        lc = [int(x) for x in uv.locations_compressed(b, r, c, N, W)]
                        sl = uv.locations_index_slices(b, r, c, N, W)
                        sl = list(zip([int(x) for x in sl[0]], [int(x) for x in sl[1]]))
                    except faults:
                        ctx.count("fault_calls_raised")
                        continue
                    if lc != want_pos[(b, r, c)][1] or sl != want_pos[(b, r, c)][0]:
                        bad.append(f"position lists of class {(b, r, c)} wrong {phase} (N={N}, W={W})")
                        break
                return bad

            clear()
            state = {"armed": True}

            def once(*a, _orig=orig, _st=state, **k_):
                if _st["armed"]:
                    _st["armed"] = False
                    raise MemoryError(f"injected: numpy.{name} could not allocate")
                return _orig(*a, **k_)
            setattr(numpy, name, once)
            try:
                bad = judge(f"while numpy.{name} failed once with MemoryError")
            finally:
                setattr(numpy, name, orig)
            fired = not state["armed"]
            bad += judge(f"AFTER numpy.{name} had failed once with MemoryError on the first use of this size")
            clear()
            for b_ in bad[:1]:
                ctx.violation("impl-violation", b_, {"fault": name, "NW": [N, W]}, {"site": "transient-fault"})
            ctx.count("fault_histories")
            if fired:
                ctx.count("fault_histories_in_which_the_fault_fired")
            ctx.case(("fault", name, N, W), nontrivial=fired)

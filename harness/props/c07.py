"""C07 — jointly labelled series are independent across series boundaries."""
import itertools

import numpy as np

import common
import oracles
import replay_run
import ticc_util as tu
from common import show_list

LEVEL = "proof"
LEAN_PROPS = ["FastTicc.Props.C07", "FastTicc.Props.C07mask", "FastTicc.Props.C01", "FastTicc.Props.C06", "FastTicc.Props.C10", "FastTicc.Props.FrontEnd"]
LEAN_HELPERS = ["FastTicc.Proofs.Stack", "FastTicc.Proofs.Viterbi", "FastTicc.Proofs.Joint"]
LEAN_TRANSLATED = {"FastTicc.Props.TrMask": ["label_switching_cost_template"],
                   "FastTicc.Props.TrStackMulti": ["stack_training_data", "stack_training_data_multiple_series"]}
RULE = ("(a) mask helper on all tuples of stacked lengths (quick: 1..4 series, lengths 1..6; thorough: 1..5 series, "
        "lengths 1..7) plus random longer tuples; (b) complete joint runs with 1..6 series of unequal length, observing "
        "the switching cost and cost table that reach the labelling step in every round; non-trivial = >=2 series and "
        "beta>0; distinct by tuple / configuration")
EXPLANATION = ("Lean: mask_zero_iff_boundary (all tuples of positive lengths), switch_cost_masked + viterbi_optimal "
               "(the kernel with the masked beta minimises and reports assignment + within-series switching), "
               "mask_single (one series = single-series front end), stackMulti_row_in_one_series. Correspondence: "
               "mask helper vs model exhaustively; oracle: what reaches the kernel in joint runs, optimality of the "
               "returned labelling for the within-series objective on the recorded cost table, single-vs-joint equality.")
ASSUMPTIONS = ["within-series optimality on recorded float tables is judged with tolerance 1e-9 relative"]


def run(ctx):
    common.setup_repo_import()
    from fast_ticc import data_preparation as dp, main_loop

    # ---------------- (a) mask helper
    if ctx.replay is not None:
        tuples = [tuple(ctx.replay["lens_tuple"])] if "lens_tuple" in ctx.replay else []
        cfgs = [ctx.replay] if "lens_tuple" not in ctx.replay else []
    else:
        maxn, maxl = (4, 6) if ctx.quick() else (5, 7)
        tuples = [t for n in range(1, maxn + 1) for t in itertools.product(range(1, maxl + 1), repeat=n)]
        for _ in range(100 if ctx.quick() else 2000):
            tuples.append(tuple(ctx.rng.randint(1, 60) for _ in range(ctx.rng.randint(1, 6))))
        tuples += [tuple(c["lens_tuple"]) for c in ctx.corpus if "lens_tuple" in c]
        n = 16 if ctx.quick() else 200
        cfgs = [c for c in ctx.corpus if "lens_tuple" not in c]
        for i in range(n):
            cfg = tu.gen_config(ctx.rng, joint=True)
            if cfg["beta"] == 0:
                cfg["beta"] = 5.0
            if i % 3 == 1:
                # the DOCUMENTED way to keep series independent: the caller passes beta x boundary mask as a per-pair
                # vector; one member series has exactly W rows (a single stacked window, isolated by two zeros)
                cfg["masked_vector"] = True
                if i % 2 == 1:
                    cfg["logging"] = "DEBUG"      # with a listener on the library's diagnostics
                    cfg["limit"] = max(2, cfg["limit"])
                cfg["lens"][ctx.rng.randrange(len(cfg["lens"]))] = cfg["W"]
                if len(cfg["lens"]) == 1:
                    cfg["lens"].append(cfg["W"] + 40)
                if sum(l - cfg["W"] + 1 for l in cfg["lens"]) < 12 * cfg["K"]:
                    cfg["lens"].append(cfg["W"] + 16 * cfg["K"])
            cfgs.append(cfg)
        # series that are views of ONE parent array, listed out of their order in it
        for j in range(3 if ctx.quick() else 12):
            pv = tu.gen_config(ctx.rng, joint=True)
            for k_ in ("dtype", "completion", "flat"):
                pv.pop(k_, None)
            pv.update({"beta": 5.0, "limit": 2, "K": 2, "W": max(2, pv["W"]), "parent_views": True})
            pv["lens"] = [pv["W"] + ctx.rng.randint(20, 45) for _ in range(ctx.rng.choice([2, 3]))]
            cfgs.append(pv)
        # scripted every run (not left to the draw): (1) two one-series joint calls with a switching cost other than
        # the default — they must equal the single-series front end; (2) two joint calls with the same number of series,
        # the same window and the same TOTAL number of windows but a different split
        for j in range(2):
            c1 = tu.gen_config(ctx.rng, joint=True)
            c1.update({"lens": [c1["W"] + 40 + 7 * j], "beta": [5.0, 25.0][j], "limit": 3})
            cfgs.append(c1)
        c2 = tu.gen_config(ctx.rng, joint=True)
        c2.update({"beta": 5.0, "limit": 2, "K": 2, "W": max(2, c2["W"])})      # (with W = 1 every split stacks alike)
        c2["lens"] = [c2["W"] + 12, c2["W"] + 33]
        cfgs.append(c2)
        cfgs.append(dict(c2, lens=[c2["W"] + 33, c2["W"] + 12], data_seed=c2["data_seed"] + 1))
        cfgs.append(dict(c2, lens=[c2["W"] + 22, c2["W"] + 23], data_seed=c2["data_seed"] + 2))
        # series of exactly EQUAL shape (two, and three): the joint brick must still be series after series
        cfgs.append(dict(c2, lens=[c2["W"] + 21, c2["W"] + 21], data_seed=c2["data_seed"] + 3))
        cfgs.append(dict(c2, lens=[c2["W"] + 14] * 3, data_seed=c2["data_seed"] + 4, K=2))
    outs = ctx.driver.run([f"mask {show_list(t)}" for t in tuples])
    gen_cases = []
    for t, out in zip(tuples, outs):
        got = dp.label_switching_cost_template(list(t))
        if all(float(x) == int(x) for x in got):
            gen_cases.append((show_list(t), "ok " + show_list([int(x) for x in got]), {"lens_tuple": list(t)}))
        ends = set(np.cumsum(t)[:-1] - 1)
        want = [0.0 if i in ends else 1.0 for i in range(sum(t))]
        if got.shape != (sum(t),) or [float(x) for x in got] != want:
            ctx.violation("impl-violation",
                          f"mask for lengths {t}: zeros at {[i for i, x in enumerate(got) if x == 0]}, boundary pairs start at {sorted(int(e) for e in ends)}",
                          {"lens_tuple": list(t)}, {"site": "mask-helper"})
        if show_list([int(x) for x in got]) != out:
            ctx.violation("correspondence-break", "maskTemplate vs label_switching_cost_template", {"lens_tuple": list(t)})
        ctx.case(("mask", t), nontrivial=len(t) >= 2, sample={"lens": list(t), "mask": [int(x) for x in got]} if t in ((3, 2, 4),) else None)
    ctx.gen_compare("label_switching_cost_template", gen_cases)
    ctx.count("mask_tuples", len(tuples))
    # series with NO full window (exactly W-1 rows: stacked length 0) among the others.  Whatever the helper does with
    # them, a pair of consecutive points of ONE series must keep its switching cost and a pair straddling two series
    # must lose it; the final slot prices no pair and is not constrained.
    if ctx.replay is None or "lens_with_empty" in (ctx.replay or {}):
        ztuples = [tuple(ctx.replay["lens_with_empty"])] if ctx.replay is not None else \
            [t for n in range(2, 5) for t in itertools.product(range(0, 4), repeat=n) if 0 in t and sum(t) >= 2]
        for t in ztuples:
            try:
                got = [float(x) for x in dp.label_switching_cost_template(list(t))]
            except Exception:
                ctx.count("mask_tuples_with_empty_series_raised")
                continue
            owner = [si for si, L in enumerate(t) for _ in range(L)]
            ok = len(got) == sum(t) and all(got[i] == (1.0 if owner[i] == owner[i + 1] else 0.0) for i in range(sum(t) - 1))
            if not ok:
                ctx.violation("impl-violation",
                              f"mask for stacked lengths {t} (a series without a full window among them): {got}; a within-series "
                              "pair lost its switching cost or a boundary pair kept it", {"lens_with_empty": list(t)},
                              {"site": "mask-helper"})
            ctx.count("mask_tuples_with_empty_series")

    # ---------------- (b) joint runs
    completed = 0
    for cfg in cfgs:
        captured = {}
        orig_fit = main_loop.fit_stacked_data

        def fit(args, stacked):
            captured["stacked"] = np.array(stacked, copy=True)
            captured["beta_arg"] = args.label_switching_cost
            return orig_fit(args, stacked)
        cfg_run = cfg
        if cfg.get("masked_vector"):
            lens0 = [l - cfg["W"] + 1 for l in cfg["lens"]]
            m0 = np.ones(sum(lens0))
            m0[np.cumsum(lens0)[:-1] - 1] = 0
            cfg_run = dict(cfg, beta=float(cfg["beta"]) * m0)
            ctx.count("runs_with_caller_masked_vector")
            if cfg.get("logging"):
                ctx.count("runs_with_caller_masked_vector_and_debug_logging")
        with tu.patched(main_loop, "fit_stacked_data", fit):
            res, tr, err, series = tu.execute(cfg_run, record_states=False)
        ctx.count(f"series:{len(cfg['lens'])}")
        if cfg.get("parent_views"):
            ctx.count("runs_on_views_of_one_parent_array")
        if err is not None:
            ctx.count("runs_raised:" + type(err).__name__)
            ctx.case(("cfg", repr(sorted(cfg.items()))))
            continue
        completed += 1
        W, K, beta = cfg["W"], cfg["K"], float(cfg["beta"])
        lens = [s.shape[0] - W + 1 for s in series]
        mask = np.ones(sum(lens))
        mask[np.cumsum(lens)[:-1] - 1] = 0
        # windows never mix two series
        parts = [dp.stack_training_data(s, W) for s in series]
        if not np.array_equal(captured["stacked"], np.vstack(parts), equal_nan=True):
            ctx.violation("impl-violation", "the main loop received stacked windows that are not the per-series stackings",
                          cfg, {"site": "windows-mix"})
        # what reached the labelling step, in every round
        for call in tr.kernel_calls:
            kb = call["beta"]
            table = call["table"]
            labels = call["labels"]
            within_b = beta * mask
            opt_within, _ = oracles.textbook_dp_float(table, within_b)
            cost_within = oracles.path_cost_float(table, within_b, labels)
            if isinstance(kb, np.ndarray) and kb.shape == mask.shape:
                if not np.array_equal(kb, within_b):
                    ctx.violation("impl-violation", "per-pair switching cost at the labelling step is not beta x boundary mask",
                                  cfg, {"site": "joint-boundary", "cause": "wrong-vector"})
                    break
                if not oracles.rel_close(cost_within, opt_within) or not oracles.rel_close(call["cost"], cost_within):
                    ctx.violation("impl-violation", "joint labelling is not optimal / cost not reported for the within-series objective",
                                  cfg, {"site": "joint-boundary", "cause": "suboptimal"})
                    break
            else:
                # a scalar reached the kernel: boundaries are priced unless there is only one series
                if len(lens) >= 2 and beta > 0:
                    allb = np.full(sum(lens), float(kb))
                    opt_all, _ = oracles.textbook_dp_float(table, allb)
                    cost_all = oracles.path_cost_float(table, allb, labels)
                    all_ok = oracles.rel_close(cost_all, opt_all) and oracles.rel_close(call["cost"], cost_all) \
                        and float(kb) == beta
                    ctx.violation("impl-violation",
                                  "scalar switching cost reached the labelling step of a joint run with >=2 series: "
                                  "series-boundary pairs are priced",
                                  cfg, {"site": "joint-boundary", "cause": "scalar-beta-reached-kernel",
                                        "all_pairs_optimal": bool(all_ok)})
                    break
                elif not (oracles.rel_close(cost_within, opt_within) and oracles.rel_close(call["cost"], cost_within)):
                    ctx.violation("impl-violation", "labelling not optimal for the within-series objective",
                                  cfg, {"site": "joint-boundary", "cause": "suboptimal"})
                    break
        # one series: same result as the single-series front end (same RNG state)
        if len(series) == 1:
            tu.seed_all(cfg["seed"])
            single = tu.run_single(series[0], **tu.config_kwargs(cfg))
            a, b = tu.result_fields(res), tu.result_fields(single)
            a["point_labels"] = a["point_labels"][0]
            if a != b:
                diff = [k for k in a if a[k] != b.get(k)]
                ctx.violation("impl-violation", f"joint labelling of a single series differs from the single-series front end in {diff}",
                              cfg, {"site": "single-vs-joint"})
            ctx.count("single_vs_joint_compared")
        ctx.case(("cfg", repr(sorted(cfg.items()))), nontrivial=len(lens) >= 2 and beta > 0,
                 sample={"lens": cfg["lens"], "W": W, "K": K, "beta": beta, "rounds": len(tr.kernel_calls)}
                 if completed <= 3 else None)
    ctx.extra["runs_completed"] = completed

    # ---------------- front-end replay: FrontEnd.joint (Lean, masked = false: the code as it is) on the raw series of real
    # joint calls — the model stacks each series on its own, concatenates, fits, splits and pads
    if ctx.replay is None:
        replay_run.front_end_section(ctx, [c for c in cfgs if c.get("joint")], 5 if ctx.quick() else 40)

"""C03 — every MRF is a finite, symmetric, positive-definite precision matrix."""
import math
import types
import warnings
from fractions import Fraction

import numpy as np

import common
import oracles
import ticc_util as tu
from common import show_list, frac_str

LEVEL = "other"
LEAN_PROPS = ["FastTicc.Props.C03", "FastTicc.Props.C11", "FastTicc.Props.C02matrix", "FastTicc.Props.OptPhase"]
LEAN_HELPERS = ["FastTicc.Proofs.Admm", "FastTicc.Proofs.AdmmMatrix"]
LEAN_TRANSLATED = {"FastTicc.Props.TrFloor": ["_zero_small_elements"]}
RULE = ("(a) the X-update eigenvalue map over 26 orders of magnitude of d (model at Float in both algebraic forms, real "
        "x_update_prox on 1x1 problems); (b) the optimiser entry point on covariances scaled 1e-12..1e12: full rank, rank "
        "deficient (fewer points than dimensions, duplicated points, constant sensors, single point); (c) complete runs on "
        "scaled data incl. forced singleton initial clusters: every float field finite; (d) the eps>0 floor on raw "
        "optimiser output; non-trivial = scale != 1 or rank deficient; distinct by input")
EXPLANATION = ("Theorems (Lean, over the reals / ordered fields): eig_pos (the X-update's eigenvalues are > 0 for every real "
               "d, rho>0), eig_forms_equal / eig_repaired_pos (the cancellation-free form is the same number), "
               "eig_stationary, reinflate_symm (C11), floor_filter_no_small / keeps_large / id_or_zero / zero. Explored, not "
               "proved: IEEE behaviour — the same model definitions run at Float exhibit the cancellation of the pinned form "
               "(d + sqrt(d^2+4rho) = 0.0 at d=-1e9) and the implementation is swept over 24 orders of magnitude with "
               "finiteness / symmetry / Cholesky / slogdet oracles. eigh is trusted.")
ASSUMPTIONS = ["numpy.linalg.eigh returns an orthonormal eigenbasis", "Cholesky success is used as the positive-definiteness test"]


def bits_to_float(s):
    import struct
    return struct.unpack('<d', struct.pack('<Q', int(s)))[0]


def spd_check(theta):
    theta = np.atleast_2d(np.asarray(theta, dtype=float))
    if not np.all(np.isfinite(theta)):
        return "non-finite entries"
    if not np.array_equal(theta, theta.T):
        return "not symmetric"
    try:
        np.linalg.cholesky(theta)
    except np.linalg.LinAlgError:
        return "not positive definite (Cholesky fails)"
    if not math.isfinite(np.linalg.slogdet(theta)[1]):
        return "log-determinant not finite"
    return None


def gen_cov(rng, n):
    kind = rng.choice(["full", "few-points", "duplicates", "constant-sensor", "single-point", "diag", "correlated",
                       "mixed-scale", "mixed-scale"])
    rs = np.random.RandomState(rng.randrange(2 ** 31))
    if kind == "full":
        X = rs.randn(3 * n + 2, n)
    elif kind == "few-points":
        X = rs.randn(max(2, n // 2), n)
    elif kind == "duplicates":
        X = np.repeat(rs.randn(2, n), 3, axis=0)
    elif kind == "constant-sensor":
        X = rs.randn(3 * n, n)
        X[:, rs.randint(n)] = 3.0
    elif kind == "single-point":
        return kind, np.zeros((n, n))
    elif kind == "diag":
        return kind, np.diag(rs.uniform(0.1, 3, size=n))
    elif kind == "mixed-scale":
        # every sensor at its own scale between 1e-6 and 1e6 (variances 1e-12 .. 1e12 in ONE matrix)
        X = rs.randn(3 * n + 2, n) * (10.0 ** rs.choice([-6, -3, 0, 3, 5, 6], size=n))
        if n > 1 and rs.rand() < 0.5:
            X[:, rs.randint(n)] = 7.0
        return kind, np.atleast_2d(np.cov(X.T))
    else:
        z = rs.randn(4 * n, 1)
        X = z + 0.01 * rs.randn(4 * n, n)
    return kind, np.atleast_2d(np.cov(X.T))


def run(ctx):
    common.setup_repo_import()
    from fast_ticc import admm, matrix_compression as mc, graphical_lasso as gl, cluster_label_assignment as cla
    from fast_ticc.admm import solver

    # ---------------- (a) eigenvalue map
    ds = [s * 10.0 ** k for k in range(-13, 14) for s in (1.0, -1.0)] + [0.0]
    rhos = [1.0, 0.1, 10.0]
    if ctx.replay is None or ctx.replay.get("eig"):
        lines = [f"eigfloat {frac_str(Fraction(r))} {frac_str(Fraction(d))}" for r in rhos for d in ds]
        outs = ctx.driver.run(lines)
        i = 0
        pinned_lost = 0
        for r in rhos:
            for d in ds:
                ppos, rpos, pval, rval = outs[i].split(" ")
                i += 1
                if ppos == "false":
                    pinned_lost += 1
                x = solver.x_update_prox(np.array([[-d]]), np.array([[0.0]]), r)      # rho*0 - S = d
                e = float(np.asarray(x).reshape(-1)[0])
                case = {"eig": True, "rho": r, "d": d}
                if not (math.isfinite(e) and e > 0):
                    ctx.violation("impl-violation", f"X-update eigenvalue {e} for d={d}, rho={r} is not positive", case,
                                  {"site": "eig-positive"})
                if rpos != "true":
                    ctx.violation("correspondence-break", "model eigRepaired at Float not positive", case)
                elif e > 0 and not oracles.rel_close(e, bits_to_float(rval), 1e-13, 0):
                    ctx.violation("correspondence-break", f"eigRepaired (Float) {rval} vs x_update_prox {e}", case)
                ctx.case(("eig", r, d), nontrivial=abs(d) >= 1e6 or abs(d) <= 1e-6)
        ctx.extra["model_pinned_form_loses_positivity_at"] = pinned_lost
        ctx.count("eig_points", len(ds) * len(rhos))

    # ---------------- (a2) the X update on matrices with a MIXED spectrum (huge negative next to small / positive
    # eigenvalues, in any order): every eigenvalue of the result must be positive and equal the scalar map
    if ctx.replay is None:
        pool_d = [-1e12, -1e10, -3e8, -1e4, -1.0, -1e-6, 0.0, 1e-6, 2.0, 1e5, 1e9]
        for rep in range(40 if ctx.quick() else 400):
            n = ctx.rng.randint(2, 6)
            dvec = np.array([ctx.rng.choice(pool_d) for _ in range(n)])
            rho = ctx.rng.choice([0.1, 1.0, 10.0])
            X = mc.reinflate_matrix(solver.x_update_prox(-np.diag(dvec), np.zeros((n, n)), rho))
            try:
                ev = np.linalg.eigvalsh(X) if np.all(np.isfinite(X)) else np.full(n, np.nan)
            except np.linalg.LinAlgError:
                ev = np.full(n, np.nan)
            want = sorted(float((d + math.sqrt(d * d + 4 * rho)) / (2 * rho)) if d >= 0
                          else float(4 * rho / (math.sqrt(d * d + 4 * rho) - d) / (2 * rho)) for d in dvec)
            if not (np.all(np.isfinite(X)) and np.all(ev > 0)) or \
                    not all(oracles.rel_close(a, b, 1e-9, 0) for a, b in zip(sorted(ev), want)):
                ctx.violation("impl-violation", f"X update with mixed spectrum d={dvec.tolist()}, rho={rho}: eigenvalues {sorted(ev)} "
                              f"are not the positive values {want}", {"eig": True, "mixed": dvec.tolist(), "rho": rho},
                              {"site": "eig-positive-mixed"})
            ctx.case(("eigmix", tuple(dvec), rho), nontrivial=True)
        ctx.count("mixed_spectrum_cases", 40 if ctx.quick() else 400)

    # ---------------- (b) optimiser entry point across scales and ranks
    if ctx.replay is not None:
        cov_cases = [ctx.replay] if ctx.replay.get("cov") else []
        cfgs = [ctx.replay] if ctx.replay.get("lens") else []
        floors = [ctx.replay] if ctx.replay.get("floor") else []
    else:
        cov_cases = [c for c in ctx.corpus if c.get("cov")]
        scales = [-12, -9, -6, -3, 0, 3, 6, 9, 12]
        for _ in range(45 if ctx.quick() else 600):
            N = ctx.rng.choice([1, 2, 2, 3])
            W = ctx.rng.choice([1, 2, 3])
            cov_cases.append({"cov": True, "N": N, "W": W, "log10scale": ctx.rng.choice(scales),
                              "lam": ctx.rng.choice([0.11, 0.0, 1.0, 0.01]), "seed": ctx.rng.randrange(2 ** 31)})
        cfgs = [c for c in ctx.corpus if c.get("lens")]
        for i in range(8 if ctx.quick() else 80):
            cfg = tu.gen_config(ctx.rng)
            cfg["scale"] = 10.0 ** ctx.rng.choice([-6, -3, 0, 3, 4.5, 6])
            cfg["singleton_init"] = (i % 2 == 0)
            cfgs.append(cfg)
        # many dimensions at the extreme scales (NW = 60, sensor variances up to 1e12)
        cfgs += tu.high_dimensional_configs(ctx.rng, (1e6, 10 ** 4.5) if ctx.quick() else (1e6, 10 ** 4.5, 1e3, 1e-2, 1e5))
        # exactly collinear sensors with a light penalty: solves that run out of their budget (the return path after the
        # last sweep, not the one after the stopping rule), with and without a listener on the DEBUG diagnostics
        cfgs += tu.degenerate_configs(ctx.rng, 6 if ctx.quick() else 24)
        floors = [{"floor": True, "n": ctx.rng.randint(1, 6), "seed": ctx.rng.randrange(2 ** 31),
                   "eps": str(Fraction(ctx.rng.choice([0, 1, 3, 8]), 16))} for _ in range(60 if ctx.quick() else 600)]
    import random as pyrandom
    for c in cov_cases:
        r = pyrandom.Random(c["seed"])
        n = c["N"] * c["W"]
        kind, S = gen_cov(r, n)
        S = S * 10.0 ** (c["log10scale"] if kind != "mixed-scale" else 0)
        with warnings.catch_warnings():
            warnings.simplefilter("ignore")
            res = admm.admm_optimize_theta(S.copy(), c["lam"], c["W"], c["N"])
        theta = mc.reinflate_matrix(res.theta)
        why = spd_check(theta)
        if why:
            ctx.violation("impl-violation", f"optimiser returned a matrix that is {why} (cov kind {kind}, scale 1e{c['log10scale']})",
                          dict(c, kind=kind), {"site": "mrf-spd"})
        ctx.count("cov:" + kind)
        ctx.count(f"scale:1e{c['log10scale']}")
        ctx.case(("cov", repr(sorted(c.items()))), nontrivial=(c["log10scale"] != 0 or kind not in ("full", "diag")),
                 sample=dict(c, kind=kind, min_diag=float(np.min(np.diag(theta)))) if len(ctx.samples) < 4 else None)

    # ---------------- (c) complete runs on scaled data, incl. singleton initial clusters
    for cfg in cfgs:
        patch = None
        if cfg.get("singleton_init"):
            orig = cla.build_initial_clusters

            def init(K, data, _orig=orig):
                lab = [int(x) for x in _orig(K, data)]
                # make cluster K-1 a singleton (keep every cluster non-empty)
                counts = [lab.count(k) for k in range(K)]
                big = max(range(K), key=lambda k: counts[k])
                first = True
                for i, x in enumerate(lab):
                    if x == K - 1 and K - 1 != big:
                        if first:
                            first = False
                        else:
                            lab[i] = big
                if (K - 1) not in lab:
                    lab[0] = K - 1
                return lab
            patch = tu.patched(cla, "build_initial_clusters", init)
        with (patch if patch is not None else tu.patched(cla, "build_initial_clusters", cla.build_initial_clusters)):
            res, tr, err, series = tu.execute(cfg, capture_kernel=True)
        if err is not None:
            ctx.count("runs_raised:" + type(err).__name__)
            ctx.case(("cfg", repr(sorted(cfg.items()))))
            continue
        bad = []
        # "every MRF the library ... scores points against ... a finite log-determinant": the cost table handed to the
        # labelling step in EVERY round (minus the log-likelihood of each window under each cluster) must be finite
        for j, kc in enumerate(getattr(tr, "kernel_calls", []) or []):
            tab = np.asarray(kc["table"], dtype=float)
            if not np.all(np.isfinite(tab)):
                p_, k_ = [int(v) for v in np.argwhere(~np.isfinite(tab))[0]]
                bad.append(f"round {j}: the log-likelihood of window {p_} under cluster {k_} is {-tab[p_, k_]}")
                break
        for k, m in enumerate(res.markov_random_fields):
            why = spd_check(m)
            if why:
                bad.append(f"MRF {k} is {why}")
        for name in ("bayesian_information_criterion", "calinski_harabasz_index", "label_assignment_cost",
                     "overall_log_likelihood", "overall_log_likelihood_mean", "overall_log_likelihood_median"):
            v = float(getattr(res, name))
            if not math.isfinite(v) and not (name == "calinski_harabasz_index"):
                bad.append(f"{name} = {v}")
        if not all(math.isfinite(float(x)) for x in res.all_log_likelihood):
            bad.append("non-finite per-point log-likelihood")
        for b in bad[:2]:
            ctx.violation("impl-violation", f"completed run at data scale {cfg['scale']:g}"
                          f"{' with a singleton initial cluster' if cfg.get('singleton_init') else ''}: {b}",
                          cfg, {"site": "result-finite"})
        ctx.count("runs_checked")
        if cfg.get("logging"):
            ctx.count("runs_with_debug_logging")
        if cfg.get("duplicate_sensor"):
            ctx.count("runs_with_collinear_sensors")
        if cfg.get("singleton_init"):
            ctx.count("runs_singleton_init")
        ctx.case(("cfg", repr(sorted(cfg.items()))), nontrivial=cfg["scale"] != 1.0 or bool(cfg.get("singleton_init")))

    # ---------------- (c2) complete runs with a floor: returned MRFs = floor filter of the raw optimiser output
    if ctx.replay is None:
        for i in range(4 if ctx.quick() else 40):
            cfg = tu.gen_config(ctx.rng)
            cfg["eps"] = ctx.rng.choice([0.01, 0.05, 0.2])
            # the recorded solver calls are matched to the clusters by position, which needs in-order completion
            # (found by the thorough tier, session 4: with a scripted out-of-order completion the check compared
            # cluster k's MRF with another cluster's raw output - a false alarm of the check, not of the code)
            cfg.pop("completion", None)
            res, tr, err, series = tu.execute(cfg, record_states=False, capture_kernel=False)
            if err is not None or tr is None:
                ctx.count("floor_runs_raised")
                continue
            K = cfg["K"]
            raws = []
            # the wrapper records the arguments; recompute each raw result (the optimiser is deterministic)
            for call in tr.admm_calls[-K:]:
                with warnings.catch_warnings():
                    warnings.simplefilter("ignore")
                    raws.append(mc.reinflate_matrix(admm.admm_optimize_theta(call["cov_copy"], *call["args"][1:], **call["kwargs"]).theta))
            bad = None
            for k, (m, raw) in enumerate(zip(res.markov_random_fields, raws)):
                m = np.atleast_2d(m)
                for x, y in zip(m.reshape(-1), raw.reshape(-1)):
                    if 0 < abs(x) < cfg["eps"]:
                        bad = f"MRF {k} has an entry {x} strictly between 0 and eps={cfg['eps']}"
                    elif abs(y) >= cfg["eps"] and x != y:
                        bad = f"MRF {k}: an entry of magnitude >= eps is not what the optimiser produced ({x} vs {y})"
                    elif abs(y) < cfg["eps"] and x != 0:
                        bad = f"MRF {k}: an entry below eps was not zeroed ({x} from {y})"
            if bad:
                ctx.violation("impl-violation", f"run with covariance floor: {bad}", cfg, {"site": "floor-e2e"})
            ctx.count("floor_runs_checked")
            ctx.case(("floorrun", repr(sorted(cfg.items()))), nontrivial=True)

    # ---------------- (d) covariance floor on raw optimiser output
    if getattr(gl, "_reconstruct_optimized_matrix", None) is None:
        ctx.notes.append("private helper graphical_lasso._reconstruct_optimized_matrix not found: the helper-level floor "
                         "comparison is skipped; the floor is still checked end to end (c2)")
        floors = []
    lines = []
    raws = []
    if floors and ctx.replay is None:
        # value classes of the threshold itself: positive floors at and below machine epsilon, subnormal floors - with
        # entries on both sides of them (a floor is a floor whatever its magnitude; "practically zero" is not zero)
        for j, e_ in enumerate(["1e-16", "2e-16", "1e-17", "1e-300", "5e-324", "1e-12", "3e-8"] * (1 if ctx.quick() else 6)):
            floors.append({"floor": True, "n": 2 + j % 4, "seed": ctx.rng.randrange(2 ** 31), "eps": e_, "tiny": True})
    for c in floors:
        rs = np.random.RandomState(c["seed"])
        n = c["n"]
        m = n * (n + 1) // 2
        raw = np.round(rs.uniform(-1, 1, size=m) * 16) / 16
        raw[rs.rand(m) < 0.3] *= 0.125
        if c.get("tiny"):
            e0 = float(c["eps"])
            for i_ in range(m):
                u_ = rs.rand()
                if u_ < 0.3:
                    raw[i_] = e0 * float(rs.choice([0.25, 0.5, 0.75])) * float(rs.choice([-1, 1]))     # strictly inside
                elif u_ < 0.45:
                    raw[i_] = e0 * float(rs.choice([1.0, 2.0, 16.0])) * float(rs.choice([-1, 1]))      # on / above the floor
            ctx.count("floor_cases_with_tiny_thresholds")
        eps = float(Fraction(c["eps"])) if not c.get("tiny") else float(c["eps"])
        model = tu.real_model([np.eye(n)], [np.zeros(n)], 1, 4, eps=eps)
        keep = raw.copy()
        out = gl._reconstruct_optimized_matrix(model, raw)
        full = mc.reinflate_matrix(keep)
        ok = np.array_equal(raw, keep)
        for x, y in zip(out.reshape(-1), full.reshape(-1)):
            if 0 < abs(x) < eps or (abs(y) >= eps and x != y) or (x != y and x != 0):
                ok = False
        if not ok:
            ctx.violation("impl-violation", "covariance floor: an entry in (0,eps) survived, a large entry changed, or the raw result was written",
                          c, {"site": "floor"})
        lines.append(f"floor {frac_str(Fraction(eps))} {show_list([Fraction(float(v)) for v in full.reshape(-1)], frac_str)}")
        raws.append((c, out))
        ctx.case(("floor", repr(c)), nontrivial=eps > 0)
    for (c, out), mo in zip(raws, ctx.driver.run(lines)):
        if mo != show_list([Fraction(float(v)) for v in out.reshape(-1)], frac_str):
            ctx.violation("correspondence-break", "floorFilter vs _reconstruct_optimized_matrix", c)
    # the floor filter TRANSLATED from the source (Generated/Kernels.lean; theorem zero_small_elements_eq) against the
    # implementation's own helper on the same matrices, both values of its copy flag
    zse = getattr(gl, "_zero_small_elements", None)
    if zse is not None:
        gen_cases = []
        for c in floors:
            rs = np.random.RandomState(c["seed"] + 1)
            n = c["n"]
            A = np.round(rs.uniform(-1, 1, size=(n, n)) * 16) / 16
            A[rs.rand(n, n) < 0.3] *= 0.125
            eps = float(Fraction(c["eps"])) if not c.get("tiny") else float(c["eps"])
            if c.get("tiny"):
                A = A * eps * 4.0
            for flag in (True, False):
                try:
                    got = zse(A.copy(), eps, flag)
                except Exception:
                    continue
                rows_ = lambda M: show_list([[Fraction(float(v)) for v in r] for r in M], lambda r: show_list(r, frac_str), ";")
                gen_cases.append((f"{rows_(A)} {frac_str(Fraction(eps))} {'true' if flag else 'false'}", "ok " + rows_(got), c))
        ctx.gen_compare("_zero_small_elements", gen_cases)
    ctx.count("floor_cases", len(floors))

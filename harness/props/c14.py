"""C14 — results are reproducible and independent of process scheduling."""
import itertools
import multiprocessing
import os
import time
import warnings

import numpy as np

import common
import ticc_util as tu
from common import show_list

LEVEL = "other"
LEAN_PROPS = ["FastTicc.Props.C14", "FastTicc.Props.C20"]
LEAN_HELPERS = ["FastTicc.Proofs.MainLoop"]
RULE = ("complete results compared bitwise: (a) the same call twice from equal RNG states; (b) num_processors in {1,2,4,8} "
        "x multiprocessing off/on; (c) every permutation of the completion order of the K=3 optimisation tasks of a round, "
        "forced by per-task delays in a 4-worker pool; (d) after preceding calls with other (N,W) shapes (memo pollution), "
        "with the memo tables compared to un-memoised recomputation; non-trivial = schedule or configuration differs from "
        "the reference; distinct by (configuration, schedule)")
EXPLANATION = ("Theorems (Lean): gather_schedule_independent / gather_any_two_schedules (whatever order the K tasks complete "
               "in, gathering in cluster order yields f(0..K-1)), cache_transparent / cache_history_transparent (functools.cache "
               "with correct entries returns f(x) after any history of earlier calls), C20 gather_ok_iff. The run function of "
               "the model does not take the worker count. NOT proved: bitwise reproducibility of the floating-point "
               "computation (BLAS, fork, OS scheduling) — observed by bitwise comparison over worker counts, pool on/off, all "
               "completion orders and polluted caches.")
ASSUMPTIONS = ["BLAS runs single-threaded in the checks (OPENBLAS_NUM_THREADS=1)", "fork start method"]


def tu_digest_fields(fields):
    import hashlib
    return hashlib.sha1(repr(sorted((k, repr(v)) for k, v in fields.items())).encode()).hexdigest()


def run(ctx):
    common.setup_repo_import()
    import fast_ticc
    from fast_ticc import admm, matrix_compression as mc
    from fast_ticc.admm import unique_values as uv
    import random as pyrandom

    r0 = pyrandom.Random(ctx.seed + 14)
    cfgs = []
    if ctx.replay is not None:
        cfgs = [ctx.replay]
    else:
        for _ in range(2 if ctx.quick() else 8):
            cfg = tu.gen_config(ctx.rng, joint=False)
            cfg.update({"K": 3, "limit": min(cfg["limit"], 4), "lens": [cfg["W"] - 1 + ctx.rng.randint(70, 120)]})
            if len(cfgs) % 2 == 0:
                # more clusters than regimes: the mixture-model start depends on the generator state, so a result that
                # is (wrongly) a function of an earlier call on the same data shows
                cfg.update({"K": 4, "regimes": 2})
            cfgs.append(cfg)
        cfgs.append(tu.gen_config(ctx.rng, joint=True))
        # data with a flat-lined stretch: a cluster of identical windows has an exactly singular (zero) covariance, the
        # kind of input on which "robustness" clamps and in-place repairs act
        for w_ in (1, 2):
            fc = tu.flat_config(ctx.rng)
            fc.update({"K": 3, "W": w_, "lens": [w_ - 1 + ctx.rng.randint(120, 170)]})
            cfgs.append(fc)
        # two regimes that are exact copies up to a shift, one cluster too many: the donors of a repopulation TIE exactly
        cfgs += tu.twin_regime_configs(ctx.rng, 2 if ctx.quick() else 8)
        # a run that really repopulates a cluster (random donor draws): searched for, not hoped for
        rc = tu.find_repopulating_config(ctx.rng)
        if rc is not None:
            cfgs.append(rc)
            ctx.count("repopulating_config_found")

    heap_noise = []

    def call(cfg, nproc, mp):
        # unrelated activity earlier in the process: objects of assorted sizes that stay alive (and some that do not), so
        # that the addresses the next call's objects get - and every iteration order derived from identity hashes - differ
        # from one call to the next, as they do in a long-lived process
        heap_noise.append([bytearray(r0.randint(16, 400)) for _ in range(r0.randint(0, 60))])
        _junk = [object() for _ in range(r0.randint(0, 200))]
        if len(heap_noise) > 40:
            del heap_noise[r0.randrange(20)]
        series = tu.config_data(cfg)
        kw = tu.config_kwargs(cfg)
        kw["num_processors"] = nproc
        old = os.environ.pop("CUPCAKE_ENABLE_MULTIPROCESSING", None)
        if mp:
            os.environ["CUPCAKE_ENABLE_MULTIPROCESSING"] = "1"
        try:
            tu.seed_all(cfg["seed"])
            with tu.quiet(), tu.ambient(cfg), warnings.catch_warnings():
                warnings.simplefilter("ignore")
                r = fast_ticc.ticc_joint_labels(series, **kw) if cfg["joint"] else fast_ticc.ticc_labels(series[0], **kw)
            return tu.result_fields(r)
        except Exception as e:
            return ("raised", type(e).__name__, str(e)[:100])
        finally:
            os.environ.pop("CUPCAKE_ENABLE_MULTIPROCESSING", None)
            if old is not None:
                os.environ["CUPCAKE_ENABLE_MULTIPROCESSING"] = old

    def diff(a, b):
        if isinstance(a, tuple) or isinstance(b, tuple):
            return None if a == b else ["outcome"]
        d = [k for k in a if a[k] != b.get(k)]
        return d or None

    for cfg in cfgs:
        # (e) history independence against a FRESH process: before anything is computed for this configuration, fit
        # sibling problems of the same shape (same regime layout, values scaled by 1+2^-20; estimator flag flipped),
        # then fit the configuration itself and compare with the same call made in a fresh interpreter
        truth = tu.fresh_digest(cfg, common.REPO)
        nw_ = cfg["N"] * cfg["W"]
        for sib in (# the SAME data and hyper-parameters fitted from OTHER generator states first (a user trying seeds)
                    dict(cfg, seed=(cfg["seed"] * 31 + 7) % 2 ** 31), dict(cfg, seed=(cfg["seed"] * 17 + 3) % 2 ** 31),
                    dict(cfg, data_factor=1.0 + 2.0 ** -20), dict(cfg, biased=not cfg["biased"]),
                    # a sibling call that FAILS inside the main loop (penalty matrix of the wrong shape: the solver task
                    # raises IndexError, the loop's error path runs) — later calls must not notice
                    dict(cfg, lam=np.ones((nw_ - 1, nw_ - 1)))):
            out_sib = call(sib, 1, False)
            if isinstance(out_sib, tuple):
                ctx.count("failing_sibling_calls")
        got = call(cfg, 1, False)
        if isinstance(got, tuple) or tu_digest_fields(got) != truth:
            ctx.violation("impl-violation", "result differs from the same call in a fresh process after sibling fits of the same "
                          "shape were made earlier in this process", cfg, {"site": "history-dependence"})
        ctx.count("fresh_process_comparisons")
        ctx.case(("fresh", repr(sorted(cfg.items()))), nontrivial=True)
        ref = call(cfg, 1, False)
        # (a) same call again
        d = diff(ref, call(cfg, 1, False))
        if d:
            ctx.violation("impl-violation", f"two runs from equal RNG states differ in {d}", cfg, {"site": "reproducible"})
        ctx.case(("again", repr(sorted(cfg.items()))), nontrivial=True)
        if cfg.get("twin_regimes"):
            ctx.count("twin_regime_configs")
            for _rep in range(4):
                d = diff(ref, call(cfg, 1, False))
                if d:
                    ctx.violation("impl-violation", f"two runs from equal RNG states (unrelated allocations in between) differ in {d}",
                                  cfg, {"site": "reproducible"})
                    break
        # (b) worker counts x multiprocessing switch
        combos = [(1, True), (2, False), (4, True)] if ctx.quick() else [(n, m) for n in (1, 2, 4, 8) for m in (False, True)]
        for nproc, mp in combos:
            d = diff(ref, call(cfg, nproc, mp))
            if d:
                ctx.violation("impl-violation", f"result depends on num_processors={nproc}, multiprocessing={'on' if mp else 'off'}: {d}",
                              dict(cfg, nproc=nproc, mp=mp), {"site": "worker-count"})
            ctx.count(f"workers:{nproc}/{'on' if mp else 'off'}")
            ctx.case(("workers", nproc, mp, repr(sorted(cfg.items()))), nontrivial=True)
        # (c) all completion orders of the K tasks of every round
        if cfg["K"] == 3 and not cfg["joint"]:
            perms = list(itertools.permutations(range(3)))
            if ctx.quick():
                perms = [perms[i] for i in (1, 3, 5)] + [perms[ctx.rng.randrange(6)]]
            for perm in perms:
                counter = multiprocessing.Value("i", 0)
                orig = admm.admm_optimize_theta

                def delayed(*a, _perm=perm, _c=counter, _o=orig, **k):
                    with _c.get_lock():
                        i = _c.value
                        _c.value += 1
                    out = _o(*a, **k)
                    time.sleep(0.12 * _perm.index(i % 3))       # task (i % 3) finishes at rank perm.index
                    return out
                delayed.__module__ = "fast_ticc.admm"
                delayed.__qualname__ = delayed.__name__ = "admm_optimize_theta"
                with tu.patched(admm, "admm_optimize_theta", delayed):
                    got = call(cfg, 4, True)
                d = diff(ref, got)
                if d:
                    ctx.violation("impl-violation", f"result depends on the completion order {perm} of the optimisation tasks: {d}",
                                  dict(cfg, perm=list(perm)), {"site": "completion-order"})
                ctx.count("completion_orders")
                ctx.case(("perm", perm, repr(sorted(cfg.items()))), nontrivial=perm != (0, 1, 2),
                         sample={"completion_order": list(perm), "equal_to_reference": d is None} if len(ctx.samples) < 4 else None)
        # (d) memo pollution by earlier calls with other shapes
        for (N2, W2) in ((1, 1), (3, 2), (2, 5)):
            rs = np.random.RandomState(N2 * 10 + W2)
            n = N2 * W2
            with warnings.catch_warnings():
                warnings.simplefilter("ignore")
                admm.admm_optimize_theta(np.atleast_2d(np.cov(rs.randn(3 * n + 2, n).T)), np.full((n, n), 0.1), W2, N2, max_iterations=5)
        d = diff(ref, call(cfg, 1, False))
        if d:
            ctx.violation("impl-violation", f"result depends on calls made earlier in the same process: {d}", cfg, {"site": "memo-pollution"})
        ctx.case(("memo", repr(sorted(cfg.items()))), nontrivial=True)

    # ---------------- the whole ACCEPTED call surface: if a front end takes arbitrary keywords (**kwargs: aliases, legacy
    # spellings, pass-through options), every keyword name its module mentions is tried with a few values; a call that is
    # accepted must give the same result when it is made again, and the same result as in a fresh process
    import ast
    import inspect
    from fast_ticc import front_end as fe_mod
    takes_kw = [f for f in (fast_ticc.ticc_labels, fast_ticc.ticc_joint_labels)
                if any(p_.kind is inspect.Parameter.VAR_KEYWORD for p_ in inspect.signature(f).parameters.values())]
    ctx.count("front_ends_taking_arbitrary_keywords", len(takes_kw))
    if takes_kw and ctx.replay is None:
        try:
            tree = ast.parse(inspect.getsource(fe_mod))
            known_params = set()
            for f in (fast_ticc.ticc_labels, fast_ticc.ticc_joint_labels):
                known_params |= set(inspect.signature(f).parameters)
            cand = sorted({n_.value for n_ in ast.walk(tree) if isinstance(n_, ast.Constant) and isinstance(n_.value, str)
                           and n_.value.isidentifier() and n_.value not in known_params and len(n_.value) <= 40})
        except (OSError, SyntaxError):
            cand = []
        base = tu.gen_config(ctx.rng, joint=False)
        for k_ in ("dtype", "completion", "flat", "logging", "beta_form"):
            base.pop(k_, None)
        base.update({"K": 2, "W": 2, "N": 2, "limit": 3, "lens": [1 + 90], "beta": 5.0, "lam": 0.11})
        data0 = tu.config_data(base)[0]

        def kwcall(extra):
            tu.seed_all(base["seed"])
            try:
                with tu.quiet(), warnings.catch_warnings():
                    warnings.simplefilter("ignore")
                    return tu.result_fields(fast_ticc.ticc_labels(np.array(data0, copy=True), **dict(tu.config_kwargs(base), **extra)))
            except Exception as e:
                return ("raised", type(e).__name__, str(e)[:80])
        for name in cand[:60]:
            for val in (3.0, 2, True):
                first = kwcall({name: val})
                if isinstance(first, tuple):
                    continue                      # not an accepted keyword / value: nothing to compare
                ctx.count("extra_keywords_accepted")
                again = kwcall({name: val})
                other = kwcall({name: val})
                if again != first or other != first:
                    ctx.violation("impl-violation", f"ticc_labels(..., {name}={val!r}) returns a different result when the same call is made "
                                  "again in the same process", dict(base, extra_keyword=name, extra_value=repr(val)),
                                  {"site": "reproducible", "cause": "extra-keyword"})
                    break
                ctx.case(("extra-keyword", name, repr(val)), nontrivial=True)

    # memo tables hold exactly what the un-memoised helpers compute
    bad = 0
    for mod in (uv, mc):
        for name, fn in list(vars(mod).items()):
            if callable(getattr(fn, "cache_info", None)):
                ctx.count(f"memo_entries:{name}", fn.cache_info().currsize)
    for N in range(1, 4):
        for W in range(1, 6):
            for b in range(W):
                for r in range(N):
                    for c in range(N):
                        if b == 0 and c < r:
                            continue
                        if list(uv.locations_compressed(b, r, c, N, W)) != list(uv.locations_compressed.__wrapped__(b, r, c, N, W)):
                            bad += 1
                        a1 = uv.locations_index_slices(b, r, c, N, W)
                        a2 = uv.locations_index_slices.__wrapped__(b, r, c, N, W)
                        if (list(a1[0]), list(a1[1])) != (list(a2[0]), list(a2[1])):
                            bad += 1
    if bad:
        ctx.violation("impl-violation", f"{bad} memoised index lists differ from un-memoised recomputation", {}, {"site": "memo-content"})

    # scheduling skeleton: model vs the gather order
    outs = ctx.driver.run([f"complete 3 {show_list(p)}" for p in itertools.permutations(range(3))])
    if set(outs) != {"100,101,102"}:
        ctx.violation("correspondence-break", "complete (model) is not schedule independent", {"model": outs})

"""C04 — one label per input row; the unlabeled margin is exactly W-1 points."""
import numpy as np

import common
import replay_run
import ticc_util as tu
from common import show_list

LEVEL = "proof"
LEAN_PROPS = ["FastTicc.Props.C04", "FastTicc.Props.C10", "FastTicc.Props.C01", "FastTicc.Props.C11", "FastTicc.Props.C04b", "FastTicc.Props.FrontEnd", "FastTicc.Props.PyRange"]
LEAN_HELPERS = ["FastTicc.Proofs.Stack"]
LEAN_TRANSLATED = {"FastTicc.Props.TrPad": ["pad_missing_labels"], "FastTicc.Props.TrSplit": ["split_joint_labels"]}
RULE = ("(a) padding/splitting helpers: every W in [1,12] x label lengths 0..60 (exhaustive) and random joint splits; "
        "(b) complete runs of both front ends on random small data: N in [1,3], W in [1,7] odd and even, K in [2,4], "
        "1..6 series of unequal length from W upward; non-trivial = W>=2 (a margin exists) and, for joint runs, "
        ">=2 series; distinct by configuration")
EXPLANATION = ("Lean: pad_length/pad_front/pad_middle/pad_back/pad_marker_count/joint_result_* for all W>=1 and all "
               "length tuples (plus C01 label range, C11 fullSize_tri for the MRF shape). Correspondence: helpers vs "
               "model exactly; oracle: shapes, marker positions and label ranges of complete runs of both front ends.")
ASSUMPTIONS = ["a run that raises is outside the property (it quantifies over completed runs); such runs are counted"]


def check_result_shape(ctx, cfg, res, series):
    W, K, N = cfg["W"], cfg["K"], cfg["N"]
    front = (W - 1) // 2
    back = (W - 1) - front
    label_lists = res.point_labels if cfg["joint"] else [res.point_labels]
    if cfg["joint"] and len(label_lists) != len(series):
        ctx.violation("impl-violation", f"{len(label_lists)} label lists for {len(series)} series", cfg, {"site": "series-count"})
        return
    for s, labels in zip(series, label_lists):
        T = s.shape[0]
        labels = list(labels)
        if len(labels) != T:
            ctx.violation("impl-violation", f"{len(labels)} labels for a series of {T} rows", cfg, {"site": "label-count"})
            return
        head, mid, tail = labels[:front], labels[front:T - back], labels[T - back:] if back else []
        ok = all(int(x) == -1 for x in head) and all(int(x) == -1 for x in tail) and \
            all(float(x) == int(x) and 0 <= int(x) < K for x in mid)
        if not ok:
            ctx.violation("impl-violation",
                          f"margin/labels wrong: expected first {front} and last {back} to be -1 and the rest in [0,{K})",
                          dict(cfg, labels=[int(x) for x in labels]), {"site": "margin"})
            return
    mrfs = res.markov_random_fields
    if len(mrfs) != K or any(np.asarray(m).shape != (N * W, N * W) for m in mrfs):
        ctx.violation("impl-violation", "expected K Markov random fields of shape NW x NW", cfg, {"site": "mrf-shape"})
    if res.num_clusters != K or res.window_size != W:
        ctx.violation("impl-violation", "result does not echo K and W", cfg, {"site": "echo"})


def run(ctx):
    common.setup_repo_import()
    from fast_ticc import data_preparation as dp

    if ctx.replay is not None and "pad" in ctx.replay:
        pads = [tuple(ctx.replay["pad"])]
        cfgs = []
    elif ctx.replay is not None:
        pads, cfgs = [], [ctx.replay]
    else:
        pads = [(W, L) for W in range(1, 13) for L in range(0, 61)]
        n = 24 if ctx.quick() else 300
        cfgs = [c for c in ctx.corpus if "pad" not in c] + [tu.gen_config(ctx.rng) for _ in range(n)]

    if ctx.replay is None:
        # WIDE data: fewer rows than sensors (many channels, a short record) - rows are still time, columns still sensors
        for j in range(3 if ctx.quick() else 16):
            wc = tu.gen_config(ctx.rng, joint=(j % 3 == 2))
            for k_ in ("dtype", "completion", "flat"):
                wc.pop(k_, None)
            Nw = ctx.rng.choice([11, 14, 16])
            wc.update({"N": Nw, "W": ctx.rng.choice([1, 2]), "K": 2, "regimes": 2, "m": 2, "limit": 2, "lam": 0.11, "eps": 0,
                       "wide": True})
            wc["lens"] = [ctx.rng.randint(8, Nw - 1)] if not wc["joint"] else [ctx.rng.randint(8, Nw - 1), ctx.rng.randint(8, Nw - 1)]
            cfgs.append(wc)

    # ---------------- helpers, exhaustive over W x length
    lines, expect, gen_cases = [], [], []
    for (W, L) in pads:
        labels = [ctx.rng.randint(0, 3) for _ in range(L)]
        got = dp.pad_missing_labels(list(labels), W)
        front = (W - 1) // 2
        back = (W - 1) - front
        if not (len(got) == L + W - 1 and got[:front] == [-1] * front and got[front:front + L] == labels
                and got[front + L:] == [-1] * back):
            ctx.violation("impl-violation", "pad_missing_labels: wrong margin", {"pad": [W, L]}, {"site": "pad"})
        lines.append(f"pad {W} {show_list(labels)}")
        expect.append((W, L, show_list(got)))
        gen_cases.append((f"{show_list(labels)} {W}", "ok " + show_list(got), {"pad": [W, L]}))
        ctx.case(("pad", W, L), nontrivial=W >= 2 and L >= 1)
    for (W, L, want), out in zip(expect, ctx.driver.run(lines)):
        if out != want:
            ctx.violation("correspondence-break", "padMissing vs pad_missing_labels", {"pad": [W, L], "model": out, "impl": want})
    # the function TRANSLATED from the source (Generated/Kernels.lean) on the same inputs
    ctx.gen_compare("pad_missing_labels", gen_cases)
    ctx.count("pad_cases", len(pads))
    if pads and ctx.replay is None:
        ctx.exhaustive = False   # helper domain enumerated completely; complete runs are sampled

    # ---------------- complete runs of both front ends
    completed = 0
    for cfg in cfgs:
        res, tr, err, series = tu.execute(cfg, trace=False)
        ctx.count("runs_joint" if cfg["joint"] else "runs_single")
        if err is not None:
            ctx.count("runs_raised:" + type(err).__name__)
            ctx.case(("cfg", repr(sorted(cfg.items()))))
            continue
        completed += 1
        check_result_shape(ctx, cfg, res, series)
        ctx.count(f"W={cfg['W']}")
        if cfg.get("wide"):
            ctx.count("runs_with_fewer_rows_than_sensors")
        nontrivial = cfg["W"] >= 2 and (not cfg["joint"] or len(cfg["lens"]) >= 2)
        ctx.case(("cfg", repr(sorted(cfg.items()))), nontrivial,
                 sample={k: cfg[k] for k in ("joint", "N", "W", "K", "lens")} if completed <= 4 else None)
    ctx.extra["runs_completed"] = completed

    # ---------------- the same with a real worker pool (the documented switch on, several processors): joint calls whose
    # series come in an order that is neither ascending nor descending in length, and single-series calls
    if ctx.replay is None:
        for rep in range(3 if ctx.quick() else 16):
            jc = tu.gen_config(ctx.rng, joint=(rep % 3 != 2))
            jc.update({"limit": 2, "K": 2, "nproc": ctx.rng.choice([2, 3, 4]), "mp": True})
            jc.pop("completion", None)
            if jc["joint"]:
                ls = [jc["W"] + ctx.rng.randint(25, 80) for _ in range(ctx.rng.choice([3, 4]))]
                ls[0], ls[1] = min(ls[0], ls[1]), max(ls[0], ls[1]) + 7
                ls[2] = (ls[0] + ls[1]) // 2
                jc["lens"] = ls
            res, _tr, err, series = tu.execute(jc, trace=False)
            ctx.count("pool_runs_joint" if jc["joint"] else "pool_runs_single")
            if err is not None:
                ctx.count("pool_runs_raised:" + type(err).__name__)
                continue
            check_result_shape(ctx, jc, res, series)
            ctx.case(("pool", repr(sorted(jc.items()))), nontrivial=True)

    # ---------------- front-end replay: FrontEnd.single / FrontEnd.joint (Lean) on the raw series of real calls
    if ctx.replay is None:
        replay_run.front_end_section(ctx, cfgs, 6 if ctx.quick() else 40)

    # ---------------- call SEQUENCES in one process: the same (value-equal, freshly generated) series labelled at a
    # series of window sizes (downward and upward sweeps, repeats), and a joint call followed by a single-series call
    # on one of its members at a narrower window — every call must still return one label per input row
    if ctx.replay is None:
        for rep in range(3 if ctx.quick() else 30):
            base = tu.gen_config(ctx.rng, joint=False)
            base.update({"limit": 2, "K": 2, "N": ctx.rng.choice([1, 2])})
            ws = ctx.rng.choice([[5, 3, 3, 2, 6], [4, 1, 2, 7], [6, 5, 4, 3, 2, 1], [2, 2, 5, 4]])
            base["lens"] = [max(ws) + ctx.rng.randint(40, 70)]
            for W in ws:
                cfg = dict(base, W=W)
                res, _tr, err, series = tu.execute(cfg, trace=False)
                ctx.count("sequence_calls")
                if err is None:
                    check_result_shape(ctx, dict(cfg, sequence=ws), res, series)
            jc = tu.gen_config(ctx.rng, joint=True)
            jc.update({"limit": 2, "K": 2, "W": 4})
            jc["lens"] = [4 + ctx.rng.randint(30, 50) for _ in range(2)]
            res, _tr, err, series = tu.execute(jc, trace=False)
            if err is None:
                check_result_shape(ctx, jc, res, series)
                for W2 in (2, 4, 3):
                    import warnings
                    with warnings.catch_warnings():
                        warnings.simplefilter("ignore")
                        try:
                            tu.seed_all(jc["seed"])
                            r2 = tu.run_single(np.array(series[-1], copy=True), **dict(tu.config_kwargs(jc), window_size=W2))
                        except Exception:
                            continue
                    check_result_shape(ctx, dict(jc, joint=False, W=W2, lens=[jc["lens"][-1]], after_joint=True), r2, [series[-1]])
                    ctx.count("sequence_calls")
            ctx.case(("sequence", rep, tuple(ws)), nontrivial=True)
        # the joint front end accepts any iterable of series (it documents "a list (or other iterable)"): a tuple, a
        # forward-only iterator, a generator expression and a map object must give the same lists as the list form
        import fast_ticc
        for rep in range(2 if ctx.quick() else 12):
            jc = tu.gen_config(ctx.rng, joint=True)
            jc.update({"limit": 2, "K": 2})
            series = tu.config_data(jc)
            forms = {"tuple": lambda: tuple(series), "iter": lambda: iter(list(series)),
                     "generator": lambda: (s_ for s_ in series), "map": lambda: map(np.asarray, series)}
            for name, mk in forms.items():
                import warnings
                tu.seed_all(jc["seed"])
                try:
                    with tu.quiet(), warnings.catch_warnings():
                        warnings.simplefilter("ignore")
                        r3 = fast_ticc.ticc_joint_labels(mk(), **tu.config_kwargs(jc))
                except Exception as e:
                    ctx.count("iterable_forms_raised:" + type(e).__name__)
                    continue
                check_result_shape(ctx, dict(jc, series_form=name), r3, series)
                ctx.count("iterable_form:" + name)
            ctx.case(("iterable-forms", rep), nontrivial=True)

"""C06 — result fields are mutually consistent (cost and likelihood accounting)."""
import types
from fractions import Fraction

import numpy as np

import common
import oracles
import replay_run
import ticc_util as tu
from common import show_list, frac_str

LEVEL = "proof"
LEAN_PROPS = ["FastTicc.Props.C06", "FastTicc.Props.C01", "FastTicc.Props.C07mask", "FastTicc.Props.Final"]
LEAN_TRANSLATED = {"FastTicc.Props.TrLists": ["_compute_log_likelihood_by_cluster"]}
LEAN_HELPERS = ["FastTicc.Proofs.Result", "FastTicc.Proofs.ResultCost", "FastTicc.Proofs.Final"]
RULE = ("(a) synthetic (labels, per-point log-likelihood) inputs incl. empty clusters and -1 markers through the real "
        "per-cluster collection; (b) complete runs of both front ends (scalar and per-pair beta, converged or stopped "
        "by the limit, with empty final clusters when they occur); non-trivial = at least one label switch in the "
        "returned labelling; distinct by configuration")
EXPLANATION = ("Lean: all_ll_length/all_ll_perm/overall_stats/cluster_stats/cost_identity/switch_cost_masked for all "
               "inputs. Correspondence: per-cluster collection and the aggregates of complete runs vs the model at Rat "
               "(exact dyadic inputs); oracle: the accounting identities recomputed from the returned result.")
ASSUMPTIONS = ["sums compared to exact rational values within 1e-9 relative (NumPy pairwise summation rounds)"]


def synth(rng):
    K = rng.randint(1, 5)
    T = rng.randint(1, 30)
    used = [k for k in range(K) if rng.random() < 0.7] or [0]
    labels = [rng.choice(used + [-1]) if rng.random() < 0.15 else rng.choice(used) for _ in range(T)]
    ll = [Fraction(rng.randint(-4000, 4000), 2 ** rng.choice([0, 2, 5])) for _ in range(T)]
    return {"synthetic": True, "K": K, "labels": labels, "ll": [str(x) for x in ll]}


def oscillation_section(ctx):
    import random as pyrandom
    from fast_ticc import cluster_label_assignment as cla, likelihood as lk
    T, N, W, K, beta = 90, 2, 2, 3, 5.0
    npts = T - W + 1
    for rep in range(6 if ctx.quick() else 60):
        r = pyrandom.Random(ctx.rng.randrange(2 ** 31))
        data = tu.make_series(r, T, N, regimes=3, seg=(10, 25))
        # two labellings with every cluster well populated (no repopulation interferes), differing in a few windows
        cuts = sorted(r.sample(range(12, npts - 12), 2))
        if cuts[1] - cuts[0] < 12:
            continue
        A = [0 if i < cuts[0] else (1 if i < cuts[1] else 2) for i in range(npts)]
        sh = [r.choice([-4, -3, 3, 4]), r.choice([-4, -2, 2, 4])]
        B = [0 if i < cuts[0] + sh[0] else (1 if i < cuts[1] + sh[1] else 2) for i in range(npts)]
        style = ["ABAB", "ABAB", "ABB", "AAB"][rep % 4]
        limit = r.choice([3, 4, 5, 6, 7])
        counter = {"j": 0}

        def scripted(model, test_data, _A=A, _B=B, _style=style, _c=counter):
            ll = lk.all_points_all_clusters_log_likelihood(model, test_data)
            j = _c["j"]
            _c["j"] = j + 1
            if _style == "ABAB":
                labels = _A if j % 2 == 0 else _B
            elif _style == "ABB":
                labels = _A if j == 0 else _B
            else:
                labels = _A if j < 2 else _B
            cost = -float(sum(ll[i, l] for i, l in enumerate(labels))) + beta * sum(1 for a, b in zip(labels, labels[1:]) if a != b)
            new_model = model.shallow_copy()
            new_model.clusters = [c.deep_copy() for c in new_model.clusters]
            new_model.point_labels = list(labels)
            new_model.label_assignment_cost = cost
            return new_model
        tu.seed_all(r.randrange(2 ** 31))
        cfg = {"oscillation": style, "limit": limit, "cuts": cuts, "shift": sh, "T": T}
        try:
            with tu.patched(cla, "predict_cluster_labels", scripted), tu.quiet():
                res = tu.run_single(data, window_size=W, num_clusters=K, label_switching_cost=beta,
                                    min_cluster_size=2, iteration_limit=limit)
        except Exception as e:           # a scripted history the loop rejects is outside this scenario
            ctx.count("oscillation_raised:" + type(e).__name__)
            continue
        ctx.count("oscillation:" + style)
        for (site, msg, extra) in oracles.result_consistency(res, K, beta, False, check_cost=True):
            sig = {"site": site}
            sig.update(extra)
            ctx.violation("impl-violation", f"scripted label history {style} (limit {limit}): " + msg, cfg, sig)
        ctx.case(("oscillation", rep, style, limit), nontrivial=True)


def run(ctx):
    common.setup_repo_import()
    from fast_ticc import main_loop, likelihood

    if ctx.replay is not None:
        syn = [ctx.replay] if ctx.replay.get("synthetic") else []
        cfgs = [] if ctx.replay.get("synthetic") else [ctx.replay]
    else:
        syn = [c for c in ctx.corpus if c.get("synthetic")] + [synth(ctx.rng) for _ in range(150 if ctx.quick() else 2000)]
        n = 30 if ctx.quick() else 300
        cfgs = [c for c in ctx.corpus if not c.get("synthetic")]
        for i in range(n):
            cfg = tu.gen_config(ctx.rng)
            if i % 4 == 0 and not cfg["joint"]:
                cfg["beta_vector_seed"] = ctx.rng.randrange(2 ** 31)
            if i % 8 == 1 and "beta_vector_seed" not in cfg:
                # the scalar switching cost handed over as a NumPy object (0-d array, float32, int64) instead of a float
                cfg["beta_form"] = ["0d", "f32", "i64", "0d"][(i // 8) % 4]
                cfg["beta"] = cfg["beta"] or 5.0
            if i % 5 == 0:
                cfg["limit"] = 1          # stopped by the limit, labels far from a fixed point
            if i % 6 == 0:
                cfg["K"] = min(6, cfg["K"] + 2)   # more clusters than regimes: empty final clusters are likely
            if i % 7 == 5:
                # a covariance floor that really zeroes entries: the labelling table and the final per-point pass must
                # score with the SAME (filtered) matrices and log-determinants
                cfg.update({"eps": [0.03, 0.08, 0.2][(i // 7) % 3], "lam": [0.0, 0.01, 0.05][(i // 7) % 3]})
            if i % 7 == 3:
                # data riding on a large common offset (sensor counts, timestamps): the two evaluations of the
                # log-density (labelling table / final per-point pass) must still agree
                cfg["shift"] = [float(10 ** ctx.rng.choice([5, 6, 7, 8]))] * cfg["N"]
            cfgs.append(cfg)
        # small-amplitude data: log-densities ABOVE zero (densities above 1) for most windows - the sign of a log-likelihood
        # carries no meaning and every labelled window still has exactly one entry
        cfgs += tu.concentrated_configs(ctx.rng, 3 if ctx.quick() else 30)
        for i in range(9 if ctx.quick() else 90):
            cfg = tu.gen_config(ctx.rng)
            cfg["limit"] = 1
            cfg["K"] = max(3, cfg["K"])
            cfg["force_final"] = ["empty", "singleton", "pair"][i % 3]   # final labelling with a tiny cluster
            cfgs.append(cfg)

    # ---------------- (a) per-cluster collection on synthetic inputs, through REAL containers: one-dimensional windows
    # x_i, unit MRFs and dyadic means, so that the log-density of window i under its own cluster is known exactly
    # (-(x_i - mu_k)^2/2 - log(2 pi)/2) whatever way the collection evaluates it
    import math
    from fast_ticc.containers import arguments as _args, model_state as _ms
    lines, syn_meta, syn_want = [], [], []
    for c in syn:
        K = c["K"]
        labels = [l if 0 <= l < K else 0 for l in c["labels"]]      # the state's labelling never carries the -1 marker
        xs = [float(Fraction(x)) / 64.0 for x in c["ll"]]
        mus = [float(k) * 0.75 - 1.0 for k in range(K)]
        data = np.array(xs, dtype=float).reshape(-1, 1)
        ua = _args.UserArguments(sparsity_weight=0.11, iteration_limit=5, label_switching_cost=1.0, min_cluster_size=2,
                                 min_meaningful_covariance=0, num_clusters=K, num_processors=1, window_size=1,
                                 biased_covariance=False)
        st = _ms.ModelState.empty_model(ua, data)
        st.point_labels = list(labels)
        for k, cl in enumerate(st.clusters):
            cl.train_inverse = cl.inverse_covariance = np.array([[1.0]])
            cl.computed_covariance = cl.empirical_covariance = np.array([[1.0]])
            cl.stacked_data_mean = np.array([mus[k]])
            cl.log_determinant = 0.0
        want = [-(Fraction(x) - Fraction(mus[l])) ** 2 / 2 for x, l in zip(xs, labels)]   # + the constant, added below
        const = -0.5 * math.log(2 * math.pi)
        got = main_loop._compute_log_likelihood_by_cluster(data, st)
        lines.append(f"clusterlists {K} {show_list(labels)} {show_list(want, frac_str)}")
        syn_meta.append((c, K, labels, got, const))
        syn_want.append(want)
    outs = ctx.driver.run(lines)
    # the per-cluster collection TRANSLATED from the source (Generated/Kernels.lean; theorem compute_log_likelihood_by_cluster_eq)
    # on the same labels and exact per-point values, against what the implementation returned
    gen_cases = []
    for (c, K, labels, got, const), want_ll in zip(syn_meta, syn_want):
        exp = ";".join((",".join(frac_str(Fraction(float(v)) - Fraction(const)) for v in l) if len(l) else "-") for l in got) if len(got) else "-"
        gen_cases.append((f"{K} {show_list(labels)} {show_list(want_ll, frac_str)}", "ok " + exp, c))
    ctx.gen_compare("_compute_log_likelihood_by_cluster", gen_cases, tol=1e-9)
    for (c, K, labels, got, const), out in zip(syn_meta, outs):
        repaired, pinned = out.split(" ")
        model_lists = [[float(Fraction(x)) + const for x in common.parse_list(l, str)] for l in (repaired.split(";") if repaired != "-" else [])]
        while len(model_lists) < K:
            model_lists.append([])
        got_l = [[float(x) for x in l] for l in got]
        flat = [x for l in got_l for x in l]
        if len(flat) != len(labels):
            pin_lists = pinned.split(";")
            ctx.violation("impl-violation", f"per-cluster collection yields {len(flat)} entries for {len(labels)} labelled points",
                          c, {"site": "all-ll-length", "phantom": [len(l) for l in got_l] == [len(common.parse_list(l, str)) for l in pin_lists]})
        elif len(got_l) != K or any(len(a) != len(b) or any(not oracles.rel_close(x, y, 1e-12, 1e-12) for x, y in zip(a, b))
                                    for a, b in zip(got_l, model_lists)):
            ctx.violation("impl-violation", "per-cluster log-likelihood lists are not the log-densities of exactly the windows "
                          "carrying each label, in window order", dict(c, impl=repr(got_l)[:400]),
                          {"site": "cluster-lists"})
        ctx.count("synthetic")
        if any(labels.count(k) == 0 for k in range(K)):
            ctx.count("synthetic_with_empty_cluster")
        ctx.case(("syn", K, tuple(labels), tuple(c["ll"])), nontrivial=len(set(labels)) > 1)

    # ---------------- (b) complete runs
    completed = 0
    agg_lines, agg_meta = [], []
    for cfg in cfgs:
        kw = {}
        beta = cfg["beta"]
        if cfg.get("beta_vector_seed") is not None and not cfg["joint"]:
            rs = np.random.RandomState(cfg["beta_vector_seed"])
            npts = cfg["lens"][0] - cfg["W"] + 1
            beta = np.round(rs.uniform(0, 30, size=npts) * 4) / 4
            beta[rs.rand(npts) < 0.2] = 0.0
        cfg_run = dict(cfg)
        cfg_run["beta"] = beta
        res, _tr, err, series = tu.execute(cfg_run, trace=False)
        ctx.count("runs_joint" if cfg["joint"] else "runs_single")
        if err is not None:
            ctx.count("runs_raised:" + type(err).__name__)
            ctx.case(("cfg", repr(sorted(cfg.items()))))
            continue
        completed += 1
        K = cfg["K"]
        flat, _ = oracles.flat_labels(res.point_labels)
        lab = [x for x in flat if x >= 0]
        if any(lab.count(k) == 0 for k in range(K)):
            ctx.count("runs_with_empty_final_cluster")
        if isinstance(beta, np.ndarray):
            ctx.count("runs_vector_beta")
        if cfg.get("beta_form"):
            ctx.count("runs_scalar_beta_as:" + cfg["beta_form"])
        if any(float(x) > 0 for x in res.all_log_likelihood):
            ctx.count("runs_with_positive_log_likelihoods")
        if cfg.get("force_final"):
            ctx.count("runs_forced_final:" + cfg["force_final"])
        for (site, msg, extra) in oracles.result_consistency(res, K, beta, cfg["joint"], check_cost=not cfg.get("force_final")):
            sig = {"site": site}
            sig.update(extra)
            ctx.violation("impl-violation", msg, cfg, sig)
        # aggregates vs the model at Rat: rebuild per-point values in point order
        all_ll = [float(x) for x in res.all_log_likelihood]
        if len(all_ll) == len(lab) and all(np.isfinite(all_ll)):
            per_point = [None] * len(lab)
            pos = 0
            for k in range(K):
                for i, l in enumerate(lab):
                    if l == k:
                        per_point[i] = all_ll[pos]
                        pos += 1
            agg_lines.append(f"assemble {K} {show_list(lab)} {show_list(per_point, lambda x: frac_str(Fraction(x)))}")
            agg_meta.append((cfg, res))
        nsw = sum(1 for a, b in zip(lab, lab[1:]) if a != b)
        ctx.case(("cfg", repr(sorted(cfg.items()))), nontrivial=nsw >= 1,
                 sample={"joint": cfg["joint"], "K": K, "W": cfg["W"], "lens": cfg["lens"], "switches": nsw,
                         "cost": float(res.label_assignment_cost), "overall_ll": float(res.overall_log_likelihood)}
                 if completed <= 4 else None)
    for (cfg, res), out in zip(agg_meta, ctx.driver.run(agg_lines)):
        parts = out.split(" ")
        if len(parts) != 6:
            ctx.violation("correspondence-break", "assemble: driver rejected input", cfg)
            continue
        total, mean, median = (float(Fraction(x)) for x in parts[1:4])
        cmeans = [float(Fraction(x)) for x in common.parse_list(parts[4], str)]
        cmeds = [float(Fraction(x)) for x in common.parse_list(parts[5], str)]
        ok = (oracles.rel_close(res.overall_log_likelihood, total) and oracles.rel_close(res.overall_log_likelihood_mean, mean)
              and oracles.rel_close(res.overall_log_likelihood_median, median, 1e-12, 1e-12)
              and len(cmeans) == len(res.cluster_log_likelihood_mean)
              and all(oracles.rel_close(a, b) for a, b in zip(res.cluster_log_likelihood_mean, cmeans))
              and all(oracles.rel_close(a, b, 1e-12, 1e-12) for a, b in zip(res.cluster_log_likelihood_median, cmeds)))
        if not ok:
            ctx.violation("correspondence-break", "assemble (model aggregates) vs result fields", cfg)
    ctx.extra["runs_completed"] = completed

    # ---------------- (b2) scripted label histories with CONSISTENT accounting, through the real loop: the relabel phase
    # returns a labelling from a script (alternating A, B, A, …; or A, B, B) together with the cost that labelling really
    # has under the model it was given (minus its log-likelihood plus the switching cost), built exactly the way the
    # real phase builds its output.  Whatever round the run decides to return, the result's cost must be minus its
    # overall log-likelihood plus the switching cost of ITS labels: both come from one (labels, means, MRFs) state.
    if ctx.replay is None:
        oscillation_section(ctx)

    # ---------------- (c) whole-result replay: the complete result of a traced real run must be Final.report of the
    # composed Lean model run on the same data, initial labelling, random draws and ADMM outputs
    replay_run.whole_result_section(ctx, cfgs, ("cost", "ll"), 6 if ctx.quick() else 40)

"""C18 — equivalent parameter forms give identical results."""
import math
import random as pyrandom
import warnings
from fractions import Fraction

import numpy as np

import common
import oracles
import ticc_util as tu
from common import show_list, frac_str

LEVEL = "other"
LEAN_PROPS = ["FastTicc.Props.C18", "FastTicc.Props.C01"]
LEAN_HELPERS = ["FastTicc.Proofs.Admm"]
LEAN_TRANSLATED = {"FastTicc.Props.TrZUpdate": ["soft_threshold_prox", "compute_lambda_sum", "admm_update_z", "locations_compressed",
                                                "locations_index_slices"],
                   "FastTicc.Props.TrViterbi": ["assign_point_cluster_labels"]}
RULE = ("the optimiser entry point, the labelling kernel and both front ends, each called with every equivalent form of the "
        "same value: lambda as python int / float / np.float64 / float32 / float16 / np.int64 / int32 / constant matrix; "
        "beta as int / float / NumPy scalars / constant per-pair vector; eps as int 0 / float / NumPy scalars; complete "
        "results compared bitwise; non-trivial = forms of different Python types; distinct by (input, form pair)")
EXPLANATION = ("Theorems (Lean): lambdaSum_scalar_eq_const_matrix and zUpdate_scalar_eq_const_matrix (scalar weight and "
               "constant matrix give the same Z update, hence the same iterates, in exact arithmetic), viterbi_scalar_beta "
               "(scalar beta = constant per-pair vector), dispatch_total_on_reals (every real-scalar type reaches the scalar "
               "branch; pinned: dispatch_pinned_rejects). Explored, not proved: bitwise equality in floating point — "
               "observed on every form pair; the only tolerated difference is known finding K3 (fl(lambda*r) vs the float "
               "sum of r copies), recognised by an explicit rounding witness and a 1e-12 bound.")
ASSUMPTIONS = ["NumPy scalar -> float conversion is value-exact for float16/32/64 and integer types"]


def rounding_witness(lam, W):
    """is there r <= W with fl(lam*r) != float sum of r copies (np.sum order for short vectors is sequential)?"""
    for r in range(1, W + 1):
        if float(lam) * r != float(np.sum(np.full(r, float(lam)))):
            return True
    return False


def run(ctx):
    common.setup_repo_import()
    from fast_ticc import admm, cluster_label_assignment as cla
    from fast_ticc.admm import solver

    replay = ctx.replay
    # ---------------- dispatch glue: every real scalar type is accepted and gives the scalar branch
    types_ = [("int", lambda v: int(v)), ("float", lambda v: float(v)), ("np.float64", np.float64),
              ("np.float32", np.float32), ("np.float16", np.float16), ("np.int64", lambda v: np.int64(v)),
              ("np.int32", lambda v: np.int32(v))]
    for name, mk in types_:
        v = mk(2)
        try:
            got = solver.compute_lambda_sum(v, 1, 0, 0, 2, 3)
            if got != 4.0:
                ctx.violation("impl-violation", f"lambda sum for {name}(2) is {got}, expected 4.0", {"dispatch": name},
                              {"site": "dispatch"})
        except ValueError as e:
            ctx.violation("impl-violation", f"sparsity weight of type {name} rejected: {e}", {"dispatch": name}, {"site": "dispatch"})
        ctx.case(("dispatch", name), nontrivial=name != "float")

    # ---------------- optimiser entry point in every lambda form
    if replay is not None:
        probs = [replay] if replay.get("admm") else []
        cfgs = [replay] if replay.get("lens") else []
    else:
        probs = [c for c in ctx.corpus if c.get("admm")]
        for _ in range(16 if ctx.quick() else 200):
            probs.append({"admm": True, "N": ctx.rng.choice([1, 2, 3]), "W": ctx.rng.choice([1, 2, 3, 6]),
                          "lam": ctx.rng.choice(["1/2", "1/4", "1", "2", "1/10", "11/100", "3/10"]),
                          "seed": ctx.rng.randrange(2 ** 31),
                          # the documented solver options, the same for every form: another step parameter, and a
                          # step-parameter update hook (residual balancing / a fixed schedule) that really changes it
                          "solver": ["default", "default", "rho", "balance", "schedule"][len(probs) % 5]})
        cfgs = [c for c in ctx.corpus if c.get("lens")] + [tu.gen_config(ctx.rng) for _ in range(5 if ctx.quick() else 50)]
        # SHAPE COINCIDENCES: the side of the penalty matrix (N*W) equal to the number of clusters, to the number of
        # sensors or to the window - where "what kind of thing was I handed" is decided by a length, a matrix and a
        # per-cluster / per-sensor list look alike
        coinc = [(2, 2, 4), (1, 3, 3), (3, 1, 3), (2, 1, 2), (1, 2, 2), (1, 4, 4), (2, 3, 6)]
        ctx.rng.shuffle(coinc)
        for (N_, W_, K_) in (coinc[:2] if ctx.quick() else coinc):
            cc = tu.gen_config(ctx.rng, joint=(N_ + W_) % 2 == 0)
            for k_ in ("dtype", "completion", "flat"):
                cc.pop(k_, None)
            cc.update({"N": N_, "W": W_, "K": K_, "regimes": min(4, K_), "limit": 2, "m": 2, "shape_coincidence": True})
            cc["lens"] = [W_ - 1 + 30 * K_ + ctx.rng.randint(0, 20)] if not cc["joint"] else [W_ - 1 + 18 * K_, W_ - 1 + 14 * K_ + 3]
            cfgs.append(cc)
    for c in probs:
        N, W = c["N"], c["W"]
        n = N * W
        rs = np.random.RandomState(c["seed"])
        X = rs.randn(4 * n + 2, n)
        S = np.atleast_2d(np.cov(X.T))
        lam = float(Fraction(c["lam"]))
        forms = [("float", lam), ("np.float64", np.float64(lam)), ("const-matrix", np.full((n, n), lam))]
        if lam == int(lam):
            forms += [("int", int(lam)), ("np.int64", np.int64(lam)), ("np.int32", np.int32(lam))]
        if float(np.float32(lam)) == lam:
            forms += [("np.float32", np.float32(lam))]
        if float(np.float16(lam)) == lam:
            forms += [("np.float16", np.float16(lam))]
        outs = {}

        def solver_kwargs(kind=c.get("solver", "default")):
            if kind == "rho":
                return {"rho": 2.0}
            if kind == "balance":
                return {"rho": 1.0, "rho_update": (lambda rho_, rp, tp, rd, td:
                                                   rho_ * 2 if rp > 10 * rd else (rho_ / 2 if rd > 10 * rp else rho_))}
            if kind == "schedule":
                seen = {"n": 0}

                def cb(rho_, rp, tp, rd, td, _s=seen):
                    _s["n"] += 1
                    return rho_ * 2.0 if _s["n"] in (2, 3, 5) else rho_
                return {"rho": 0.5, "rho_update": cb}
            return {}
        ctx.count("solver_options:" + c.get("solver", "default"))
        for name, f in forms:
            try:
                with warnings.catch_warnings():
                    warnings.simplefilter("ignore")
                    outs[name] = np.asarray(admm.admm_optimize_theta(S.copy(), f, W, N, **solver_kwargs()).theta)
            except Exception as e:
                ctx.violation("impl-violation", f"sparsity weight form {name} raised {type(e).__name__}: {e}",
                              dict(c, form=name), {"site": "form-rejected"})
        # narrow NumPy scalars: compared with the Python float of the SAME numeric value (the value the narrow type
        # actually holds), for values whose products with the occurrence counts are not exact in the narrow type
        for nm, mk in (("np.float32", np.float32), ("np.float16", np.float16)):
            v = mk(0.11) if c["seed"] % 2 == 0 else mk(float(Fraction(c["lam"])))
            try:
                with warnings.catch_warnings():
                    warnings.simplefilter("ignore")
                    a = np.asarray(admm.admm_optimize_theta(S.copy(), v, W, N).theta)
                    b = np.asarray(admm.admm_optimize_theta(S.copy(), float(v), W, N).theta)
                if a.tobytes() != b.tobytes():
                    ctx.violation("impl-violation", f"lambda={float(v)!r} as {nm} differs from the Python float of the same value "
                                  f"(max abs diff {float(np.max(np.abs(a - b))):.2e}, W={W})", dict(c, form=nm + "-own-value"),
                                  {"site": "scalar-type"})
            except Exception as e:
                ctx.violation("impl-violation", f"sparsity weight form {nm} raised {type(e).__name__}: {e}", dict(c, form=nm),
                              {"site": "form-rejected"})
            ctx.case(("admm-narrow", repr(sorted(c.items())), nm), nontrivial=True)
        if W >= 3:
            with warnings.catch_warnings():
                warnings.simplefilter("ignore")
                a = np.asarray(admm.admm_optimize_theta(S.copy(), np.int8(50), W, N, max_iterations=40).theta)
                b = np.asarray(admm.admm_optimize_theta(S.copy(), 50.0, W, N, max_iterations=40).theta)
            if a.tobytes() != b.tobytes():
                ctx.violation("impl-violation", "lambda=50 as np.int8 differs from the float 50.0 (integer wrap-around?)",
                              dict(c, form="np.int8"), {"site": "scalar-type"})
        base = outs.get("float")
        for name, th in outs.items():
            if name == "float" or base is None:
                continue
            if th.tobytes() != base.tobytes():
                rel = float(np.max(np.abs(th - base)) / max(1e-300, np.max(np.abs(base))))
                if name == "const-matrix":
                    ctx.violation("impl-violation",
                                  f"scalar lambda={lam} and the constant matrix give different results (max rel diff {rel:.2e})",
                                  dict(c, form=name),
                                  {"site": "lambda-form-rounding", "within": "1e-12" if rel <= 1e-12 else "no",
                                   "rounding_witness": rounding_witness(lam, W)})
                else:
                    ctx.violation("impl-violation", f"lambda={lam} as {name} differs from the Python float (max rel diff {rel:.2e})",
                                  dict(c, form=name), {"site": "scalar-type"})
            ctx.case(("admm", repr(sorted(c.items())), name), nontrivial=True,
                     sample={"N": N, "W": W, "lambda": c["lam"], "form": name, "bitwise_equal": th.tobytes() == base.tobytes()}
                     if len(ctx.samples) < 5 else None)
        ctx.count("admm_problems")

    # ---------------- labelling kernel: scalar vs vector beta, scalar types
    for _ in range(60 if ctx.quick() else 600):
        T, K = ctx.rng.randint(1, 25), ctx.rng.randint(1, 5)
        rs = np.random.RandomState(ctx.rng.randrange(2 ** 31))
        table = rs.randn(T, K) * 3
        b = float(ctx.rng.choice([0, 1, 0.5, 3, 7.25]))
        ref = cla.assign_point_cluster_labels(table.copy(), b)
        forms = [("vector", np.full(T, b)), ("np.float64", np.float64(b)), ("np.float32", np.float32(b))]
        if b == int(b):
            forms += [("int", int(b)), ("np.int64", np.int64(b))]
        for name, f in forms:
            out = cla.assign_point_cluster_labels(table.copy(), f)
            if [int(x) for x in out[0]] != [int(x) for x in ref[0]] or float(out[1]) != float(ref[1]):
                ctx.violation("impl-violation", f"switching cost {b} as {name} gives a different labelling/cost than the float",
                              {"kernel": True, "T": T, "K": K, "beta": b, "form": name}, {"site": "beta-form"})
            ctx.case(("kernel", T, K, b, name, table.tobytes()), nontrivial=True)
    ctx.count("kernel_tables", 60 if ctx.quick() else 600)

    # ---------------- end to end through both front ends
    for cfg in cfgs:
        base_kw = tu.config_kwargs(cfg)
        lam = 0.5 if cfg["lam"] not in (1.0, 0.5) else cfg["lam"]
        beta = 5
        series = tu.config_data(cfg)
        n = cfg["N"] * cfg["W"]
        npts = sum(s.shape[0] - cfg["W"] + 1 for s in series)
        def fractional_after_integer():
            # in the same process right after an integer-typed call, a FRACTIONAL switching cost in its scalar
            # and per-pair forms (state left behind by an integer-typed call must not leak into a later call)
            pair = {}
            for name, b2 in (("int-first", 400), ("frac-scalar", 0.75), ("frac-vector", np.full(npts, 0.75)),
                             ("int-again", np.int64(3)), ("frac-np.float32", np.float32(0.75))):
                k2 = dict(base_kw)
                k2.update(dict(sparsity_weight=float(lam), label_switching_cost=b2, min_meaningful_covariance=0.0))
                tu.seed_all(cfg["seed"])
                try:
                    with warnings.catch_warnings():
                        warnings.simplefilter("ignore")
                        r = tu.run_joint(series, **k2) if cfg["joint"] else tu.run_single(series[0], **k2)
                    pair[name] = tu.result_fields(r)
                except Exception as e:
                    pair[name] = ("raised", type(e).__name__, str(e)[:80])
            for name in ("frac-vector", "frac-np.float32"):
                if pair[name] != pair["frac-scalar"]:
                    ctx.violation("impl-violation", f"front end: switching cost 0.75 as '{name}' and as a Python float give different results "
                                  "(after integer-typed calls earlier in the process)", dict(cfg, form=name), {"site": "scalar-type"})

        cfg_index = cfgs.index(cfg)
        if cfg_index % 2 == 0:
            fractional_after_integer()      # the integer-typed call is the FIRST call of this process on this data length
        variants = [("ref", dict(sparsity_weight=float(lam), label_switching_cost=float(beta), min_meaningful_covariance=0.0)),
                    ("np-scalars", dict(sparsity_weight=np.float32(lam), label_switching_cost=np.float32(beta),
                                        min_meaningful_covariance=np.float32(0))),
                    ("ints", dict(sparsity_weight=(int(lam) if lam == int(lam) else np.float64(lam)),
                                  label_switching_cost=int(beta), min_meaningful_covariance=0)),
                    ("np-ints", dict(sparsity_weight=(np.int64(lam) if lam == int(lam) else np.float16(lam)),
                                     label_switching_cost=np.int64(beta), min_meaningful_covariance=np.int32(0))),
                    ("matrix-lambda", dict(sparsity_weight=np.full((n, n), float(lam)), label_switching_cost=float(beta),
                                           min_meaningful_covariance=0.0))]
        variants.append(("vector-beta", dict(sparsity_weight=float(lam), label_switching_cost=np.full(npts, float(beta)),
                                             min_meaningful_covariance=0.0)))
        results = {}
        for name, kw in variants:
            k2 = dict(base_kw)
            k2.update(kw)
            tu.seed_all(cfg["seed"])
            try:
                with warnings.catch_warnings():
                    warnings.simplefilter("ignore")
                    r = tu.run_joint(series, **k2) if cfg["joint"] else tu.run_single(series[0], **k2)
                results[name] = tu.result_fields(r)
            except Exception as e:
                results[name] = ("raised", type(e).__name__, str(e)[:80])
        ref = results["ref"]
        for name, r in results.items():
            if name == "ref":
                continue
            if isinstance(ref, tuple) or isinstance(r, tuple):
                if isinstance(ref, tuple) != isinstance(r, tuple):
                    ctx.violation("impl-violation", f"form '{name}' {r if isinstance(r, tuple) else 'succeeded'} while the reference "
                                  f"{ref if isinstance(ref, tuple) else 'succeeded'}", dict(cfg, form=name), {"site": "form-rejected"})
                continue
            if r != ref:
                diff = [k for k in ref if ref[k] != r.get(k)]
                if name == "matrix-lambda":
                    ctx.violation("impl-violation", f"front end: scalar lambda and constant matrix differ in {diff}",
                                  dict(cfg, form=name), {"site": "lambda-form-rounding", "within": "unknown",
                                                         "rounding_witness": rounding_witness(lam, cfg["W"])})
                else:
                    ctx.violation("impl-violation", f"front end: parameter form '{name}' changes the result in {diff}",
                                  dict(cfg, form=name), {"site": "scalar-type"})
            ctx.case(("e2e", repr(sorted(cfg.items())), name), nontrivial=True)
        if cfg_index % 2 == 1:
            fractional_after_integer()      # … or comes after calls in every other form
        ctx.count("end_to_end_configs")
        if cfg.get("shape_coincidence"):
            ctx.count("end_to_end_configs_with_NW_equal_K")

"""C19 — caller-owned data is never modified."""
import random as pyrandom
import warnings

import numpy as np

import common
import ticc_util as tu

LEVEL = "other"
LEAN_PROPS = ["FastTicc.Props.C19", "FastTicc.Props.C13"]
LEAN_HELPERS = ["FastTicc.Proofs.Heap"]
RULE = ("every argument of both front ends, of the optimiser entry point and of the labelling step is byte-snapshotted "
        "(bytes + shape + strides + flags) before and after the call, for writable and read-only arrays, C and Fortran "
        "order, matrix lambda, vector beta, lists of series, eps>0, a rho-update callback, and for failing calls (worker "
        "fault, no donor, wrong front end); plus heap-model histories; non-trivial = read-only or failing or array-valued "
        "hyper-parameter; distinct by configuration")
EXPLANATION = ("Theorems (Lean, heap model): phases_frame_caller_owned, assign_frame_caller_owned, args_cells_immutable (no "
               "modelled operation writes the data array or the argument bundle; states keep referring to the caller's own "
               "objects), reconstruct_eps_zero_pointwise (the in-place floor filter acts on the freshly re-inflated matrix). "
               "That the model's write sets are complete is NOT proved: it is what the byte snapshots and read-only arrays "
               "check on the real code (any in-place write to a read-only array raises). The heap model is tied to the real "
               "objects by the alias-partition correspondence of C13, re-run here on a smaller sample.")
ASSUMPTIONS = ["ndarray.setflags(write=False) makes every in-place write raise"]


def snap(x):
    if isinstance(x, np.ndarray):
        return ("arr", x.tobytes(), x.shape, x.strides, x.dtype.str, bool(x.flags.writeable), bool(x.flags.f_contiguous))
    if isinstance(x, (list, tuple)):
        return ("seq", type(x).__name__, tuple(snap(v) for v in x), tuple(id(v) for v in x))
    return ("val", repr(x))


def prep(a, readonly, fortran):
    a = np.asfortranarray(a) if fortran else np.ascontiguousarray(a)
    if readonly:
        a.setflags(write=False)
    return a


def run(ctx):
    common.setup_repo_import()
    from fast_ticc import admm, cluster_label_assignment as cla, cluster_maintenance as cm, graphical_lasso as gl
    from fast_ticc.containers import arguments, model_state
    import fast_ticc
    from props import c13

    if ctx.replay is not None:
        cfgs = [ctx.replay]
    else:
        cfgs = list(ctx.corpus)
        for i in range(20 if ctx.quick() else 250):
            cfg = tu.gen_config(ctx.rng)
            cfg.update({"readonly": i % 2 == 0, "fortran": i % 3 == 0, "matrix_lambda": i % 4 == 1,
                        "vector_beta": (i % 4 == 2), "eps": [0, 0.05][i % 5 == 3],
                        "fail": [None, "worker", "wrong-front-end", "no-donor"][(i // 2) % 4] if i % 3 == 1 else None})
            if i % 5 == 4:
                # sensor drop-outs: NaN samples in the caller's data (the call fails — the mixture model rejects NaN — or,
                # should the library ever clean such data up, it must do so on its own copy); W = 1 is the shape in
                # which a stacked array could alias the input
                cfg.update({"nan_data": True, "fortran": False, "fail": None, "joint": bool(i % 10 == 9)})
                cfg.pop("dtype", None)          # NaN needs a floating-point array
                if i % 10 == 4:
                    cfg["W"] = 1
            cfgs.append(cfg)
        # array-valued hyper-parameters LARGE enough to leave every "small array" path (more entries than NumPy's print
        # threshold of 1000: summaries, elided reprs, chunked copies): a per-pair switching-cost vector for 1100+ windows
        # and a 32 x 32 penalty matrix; with and without a listener on the DEBUG diagnostics
        for j in range(2 if ctx.quick() else 8):
            big = tu.gen_config(ctx.rng, joint=(j % 4 == 3))
            for k_ in ("dtype", "completion", "flat"):
                big.pop(k_, None)
            if j % 2 == 0:
                big.update({"N": 1, "W": 2, "K": 2, "limit": 1, "vector_beta": True, "matrix_lambda": False, "regimes": 2,
                            "lens": [1 + ctx.rng.randint(1101, 1300)] if not big["joint"] else [1 + 700, 1 + 450]})
            else:
                big.update({"N": 2, "W": 16, "K": 2, "limit": 1, "vector_beta": False, "matrix_lambda": True, "regimes": 2,
                            "lens": [15 + ctx.rng.randint(150, 200)] if not big["joint"] else [15 + 90, 15 + 80]})
            big.update({"readonly": j % 4 >= 2, "fortran": False, "fail": None, "eps": 0, "big_arguments": True})
            if j % 4 in (1, 2):
                big["logging"] = "DEBUG"
            cfgs.append(big)

    for cfg in cfgs:
        series = tu.config_data(cfg)
        if cfg.get("nan_data"):
            rs_n = np.random.RandomState(cfg["seed"] % 2 ** 31)
            for s_ in series:
                for _ in range(3):
                    s_[rs_n.randint(s_.shape[0]), rs_n.randint(s_.shape[1])] = np.nan
        series = [prep(s, cfg.get("readonly"), cfg.get("fortran")) for s in series]
        n = cfg["N"] * cfg["W"]
        npts = sum(s.shape[0] - cfg["W"] + 1 for s in series)
        kw = tu.config_kwargs(cfg)
        rs_a = np.random.RandomState((cfg["seed"] + 19) % 2 ** 31)
        if cfg.get("matrix_lambda"):
            # a penalty matrix with distinct entries in no particular order (a constant one survives being sorted,
            # transposed or partitioned in place)
            L_ = np.round(rs_a.uniform(0.05, 0.6, size=(n, n)) * 64) / 64
            kw["sparsity_weight"] = prep((L_ + L_.T) / 2, cfg.get("readonly"), cfg.get("fortran"))
        if cfg.get("vector_beta"):
            # per-pair costs with distinct values and zeros (series boundaries / "free" switches) in no particular order
            b_ = np.round(rs_a.uniform(0.5, 12, size=npts) * 4) / 4
            b_[rs_a.rand(npts) < 0.1] = 0.0
            kw["label_switching_cost"] = prep(b_, cfg.get("readonly"), False)
        kw["min_meaningful_covariance"] = cfg.get("eps", 0)
        data_arg = list(series) if cfg["joint"] else series[0]
        fail = cfg.get("fail")
        if fail == "wrong-front-end":
            data_arg = series[0] if cfg["joint"] else list(series)
        if fail == "no-donor":
            kw["min_cluster_size"] = 10 ** 6
            kw["iteration_limit"] = max(2, kw["iteration_limit"])
        before = {"data": snap(data_arg), "kw": {k: snap(v) for k, v in kw.items()}}
        patches = []
        if fail == "worker":
            calls = {"n": 0}
            orig = admm.admm_optimize_theta

            def failing(*a, **k):
                calls["n"] += 1
                if calls["n"] == 2:
                    raise FloatingPointError("injected worker fault")
                return orig(*a, **k)
            patches.append(tu.patched(admm, "admm_optimize_theta", failing))
        if fail == "no-donor":
            # force a needy cluster after the first round so repopulation must look for a donor
            orig_p = cla.predict_cluster_labels

            def starve(model, data, _o=orig_p):
                out = _o(model, data)
                lab = [int(x) for x in out.point_labels]
                victim = lab[0]
                other = next((x for x in lab if x != victim), None)
                if other is None:
                    other = (victim + 1) % cfg["K"]
                out.point_labels = [other if x == victim else x for x in lab]
                return out
            patches.append(tu.patched(cla, "predict_cluster_labels", starve))
        tu.seed_all(cfg["seed"])
        err = None
        import contextlib
        with contextlib.ExitStack() as st, warnings.catch_warnings():
            warnings.simplefilter("ignore")
            for p in patches:
                st.enter_context(p)
            try:
                with tu.inline_pool(), tu.quiet(), tu.ambient(cfg):
                    if (cfg["joint"] and fail != "wrong-front-end") or (not cfg["joint"] and fail == "wrong-front-end"):
                        fast_ticc.ticc_joint_labels(data_arg, **kw)
                    else:
                        fast_ticc.ticc_labels(data_arg, **kw)
            except Exception as e:
                err = e
        after = {"data": snap(data_arg), "kw": {k: snap(v) for k, v in kw.items()}}
        if before != after:
            changed = [k for k in before["kw"] if before["kw"][k] != after["kw"][k]] + (["data"] if before["data"] != after["data"] else [])
            ctx.violation("impl-violation", f"front end modified caller-owned argument(s) {changed}"
                          f"{' (call raised ' + type(err).__name__ + ')' if err else ''}", cfg, {"site": "front-end-args"})
        if cfg.get("readonly") and err is not None and "read-only" in str(err):
            ctx.violation("impl-violation", f"read-only input rejected: {err}", cfg, {"site": "readonly"})
        ctx.count("calls_raised" if err is not None else "calls_returned")
        if err is not None:
            ctx.count("raised:" + type(err).__name__)
        for k in ("readonly", "fortran", "matrix_lambda", "vector_beta", "nan_data", "big_arguments", "logging"):
            if cfg.get(k):
                ctx.count(k)
        ctx.case(("cfg", repr(sorted((k, repr(v)) for k, v in cfg.items()))),
                 nontrivial=bool(cfg.get("readonly") or fail or cfg.get("matrix_lambda") or cfg.get("vector_beta")),
                 sample={k: cfg.get(k) for k in ("joint", "readonly", "fortran", "matrix_lambda", "vector_beta", "eps", "fail")}
                 if len(ctx.samples) < 5 else None)

    # ---------------- call SEQUENCES on the same data: the arrays handed to an EARLIER call (a per-pair switching-cost
    # vector, a penalty matrix, the data) still belong to the caller during every LATER call - with another switching
    # cost of the same length, a scalar one, another penalty.  A library that keeps a reference to an argument and
    # refreshes it later modifies caller-owned data just the same.
    if ctx.replay is None or ctx.replay.get("sequence"):
        for rep in range(4 if ctx.quick() else 40):
            cfg = tu.gen_config(ctx.rng, joint=(rep % 4 == 3))
            cfg.update({"limit": 2, "sequence": True, "readonly": rep % 2 == 1})
            for k_ in ("dtype", "completion", "flat", "logging"):
                cfg.pop(k_, None)
            if rep % 4 in (1, 2):
                cfg["logging"] = "DEBUG"
            if ctx.replay is not None:
                cfg = ctx.replay
            base = tu.config_data(cfg)
            npts = sum(s_.shape[0] - cfg["W"] + 1 for s_ in base)
            n = cfg["N"] * cfg["W"]
            rs = np.random.RandomState(cfg["seed"] % 2 ** 31)
            betas = [prep(np.full(npts, 30.0), cfg["readonly"], False), 10.0,
                     prep(np.round(rs.uniform(1, 20, size=npts) * 4) / 4, cfg["readonly"], False), 3,
                     prep(np.full(npts, 7.5), False, False)]
            lams = [0.11, prep(np.full((n, n), 0.25), cfg["readonly"], False), 0.05, prep(np.full((n, n), 0.5), False, False), 0.11]
            ledger = []
            for step, (beta_, lam_) in enumerate(zip(betas, lams)):
                series = [prep(s_.copy(), cfg["readonly"], False) for s_ in base]
                kw = dict(tu.config_kwargs(cfg), label_switching_cost=beta_, sparsity_weight=lam_)
                data_arg = series if cfg["joint"] else series[0]
                for nm, obj in (("data", data_arg), ("label_switching_cost", beta_), ("sparsity_weight", lam_)):
                    if isinstance(obj, (np.ndarray, list)):
                        ledger.append((step, nm, obj, snap(obj)))
                err = None
                try:
                    tu.seed_all(cfg["seed"])
                    with tu.inline_pool(), tu.quiet(), tu.ambient(cfg), warnings.catch_warnings():
                        warnings.simplefilter("ignore")
                        (fast_ticc.ticc_joint_labels if cfg["joint"] else fast_ticc.ticc_labels)(data_arg, **kw)
                except Exception as e:
                    err = e
                for (st0, nm, obj, sn) in ledger:
                    if snap(obj) != sn:
                        ctx.violation("impl-violation",
                                      f"call {step} of a sequence modified the {nm} array handed to call {st0}"
                                      f"{' (call raised ' + type(err).__name__ + ')' if err else ''}", dict(cfg, step=step),
                                      {"site": "front-end-args"})
                        break
                if cfg["readonly"] and err is not None and "read-only" in str(err):
                    ctx.violation("impl-violation", f"call {step} of a sequence rejected read-only input: {err}", dict(cfg, step=step),
                                  {"site": "readonly"})
                ctx.count("sequence_calls")
            ctx.case(("sequence", rep, cfg["joint"], cfg["readonly"]), nontrivial=True)

    # ---------------- optimiser entry point and labelling step, called directly
    if ctx.replay is None:
        for i in range(40 if ctx.quick() else 400):
            N, W = ctx.rng.choice([1, 2, 3]), ctx.rng.choice([1, 2, 3])
            n = N * W
            rs = np.random.RandomState(ctx.rng.randrange(2 ** 31))
            S0 = np.atleast_2d(np.cov(rs.randn(3 * n + 2, n).T))
            if i % 8 == 3:
                S0[0, 0] = np.nan                # the call may raise; the argument must stay untouched
            S = prep(S0, i % 2 == 0, i % 3 == 0)
            if i % 2 == 1 or i % 4 == 0:
                L0 = np.full((n, n), 0.2)
                if i % 3 == 0:
                    L0 = np.tril(rs.uniform(0.05, 0.5, size=(n, n)))      # asymmetric: still the caller's array
                lam = prep(L0, i % 2 == 0, i % 3 == 1)
            else:
                lam = 0.2
            cb = (lambda rho, rp, tp, rd, td: rho * 1.5 if rp > rd else rho) if i % 5 == 0 else None
            b = (snap(S), snap(lam))
            try:
                with warnings.catch_warnings():
                    warnings.simplefilter("ignore")
                    admm.admm_optimize_theta(S, lam, W, N, rho=1.0, rho_update=cb, max_iterations=60)
            except Exception as e:
                if "read-only" in str(e):
                    ctx.violation("impl-violation", f"optimiser rejected read-only input: {e}", {"admm": True, "i": i}, {"site": "readonly"})
            if b != (snap(S), snap(lam)):
                ctx.violation("impl-violation", "optimiser entry point modified its covariance / lambda argument",
                              {"admm": True, "i": i}, {"site": "admm-args"})
            T, K = ctx.rng.randint(1, 20), ctx.rng.randint(1, 4)
            raw_table = rs.randn(T, K)
            if i % 4 in (1, 2):                 # non-finite entries (degenerate clusters): still the caller's array
                for _ in range(1 + T // 6):
                    raw_table[rs.randint(T), rs.randint(K)] = [np.nan, np.inf, -np.inf, -0.0][rs.randint(4)]
            table = prep(raw_table, i % 2 == 0, i % 3 == 2)
            beta = prep(np.abs(rs.randn(T)), i % 2 == 0, False) if i % 2 == 0 else 2.0
            b = (snap(table), snap(beta))
            try:
                with warnings.catch_warnings():
                    warnings.simplefilter("ignore")
                    cla.assign_point_cluster_labels(table, beta)
            except Exception as e:
                if "read-only" in str(e):
                    ctx.violation("impl-violation", f"labelling step rejected read-only input: {e}", {"kernel": True, "i": i}, {"site": "readonly"})
            if b != (snap(table), snap(beta)):
                ctx.violation("impl-violation", "labelling step modified its cost table / switching cost",
                              {"kernel": True, "i": i}, {"site": "kernel-args"})
            ctx.case(("direct", i), nontrivial=True)
        ctx.count("direct_calls", 40 if ctx.quick() else 400)
        # ---------------- tie of the heap model (write sets) to the real objects
        hists = [c13.gen_history(ctx.rng) for _ in range(25 if ctx.quick() else 300)]
        c13.check_histories(ctx, hists, cm, gl, cla, arguments, model_state)

"""C01 — label assignment returns a globally minimum-cost label sequence."""
import itertools
from fractions import Fraction

import numpy as np

import common
import ticc_util as tu
from common import frac_str, show_list

LEVEL = "proof"
LEAN_PROPS = ["FastTicc.Props.C01"]
LEAN_HELPERS = ["FastTicc.Proofs.Viterbi"]
LEAN_TRANSLATED = {"FastTicc.Props.TrViterbi": ["assign_point_cluster_labels"]}
RULE = ("random cost tables with dyadic entries (exact in float64): T in [1,40], K in [1,6], scalar or per-pair "
        "beta >= 0 incl. 0, heavy ties, negative costs, spreads 2^-10..2^20; non-trivial = T>=2, K>=2 and the "
        "optimum differs from the per-point greedy labelling; distinct by (table, beta)")
EXPLANATION = ("Lean: viterbi_optimal / viterbi_cost_is_cost_of_path / viterbi_labels_in_range for all tables over any "
               "linearly ordered additive group. Correspondence: the real kernel's labels are in range, their exactly "
               "recomputed cost equals the reported cost and equals the model's optimum. Oracle: brute force over K^T.")
ASSUMPTIONS = ["float rounding on non-dyadic inputs is outside the theorem (exact arithmetic); inputs here are exact",
               "K <= 65535 (uint16 path matrix) not modelled", "Numba compilation trusted (JIT mode compared in C15)"]


def gen_case(rng):
    style = rng.choice(["ties", "neg", "spread", "plain", "tiny", "boundary", "intfrac"])
    wide = False
    if style == "plain" and rng.random() < 0.12:
        wide = True          # MANY clusters (past 255 / 256: a successor or label stored in a narrow integer type wraps)
    if wide:
        T, K = rng.randint(2, 5), rng.choice([255, 256, 257, 300, 320, 700])
    elif style == "boundary":
        T, K = rng.choice([(1, 1), (1, 3), (2, 1), (2, 2), (3, 2), (1, 6)])
    elif style == "tiny":
        T, K = rng.randint(1, 6), rng.randint(1, 4)
    else:
        T, K = rng.randint(2, 40), rng.randint(2, 6)
    def cost():
        if style == "intfrac":
            return Fraction(rng.randint(-20, 20))      # integer costs; the switching cost below is fractional
        if style == "ties":
            return Fraction(rng.randint(0, 2))
        if style == "neg":
            return Fraction(rng.randint(-2 ** 20, 2 ** 20), 2 ** rng.choice([0, 3, 10]))
        if style == "spread":
            e = rng.randint(-10, 20)
            return Fraction(rng.randint(-1023, 1023)) * (Fraction(2) ** e)
        return Fraction(rng.randint(0, 4000), 2 ** rng.choice([0, 1, 4]))
    table = [[cost() for _ in range(K)] for _ in range(T)]
    if wide:
        # a flat, expensive table with one cheap cell per row, most of them in clusters of index 256 and up: the optimum
        # walks through (or stays in) high-numbered clusters
        table = [[Fraction(100)] * K for _ in range(T)]
        for t_ in range(T):
            table[t_][rng.randrange(max(0, K - 60), K) if rng.random() < 0.8 else rng.randrange(K)] = Fraction(rng.randint(0, 3))
    bstyle = rng.choice(["scalar", "vector", "zero", "vector0", "int"]) if style != "intfrac" else rng.choice(["scalar", "vector", "vector0"])
    def b():
        if style == "intfrac":
            return Fraction(rng.randint(1, 40), 8)
        return Fraction(rng.randint(0, 3000), 2 ** rng.choice([0, 2, 10])) if style != "ties" else Fraction(rng.randint(0, 2))
    if bstyle == "scalar":
        beta = ("scalar", b())
    elif bstyle == "int":
        beta = ("int", Fraction(rng.randint(0, 500)))
    elif bstyle == "zero":
        beta = ("scalar", Fraction(0))
    elif bstyle == "vector0":
        beta = ("vector", [b() if rng.random() < 0.6 else Fraction(0) for _ in range(T)])
    else:
        beta = ("vector", [b() for _ in range(T)])
    case = {"table": [[str(x) for x in row] for row in table], "beta_kind": beta[0],
            "beta": str(beta[1]) if beta[0] != "vector" else [str(x) for x in beta[1]], "style": style}
    if all(x.denominator == 1 and abs(x) < 2 ** 31 for row in table for x in row) and rng.random() < 0.7:
        # an integer-valued cost table handed over in an integer (or single-precision) dtype, with a switching cost
        # that need not be an integer: the kernel's arithmetic must not inherit the table's dtype
        fits32 = all(abs(x) < 2 ** 23 for row in table for x in row)
        case["dtype"] = rng.choice(["int64", "int32", "float32"] if fits32 else ["int64"])
    return case


def total_cost(table, betas, labels):
    c = sum(table[i][l] for i, l in enumerate(labels))
    for i in range(len(labels) - 1):
        if labels[i] != labels[i + 1]:
            c += betas[i]
    return c


def to_ints(table, betas):
    """scale everything by the common denominator: exact integer arithmetic."""
    den = 1
    for row in table:
        for x in row:
            den = max(den, x.denominator) if den % x.denominator == 0 or x.denominator % den == 0 else den * x.denominator
    for b in betas:
        den = max(den, b.denominator) if den % b.denominator == 0 or b.denominator % den == 0 else den * b.denominator
    it = [[int(x * den) for x in row] for row in table]
    ib = [int(b * den) for b in betas]
    assert all(Fraction(v, den) == x for r, rr in zip(it, table) for v, x in zip(r, rr))
    return it, ib, den


def brute(table, betas, K):
    """minimum over all K^T label sequences (integers), by plain enumeration."""
    T = len(table)
    best = None
    for q in itertools.product(range(K), repeat=T):
        c = 0
        prev = -1
        for i in range(T):
            l = q[i]
            c += table[i][l]
            if i and l != prev:
                c += betas[i - 1]
            prev = l
        if best is None or c < best:
            best = c
    return best


def textbook_dp(table, betas, K):
    """independent O(T K^2) forward dynamic programme (exact integers)."""
    T = len(table)
    cur = list(table[0])
    for i in range(1, T):
        cur = [table[i][c] + min(cur[p] + (0 if p == c else betas[i - 1]) for p in range(K))
               for c in range(K)]
    return min(cur)


def infinite_tables(ctx, cla):
    """cost tables with +inf entries ("this label is impossible for this point": zero likelihood) and integer finite
    entries, so that double arithmetic is exact and inf-arithmetic is unambiguous.  Every point keeps at least one finite
    label, so a finite optimum exists; the kernel must return it, report exactly its cost, and never produce NaN."""
    import math
    rng = ctx.rng
    cases = [ctx.replay["inf_table"]] if ctx.replay is not None else []
    if ctx.replay is None:
        for _ in range(60 if ctx.quick() else 1500):
            T, K = rng.randint(1, 7), rng.randint(2, 4)
            table = []
            for i in range(T):
                row = [float(rng.randint(-9, 9)) for _ in range(K)]
                if rng.random() < 0.6:
                    for c in rng.sample(range(K), rng.randint(1, K - 1)):
                        row[c] = math.inf
                table.append(row)
            kind = rng.choice(["scalar", "vector"])
            beta = float(rng.randint(0, 6)) if kind == "scalar" else [float(rng.randint(0, 6)) for _ in range(T)]
            cases.append({"table": [["inf" if math.isinf(x) else x for x in r] for r in table], "beta": beta})
    for c in cases:
        table = [[math.inf if x == "inf" else float(x) for x in r] for r in c["table"]]
        T, K = len(table), len(table[0])
        betas = [float(c["beta"])] * T if not isinstance(c["beta"], list) else [float(b) for b in c["beta"]]
        arr = np.array(table, dtype=np.float64)
        barg = betas[0] if not isinstance(c["beta"], list) else np.array(betas)
        with np.errstate(all="ignore"):
            labels, cost = cla.assign_point_cluster_labels(arr, barg)
        ctx.count("inf_tables")
        ctx.count("inf_tables_with_inf" if any(math.isinf(x) for r in table for x in r) else "inf_tables_all_finite")
        best = None
        for q in itertools.product(range(K), repeat=T):
            v = sum(table[i][l] for i, l in enumerate(q)) + sum(betas[i] for i in range(T - 1) if q[i] != q[i + 1])
            if best is None or v < best:
                best = v
        ok_range = len(labels) == T and all(float(l) == int(l) and 0 <= int(l) < K for l in labels)
        if not ok_range:
            ctx.violation("impl-violation", "labels not integers in [0,K) / wrong length (table with +inf entries)",
                          {"inf_table": c}, {"site": "range"})
            continue
        labels = [int(l) for l in labels]
        own = sum(table[i][l] for i, l in enumerate(labels)) + sum(betas[i] for i in range(T - 1) if labels[i] != labels[i + 1])
        if math.isnan(float(cost)) or float(cost) != own:
            ctx.violation("impl-violation", f"table with +inf entries: reported cost {float(cost)} is not the cost {own} of the returned labels",
                          {"inf_table": c, "impl_labels": labels}, {"site": "cost-of-path"})
        elif own != best:
            ctx.violation("impl-violation", f"table with +inf entries: returned labelling costs {own}, optimum is {best}",
                          {"inf_table": c, "impl_labels": labels}, {"site": "optimality"})
        ctx.case(("inf", repr(c)), nontrivial=T >= 2)


def run(ctx):
    common.setup_repo_import()
    from fast_ticc import cluster_label_assignment as cla

    if ctx.replay is not None:
        cases = [] if ctx.replay.get("inf_table") else [ctx.replay]
    else:
        n = 400 if ctx.quick() else 6000
        cases = list(ctx.corpus) + [gen_case(ctx.rng) for _ in range(n)]
    brute_limit = 20000 if ctx.quick() else 200000

    lines = []
    for c in cases:
        rows = show_list(c["table"], lambda r: show_list(r, lambda x: frac_str(Fraction(x))), ";")
        if c["beta_kind"] == "vector":
            lines.append(f"viterbi {len(c['table'][0])} vector {show_list(c['beta'], lambda x: frac_str(Fraction(x)))} {rows}")
        else:
            lines.append(f"viterbi {len(c['table'][0])} scalar {frac_str(Fraction(c['beta']))} {rows}")
    outs = ctx.driver.run(lines)

    strict_same = 0
    gen_cases = []
    for c, out in zip(cases, outs):
        table = [[Fraction(x) for x in row] for row in c["table"]]
        T, K = len(table), len(table[0])
        arr = np.array([[float(x) for x in row] for row in table], dtype=np.float64)
        if c.get("dtype"):
            arr = arr.astype(c["dtype"])
            ctx.count("table_dtype:" + c["dtype"])
        if c["beta_kind"] == "vector":
            betas = [Fraction(x) for x in c["beta"]]
            beta_arg = np.array([float(x) for x in betas], dtype=np.float64)
        elif c["beta_kind"] == "int":
            betas = [Fraction(c["beta"])] * T
            beta_arg = int(Fraction(c["beta"]))
        else:
            betas = [Fraction(c["beta"])] * T
            beta_arg = float(Fraction(c["beta"]))
        itab, ibet, den = to_ints(table, betas)
        snap = arr.copy()
        (labels, cost) = cla.assign_point_cluster_labels(arr, beta_arg)
        ctx.count(f"style:{c.get('style')}")
        ctx.count(f"beta:{c['beta_kind']}")
        key = (tuple(map(tuple, c["table"])), str(c["beta"]))
        # --- property on the implementation's own output
        ok_range = (len(labels) == T and all(float(l) == int(l) and 0 <= int(l) < K for l in labels))
        if not ok_range:
            ctx.violation("impl-violation", "labels not integers in [0,K) / wrong length",
                          c, {"site": "range"})
            ctx.case(key)
            continue
        labels = [int(l) for l in labels]
        exact = total_cost(table, betas, labels)
        if Fraction(float(cost)) != exact:
            ctx.violation("impl-violation", f"reported cost {float(cost)} is not the cost {exact} of the returned labels",
                          dict(c, impl_labels=labels, impl_cost=float(cost)), {"site": "cost-of-path"})
        if not np.array_equal(arr, snap):
            ctx.violation("impl-violation", "cost table modified by the labelling step", c, {"site": "mutation"})
        # --- the kernel TRANSLATED from the source, on the table the implementation saw: where double arithmetic is
        # exact (every partial sum an integer multiple of 1/den below 2^52) it must return the SAME labels (same
        # tie-breaking: the translation is literal) and the same cost
        if np.all(np.isfinite(arr)) and Fraction(float(cost)) == exact and \
                (sum(abs(v) for row in itab for v in row) + sum(abs(v) for v in ibet)) < 2 ** 52 and \
                all(Fraction(float(a)) == t for ra, rt in zip(arr, table) for a, t in zip(ra, rt)):
            rows_s = show_list(table, lambda r: show_list(r, frac_str), ";")
            bs = ("v:" + show_list(betas, frac_str)) if c["beta_kind"] == "vector" else ("s:" + frac_str(betas[0]))
            gen_cases.append((f"{rows_s} {bs}", f"ok {show_list(labels)} {frac_str(exact)}", c))
        # --- correspondence with the model
        mp = out.split(" ")
        if len(mp) != 2:
            ctx.violation("correspondence-break", "model driver rejected the case", dict(c, model=out))
            continue
        mlabels = common.parse_list(mp[0])
        mcost = Fraction(mp[1])
        if mlabels == labels:
            strict_same += 1
        if mcost != exact:
            # either the implementation is not optimal, or the model is not the code
            opt = Fraction(textbook_dp(itab, ibet, K), den)
            if exact != opt:
                ctx.violation("impl-violation", f"returned labelling costs {exact}, optimum is {opt}",
                              dict(c, impl_labels=labels), {"site": "optimality"})
            else:
                ctx.violation("correspondence-break", f"model optimum {mcost} != implementation cost {exact}",
                              dict(c, impl_labels=labels, model_labels=mlabels))
        # --- direct oracle (independent of the model)
        opt = Fraction(textbook_dp(itab, ibet, K), den)
        if K ** T <= brute_limit:
            bf = Fraction(brute(itab, ibet, K), den)
            ctx.count("brute_forced")
            if bf != opt:
                raise RuntimeError("oracle self-check failed: brute force and textbook DP disagree")
        if exact != opt:
            ctx.violation("impl-violation", f"returned labelling costs {exact}, optimum is {opt}",
                          dict(c, impl_labels=labels), {"site": "optimality"})
        greedy = [min(range(K), key=lambda k: table[i][k]) for i in range(T)]
        nontrivial = T >= 2 and K >= 2 and labels != greedy
        if T == 1:
            ctx.count("T=1")
        if K == 1:
            ctx.count("K=1")
        ctx.case(key, nontrivial, sample={"T": T, "K": K, "beta_kind": c["beta_kind"], "labels": labels,
                                          "cost": str(exact)} if T <= 6 else None)
    ctx.extra["strict_same_path_as_model"] = strict_same
    if ctx.replay is None or ctx.replay.get("inf_table"):
        infinite_tables(ctx, cla)
    ctx.gen_compare("assign_point_cluster_labels", gen_cases,
                    "translated assign_point_cluster_labels vs the implementation (labels and cost, exact inputs)")


    # ---------------- kernel calls of real runs, replayed exactly: every double is a rational, so the model
    # computes the exact optimum of the real table; the float kernel must be optimal up to rounding
    if ctx.replay is None:
        import math
        calls = []
        for _ in range(4 if ctx.quick() else 40):
            cfg = tu.gen_config(ctx.rng)
            res, tr, err, series = tu.execute(cfg, record_states=False)
            if tr is not None:
                for call in tr.kernel_calls[:3]:
                    if call["table"].shape[0] <= 160:
                        calls.append((cfg, call))
        lines = []
        for cfg, call in calls:
            table, kb = call["table"], call["beta"]
            K = table.shape[1]
            rows = show_list(table.tolist(), lambda r: show_list(r, lambda x: frac_str(Fraction(x))), ";")
            if isinstance(kb, np.ndarray):
                lines.append(f"viterbi {K} vector {show_list(kb.tolist(), lambda x: frac_str(Fraction(float(x))))} {rows}")
            else:
                lines.append(f"viterbi {K} scalar {frac_str(Fraction(float(kb)))} {rows}")
        for (cfg, call), mo in zip(calls, ctx.driver.run(lines)):
            mlabels, mcost = mo.split(" ")
            table, kb = call["table"], call["beta"]
            T = table.shape[0]
            betas = [Fraction(float(x)) for x in kb] if isinstance(kb, np.ndarray) else [Fraction(float(kb))] * T
            ftab = [[Fraction(x) for x in row] for row in table.tolist()]
            exact = total_cost(ftab, betas, call["labels"])
            scale = float(sum(abs(x) for row in ftab for x in row)) + float(sum(betas))
            eps = 1e-12 * (1.0 + scale)
            if float(exact - Fraction(mcost)) > eps:
                ctx.violation("impl-violation",
                              f"real-run cost table: returned labelling costs {float(exact)}, exact optimum is {float(Fraction(mcost))}",
                              dict(cfg, kernel_call_T=T), {"site": "optimality-real-table"})
            if abs(call["cost"] - float(exact)) > eps:
                ctx.violation("impl-violation", "real-run cost table: reported cost is not the cost of the returned labelling (beyond rounding)",
                              dict(cfg, kernel_call_T=T), {"site": "cost-of-path-real-table"})
            ctx.count("real_run_kernel_calls")
            ctx.case(("realcall", table.tobytes()), nontrivial=T >= 2 and table.shape[1] >= 2)

"""C17 — the Calinski-Harabasz index matches its definition."""
import math
import types
from fractions import Fraction

import numpy as np

import common
import oracles
import replay_run
import ticc_util as tu
from common import show_list, frac_str

LEVEL = "proof"
LEAN_PROPS = ["FastTicc.Props.C17", "FastTicc.Props.C17b", "FastTicc.Props.C12", "FastTicc.Props.Final"]
LEAN_HELPERS = ["FastTicc.Proofs.Stats", "FastTicc.Proofs.StatsPartition", "FastTicc.Proofs.Final"]
LEAN_TRANSLATED = {"FastTicc.Props.TrCh": ["calinski_harabasz_index"]}
RULE = ("(a) synthetic integer data with given labels through the real metric vs the rational model (pinned and spec "
        "value); (b) converged runs with K>=2 and every cluster non-empty: the reported value vs an independent "
        "computation from data and returned labels, and the same data translated by a per-sensor constant; "
        "non-trivial = sensors do not share one mean; distinct by input")
EXPLANATION = ("Lean: traceOuterSum_eq (the matrix-accumulating code is the sum-of-squares definition), "
               "between_decomposition and chPinned_eq_chSpec_plus (exact deviation of the scalar-mean centre), "
               "chSpec_translation_invariant, chPinned_not_translation_invariant. Correspondence: real metric vs model "
               "at Rat on integer data; oracle: independent recomputation. Known finding K2-C17 is recognised only when "
               "the reported value equals the definition plus exactly the proved deviation.")
ASSUMPTIONS = ["values compared at 1e-9 relative"]


def ch_values(data, labels, K):
    """(spec, pinned-formula) from data and labels, cluster means recomputed."""
    T, d = data.shape
    c = data.mean(axis=0)
    g = float(np.mean(data))
    B_spec = B_pin = Wd = 0.0
    for k in range(K):
        rows = data[[i for i, x in enumerate(labels) if x == k]]
        if rows.shape[0] == 0:
            return None
        mu = rows.mean(axis=0)
        B_spec += rows.shape[0] * float(np.sum((mu - c) ** 2))
        B_pin += rows.shape[0] * float(np.sum((mu - g) ** 2))
        Wd += float(np.sum((rows - mu) ** 2))
    if Wd == 0 or K < 2:
        return None
    f = (T - K) / (K - 1)
    dev = T * float(np.sum((c - g) ** 2))
    return B_spec / Wd * f, (B_spec + dev) / Wd * f, dev / Wd * f


def judge(ctx, got, vals, payload):
    spec, pinned, dev = vals
    # centred differences of readings on an offset `s` carry an absolute rounding error ~ eps * s, i.e. ~ 1e-16 * s
    # relative to a unit spread: allow 1e-9 up to |s| = 1e5 and proportionally more beyond
    sh = payload.get("shift") if isinstance(payload, dict) else None
    big = max([abs(float(x)) for x in sh], default=0.0) if isinstance(sh, (list, tuple)) else 0.0
    tol = 1e-9 * max(1.0, big / 1e5)
    if oracles.rel_close(got, spec, tol, tol):
        return "spec"
    if oracles.rel_close(got, pinned, tol, tol):
        ctx.violation("impl-violation",
                      f"index {got} != definition {spec}: centred on the scalar mean of all entries (deviation {dev})",
                      payload, {"site": "ch-centre", "deviation": "scalar-mean-centre"})
        return "pinned"
    ctx.violation("impl-violation", f"index {got} matches neither the definition {spec} nor the known deviation {pinned}",
                  payload, {"site": "ch-value"})
    return "other"


def run(ctx):
    common.setup_repo_import()
    from fast_ticc import cluster_metrics as cmx

    if ctx.replay is not None:
        syn = [ctx.replay] if ctx.replay.get("synthetic") else []
        cfgs = [] if (ctx.replay.get("synthetic") or ctx.replay.get("large") or "swap_scenario" in ctx.replay) else [ctx.replay]
    else:
        syn = [c for c in ctx.corpus if c.get("synthetic")]
        for _ in range(150 if ctx.quick() else 2000):
            K = ctx.rng.randint(2, 4)
            d = ctx.rng.randint(1, 4)
            T = ctx.rng.randint(2 * K + 1, 24)
            labels = [k for k in range(K) for _ in range(2)] + [ctx.rng.randrange(K) for _ in range(T - 2 * K)]
            ctx.rng.shuffle(labels)
            off = [ctx.rng.choice([0, 0, 50, -200]) for _ in range(d)]
            rows = [[ctx.rng.randint(-20, 20) + off[j] + 7 * labels[i] for j in range(d)] for i in range(T)]
            # the index is scale-free: the same data in units 2^-e (exact in float64) must give the same value,
            # however small the within-cluster dispersion becomes
            e = ctx.rng.choice([0, 0, 0, 16, 30, 40])
            if e:
                rows = [[str(Fraction(x, 2 ** e)) for x in r] for r in rows]
            syn.append({"synthetic": True, "K": K, "labels": labels, "rows": rows, "scale_exp": e})
        cfgs = [c for c in ctx.corpus if not c.get("synthetic")]
        for i in range(14 if ctx.quick() else 150):
            cfg = tu.gen_config(ctx.rng)
            cfg["limit"] = 25
            if i % 2 == 0:
                cfg["shift"] = [ctx.rng.choice([0, 100, -30]) for _ in range(cfg["N"])]
            if i % 5 == 3:
                # readings riding on a huge common offset (epoch seconds, absolute frequencies): the dispersions must be
                # computed from centred values
                off = float(10 ** ctx.rng.choice([6, 7, 8]))
                cfg["shift"] = [off] * cfg["N"]
            cfgs.append(cfg)

    lines = []
    for c in syn:
        K, labels, rows = c["K"], c["labels"], c["rows"]
        rows = [[Fraction(x) for x in r] for r in rows]
        members = [[i for i, x in enumerate(labels) if x == k] for k in range(K)]
        means = [[sum(rows[i][j] for i in m) / len(m) for j in range(len(rows[0]))] for m in members]
        lines.append(f"ch {len(rows)} {K} {len(rows[0])} {show_list(members, lambda l: show_list(l), ';')} "
                     f"{show_list(means, lambda r: show_list(r, frac_str), ';')} {show_list(rows, lambda r: show_list(r, frac_str), ';')}")
    outs = ctx.driver.run(lines)
    for c, mo in zip(syn, outs):
        K, labels = c["K"], c["labels"]
        data = np.array([[float(Fraction(x)) for x in r] for r in c["rows"]], dtype=float)
        ctx.count(f"synthetic_scale:2^-{c.get('scale_exp', 0)}")
        # a real model state whose clusters carry the statistics the statistics phase would give them
        from fast_ticc import cluster_maintenance as cm
        from fast_ticc.containers import arguments as _arguments, model_state as _ms
        biased = (len(labels) + K) % 2 == 0
        ua = _arguments.UserArguments(sparsity_weight=0.1, iteration_limit=5, label_switching_cost=1.0, min_cluster_size=2,
                                      min_meaningful_covariance=0, num_clusters=K, num_processors=1, window_size=1,
                                      biased_covariance=biased)
        st = _ms.ModelState.empty_model(ua, data)
        st.point_labels = list(labels)
        st = cm.update_all_cluster_statistics(st, data)
        got = float(cmx.calinski_harabasz_index(data, st))
        vals = ch_values(data, labels, K)
        if vals is None:
            continue
        which = judge(ctx, got, vals, c)
        mp = [float(Fraction(x)) for x in mo.split(" ")]
        model_val = mp[0] if which == "pinned" else mp[1]
        if which in ("pinned", "spec") and not oracles.rel_close(got, model_val, 1e-9, 1e-9):
            ctx.violation("correspondence-break", f"model ch{which.capitalize()} {model_val} vs implementation {got}", c)
        if not (oracles.rel_close(vals[0], mp[1], 1e-9, 1e-9) and oracles.rel_close(vals[1], mp[0], 1e-9, 1e-9)):
            ctx.violation("correspondence-break", "model chSpec/chPinned vs the oracle's definition", c)
        ctx.count("synthetic:" + which)
        ctx.case(("syn", K, tuple(labels), repr(c["rows"])), nontrivial=vals[2] > 1e-9,
                 sample={"K": K, "T": len(labels), "reported": got, "definition": vals[0], "deviation": vals[2]}
                 if len(ctx.samples) < 3 else None)

    # ---------------- LARGE labellings: thousands of windows, window counts that are NOT multiples of the block sizes a
    # slab-wise / vectorised rewrite would pick (1024, 4096), and one that is; direct oracle only
    if ctx.replay is None or ctx.replay.get("large"):
        import random as _pr
        from fast_ticc import cluster_maintenance as cm
        from fast_ticc.containers import arguments as _arguments, model_state as _ms
        plans = [ctx.replay] if ctx.replay is not None else \
            [{"large": True, "T": T_, "K": K_, "seed": ctx.rng.randrange(2 ** 31)}
             for (T_, K_) in ([(1300, 2), (2500, 3), (4096, 2)] if ctx.quick() else
                              [(1300, 2), (2500, 3), (4096, 2), (5000, 4), (1025, 2), (9001, 3)])]
        for c in plans:
            r_ = _pr.Random(c["seed"])
            T_, K_ = c["T"], c["K"]
            rs_ = np.random.RandomState(c["seed"] % 2 ** 31)
            labels = []
            cur = r_.randrange(K_)
            while len(labels) < T_:
                labels.extend([cur] * r_.randint(20, 400))
                cur = (cur + 1 + r_.randrange(K_ - 1)) % K_ if K_ > 1 else cur
            labels = labels[:T_]
            for k in range(K_):
                labels[k] = k
            data = rs_.randn(T_, 2) + np.array([[3.0 * l, -2.0 * l] for l in labels])
            ua = _arguments.UserArguments(sparsity_weight=0.1, iteration_limit=5, label_switching_cost=1.0, min_cluster_size=2,
                                          min_meaningful_covariance=0, num_clusters=K_, num_processors=1, window_size=1,
                                          biased_covariance=False)
            st = _ms.ModelState.empty_model(ua, data)
            st.point_labels = list(labels)
            st = cm.update_all_cluster_statistics(st, data)
            got = float(cmx.calinski_harabasz_index(data, st))
            vals = ch_values(data, labels, K_)
            if vals is not None:
                which = judge(ctx, got, vals, c)
                ctx.count("large_labellings:" + which)
            ctx.case(("large", T_, K_), nontrivial=True)

    # ---------------- scripted runs that converge right after clusters exchanged windows while keeping their sizes:
    # the index must be computed for the members of the returned labelling
    if ctx.replay is None or "swap_scenario" in ctx.replay:
        import random as pyrandom
        import warnings
        from fast_ticc import cluster_label_assignment as cla
        reps = [ctx.replay["swap_scenario"]] if ctx.replay is not None else list(range(3 if ctx.quick() else 30))
        for rep in reps:
            r = pyrandom.Random(ctx.seed * 17 + rep)
            K = r.choice([2, 3])
            W = r.choice([1, 2, 3])
            T = r.randint(60, 110)
            data = tu.make_series(r, T, 2, regimes=K, seg=(10, 25))
            npts = T - W + 1
            base = [(i * K) // npts for i in range(npts)]
            L1 = list(base)
            L2 = list(base)
            # exchange windows pairwise between clusters: sizes unchanged, membership changed
            for _ in range(r.randint(2, 6)):
                a, b = r.sample(range(npts), 2)
                if L2[a] != L2[b]:
                    L2[a], L2[b] = L2[b], L2[a]
            if L1 == L2:
                a = L2.index(0); b = L2.index(1)
                L2[a], L2[b] = 1, 0
            o_pred = cla.predict_cluster_labels

            def pred(model, test_data, _o=o_pred, _L1=L1, _L2=L2):
                out = _o(model, test_data)
                out.point_labels = list(_L1)      # a labelling with the same cluster sizes ...
                out.point_labels = list(_L2)      # ... then windows are exchanged between clusters, sizes kept
                return out
            res = None
            with tu.patched(cla, "build_initial_clusters", lambda K_, d, _L1=L1: list(_L1)), \
                    tu.patched(cla, "predict_cluster_labels", pred), warnings.catch_warnings():
                warnings.simplefilter("ignore")
                try:
                    res = tu.run_single(data, window_size=W, num_clusters=K, label_switching_cost=3.0, min_cluster_size=2,
                                        iteration_limit=6)
                except Exception:
                    ctx.count("swap_scenario_raised")
            if res is not None:
                from fast_ticc import data_preparation as dp
                stacked = dp.stack_training_data(data, W)
                labels = [int(x) for x in res.point_labels if x >= 0]
                vals = ch_values(stacked, labels, K)
                if labels == L2 and vals is not None:
                    which = judge(ctx, float(res.calinski_harabasz_index), vals, {"swap_scenario": rep})
                    ctx.count("swap_scenario:" + which)
            ctx.case(("swap", rep, K, W, T), nontrivial=res is not None)

    for ci, cfg in enumerate(cfgs):
        if ctx.replay is None and ci % 3 == 0:
            # call SEQUENCE: a K-sweep starts at one cluster — that call ends in a division by zero inside the index
            # (K - 1 = 0) — and the next call, on the same data shape, must still report the right value
            _r0, _t0, e0, _s0 = tu.execute(dict(cfg, K=1, limit=2), trace=False)
            ctx.count("preceded_by_failing_K1_call:" + (type(e0).__name__ if e0 is not None else "returned"))
        res, tr, err, series = tu.execute(cfg, capture_kernel=False, record_states=False)
        if err is not None:
            ctx.count("runs_raised")
            ctx.case(("cfg", repr(sorted(cfg.items()))))
            continue
        rounds = len(tr.rounds())
        if rounds >= cfg["limit"]:
            ctx.count("runs_not_converged")
            ctx.case(("cfg", repr(sorted(cfg.items()))))
            continue
        from fast_ticc import data_preparation as dp
        stacked = dp.stack_training_data_multiple_series(series, cfg["W"])
        flat, _ = oracles.flat_labels(res.point_labels)
        labels = [x for x in flat if x >= 0]
        vals = ch_values(stacked, labels, cfg["K"])
        if vals is None:
            ctx.count("runs_with_empty_cluster")
            ctx.case(("cfg", repr(sorted(cfg.items()))))
            continue
        which = judge(ctx, float(res.calinski_harabasz_index), vals, cfg)
        ctx.count("runs:" + which)
        ctx.case(("cfg", repr(sorted(cfg.items()))), nontrivial=vals[2] > 1e-9 * max(1.0, vals[0]),
                 sample={"reported": float(res.calinski_harabasz_index), "definition": vals[0], "deviation": vals[2],
                         "shift": cfg.get("shift")} if len(ctx.samples) < 6 else None)

    # whole-result replay (Final.report): the index of a traced real run vs the composed model's scalar-centred value
    replay_run.whole_result_section(ctx, cfgs, ("ch",), 5 if ctx.quick() else 40)

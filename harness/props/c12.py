"""C12 — each cluster is fitted to exactly its own windows, with the requested estimator."""
import random as pyrandom
import warnings
from fractions import Fraction

import numpy as np

import common
import oracles
import ticc_util as tu
from common import show_list, frac_str

LEVEL = "proof"
LEAN_PROPS = ["FastTicc.Props.C12", "FastTicc.Props.C13"]
LEAN_HELPERS = ["FastTicc.Proofs.Stats"]
RULE = ("(a) the statistics helper on integer-valued data for both estimator flags vs the rational model; (b) every "
        "round and cluster of traced complete runs (biased and unbiased, incl. rounds after forced repopulation): "
        "mean/covariance recomputed from exactly the windows labelled k, and the arguments that reach the optimiser "
        "compared bitwise with the state after the statistics phase; non-trivial = run with >=2 rounds or a "
        "repopulation; distinct by configuration")
EXPLANATION = ("Lean: clusterMean_spec, cov_divisor, cov_biased_unbiased, stats_perm_invariant, stats_only_own_rows, "
               "members_exact (+ C13 stats_phase_spec: the statistics phase reads the member lists that match the "
               "labels). Correspondence: helper vs model at Rat (1e-10 relative: the code divides in floating point); "
               "oracle: per-round recomputation and bitwise comparison of the optimiser's arguments.")
ASSUMPTIONS = ["np.cov / np.mean compute the textbook estimators to rounding"]


def indep_stats(rows, biased):
    n = rows.shape[0]
    mean = rows.sum(axis=0) / n
    xc = rows - mean
    with np.errstate(all="ignore"):
        cov = (xc.T @ xc) / (n - (0 if biased else 1))
    return mean, cov


def close_arr(a, b, rtol=1e-9):
    a, b = np.asarray(a, dtype=float), np.asarray(b, dtype=float)
    if a.shape != b.shape:
        a = a.reshape(b.shape) if a.size == b.size else a
    if a.shape != b.shape:
        return False
    scale = max(1.0, float(np.max(np.abs(b))) if b.size else 1.0)
    return bool(np.all(np.abs(a - b) <= rtol * scale))


def run(ctx):
    common.setup_repo_import()
    from fast_ticc import cluster_maintenance as cm, cluster_label_assignment as cla
    from fast_ticc.containers import model_state
    from props import c09

    if ctx.replay is not None:
        syn = [ctx.replay] if ctx.replay.get("synthetic") else []
        cfgs = [] if (ctx.replay.get("synthetic") or ctx.replay.get("large") or "singleton_scenario" in ctx.replay) else [ctx.replay]
    else:
        syn = [c for c in ctx.corpus if c.get("synthetic")]
        for _ in range(120 if ctx.quick() else 1500):
            d = ctx.rng.randint(1, 4)
            T = ctx.rng.randint(3, 14)
            rows = [[ctx.rng.randint(-1024, 1024) for _ in range(d)] for _ in range(T)]
            members = sorted(ctx.rng.sample(range(T), ctx.rng.randint(2, T)))
            syn.append({"synthetic": True, "d": d, "rows": rows, "members": members, "biased": ctx.rng.random() < 0.5})
        cfgs = [c for c in ctx.corpus if not c.get("synthetic")]
        for i in range(14 if ctx.quick() else 150):
            cfg = tu.gen_config(ctx.rng)
            cfg["biased"] = (i % 2 == 0)
            if i % 3 == 0:
                cfg["force_repop"] = True
                cfg["limit"] = max(cfg["limit"], 3)
            cfgs.append(cfg)
            if i % 4 == 1:
                # the SAME data, generator state and hyper-parameters fitted again in this process with the OTHER
                # estimator (the same member sets recur): what was computed for one flag must not serve the other
                cfgs.append(dict(cfg, biased=not cfg["biased"], refit_other_estimator=True))

    # ---------------- (a) helper vs rational model
    lines = [f"clusterstats {1 if c['biased'] else 0} {c['d']} {show_list(c['members'])} "
             f"{show_list(c['rows'], lambda r: show_list(r), ';')}" for c in syn]
    outs = ctx.driver.run(lines)
    for c, mo in zip(syn, outs):
        data = np.array(c["rows"], dtype=float)
        cl = model_state.ClusterParameters(member_points=list(c["members"]))
        with warnings.catch_warnings():
            warnings.simplefilter("ignore")
            out = cm.update_cluster_member_data_statistics(cl, data, c["biased"])
        mm, mc = mo.split(" ")
        mean = np.array([float(Fraction(x)) for x in mm.split(",")])
        cov = np.array([[float(Fraction(x)) for x in r.split(",")] for r in mc.split(";")])
        imean, icov = indep_stats(data[c["members"]], c["biased"])
        if not (close_arr(out.stacked_data_mean, imean) and close_arr(np.atleast_2d(out.empirical_covariance), icov)):
            ctx.violation("impl-violation", "statistics are not the mean / covariance (requested divisor) of the member rows",
                          c, {"site": "stats-helper", "biased": c["biased"]})
        if not (close_arr(out.stacked_data_mean, mean, 1e-10) and close_arr(np.atleast_2d(out.empirical_covariance), cov, 1e-10)):
            ctx.violation("correspondence-break", "clusterMean/clusterCov vs update_cluster_member_data_statistics", c)
        if out.member_points != sorted(c["members"]) or out is cl:
            ctx.violation("impl-violation", "statistics helper changed membership / returned its input", c, {"site": "stats-helper"})
        ctx.count("synthetic_biased" if c["biased"] else "synthetic_unbiased")
        ctx.case(("syn", c["d"], tuple(map(tuple, c["rows"])), tuple(c["members"]), c["biased"]), nontrivial=len(c["members"]) >= 3)

    # ---------------- (a1) LARGE clusters: thousands of windows, member rows sitting exactly on the powers of two at which
    # blocked / chunked / narrow-counter implementations change course (4096, 8192, 2^15, 2^16 and their multiples)
    if ctx.replay is None or ctx.replay.get("large"):
        plans = [ctx.replay] if ctx.replay is not None else \
            [{"large": True, "T": T_, "d": d_, "frac": fr_, "biased": bool(bi_), "seed": ctx.rng.randrange(2 ** 31)}
             for (T_, d_, fr_, bi_) in ([(9000, 2, 0.6, 0), (9000, 3, 1.0, 1), (70000, 2, 0.9, 0)] if ctx.quick() else
                                        [(9000, 2, 0.6, 0), (9000, 3, 1.0, 1), (70000, 2, 0.9, 0), (70000, 4, 0.5, 1),
                                         (140000, 2, 0.97, 0), (20000, 6, 0.8, 1), (4097, 2, 1.0, 0), (33000, 3, 0.7, 0)])]
        for c in plans:
            rs = np.random.RandomState(c["seed"])
            T_, d_ = c["T"], c["d"]
            data = rs.randn(T_, d_) @ (np.eye(d_) + 0.3 * rs.randn(d_, d_)) + rs.randn(d_)
            pick = rs.rand(T_) < c["frac"]
            for edge in range(4096, T_, 4096):
                pick[edge] = True               # rows ON the block edges are members; their neighbours are a coin flip
            members = [int(i) for i in np.nonzero(pick)[0]]
            data[members[len(members) // 2]] += 40.0        # one far outlier: a row counted twice or dropped shows
            for edge in range(4096, T_, 4096):
                data[edge] += 25.0 * rs.randn(d_)
            cl = model_state.ClusterParameters(member_points=list(members))
            with warnings.catch_warnings():
                warnings.simplefilter("ignore")
                out = cm.update_cluster_member_data_statistics(cl, data, c["biased"])
            imean, icov = indep_stats(data[members], c["biased"])
            if not (close_arr(out.stacked_data_mean, imean) and close_arr(np.atleast_2d(out.empirical_covariance), icov)):
                ctx.violation("impl-violation", f"statistics of a cluster of {len(members)} windows (of {T_}) are not the mean / "
                              "covariance of the member rows", c, {"site": "stats-helper", "biased": c["biased"], "large": True})
            ctx.count("large_cluster_statistics")
            ctx.case(("large", T_, d_, c["frac"], c["biased"]), nontrivial=True)

    # ---------------- (a2) two consecutive rounds whose membership differs but whose MEAN is bit-identical
    # (symmetric integer data): the covariance must still be recomputed for the new members
    if ctx.replay is None:
        from fast_ticc import data_preparation as dp
        for rep in range(3 if ctx.quick() else 20):
            r = pyrandom.Random(ctx.seed * 31 + rep)
            reps = r.randint(2, 4)
            quad = [(0.0, 0.0), (2.0, 2.0), (0.0, 2.0), (2.0, 0.0)]
            common_rows = [(1.0, 0.0), (1.0, 2.0)] * reps
            rows_a = [quad[0], quad[1]] * reps         # mean (1,1), positive correlation
            rows_b = [quad[2], quad[3]] * reps         # mean (1,1), negative correlation
            other = [(10.0 + r.randint(0, 3), 7.0 + r.randint(0, 3)) for _ in range(6 * reps)]
            data = np.array(rows_a + rows_b + common_rows + other)
            na, nb, nc = len(rows_a), len(rows_b), len(common_rows)
            L1 = [0] * na + [1] * nb + [0] * nc + [1] * len(other)        # cluster 0 = A + common
            L2 = [1] * na + [0] * nb + [0] * nc + [1] * len(other)        # cluster 0 = B + common (same mean)
            script = {"j": 0}
            o_init, o_pred = cla.build_initial_clusters, cla.predict_cluster_labels

            def pred(model, test_data, _o=o_pred):
                out = _o(model, test_data)
                out.point_labels = list(L2 if script["j"] % 2 == 0 else L1)
                script["j"] += 1
                return out
            with tu.patched(cla, "build_initial_clusters", lambda K, d: list(L1)), tu.patched(cla, "predict_cluster_labels", pred), \
                    warnings.catch_warnings():
                warnings.simplefilter("ignore")
                with tu.Trace(capture_kernel=False) as tr2:
                    try:
                        tu.run_single(data, window_size=1, num_clusters=2, label_switching_cost=1.0, min_cluster_size=2,
                                      iteration_limit=3, biased_covariance=(rep % 2 == 1))
                    except Exception:
                        pass
            for e in tr2.events:
                if e["phase"] != "stats" or e["error"] is not None:
                    continue
                snap = e["out_snap"]
                for k, cs in enumerate(snap["clusters"]):
                    members = [i for i, x in enumerate(snap["labels"]) if x == k]
                    imean, icov = indep_stats(data[members], rep % 2 == 1)
                    if not (close_arr(cs["mean"], imean) and close_arr(np.atleast_2d(cs["emp"]), icov)):
                        ctx.violation("impl-violation",
                                      f"cluster {k}: covariance is not that of its current windows (membership changed, mean unchanged)",
                                      {"equal_mean_scenario": rep}, {"site": "stats-values", "scenario": "equal-mean"})
            ctx.count("equal_mean_scenarios")
            ctx.case(("equal-mean", rep), nontrivial=True)

    # ---------------- (a3) the whole statistics phase on states with a single-window cluster at every index:
    # the estimator of one cluster must not depend on the sizes of the clusters before it
    if ctx.replay is None or ctx.replay.get("singleton_scenario") is not None:
        from fast_ticc.containers import arguments
        reps = [ctx.replay["singleton_scenario"]] if ctx.replay is not None else list(range(8 if ctx.quick() else 80))
        for rep in reps:
            r = pyrandom.Random(ctx.seed * 131 + rep)
            K = r.choice([2, 3, 4])
            d = r.choice([1, 2, 3])
            sizes = [r.randint(3, 9) for _ in range(K)]
            for k in r.sample(range(K), r.randint(1, K - 1)):
                sizes[k] = 1
            lab = [k for k in range(K) for _ in range(sizes[k])]
            r.shuffle(lab)
            data = np.array([[float(r.randint(-64, 64)) for _ in range(d)] for _ in lab])
            biased = (rep % 3 == 2)
            args = arguments.UserArguments(sparsity_weight=0.1, iteration_limit=3, label_switching_cost=1.0, min_cluster_size=1,
                                           min_meaningful_covariance=0, num_clusters=K, num_processors=1, window_size=1,
                                           biased_covariance=biased)
            st = model_state.ModelState.empty_model(args, data)
            st.point_labels = list(lab)
            with warnings.catch_warnings():
                warnings.simplefilter("ignore")
                out = cm.update_all_cluster_statistics(st, data)
            for k in range(K):
                members = [i for i, x in enumerate(lab) if x == k]
                imean, icov = indep_stats(data[members], biased)
                cl = out.clusters[k]
                ok = cl.member_points == members and close_arr(cl.stacked_data_mean, imean)
                if np.all(np.isfinite(icov)):
                    ok = ok and close_arr(np.atleast_2d(cl.empirical_covariance), icov)
                if not ok:
                    ctx.violation("impl-violation",
                                  f"cluster {k} (sizes {sizes}): mean/covariance are not those of exactly its windows with divisor "
                                  f"{'n' if biased else 'n-1'}", {"singleton_scenario": rep, "sizes": sizes, "biased": biased},
                                  {"site": "stats-values", "scenario": "singleton-neighbour"})
            ctx.count("singleton_neighbour_scenarios")
            ctx.case(("singleton", rep, tuple(sizes), biased), nontrivial=True)

    # ---------------- (b) traced runs
    for cfg in cfgs:
        series = tu.config_data(cfg)
        tu.seed_all(cfg["seed"])
        patch = None
        if cfg.get("force_repop") and not cfg["joint"]:
            r = pyrandom.Random(cfg["seed"])
            Tst = cfg["lens"][0] - cfg["W"] + 1
            pool = c09.labelling_pool(r, Tst, cfg["K"]) if Tst > 8 + cfg["K"] else None
            counter = {"j": 0}
            orig = cla.predict_cluster_labels

            def scripted(model, test_data, _orig=orig, _pool=pool, _c=counter):
                out = _orig(model, test_data)
                if _pool is not None and _c["j"] == 0:
                    out.point_labels = list(_pool[100])        # empties a cluster: next round must repopulate
                _c["j"] += 1
                return out
            patch = tu.patched(cla, "predict_cluster_labels", scripted)
        res = err = None
        with warnings.catch_warnings():
            warnings.simplefilter("ignore")
            try:
                with (patch if patch is not None else tu.patched(cla, "predict_cluster_labels", cla.predict_cluster_labels)):
                    with tu.Trace(capture_kernel=False) as tr:
                        res = tu.run_joint(series, **tu.config_kwargs(cfg)) if cfg["joint"] else tu.run_single(series[0], **tu.config_kwargs(cfg))
            except Exception as e:
                err = e
        if err is not None:
            ctx.count("runs_raised:" + type(err).__name__)
        from fast_ticc import data_preparation as dp
        stacked = dp.stack_training_data_multiple_series(series, cfg["W"])
        rounds = tr.rounds()
        repops = 0
        admm_i = 0
        for evs in rounds:
            for e in evs:
                if e["error"] is not None or e["out"] is None:
                    continue
                if e["phase"] == "repop" and e["out"] is not e["in"]:
                    repops += 1
                if e["phase"] == "stats":
                    snap = e["out_snap"]
                    labels = snap["labels"]
                    for k, cs in enumerate(snap["clusters"]):
                        members = [i for i, x in enumerate(labels) if x == k]
                        if cs["members"] != members:
                            ctx.violation("impl-violation", f"cluster {k} fitted on a member list that is not its label class",
                                          cfg, {"site": "stats-members"})
                            continue
                        imean, icov = indep_stats(stacked[members], cfg["biased"])
                        ok = close_arr(cs["mean"], imean)
                        if np.all(np.isfinite(icov)):
                            ok = ok and close_arr(np.atleast_2d(cs["emp"]), icov)
                        if not ok:
                            ctx.violation("impl-violation",
                                          f"cluster {k}: mean/covariance are not those of exactly its windows with divisor "
                                          f"{'n' if cfg['biased'] else 'n-1'}", cfg, {"site": "stats-values", "biased": cfg["biased"]})
                if e["phase"] == "opt":
                    st_in = e["in_before"]
                    for k, cs in enumerate(st_in["clusters"]):
                        if admm_i >= len(tr.admm_calls):
                            break
                        call = tr.admm_calls[admm_i]
                        admm_i += 1
                        a = call["args"]
                        same_cov = np.array_equal(np.asarray(a[0]), cs["emp"], equal_nan=True)
                        lam_ok = (a[1] is e["in"].arguments.sparsity_weight) or (a[1] == cfg["lam"])
                        if not (same_cov and lam_ok and a[2] == cfg["W"] and a[3] == cfg["N"]):
                            ctx.violation("impl-violation",
                                          f"optimiser task of cluster {k} did not receive (its covariance, lambda, W, N) unchanged",
                                          cfg, {"site": "task-args"})
                        if call["kwargs"].get("rho") != 1 or call["kwargs"].get("rho_update") is not None:
                            ctx.violation("impl-violation", "optimiser step parameters differ from the defaults", cfg, {"site": "task-args"})
            # a failing optimise phase consumed some tasks; resynchronise at round boundaries
            admm_i = min(admm_i, len(tr.admm_calls))
        ctx.count("rounds_checked", len(rounds))
        ctx.count("repopulations_seen", repops)
        ctx.count("runs_biased" if cfg["biased"] else "runs_unbiased")
        ctx.case(("cfg", repr(sorted(cfg.items()))), nontrivial=(len(rounds) >= 2 or repops > 0),
                 sample={"biased": cfg["biased"], "rounds": len(rounds), "repopulations": repops, "K": cfg["K"]}
                 if len(ctx.samples) < 5 else None)

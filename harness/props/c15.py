"""C15 — Numba acceleration is semantically transparent."""
import json
import os
import struct
import subprocess
import sys
from concurrent.futures import ThreadPoolExecutor
from fractions import Fraction

import numpy as np

import common
import ticc_util as tu
from common import show_list, frac_str
from props import c01, c05

LEVEL = "other"
LEAN_PROPS = ["FastTicc.Props.C15", "FastTicc.Props.C01", "FastTicc.Props.C05"]
LEAN_HELPERS = ["FastTicc.Proofs.MainLoop"]
LEAN_TRANSLATED = {"FastTicc.Props.TrViterbi": ["assign_point_cluster_labels"],
                   "FastTicc.Props.TrLoglik": ["point_log_likelihood_fast", "all_points_all_clusters_log_likelihood_fast"]}
RULE = ("execution modes {JIT compiled, NUMBA_DISABLE_JIT=1, Numba not importable} in separate processes, JIT at thread "
        "counts {1,4} (thorough: {1,2,4,8,16}); kernel inputs: dyadic cost tables (C / Fortran / strided / read-only, "
        "scalar / int / vector beta), likelihood models on dyadic data, and complete small runs; non-trivial = table with "
        ">=2 points and >=2 clusters; distinct by (input, mode)")
EXPLANATION = ("The Lean model is the reference semantics every mode must match: C01 (labelling kernel: viterbi_optimal …), "
               "C05 (likelihood formula), and parallel_fill_schedule_independent / parallel_fill_any_two_orders (a table whose "
               "cells are written once each, with values depending only on the cell, is the same for every interleaving of "
               "the prange threads). NOT proved: that Numba/LLVM compile the Python semantics — observed: in every mode the "
               "labelling kernel's labels and cost equal the model's exactly on dyadic inputs, the likelihood tables equal "
               "the rational model within 1e-12 and each other within 4 ulp, and complete runs return the same labels.")
ASSUMPTIONS = ["Numba / LLVM code generation and the threading layer are trusted base; they are compared, not verified"]


def ulps(a, b):
    def key(x):
        i = struct.unpack("<q", struct.pack("<d", x))[0]
        return i if i >= 0 else -(i & 0x7fffffffffffffff)
    return abs(key(a) - key(b))


def spawn(mode, threads, job):
    env = dict(os.environ)
    env.pop("NUMBA_DISABLE_JIT", None)
    env["OPENBLAS_NUM_THREADS"] = "1"
    if mode == "nojit":
        env["NUMBA_DISABLE_JIT"] = "1"
    if threads:
        env["NUMBA_NUM_THREADS"] = str(threads)
    job = dict(job, mode=mode)
    p = subprocess.run([sys.executable, os.path.join(common.HERE, "mode_worker.py"), common.REPO],
                       input=json.dumps(job), capture_output=True, text=True, env=env, timeout=1200)
    for line in p.stdout.splitlines():
        if line.startswith("RESULT "):
            return json.loads(line[7:])
    raise RuntimeError(f"mode worker {mode}/{threads} failed: {p.stderr[-600:]}")


def run(ctx):
    if ctx.replay is not None:
        kernel_cases = [ctx.replay] if "table" in ctx.replay else []
    else:
        kernel_cases = [c01.gen_case(ctx.rng) for _ in range(60 if ctx.quick() else 600)]
        # cost tables in a dtype other than float64 (integer costs, single precision): values are small integers so
        # that every dtype holds them exactly, but their running sum leaves the int16 range
        for j in range(12 if ctx.quick() else 120):
            T, K = ctx.rng.randint(12, 40), ctx.rng.randint(2, 4)
            vec = ctx.rng.random() < 0.5
            dt = ["int16", "float32", "int32", "int64"][j % 4]
            # regimes: one cluster is clearly cheapest over a long stretch and switching is dear, so the optimal path
            # has long runs without a switch; float32 entries carry 10 fractional bits (exact in float32, but their
            # running sum is not)
            cuts = sorted(ctx.rng.sample(range(1, T), min(2, T - 1)))
            regime = [sum(1 for c_ in cuts if i_ >= c_) % K for i_ in range(T)]
            den = 1024 if dt == "float32" else 1
            table = [[str(Fraction(ctx.rng.randint(1500 * den, 3000 * den) - (1200 * den if k_ == regime[i_] else 0), den))
                      for k_ in range(K)] for i_ in range(T)]
            big = lambda: str(ctx.rng.randint(4000, 20000))
            kernel_cases.append({"table": table, "beta_kind": "vector" if vec else "scalar",
                                 "beta": [big() for _ in range(T)] if vec else big(), "dtype": dt})
    kjobs, klines = [], []
    for i, c in enumerate(kernel_cases):
        T, K = len(c["table"]), len(c["table"][0])
        lay = ["C", "F", "strided", "C"][i % 4]
        kjobs.append({"table": {"data": [float(Fraction(x)) for row in c["table"] for x in row], "shape": [T, K],
                                "layout": lay, "readonly": i % 5 == 0, "dtype": c.get("dtype")},
                      "beta_kind": c["beta_kind"],
                      "beta": [float(Fraction(x)) for x in c["beta"]] if c["beta_kind"] == "vector" else float(Fraction(c["beta"]))})
        rows = show_list(c["table"], lambda r: show_list(r, lambda x: frac_str(Fraction(x))), ";")
        if c["beta_kind"] == "vector":
            klines.append(f"viterbi {K} vector {show_list(c['beta'], lambda x: frac_str(Fraction(x)))} {rows}")
        else:
            klines.append(f"viterbi {K} scalar {frac_str(Fraction(c['beta']))} {rows}")
    # likelihood models
    lljobs, ll_exact = [], []
    for i in range(12 if ctx.quick() else 120):
        n = ctx.rng.randint(1, 5)
        K = ctx.rng.randint(1, 3)
        T = ctx.rng.randint(1, 40)
        thetas = [c05.spd_dyadic(ctx.rng, n) for _ in range(K)]
        mus = [[Fraction(ctx.rng.randint(-32, 32), 8) for _ in range(n)] for _ in range(K)]
        data = [[Fraction(ctx.rng.randint(-128, 128), 8) for _ in range(n)] for _ in range(T)]
        lljobs.append({"W": 1, "thetas": [[[float(v) for v in r] for r in t] for t in thetas],
                       "mus": [[float(v) for v in m] for m in mus],
                       "data": {"data": [float(v) for row in data for v in row], "shape": [T, n], "layout": ["C", "F", "strided"][i % 3]}})
        ll_exact.append((thetas, mus, data))
    # data in LARGE or SMALL units (raw counts, Pa; or metres for micrometre motions): precision matrices whose entries are all
    # far below / above every "default tolerance" (2^-30 ~ 1e-9, 2^-50, 2^+30) with windows scaled to match - exactly
    # representable, so the rational formula still applies
    for i in range(4 if ctx.quick() else 24):
        n = ctx.rng.randint(2, 4)
        K = ctx.rng.randint(1, 3)
        T = ctx.rng.randint(5, 30)
        e_ = [-30, -50, 30, -40][i % 4]
        sc_t, sc_d = Fraction(2) ** e_, Fraction(2) ** (-(e_ // 2))
        thetas = [[[v * sc_t for v in r] for r in c05.spd_dyadic(ctx.rng, n)] for _ in range(K)]
        mus = [[Fraction(ctx.rng.randint(-32, 32), 8) * sc_d for _ in range(n)] for _ in range(K)]
        data = [[Fraction(ctx.rng.randint(-128, 128), 8) * sc_d for _ in range(n)] for _ in range(T)]
        lljobs.append({"W": 1, "thetas": [[[float(v) for v in r] for r in t] for t in thetas],
                       "mus": [[float(v) for v in m] for m in mus],
                       "data": {"data": [float(v) for row in data for v in row], "shape": [T, n], "layout": ["C", "F"][i % 2]}})
        ll_exact.append((thetas, mus, data))
        ctx.count("ll_tables_in_large_or_small_units")
    # long tables with stuck stretches (runs of identical consecutive windows, as flat-lined sensors produce):
    # long enough that every thread of the parallel loop gets a chunk, stretches long enough to straddle chunk
    # boundaries; each row's likelihood must not depend on which rows a neighbouring thread has finished
    for i in range(3 if ctx.quick() else 12):
        n = ctx.rng.randint(1, 3)
        K = ctx.rng.randint(2, 3)
        T = ctx.rng.randint(1500, 4000)
        thetas = [c05.spd_dyadic(ctx.rng, n) for _ in range(K)]
        mus = [[Fraction(ctx.rng.randint(-32, 32), 8) for _ in range(n)] for _ in range(K)]
        data = []
        while len(data) < T:
            if ctx.rng.random() < 0.5:
                row = [Fraction(ctx.rng.randint(-128, 128), 8) for _ in range(n)]
                data.extend([row] * ctx.rng.randint(T // 6, T // 2))
            else:
                data.extend([[Fraction(ctx.rng.randint(-128, 128), 8) for _ in range(n)] for _ in range(ctx.rng.randint(5, T // 8))])
        data = data[:T]
        lljobs.append({"W": 1, "thetas": [[[float(v) for v in r] for r in t] for t in thetas],
                       "mus": [[float(v) for v in m] for m in mus],
                       "data": {"data": [float(v) for row in data for v in row], "shape": [T, n], "layout": "C"}})
        ll_exact.append((thetas, mus, data))
        ctx.count("ll_tables_with_stuck_stretches")
    # windows with a missing sample (NaN) or an overflowing value (inf): every mode must propagate them the same way
    ll_special = set()
    for i in range(3 if ctx.quick() else 12):
        n = ctx.rng.randint(1, 3)
        K = ctx.rng.randint(1, 3)
        T = ctx.rng.randint(8, 60)
        thetas = [c05.spd_dyadic(ctx.rng, n) for _ in range(K)]
        mus = [[Fraction(ctx.rng.randint(-32, 32), 8) for _ in range(n)] for _ in range(K)]
        rows = [[float(Fraction(ctx.rng.randint(-128, 128), 8)) for _ in range(n)] for _ in range(T)]
        for _ in range(ctx.rng.randint(1, 4)):
            rows[ctx.rng.randrange(T)][ctx.rng.randrange(n)] = [float("nan"), float("inf"), float("-inf")][i % 3]
        # FINITE readings so large that the quadratic form overflows (a "missing value" sentinel of 1e300 or DBL_MAX, a
        # saturated channel): IEEE status flags are raised in some modes and not in others - the values must not differ
        for _ in range(ctx.rng.randint(1, 3)):
            rows[ctx.rng.randrange(T)][ctx.rng.randrange(n)] = ctx.rng.choice([1e300, -1e300, 1.7976931348623157e308, 1e155, -3e200])
        ll_special.add(len(lljobs))
        lljobs.append({"W": 1, "thetas": [[[float(v) for v in r] for r in t] for t in thetas],
                       "mus": [[float(v) for v in m] for m in mus],
                       "data": {"data": [v for row in rows for v in row], "shape": [T, n], "layout": "C"}})
        ll_exact.append((thetas, mus, rows))
        ctx.count("ll_tables_with_nan_inf_or_overflowing_values")
    runs = [] if ctx.replay is not None else [tu.gen_config(ctx.rng) for _ in range(3 if ctx.quick() else 12)]
    if runs:
        runs[0]["beta"] = 5          # an integer-typed switching cost first …
        runs[-1]["beta"] = 2.5       # … and a fractional one later in the same process
    job = {"kernel": kjobs, "ll": lljobs, "runs": runs}

    modes = [("jit", 1), ("jit", 4), ("nojit", None), ("nonumba", None)]
    if not ctx.quick():
        modes = [("jit", t) for t in (1, 2, 4, 8, 16)] + [("nojit", None), ("nonumba", None)]
    # one more compiled process in which the complete runs come FIRST (an integer-typed switching cost in the very first
    # one) and the direct kernel calls afterwards: the kernel results must be what they are in every other process
    job_rf = dict(job, order="runs-first", ll=[])
    with ThreadPoolExecutor(max_workers=len(modes) + 1) as ex:
        fut_rf = ex.submit(spawn, "jit", 1, job_rf) if runs else None
        results = list(ex.map(lambda m: spawn(m[0], m[1], job), modes))
        res_rf = fut_rf.result() if fut_rf is not None else None
    names = [f"{m}{'' if t is None else '@' + str(t)}" for m, t in modes]
    for name, (m, t), r in zip(names, modes, results):
        ok = ((m == "jit" and r["numba_available"] and r.get("is_compiled") and r.get("numba_threads") == t)
              or (m == "nojit" and r["numba_available"] and r["jit_disabled_env"] == "1")
              or (m == "nonumba" and not r["numba_available"]))
        if not ok:
            raise RuntimeError(f"mode {name} was not established: {r.get('numba_available')}, {r.get('is_compiled')}, {r.get('numba_threads')}")
        ctx.count("mode:" + name)
    model = ctx.driver.run(klines)

    # ---- labelling kernel: exactly the model in every mode
    for i, (c, mo) in enumerate(zip(kernel_cases, model)):
        mlabels, mcost = mo.split(" ")
        T, K = len(c["table"]), len(c["table"][0])
        for name, r in zip(names, results):
            got = r["kernel"][i]
            if "error" in got:
                ctx.violation("impl-violation", f"labelling kernel raised in mode {name}: {got['error']}", dict(c, mode=name),
                              {"site": "kernel-mode-error"})
                continue
            cost = Fraction(float.fromhex(got["cost"]))
            table = [[Fraction(x) for x in row] for row in c["table"]]
            betas = [Fraction(x) for x in c["beta"]] if c["beta_kind"] == "vector" else [Fraction(c["beta"])] * T
            exact = c01.total_cost(table, betas, got["labels"])
            if cost != Fraction(mcost) or exact != cost:
                ctx.violation("impl-violation", f"mode {name}: labelling kernel cost {cost} / path cost {exact} != optimum {mcost}",
                              dict(c, mode=name), {"site": "kernel-mode"})
            elif show_list(got["labels"]) != mlabels:
                ctx.count("tie_broken_differently:" + name)
            ctx.case(("k", i, name), nontrivial=T >= 2 and K >= 2,
                     sample={"mode": name, "T": T, "K": K, "labels": got["labels"][:10]} if len(ctx.samples) < 4 and T >= 3 else None)
        for name, r in zip(names, results):
            again = (r.get("kernel_again") or [None] * len(kernel_cases))[i]
            if again is not None and again != r["kernel"][i]:
                ctx.violation("impl-violation", f"mode {name}: the labelling kernel returns {str(again)[:120]} for an input for which it returned "
                              f"{str(r['kernel'][i])[:120]} earlier in the same process (complete runs were made in between)",
                              dict(c, mode=name), {"site": "kernel-mode-history"})
        if res_rf is not None and res_rf["kernel"][i] != results[0]["kernel"][i]:
            ctx.violation("impl-violation", f"compiled labelling kernel called after complete runs (first of them with an integer switching "
                          f"cost) returns {str(res_rf['kernel'][i])[:120]}, in a process that called it first {str(results[0]['kernel'][i])[:120]}",
                          dict(c, mode="jit@1 runs-first"), {"site": "kernel-mode-history"})
        labs = {json.dumps(r["kernel"][i].get("labels")) for r in results}
        if len(labs) > 1:
            ctx.violation("impl-violation", "labelling kernel returns different labels in different execution modes", c, {"site": "kernel-mode"})

    # ---- likelihood tables: rational model within 1e-12, modes within 4 ulp
    import math
    for i, (thetas, mus, data) in enumerate(ll_exact):
        n = len(mus[0])
        ref = results[names.index("nojit")]["ll"][i]
        qcache = {}
        for name, r in zip(names, results):
            got = r["ll"][i]
            if "error" in got or "error" in ref:
                ctx.violation("impl-violation", f"likelihood table raised in mode {name}: {got.get('error') or ref.get('error')}",
                              {"ll": i, "mode": name}, {"site": "ll-mode-error"})
                continue
            if i in ll_special:
                # no rational value exists for these windows: the modes are compared with each other, cell by cell —
                # the same cells are NaN / +inf / -inf, the finite ones agree to rounding
                for p_, row in enumerate(got["table"]):
                    for k, hx in enumerate(row):
                        v, w = float.fromhex(hx), float.fromhex(ref["table"][p_][k])
                        same = (math.isnan(v) and math.isnan(w)) or v == w or \
                            (math.isfinite(v) and math.isfinite(w) and abs(v - w) <= 1e-9 * max(1.0, abs(w)))
                        if not same:
                            ctx.violation("impl-violation", f"mode {name}: table[{p_},{k}] = {v} but the interpreted kernel gives {w} "
                                          "for a window holding a non-finite or overflowing sample", {"ll": i, "mode": name}, {"site": "ll-mode"})
                            break
                    else:
                        continue
                    break
                ctx.case(("ll-special", i, name), nontrivial=True)
                continue
            for p_, row in enumerate(got["table"]):
                for k, hx in enumerate(row):
                    v = float.fromhex(hx)
                    qkey = (tuple(data[p_]), k)
                    if qkey not in qcache:
                        d = [data[p_][j] - mus[k][j] for j in range(n)]
                        qcache[qkey] = sum(d[a] * thetas[k][a][b] * d[b] for a in range(n) for b in range(n))
                    q = qcache[qkey]
                    want = 0.5 * (float.fromhex(got["logdets"][k]) - float(q) - n * math.log(2 * math.pi))
                    if abs(v - want) > 1e-12 * max(1.0, abs(want)):
                        ctx.violation("impl-violation", f"mode {name}: table[{p_},{k}] = {v} != formula {want}",
                                      {"ll": i, "mode": name}, {"site": "ll-mode"})
                    if ulps(v, float.fromhex(ref["table"][p_][k])) > 4 + 4 * 2 ** max(0, int(math.log2(1 + abs(float(q)) / max(1e-300, abs(want))))):
                        ctx.violation("impl-violation", f"mode {name} differs from the interpreted kernel by more than rounding at [{p_},{k}]",
                                      {"ll": i, "mode": name}, {"site": "ll-mode"})
            ctx.case(("ll", i, name), nontrivial=n >= 2)

    # ---- complete runs: same labels in every mode
    for j, cfg in enumerate(runs):
        outs = [r["runs"][j] for r in results]
        labs = {json.dumps(o.get("labels")) for o in outs}
        errs = {o.get("error") for o in outs}
        if len(labs) > 1 or len(errs) > 1:
            ctx.violation("impl-violation", f"complete run differs across execution modes: {[(n_, 'error' if 'error' in o else 'ok') for n_, o in zip(names, outs)]}",
                          cfg, {"site": "run-mode"})
        ctx.count("complete_runs")
        ctx.case(("run", j), nontrivial=True)

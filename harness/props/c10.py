"""C10 — window stacking is exact and never crosses a series boundary."""
import random as pyrandom

import numpy as np

import common
from common import show_list, parse_list

LEVEL = "proof"
LEAN_PROPS = ["FastTicc.Props.C10", "FastTicc.Props.FrontEnd"]
LEAN_HELPERS = ["FastTicc.Proofs.Stack"]
LEAN_TRANSLATED = {"FastTicc.Props.TrSplit": ["split_joint_labels"], "FastTicc.Props.TrPad": ["pad_missing_labels"],
                   "FastTicc.Props.TrStack": ["stack_training_data"],
                   "FastTicc.Props.TrStackMulti": ["stack_training_data", "stack_training_data_multiple_series"]}
RULE = ("random series with T in [W, W+40], W in [1,12], N in [1,6], 1..6 series; cells are random 64-bit patterns "
        "viewed as float64 (NaN payloads, inf, -0.0) compared as integers; C/Fortran order, float32/int inputs "
        "(value-exact widening); non-trivial = W>=2 and at least 2 stacked rows; distinct by content hash")
EXPLANATION = ("Lean: stack_rows/stack_cols/stack_cell/stackMulti_*/split_* for all T>=W>=1, N, any cell type. "
               "Correspondence: real stacking/splitting/padding helpers vs the model, bit for bit; oracle: the cell "
               "formula checked directly on the implementation's output.")
ASSUMPTIONS = ["NumPy slice assignment copies float64 bit patterns unchanged"]


def bits(a):
    return np.ascontiguousarray(a, dtype=np.float64).view(np.uint64)


def gen_case(rng):
    W = rng.randint(1, 12)
    N = rng.randint(1, 6)
    ns = rng.choice([1, 1, 2, 3, 4, 6])
    kind = rng.choice(["bits", "bits", "float32", "int", "fortran", "special", "strided", "reversed", "cancel"])
    # views whose strides say nothing about the layout: a column vector made from a 1-D signal (`v[:, None]`, `row.T`:
    # a zero or arbitrary stride on the unit axis, flagged contiguous BOTH ways), a column range of a wider table, one
    # column broadcast over N sensors (stride 0)
    r_lay = pyrandom.Random(rng.getrandbits(32))
    if r_lay.random() < 0.25:
        kind = r_lay.choice(["unit-dim", "unit-dim", "colslice", "broadcast", "bigendian", "bigendian"])
        if kind == "unit-dim":
            N = 1
    series = []
    same_T = W + rng.randint(1, 12) if (ns >= 2 and rng.random() < 0.3) else None    # equal-shaped series, several windows each
    for _ in range(ns):
        T = same_T if same_T is not None else W + rng.choice([0, 0, 1, 2, rng.randint(0, 40)])
        if kind in ("bits", "fortran", "strided", "reversed", "unit-dim", "colslice"):
            cells = [[rng.getrandbits(64) for _ in range(N)] for _ in range(T)]
        elif kind == "bigendian":
            cells = [[rng.randint(-1000, 1000) for _ in range(N)] for _ in range(T)]
        elif kind == "broadcast":
            cells = [[rng.getrandbits(64)] * N for _ in range(T)]
        elif kind == "cancel":
            # rows whose readings cancel exactly (+a, -a; quantised signals), all-zero rows and rows of -0.0 among ordinary ones
            import struct as _st
            fb = lambda v: _st.unpack("<Q", _st.pack("<d", float(v)))[0]
            cells = []
            for _r in range(T):
                style = rng.choice(["pair", "zero", "negzero", "plain", "triple"])
                if style == "zero" or N == 0:
                    row = [0.0] * N
                elif style == "negzero":
                    row = [-0.0] * N
                elif style == "plain" or N == 1:
                    row = [rng.randint(-8, 8) / 4 for _ in range(N)]
                else:
                    row = [rng.randint(-8, 8) / 4 for _ in range(N - 1)]
                    row.append(-sum(row))
                    rng.shuffle(row)
                cells.append([fb(v) for v in row])
        elif kind == "special":
            sp = [0x7ff8000000000001, 0xfff8000000000abc, 0x7ff0000000000000, 0xfff0000000000000,
                  0x8000000000000000, 0x0000000000000001, 0x7ff4000000000000]
            cells = [[rng.choice(sp) for _ in range(N)] for _ in range(T)]
        else:
            cells = [[rng.randint(-1000, 1000) for _ in range(N)] for _ in range(T)]
        series.append(cells)
    out = {"W": W, "N": N, "kind": kind, "series": series}
    if kind == "bits" and ns >= 2 and r_lay.random() < 0.35:
        out["parent_views"] = True
    return out


def to_array(cells, kind):
    if kind in ("bits", "special", "fortran", "strided", "reversed", "cancel", "unit-dim", "colslice", "broadcast"):
        a = np.array(cells, dtype=np.uint64).view(np.float64).reshape(len(cells), -1)
        if kind == "unit-dim" and a.shape[1] == 1:
            v = np.ascontiguousarray(a[:, 0])
            form = len(cells) % 4
            if form == 0:
                a = v[:, None]                                   # the usual way to make a column of a 1-D signal
            elif form == 1:
                a = v.reshape(1, -1).T                           # a transposed row
            elif form == 2:
                a = np.lib.stride_tricks.as_strided(v, shape=(v.shape[0], 1), strides=(v.strides[0], 0))
            else:
                wide = np.zeros((v.shape[0], 3))
                wide[:, 1] = v
                a = wide[:, 1:2]                                 # one column of a wider table
        elif kind == "colslice":
            wide = np.full((a.shape[0], a.shape[1] + 3), 7.25)
            wide[:, 2:2 + a.shape[1]] = a
            a = wide[:, 2:2 + a.shape[1]]
        elif kind == "broadcast" and a.shape[1] >= 1:
            a = np.broadcast_to(np.ascontiguousarray(a[:, :1]), a.shape)   # read-only, stride 0 along the sensors
        if kind == "fortran":
            a = np.asfortranarray(a)
        elif kind == "strided":            # every other row / column of a larger buffer
            big = np.zeros((2 * a.shape[0], 2 * a.shape[1]))
            big[::2, ::2] = a
            a = big[::2, ::2]
        elif kind == "reversed":           # negative strides
            a = np.ascontiguousarray(a[::-1, ::-1])[::-1, ::-1]
        return a
    if kind == "bigendian":
        # arrays in the OTHER byte order (what FITS / NetCDF / np.fromfile readers hand over): same values, swapped storage
        dt = [">f8", ">f4", ">i4", ">i8", ">i2"][len(cells) % 5]
        return (np.array(cells, dtype=np.float64) / (8.0 if dt[1] == "f" else 1.0)).astype(dt)
    if kind == "float32":
        return np.array(cells, dtype=np.float32) / np.float32(8)
    return np.array(cells, dtype=np.int64)


def run(ctx):
    common.setup_repo_import()
    from fast_ticc import data_preparation as dp

    if ctx.replay is not None:
        cases = [ctx.replay]
    else:
        n = 250 if ctx.quick() else 3000
        cases = list(ctx.corpus) + [gen_case(ctx.rng) for _ in range(n)]

    lines, meta = [], []
    arrays = []
    for ci, c in enumerate(cases):
        W = c["W"]
        arrs = [to_array(s, c["kind"]) for s in c["series"]]
        if c.get("parent_views") and len(arrs) >= 2:
            # the series as row-slice views of ONE parent array, listed in another order than they sit in it
            order = list(range(1, len(arrs))) + [0]
            parent = np.ascontiguousarray(np.vstack([arrs[i] for i in order]))
            offs, pos = {}, 0
            for i in order:
                offs[i] = pos
                pos += arrs[i].shape[0]
            arrs = [parent[offs[i]:offs[i] + arrs[i].shape[0]] for i in range(len(arrs))]
        arrays.append(arrs)
        # the model sees the float64 bit pattern of every (widened) cell as an integer
        cell_bits = [[[int(x) for x in row] for row in bits(a)] for a in arrs]
        ser = show_list(cell_bits, lambda s: show_list(s, lambda r: show_list(r), ";"), "|")
        lines.append(f"stackmulti {W} {ser}")
        meta.append((ci, "multi"))
        lines.append(f"stack {W} {show_list(cell_bits[0], lambda r: show_list(r), ';')}")
        meta.append((ci, "single"))
    outs = dict(zip(meta, ctx.driver.run(lines)))

    lab_lines, lab_meta = [], []
    gen_stack, gen_split, gen_multi = [], [], []
    for ci, c in enumerate(cases):
        W, N = c["W"], c["N"]
        arrs = arrays[ci]
        snaps = [a.copy() for a in arrs]
        single = dp.stack_training_data(arrs[0], W)
        multi = dp.stack_training_data_multiple_series(list(arrs), W)
        ctx.count(f"kind:{c['kind']}")
        ctx.count(f"series:{len(arrs)}")
        # ---- direct oracle on the implementation
        T0 = arrs[0].shape[0]
        ok = single.shape == (T0 - W + 1, N * W) and single.dtype == np.float64
        if ok:
            sb = bits(single)
            ab = bits(arrs[0])
            for i in range(T0 - W + 1):
                for j in range(W):
                    if not np.array_equal(sb[i, j * N:(j + 1) * N], ab[i + j, :]):
                        ok = False
        if not ok:
            ctx.violation("impl-violation", "stacked[i, jN:(j+1)N] != data[i+j] bit for bit / wrong shape",
                          c, {"site": "stack-cell"})
        parts = [dp.stack_training_data(a, W) for a in arrs]
        if multi.shape != (sum(p.shape[0] for p in parts), N * W) or \
                not np.array_equal(bits(multi), np.vstack([bits(p) for p in parts])):
            ctx.violation("impl-violation", "joint stacking is not the concatenation of the individual stackings",
                          c, {"site": "stack-multi"})
        for a, s in zip(arrs, snaps):
            if not np.array_equal(bits(a), bits(s)):
                ctx.violation("impl-violation", "stacking modified its input", c, {"site": "mutation"})
        # ---- correspondence
        got_single = show_list([[int(x) for x in row] for row in bits(single)], lambda r: show_list(r), ";")
        got_multi = show_list([[int(x) for x in row] for row in bits(multi)], lambda r: show_list(r), ";")
        gen_stack.append((show_list([[int(x) for x in row] for row in bits(arrs[0])], lambda r: show_list(r), ";")
                          + f" {W}", "ok " + got_single, c))
        if all(a.shape[0] >= 1 for a in arrs):
            gen_multi.append((show_list([[[int(x) for x in row] for row in bits(a)] for a in arrs],
                                        lambda s_: show_list(s_, lambda r: show_list(r), ";"), "|") + f" {W}", "ok " + got_multi, c))
        if got_single != outs[(ci, "single")]:
            ctx.violation("correspondence-break", "stack vs stack_training_data", c)
        if got_multi != outs[(ci, "multi")]:
            ctx.violation("correspondence-break", "stackMulti vs stack_training_data_multiple_series", c)
        # ---- split / pad round trip on labels
        lens = [a.shape[0] - W + 1 for a in arrs]
        joint = [ctx.rng.randint(0, 4) for _ in range(sum(lens))]
        split = dp.split_joint_labels(list(joint), lens)
        padded = [dp.pad_missing_labels(list(p), W) for p in split]
        if [len(p) for p in padded] != [a.shape[0] for a in arrs] or sum(split, []) != joint:
            ctx.violation("impl-violation", "split+pad does not restore one list per series of the original length",
                          c, {"site": "split-pad"})
        gen_split.append((f"{show_list(joint)} {show_list(lens)}", "ok " + show_list(split, lambda r: show_list(r), ";"), c))
        lab_lines.append(f"splitpad {W} {show_list(lens)} {show_list(joint)}")
        lab_meta.append((ci, padded))
        rows = sum(lens)
        key = (W, N, c["kind"], tuple(a.tobytes() for a in arrs))
        ctx.case(key, nontrivial=(W >= 2 and rows >= 2),
                 sample={"W": W, "N": N, "kind": c["kind"], "series_lengths": [a.shape[0] for a in arrs]}
                 if ci < 4 else None)
    for (ci, padded), out in zip(lab_meta, ctx.driver.run(lab_lines)):
        if out != show_list(padded, lambda r: show_list(r), ";"):
            ctx.violation("correspondence-break", "splitAndPad vs split_joint_labels+pad_missing_labels",
                          dict(cases[ci], model=out))
    # ---------------- LARGE joint stackings (10^5 rows and more: sizes at which an implementation may switch to a
    # chunked / concurrent / memory-mapped path): a long series followed by short ones, long ones in between
    if ctx.replay is None or ctx.replay.get("large"):
        plans = [ctx.replay["large"]] if ctx.replay is not None else \
            ([[60000, 6, 50000, 5, 7]] if ctx.quick() else [[60000, 6, 50000, 5, 7], [150000, 6, 150000, 5, 90000, 7], [100, 200000]])
        for lens_l in plans:
            Wl, Nl = 3, 2
            rs = np.random.RandomState(len(lens_l) + sum(lens_l) % 1000)
            arrs_l = [rs.randn(L, Nl) for L in lens_l]
            multi = dp.stack_training_data_multiple_series(list(arrs_l), Wl)
            ok = multi.shape == (sum(L - Wl + 1 for L in lens_l), Nl * Wl)
            if ok:
                row0 = 0
                for a in arrs_l:
                    n_ = a.shape[0] - Wl + 1
                    want = np.hstack([a[j:j + n_, :] for j in range(Wl)])      # cell (i, jN+k) = a[i+j, k]
                    if not np.array_equal(bits(multi[row0:row0 + n_]), bits(want)):
                        ok = False
                        break
                    row0 += n_
            if not ok:
                ctx.violation("impl-violation", f"joint stacking of series of lengths {lens_l} (W={Wl}, N={Nl}) is not the row-wise "
                              "concatenation, in input order, of the individual stackings", {"large": lens_l}, {"site": "stack-multi-large"})
            ctx.count("large_joint_stackings")
            ctx.case(("large", tuple(lens_l)), nontrivial=True)

    # the functions TRANSLATED from the source (Generated/Kernels.lean) on the same inputs
    ctx.gen_compare("stack_training_data", [g for g in gen_stack if g[0].split(" ")[0] not in ("-", "")])
    ctx.gen_compare("stack_training_data_multiple_series", gen_multi)
    ctx.gen_compare("split_joint_labels", gen_split + [("0,1,2 2,2", "err AssertionError", {})])
    # the real code's length assertion
    if ctx.replay is None:
        try:
            dp.split_joint_labels([0, 1, 2], [2, 2])
            ctx.violation("impl-violation", "split_joint_labels accepted a wrong total length", {}, {"site": "split-assert"})
        except AssertionError:
            pass
        if ctx.driver.run(["split 2,2 0,1,2"])[0] != "err":
            ctx.violation("correspondence-break", "splitJoint? length check", {})

"""C08 — cluster repopulation conserves points and never starves a donor."""
import itertools
import random as pyrandom
from fractions import Fraction

import numpy as np

import common
import ticc_util as tu
from common import show_list, frac_str

LEVEL = "proof"
LEAN_PROPS = ["FastTicc.Props.C08", "FastTicc.Props.C08b", "FastTicc.Props.PySort", "FastTicc.Props.PyWhile"]
LEAN_TRANSLATED = {"FastTicc.Props.TrDonors": ["_find_ranked_donor_cluster_ids"],
                   "FastTicc.Props.TrFindDonor": ["_find_point_donor"]}
LEAN_HELPERS = ["FastTicc.Proofs.Repop"]
RULE = ("all cluster-size vectors with K<=4 (thorough: K<=5), sizes 0..3m+2, m in {1,2} (thorough: {1,2,3}), labels "
        "shuffled, spreads with ties, plus random larger cases (K<=12, m<=25); random.sample wrapped so the drawn "
        "positions are recorded and replayed in the model; non-trivial = at least one cluster under 2 points; "
        "distinct by (sizes, m, spread order)")
EXPLANATION = ("Lean: repop_noop/error_iff/conserves/recipients/donors/moves_only_donor_to_needy/bystanders_untouched/"
               "donor_order/idempotent/findDonor_dead_branch for all labellings, m>=1, spreads, admissible draws and "
               "recipient orders. Correspondence: resulting labelling and donor sequence equal the model's exactly; "
               "oracle: every clause of the statement re-checked on the implementation's input/output pair.")
ASSUMPTIONS = ["random.sample(range(n), m) returns m distinct positions < n (checked on every recorded draw)"]


def build_state(K, m, labels, spreads, eps=0):
    from fast_ticc.containers import arguments, model_state
    args = arguments.UserArguments(sparsity_weight=0.1, iteration_limit=5, label_switching_cost=1.0,
                                   min_cluster_size=m, min_meaningful_covariance=eps, num_clusters=K,
                                   num_processors=1, window_size=1, biased_covariance=False)
    st = model_state.ModelState.empty_model(args, np.zeros((len(labels), 1)))
    st.point_labels = list(labels)
    for k in range(K):
        st.clusters[k].computed_covariance = np.array([[float(spreads[k])]])
    return st


def chained_state(cm, c):
    """the state a SECOND repopulation sees inside the main loop: repopulate a first state, then refit it the way the
    optimise phase does (shallow cluster copies carrying new covariances, new state) and relabel it the way the
    labelling phase does (shallow state, deep cluster copies, labels assigned) — only public container operations."""
    first = c["chain"]
    st0 = build_state(c["K"], c["m"], first["labels"], first["spreads"], c.get("eps", 0))
    pyrandom.seed(first["seed"])
    st1 = cm.repopulate_empty_clusters(st0)
    new_clusters = []
    for k, cl in enumerate(st1.clusters):
        u = cl.shallow_copy()
        u.computed_covariance = np.array([[float(c["spreads"][k])]])
        new_clusters.append(u)
    st2 = st1.shallow_copy()
    st2.clusters = new_clusters
    st3 = st2.shallow_copy()
    st3.clusters = [cl.deep_copy() for cl in st3.clusters]
    st3.point_labels = list(c["labels"])
    return st3


def gen_chain(rng):
    """a first repopulation that succeeds, then a second labelling of the same points with a needy cluster and a
    different spread ranking."""
    K = rng.randint(3, 6)
    m = rng.randint(1, 6)
    T = K * 4 * m + rng.randint(0, 3 * m)

    def sizes_with_needy():
        while True:
            cuts = sorted(rng.randint(0, T) for _ in range(K - 1))
            sz = [b - a for a, b in zip([0] + cuts, cuts + [T])]
            sz[rng.randrange(K)] = 0
            sz[rng.randrange(K)] += T - sum(sz)
            n_needy = sum(1 for x in sz if x < 2)
            cap = sum(x // m - 1 for x in sz if x >= 2 * m)
            if 1 <= n_needy <= cap and sum(1 for x in sz if x >= 2 * m) >= 2:
                return sz
    out = {"K": K, "m": m}
    for key in ("chain", None):
        sz = sizes_with_needy()
        labels = [k for k, x in enumerate(sz) for _ in range(x)]
        rng.shuffle(labels)
        sp = rng.sample(range(1, 60), K)
        d = {"labels": labels, "spreads": sp, "seed": rng.randrange(2 ** 31)}
        if key:
            out[key] = d
        else:
            out.update(d)
            out["sizes"] = sz
    return out


def gen_random(rng):
    K = rng.randint(2, 12)
    m = rng.randint(1, 25)
    sizes = [rng.choice([0, 1, rng.randint(0, 4 * m), 2 * m - 1, 2 * m, 3 * m - 1, 3 * m, 5 * m]) for _ in range(K)]
    return K, m, sizes


def run(ctx):
    common.setup_repo_import()
    from fast_ticc import cluster_maintenance as cm

    cases = []
    if ctx.replay is not None:
        cases = [ctx.replay]
    else:
        cases += list(ctx.corpus)
        ms = [1, 2] if ctx.quick() else [1, 2, 3]
        Ks = [2, 3, 4] if ctx.quick() else [2, 3, 4, 5]
        for m in ms:
            for K in Ks:
                if not ctx.quick() and K == 5 and m == 3:
                    continue      # 12^5 — sampled below instead
                for sizes in itertools.product(range(0, 3 * m + 3), repeat=K):
                    cases.append({"K": K, "m": m, "sizes": list(sizes)})
        for _ in range(300 if ctx.quick() else 5000):
            K, m, sizes = gen_random(ctx.rng)
            cases.append({"K": K, "m": m, "sizes": sizes})
        for _ in range(60 if ctx.quick() else 1000):
            cases.append(gen_chain(ctx.rng))
        ctx.exhaustive = False
    # complete the cases with labels, spreads, seeds
    for c in cases:
        if "labels" not in c:
            labels = [k for k, s in enumerate(c["sizes"]) for _ in range(s)]
            ctx.rng.shuffle(labels)
            c["labels"] = labels
            c["spreads"] = [ctx.rng.choice([0, 1, 1, 2, 3, ctx.rng.randint(0, 50)]) for _ in range(c["K"])]
            c["seed"] = ctx.rng.randrange(2 ** 31)
            # value classes of the spreads a ranking must get right: NEAR ties (distinct doubles a relative 2^-40 .. 2^-30
            # apart - equal in single precision, equal to any "tolerance"), and spreads far outside the single-precision
            # range whose squares are still ordinary doubles (covariances of data in very small / very large units)
            r_cls = pyrandom.Random(c["seed"] ^ 0x5EED)
            if r_cls.random() < 0.2:
                # an UNRELATED hyper-parameter at a non-default value: a positive covariance floor, above some of the spreads
                # (the ranking is by the spread of the covariance as it is, whatever the floor)
                c["eps"] = r_cls.choice([0.5, 2.5, 10.0, 100.0])
            u = r_cls.random()
            if u < 0.12:
                base = float(r_cls.randint(1, 50))
                js = r_cls.sample(range(0, 1 << 10), c["K"])
                c["spreads"] = [base * (1.0 + j * 2.0 ** -40) for j in js]
                c["spread_class"] = "near-ties"
            elif u < 0.18:
                c["spreads"] = [float(x) * 1e-55 for x in r_cls.sample(range(1, 60), c["K"])] if c["K"] < 59 else c["spreads"]
                c["spread_class"] = "tiny"
            elif u < 0.24:
                c["spreads"] = [float(x) * 1e45 for x in r_cls.sample(range(1, 60), c["K"])] if c["K"] < 59 else c["spreads"]
                c["spread_class"] = "huge"

    lines = []
    impl = []
    errors = 0
    for c in cases:
        K, m, labels, spreads = c["K"], c["m"], c["labels"], c["spreads"]
        if c.get("chain"):
            try:
                st = chained_state(cm, c)
            except Exception as e:       # the first call is an ordinary case of its own; only the second is judged here
                ctx.count("chain_first_call_failed:" + type(e).__name__)
                continue
            ctx.count("chained_second_calls")
        else:
            st = build_state(K, m, labels, spreads, c.get("eps", 0))
        before = tu.snapshot_state(st)
        before_ids = (id(st.clusters), [id(x) for x in st.clusters], id(st.point_labels))
        pyrandom.seed(c["seed"])
        err = None
        with tu.record_label_assignments() as assigned:
            try:
                out = cm.repopulate_empty_clusters(st)
            except RuntimeError as e:
                err, out = e, None
            except Exception as e:
                ctx.violation("impl-violation", f"repopulation raised unexpected {type(e).__name__}: {e}", c,
                              {"site": "unexpected-exception"})
                ctx.case((tuple(c.get("sizes", labels)), m, tuple(spreads)), nontrivial=True)
                impl.append(None)
                lines.append(f"needy {K} {show_list(labels)}")
                continue
        # the refills, reconstructed from the labellings assigned through the public label setter
        moves = tu.moves_from_assignments(labels, [lab for (_sid, lab) in assigned if lab is not None])
        order = [(d, r_) for (d, r_, _p, _l, _n) in moves]
        draws = [(n_, pos) for (_d, _r, pos, _l, n_) in moves]
        # ---- caller's state not modified
        after = tu.snapshot_state(st)
        if not tu.snapshots_equal(before, after) or before_ids != (id(st.clusters), [id(x) for x in st.clusters], id(st.point_labels)):
            ctx.violation("impl-violation", "repopulation modified the model state it was given", c, {"site": "input-mutated"})
        sizes = [labels.count(k) for k in range(K)]
        needy = [k for k in range(K) if sizes[k] < 2]
        donors_ranked = sorted([k for k in range(K) if sizes[k] >= 2 * m], key=lambda k: -spreads[k])
        capacity = sum(sizes[k] // m - 1 for k in donors_ranked)
        expected_seq = [k for k in donors_ranked for _ in range(sizes[k] // m - 1)]
        used = [d for d, _ in order]
        rec_order = [r for _, r in order]
        # the refills are RECONSTRUCTED from the labellings the implementation assigned; when they do not look like "m
        # distinct members of one donor moved per refill" that is the implementation's doing (e.g. labels written in
        # another way), not a harness fault: the direct oracle below judges the outcome, the model comparison (which
        # needs the recorded draws) is skipped for this case
        draws_ok = all(len(pick) == m and len(set(pick)) == m and all(0 <= x < n for x in pick) for (n, pick) in draws)
        if not draws_ok:
            ctx.count("refills_not_reconstructible")
        # ---- direct oracle
        if not needy:
            if err is not None or out is not st:
                ctx.violation("impl-violation", "no cluster under 2 points but the state was not returned unchanged",
                              c, {"site": "noop"})
        elif err is not None:
            errors += 1
            if len(needy) <= capacity:
                ctx.violation("impl-violation", f"raised although donors can serve {capacity} >= {len(needy)} refills",
                              c, {"site": "spurious-error"})
            if "donor" not in str(err).lower():
                ctx.violation("impl-violation", "error does not name the donor shortage", c, {"site": "error-text"})
        else:
            new = [int(x) for x in out.point_labels]
            nsz = [new.count(k) for k in range(K)]
            probs = []
            if len(needy) > capacity:
                probs.append("returned although the donors' capacity is exhausted")
            if len(new) != len(labels) or any(not (0 <= x < K) for x in new):
                probs.append("points lost or labels out of range")
            if any(nsz[k] != sizes[k] + m for k in needy):
                probs.append("a needy cluster did not gain exactly m points")
            for k in range(K):
                if nsz[k] < sizes[k] and not (sizes[k] >= 2 * m and nsz[k] >= m and (sizes[k] - nsz[k]) % m == 0):
                    probs.append(f"cluster {k} gave points away but had <2m before or keeps <m")
            for i, (a, b) in enumerate(zip(labels, new)):
                if a != b and not (sizes[a] >= 2 * m and b in needy):
                    probs.append(f"point {i} moved {a}->{b}: not donor->needy")
                    break
            if used != expected_seq[:len(needy)]:
                probs.append(f"donor sequence {used} != spread-ranked to capacity {expected_seq[:len(needy)]}")
            if sorted(rec_order) != needy:
                probs.append("recipients are not exactly the needy clusters")
            for k in range(K):
                if out.clusters[k].member_points != [i for i, x in enumerate(new) if x == k]:
                    probs.append("membership of the returned state does not match its labels")
                    break
            for p in probs:
                ctx.violation("impl-violation", p, dict(c, new=new, used=used), {"site": "repop-clause"})
        # ---- model line
        if not draws_ok:
            if err is None and out is not None:
                new_ = [int(x) for x in out.point_labels]
                if len(new_) != len(labels) or any(not (0 <= x < K) for x in new_):
                    ctx.violation("impl-violation", "points lost or labels out of range", dict(c, new=new_), {"site": "repop-clause"})
            impl.append(None)
            lines.append(f"needy {K} {show_list(labels)}")
            ctx.case((tuple(c["sizes"]) if "sizes" in c else tuple(labels), m, tuple(spreads)), nontrivial=bool(needy))
            continue
        impl.append((c, err, out, used, rec_order, [d[1] for d in draws]))
        order_for_model = rec_order + [k for k in needy if k not in rec_order]
        lines.append(f"repop {K} {m} {show_list(spreads, lambda x: frac_str(Fraction(x)))} {show_list(order_for_model)} "
                     f"{show_list([d[1] for d in draws], lambda l: show_list(l), ';')} {show_list(labels)}")
        ctx.count(f"m={m}" if m <= 3 else "m>3")
        if c.get("eps") and len(needy) >= 1 and len(donors_ranked) >= 2:
            ctx.count("ranked_donors_under_a_positive_floor")
        if c.get("spread_class") and len(needy) >= 1 and len(donors_ranked) >= 2:
            ctx.count("ranked_donors_with_spreads:" + c["spread_class"])
        ctx.case((tuple(c["sizes"]) if "sizes" in c else tuple(labels), m, tuple(spreads)), nontrivial=bool(needy),
                 sample={"K": K, "m": m, "sizes": sizes, "spreads": spreads, "donors_used": used,
                         "error": err is not None} if needy and len(ctx.samples) < 5 and used else None)
    outs = ctx.driver.run(lines)
    # the donor ranking TRANSLATED from the source (Generated/Kernels.lean; theorem find_ranked_donor_cluster_ids_eq) on the
    # same sizes and spreads, against the implementation's own ranking helper (when it still exists under that name)
    rank_fn = getattr(cm, "_find_ranked_donor_cluster_ids", None)
    if rank_fn is not None:
        gen_cases = []
        for c in cases[:4000]:
            if c.get("chain") or any(float(x) < 0 for x in c["spreads"]):
                continue
            st_ = build_state(c["K"], c["m"], c["labels"], c["spreads"], c.get("eps", 0))
            try:
                ranked = [int(x) for x in rank_fn(st_)]
            except Exception:
                continue
            sizes_ = [c["labels"].count(k) for k in range(c["K"])]
            gen_cases.append((f"{c['m']} {show_list(sizes_)} {show_list(c['spreads'], lambda x: frac_str(Fraction(x)))}",
                              "ok " + show_list(ranked), c))
        ctx.gen_compare("_find_ranked_donor_cluster_ids", gen_cases)
    # the donor search TRANSLATED from the source (its while loop, both returns, the pop of the LAST candidate; theorem
    # find_point_donor_eq) on ranked lists and on arbitrary candidate lists (small clusters in any position)
    find_fn = getattr(cm, "_find_point_donor", None)
    if find_fn is not None:
        gen_cases = []
        r_f = pyrandom.Random(ctx.seed + 808)
        for c in cases[:3000]:
            if c.get("chain"):
                continue
            st_ = build_state(c["K"], c["m"], c["labels"], c["spreads"])
            sizes_ = [c["labels"].count(k) for k in range(c["K"])]
            cand = [list(range(c["K"])), r_f.sample(range(c["K"]), r_f.randint(0, c["K"])),
                    sorted(range(c["K"]), key=lambda k: -sizes_[k])]
            for ids in cand[: (3 if len(gen_cases) < 3000 else 1)]:
                try:
                    d_, rest_ = find_fn(st_, list(ids))
                    exp = f"ok {int(d_)} {show_list([int(x) for x in rest_])}"
                except RuntimeError:
                    exp = "err RuntimeError"
                except Exception as e:
                    exp = "err " + type(e).__name__
                gen_cases.append((f"{c['m']} {show_list(sizes_)} {show_list(ids)}", exp, c))
        ctx.gen_compare("_find_point_donor", gen_cases)
    for item, mo in zip(impl, outs):
        if item is None:
            continue
        (c, err, out, used, rec_order, draws) = item
        parts = mo.split(" ")
        if err is not None:
            got = "err - " + show_list(used)
        else:
            got = "ok " + show_list([int(x) for x in out.point_labels]) + " " + show_list(used)
        if mo != got:
            ctx.violation("correspondence-break", "repopulate (model) vs repopulate_empty_clusters",
                          dict(c, impl=got, model=mo))
    ctx.count("errors_raised", errors)

"""C05 — reported log-likelihoods are exact Gaussian log-densities."""
import math
import types
import warnings
from fractions import Fraction

import numpy as np

import common
import oracles
import ticc_util as tu
from common import show_list, frac_str

LEVEL = "other"
LEAN_PROPS = ["FastTicc.Props.C05"]
LEAN_HELPERS = ["FastTicc.Proofs.Stats"]
LEAN_TRANSLATED = {"FastTicc.Props.TrLoglik": ["point_log_likelihood_fast", "all_points_all_clusters_log_likelihood_fast"]}
RULE = ("(a) the per-point kernel on dyadic points, means and SPD dyadic precision matrices vs the model at Rat (same "
        "log terms supplied); (b) the all-points table (with its log-determinant refresh) vs an independent density for "
        "NW in [1,200] and log-determinants in [-3000,3000]; (c) completed runs: per-point values, sums, means, medians "
        "recomputed from the final means / MRFs; non-trivial = NW>=2 and a non-diagonal precision matrix; distinct by input")
EXPLANATION = ("Theorems (Lean, over the reals): ll_is_log_gaussian_density (the formula is the log of the Gaussian density "
               "for every dimension and every det>0), quadForm_eq_sum, ll_table_entry (every cell is the formula at its "
               "(point, cluster), independent of evaluation order), log_prod_eq_sum_log (slogdet and log(det) are the same "
               "real number). Explored, not proved: IEEE range and rounding (underflowing determinants, BLAS products) — "
               "sweep over NW up to 200 and |log det| up to 3000 against an independent Cholesky-based density. The "
               "model is tied to the code by comparison at exact rationals (1e-12 relative).")
ASSUMPTIONS = ["np.log, slogdet and matrix products accurate to rounding"]


def spd_dyadic(rng, n):
    """A = L L^T with small integer L / 4: exactly representable, SPD."""
    L = [[0] * n for _ in range(n)]
    for i in range(n):
        L[i][i] = rng.randint(2, 6)
        for j in range(i):
            L[i][j] = rng.randint(-2, 2)
    A = [[Fraction(sum(L[i][k] * L[j][k] for k in range(n)), 16) for j in range(n)] for i in range(n)]
    return A


def indep_ll(x, mu, theta):
    n = theta.shape[0]
    L = np.linalg.cholesky(theta)
    logdet = 2.0 * math.fsum(math.log(v) for v in np.diag(L))
    y = L.T @ (x - mu)
    return 0.5 * (logdet - float(y @ y) - n * math.log(2 * math.pi))


def exact_logdet(A):
    """log det of a matrix of doubles, the determinant computed exactly over the rationals"""
    n = len(A)
    M = [[Fraction(float(v)) for v in r] for r in A]
    det = Fraction(1)
    for i in range(n):
        p = next((r for r in range(i, n) if M[r][i] != 0), None)
        if p is None:
            return None
        if p != i:
            M[i], M[p] = M[p], M[i]
            det = -det
        det *= M[i][i]
        for r in range(i + 1, n):
            f = M[r][i] / M[i][i]
            for c in range(i, n):
                M[r][c] -= f * M[i][c]
    if det <= 0:
        return None
    return math.log(det.numerator) - math.log(det.denominator)


def graded_section(ctx, likelihood):
    """precision matrices of sensors on very different scales (theta = D B D, B well conditioned, D spanning 6 to 12
    decades: condition numbers 1e12 .. 1e24, every eigenvalue and the determinant well inside the double range):
    the table must be the log-density, the determinant and the quadratic form computed EXACTLY over the rationals."""
    rs = np.random.RandomState(ctx.seed + 505)
    for trial in range(40 if ctx.quick() else 400):
        n = int(rs.randint(2, 7))
        a = rs.randn(n, n) * 0.4
        B = np.eye(n) + a @ a.T
        span = float(rs.choice([6, 8, 10, 12]))
        d = 10.0 ** rs.uniform(-span / 2, span / 2, size=n)
        if trial % 3 == 0:
            d = np.sort(d)
        theta = (B * d[:, None]) * d[None, :]
        theta = (theta + theta.T) / 2
        thetas = [theta, theta * 1.5]
        mus = [rs.randn(n) / d, rs.randn(n) / d]
        data = rs.randn(4, n) / d
        model = tu.real_model(thetas, mus, 1, 4)
        with warnings.catch_warnings():
            warnings.simplefilter("ignore")
            table = likelihood.all_points_all_clusters_log_likelihood(model, data)
        bad = None
        for k, th in enumerate(thetas):
            ld = exact_logdet(th)
            if ld is None:
                continue
            for p in range(4):
                dd = [Fraction(float(x)) - Fraction(float(m)) for x, m in zip(data[p], mus[k])]
                q = sum(dd[i] * Fraction(float(th[i, j])) * dd[j] for i in range(n) for j in range(n))
                want = 0.5 * (ld - float(q) - n * math.log(2 * math.pi))
                if not (math.isfinite(table[p, k]) and oracles.rel_close(table[p, k], want, 1e-9, 1e-9)):
                    bad = f"table[{p},{k}] = {table[p, k]} != log-density {want} (n={n}, sensor scales spanning {span:g} decades)"
        if bad:
            ctx.violation("impl-violation", bad, {"graded": True, "n": n, "span": span, "trial": trial,
                                                  "theta": [[float(v) for v in r] for r in theta]}, {"site": "ll-graded"})
        ctx.count("graded_scale_cases")
        ctx.case(("graded", trial), nontrivial=True)


def run(ctx):
    common.setup_repo_import()
    from fast_ticc import likelihood

    if ctx.replay is not None:
        kern = [ctx.replay] if ctx.replay.get("kernel") else []
        sweeps = [ctx.replay] if ctx.replay.get("sweep") else []
        cfgs = [ctx.replay] if not (ctx.replay.get("kernel") or ctx.replay.get("sweep")) else []
    else:
        kern = [c for c in ctx.corpus if c.get("kernel")]
        for _ in range(150 if ctx.quick() else 2000):
            n = ctx.rng.randint(1, 6)
            A = spd_dyadic(ctx.rng, n)
            kern.append({"kernel": True, "n": n, "theta": [[str(v) for v in r] for r in A],
                         "mu": [str(Fraction(ctx.rng.randint(-64, 64), 8)) for _ in range(n)],
                         "x": [str(Fraction(ctx.rng.randint(-256, 256), 8)) for _ in range(n)],
                         "logdet": str(Fraction(ctx.rng.randint(-4000, 4000), 4))})
            if len(kern) % 6 == 0:
                # a window that IS its cluster's mean (a one-window cluster, a cluster of identical windows): the
                # quadratic form is exactly zero and the value is the peak of the density
                kern[-1]["x"] = list(kern[-1]["mu"])
        grid_n = (1, 2, 7, 40, 100, 200) if ctx.quick() else (1, 2, 3, 7, 20, 40, 80, 100, 150, 200)
        # the edges of the double range for det and for sqrt(det) (a Cholesky diagonal product): smallest subnormal
        # 2^-1074 (log -744.4), smallest normal 2^-1022 (log -708.4), largest 2^1024 (log 709.8) - and twice those
        edges = (-1490, -1480, -1440, -1417, -744, -742.5, -735, -720, -709, -708, 708, 709.7, 710, 1417, 1419.5, 1421)
        grid_s = (-3000, -800, -100, 0, 100, 800, 3000) + (edges if ctx.quick() else edges + tuple(e + d for e in edges for d in (-0.5, 0.5)))
        sweeps = [c for c in ctx.corpus if c.get("sweep")] + \
                 [{"sweep": True, "n": n, "target_logdet": t, "seed": ctx.rng.randrange(2 ** 31)} for n in grid_n for t in grid_s
                  if abs(t) / n <= 600 and (t in (-3000, -800, -100, 0, 100, 800, 3000) or n in (7, 40, 200))] + \
                 [{"sweep": True, "n": n, "target_logdet": t, "seed": ctx.rng.randrange(2 ** 31), "offset": off}
                  for n in (2, 7, 40) for t in (0, 100, 800) for off in (1e3, 1e5) if abs(t) / n <= 600]
        cfgs = [c for c in ctx.corpus if not (c.get("kernel") or c.get("sweep"))] + \
               [tu.gen_config(ctx.rng) for _ in range(12 if ctx.quick() else 150)]
        for i in range(6 if ctx.quick() else 60):
            cfg = tu.gen_config(ctx.rng)
            cfg.update({"limit": 1, "K": max(3, cfg["K"]), "force_final": ["singleton", "pair", "empty"][i % 3]})
            cfgs.append(cfg)
        # "NW in the hundreds and determinants far outside the range of a double" through the PUBLIC front end
        cfgs += tu.high_dimensional_configs(ctx.rng, (1e6, 10 ** 4.5) if ctx.quick() else (1e6, 10 ** 4.5, 1e3, 1e-2, 1e5))
        for i in range(3 if ctx.quick() else 24):
            # sensors in unnormalised units, many decades apart: the fitted MRFs have condition numbers of 1e12 and up
            cfg = tu.gen_config(ctx.rng, joint=(i % 3 == 2))
            cfg.update({"N": 3, "W": ctx.rng.choice([1, 2]), "K": 2, "lam": 0.11, "eps": 0, "limit": min(cfg["limit"], 3),
                        "sensor_scales": [[1e3, 1, 1e-3], [5e4, 1, 2e-5], [1e-4, 1e2, 1]][i % 3]})
            cfg.pop("dtype", None)
            if not cfg["joint"]:
                cfg["lens"] = [cfg["W"] + ctx.rng.randint(120, 170)]
            cfgs.append(cfg)
        # runs that really repopulate a cluster (the donor's membership changes OUTSIDE the labelling step)
        for _ in range(2 if ctx.quick() else 10):
            rc_ = tu.find_repopulating_config(ctx.rng)
            if rc_ is not None:
                cfgs.append(rc_)
                ctx.count("repopulating_configs")
        for i in range(4 if ctx.quick() else 40):
            # caller-side dtypes other than float64 (integer counts, single precision): the fitted means are not
            # representable in the data's dtype
            cfg = tu.gen_config(ctx.rng)
            cfg.update({"dtype": ["int64", "float32", "int32", "int16"][i % 4], "limit": min(cfg["limit"], 3)})
            cfgs.append(cfg)
        for i in range(6 if ctx.quick() else 60):
            # a covariance floor that really zeroes entries: the scored / reported matrix is the FILTERED one
            cfg = tu.gen_config(ctx.rng)
            cfg.update({"eps": [0.02, 0.05, 0.2][i % 3], "lam": [0.0, 0.01, 0.05][i % 3]})
            cfgs.append(cfg)

    # ---------------- (a) kernel vs model at Rat
    nwl = {}
    lines = []
    for c in kern:
        n = c["n"]
        nw = float(n * np.log(2 * math.pi))           # the code's own constant, passed as an exact dyadic
        nwl[id(c)] = nw
        lines.append(f"loglik {n} {frac_str(Fraction(c['logdet']))} {frac_str(Fraction(nw))} "
                     f"{show_list(c['theta'], lambda r: show_list(r, lambda v: frac_str(Fraction(v))), ';')} "
                     f"{show_list(c['mu'], lambda v: frac_str(Fraction(v)))} {show_list(c['x'], lambda v: frac_str(Fraction(v)))}")
    outs = ctx.driver.run(lines)
    gen_point, gen_table = [], []
    l2pi = frac_str(Fraction(float(np.log(2 * math.pi))))
    fr = lambda v: frac_str(Fraction(v))
    for c, mo in zip(kern, outs):
        n = c["n"]
        theta = np.array([[float(Fraction(v)) for v in r] for r in c["theta"]])
        mu = np.array([float(Fraction(v)) for v in c["mu"]])
        x = np.array([float(Fraction(v)) for v in c["x"]])
        got = float(likelihood.point_log_likelihood_fast(x, mu, theta, float(Fraction(c["logdet"])), n, 1))
        # the kernels TRANSLATED from the source, at exact rationals, on the same arguments (log(2 pi) passed as the
        # double the code uses): the per-point kernel, and the table kernel on two windows / two clusters built from them
        th_s = show_list(c["theta"], lambda r: show_list(r, fr), ";")
        gen_point.append((f"{l2pi} {show_list(c['x'], fr)} {show_list(c['mu'], fr)} {th_s} {fr(c['logdet'])} {n} 1",
                          "ok " + fr(got), c))
        if math.isfinite(got):
            x2 = x[::-1].copy()
            mus2 = np.vstack([mu, mu * 0.5])
            thetas2 = np.stack([theta, theta * 2.0])
            lds2 = np.array([float(Fraction(c["logdet"])), 0.25])
            data2 = np.vstack([x, x2])
            tab = likelihood.all_points_all_clusters_log_likelihood_fast(n, 2, mus2, thetas2, lds2, data2)
            rows_ = lambda M: show_list([[Fraction(float(v)) for v in r] for r in M], lambda r: show_list(r, frac_str), ";")
            gen_table.append((f"{l2pi} {n} 2 {rows_(mus2)} {rows_(thetas2[0])}|{rows_(thetas2[1])} "
                              f"{show_list([Fraction(float(v)) for v in lds2], frac_str)} {rows_(data2)}",
                              "ok " + rows_(tab), c))
        model = float(Fraction(mo))
        # independent: with this logdet supplied, the value is 0.5*(logdet - q - n log 2pi), q exact
        d = [Fraction(a) - Fraction(b) for a, b in zip(c["x"], c["mu"])]
        q = sum(d[i] * Fraction(c["theta"][i][j]) * d[j] for i in range(n) for j in range(n))
        want = 0.5 * (float(Fraction(c["logdet"])) - float(q) - n * math.log(2 * math.pi))
        if not oracles.rel_close(got, want, 1e-12, 1e-12):
            ctx.violation("impl-violation", f"per-point log-likelihood {got} != 0.5*(logdet - q - n log 2pi) = {want}", c, {"site": "ll-kernel"})
        if not oracles.rel_close(got, model, 1e-12, 1e-12):
            ctx.violation("correspondence-break", f"logLik (model) {model} vs point_log_likelihood_fast {got}", c)
        offdiag = any(Fraction(c["theta"][i][j]) != 0 for i in range(n) for j in range(n) if i != j)
        ctx.count("kernel_cases")
        ctx.case(("kern", repr(c)), nontrivial=n >= 2 and offdiag)

    ctx.gen_compare("point_log_likelihood_fast", gen_point, tol=1e-12)
    ctx.gen_compare("all_points_all_clusters_log_likelihood_fast", gen_table, tol=1e-12)

    # ---------------- (b) table vs independent density over sizes and determinant ranges
    for c in sweeps:
        n, target = c["n"], c["target_logdet"]
        rs = np.random.RandomState(c["seed"])
        a = rs.randn(n, n) * (0.3 / math.sqrt(n))
        base = np.eye(n) + a @ a.T
        base_ld = np.linalg.slogdet(base)[1]
        theta = base * math.exp((target - base_ld) / n)
        K, T = 2, 5
        thetas = [theta, theta * 1.5]
        mus = [rs.randn(n), rs.randn(n)]
        data = rs.randn(T, n) * (math.exp(-(target / n) / 2))
        if c.get("offset"):
            # un-centred sensors: means far from zero, windows close to the mean (a formula that expands the square
            # loses every digit here; the centred form does not)
            mus = [m * c["offset"] for m in mus]
            data = mus[0] + data
        model = tu.real_model(thetas, mus, 1, T)
        with warnings.catch_warnings():
            warnings.simplefilter("ignore")
            # the SAME model object is scored twice, first on other data of the same shape (a held-out set, a
            # bootstrap resample): the table must be a function of the data it is given
            other = data[::-1] * 1.25 + 0.5
            likelihood.all_points_all_clusters_log_likelihood(model, np.ascontiguousarray(other))
            table = likelihood.all_points_all_clusters_log_likelihood(model, data)
        bad = None
        for p in range(T):
            for k in range(K):
                want = indep_ll(data[p], mus[k], thetas[k])
                if not math.isfinite(table[p, k]):
                    bad = ("ll-nonfinite", f"log-likelihood {table[p, k]} for a positive-definite precision matrix "
                           f"(n={n}, log det ~ {target})")
                elif not oracles.rel_close(table[p, k], want, 1e-9, 1e-6):
                    bad = ("ll-table", f"table[{p},{k}] = {table[p, k]} != log-density {want} (n={n}, log det ~ {target})")
        if bad:
            ctx.violation("impl-violation", bad[1], c, {"site": bad[0]})
        ctx.count("sweep_points")
        ctx.case(("sweep", n, target, c.get("offset")), nontrivial=n >= 2,
                 sample={"n": n, "log_det": target, "ll00": float(table[0, 0])} if n in (100, 200) and len(ctx.samples) < 4 else None)

    if ctx.replay is None or ctx.replay.get("graded"):
        graded_section(ctx, likelihood)

    # ---------------- (c) completed runs
    for cfg in cfgs:
        res, tr, err, series = tu.execute(cfg, capture_kernel=True)
        if err is not None or not tr.events or tr.events[-1]["phase"] != "relabel":
            ctx.count("runs_not_completed")
            ctx.case(("cfg", repr(sorted(cfg.items()))))
            continue
        final = tr.events[-1]["out"]
        from fast_ticc import data_preparation as dp
        stacked = dp.stack_training_data_multiple_series(series, cfg["W"])
        # the table that drives label assignment, in EVERY round: minus the log-density of each window under each
        # cluster's (mean, MRF) as they stand after that round's optimisation phase
        rounds_ = tr.rounds()
        for j, evs in enumerate(rounds_):
            if j >= len(tr.kernel_calls) or evs[-1]["phase"] != "relabel" or evs[-2]["phase"] != "opt":
                break
            snap = evs[-2]["out_snap"]
            table = tr.kernel_calls[j]["table"]
            bad_cell = None
            try:
                for k, cs in enumerate(snap["clusters"]):
                    theta = np.atleast_2d(cs["train"])
                    mu = np.atleast_1d(cs["mean"])
                    # "whose mean is the cluster's window mean": recomputed from the windows the cluster HOLDS in this
                    # state, not read off the state (a statistic carried over from an earlier membership is not it)
                    mem_ = [int(i_) for i_ in (cs.get("members") or [])]
                    if mem_:
                        mu_def = np.asarray(stacked[mem_], dtype=float).mean(axis=0)
                        if not np.allclose(mu, mu_def, rtol=1e-9, atol=1e-9 * (1.0 + float(np.max(np.abs(mu_def))))):
                            bad_cell = ("mean", k, float(np.max(np.abs(mu - mu_def))), len(mem_))
                            break
                        mu = mu_def
                    for p_ in range(0, stacked.shape[0], max(1, stacked.shape[0] // 25)):
                        want = -indep_ll(stacked[p_], mu, theta)
                        if not oracles.rel_close(table[p_, k], want, 1e-9, 1e-6):
                            bad_cell = (p_, k, float(table[p_, k]), want)
            except np.linalg.LinAlgError:
                break
            if bad_cell and bad_cell[0] == "mean":
                ctx.violation("impl-violation",
                              f"round {j}: the mean cluster {bad_cell[1]} is scored with differs by {bad_cell[2]:.3g} from the mean of the "
                              f"{bad_cell[3]} windows it holds in that round", cfg, {"site": "ll-drives-labelling", "cause": "stale-mean"})
                break
            if bad_cell:
                ctx.violation("impl-violation",
                              f"round {j}: cost table entry {bad_cell[:2]} = {bad_cell[2]} is not minus the log-density {bad_cell[3]} "
                              f"of that window under that cluster's fitted (mean, MRF)", cfg, {"site": "ll-drives-labelling"})
                break
            ctx.count("round_tables_checked")
        labels = [int(x) for x in final.point_labels]
        K = cfg["K"]
        try:
            per_point = [indep_ll(stacked[i], np.atleast_1d(final.clusters[l].stacked_data_mean),
                                  np.atleast_2d(final.clusters[l].train_inverse)) for i, l in enumerate(labels)]
        except np.linalg.LinAlgError:
            ctx.count("runs_final_mrf_not_pd")
            continue
        grouped = [v for k in range(K) for v, l in zip(per_point, labels) if l == k]
        got = [float(x) for x in res.all_log_likelihood]
        if len(got) == len(grouped):
            if not all(oracles.rel_close(a, b, 1e-9, 1e-7) for a, b in zip(got, grouped)):
                ctx.violation("impl-violation", "per-point log-likelihoods in the result are not the log-densities under the final model",
                              cfg, {"site": "ll-result"})
            elif not oracles.rel_close(res.overall_log_likelihood, math.fsum(grouped), 1e-9, 1e-6):
                ctx.violation("impl-violation", "overall log-likelihood is not the sum of the log-densities", cfg, {"site": "ll-result"})
            else:
                # per-cluster means and medians are those of the cluster's own points (0 if none)
                import statistics
                for k in range(K):
                    vals = [v for v, l in zip(per_point, labels) if l == k]
                    wm = math.fsum(vals) / len(vals) if vals else 0.0
                    wmed = statistics.median(vals) if vals else 0.0
                    if not (oracles.rel_close(res.cluster_log_likelihood_mean[k], wm, 1e-9, 1e-7)
                            and oracles.rel_close(res.cluster_log_likelihood_median[k], wmed, 1e-9, 1e-7)):
                        ctx.violation("impl-violation",
                                      f"cluster {k} ({len(vals)} point(s)): reported mean/median "
                                      f"{float(res.cluster_log_likelihood_mean[k])}/{float(res.cluster_log_likelihood_median[k])} "
                                      f"!= log-density mean/median {wm}/{wmed}", cfg, {"site": "ll-cluster-stats"})
                        break
                if not (oracles.rel_close(res.overall_log_likelihood_mean, math.fsum(grouped) / len(grouped), 1e-9, 1e-7)
                        and oracles.rel_close(res.overall_log_likelihood_median, statistics.median(grouped), 1e-9, 1e-7)):
                    ctx.violation("impl-violation", "overall mean/median are not those of the log-densities", cfg, {"site": "ll-result"})
        # (length mismatches are C06's business)
        ctx.count("runs_checked")
        if cfg.get("eps"):
            ctx.count("runs_with_floor")
        if cfg.get("dtype"):
            ctx.count("runs_dtype:" + cfg["dtype"])
        if cfg.get("sensor_scales"):
            ctx.count("runs_with_graded_sensor_scales")
        ctx.case(("cfg", repr(sorted(cfg.items()))), nontrivial=cfg["N"] * cfg["W"] >= 2)

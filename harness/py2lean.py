"""Translator: a subset of Python (the pure index / list / kernel helpers of fast_ticc) -> Lean 4.

`regenerate(repo, lean_dir)` parses the CURRENT source under `$REPO/src/fast_ticc` with `ast`, translates every
function listed in SPECS into a shallow Lean definition over the primitives of `FastTicc/Model/Py.lean`, and
writes `FastTicc/Generated/Kernels.lean` (only when the text changes, so `lake build` stays a no-op on an
unchanged tree).  The theorems of `FastTicc/Props/Translated.lean` are stated about these generated definitions:
they prove, for all inputs, that each translated function equals the hand-written model the property theorems
are about.  So a change to one of these Python functions changes the generated text, and the equivalence
proof has to check again against what the code says now.

The scheme (statement by statement, no knowledge of what the function is "supposed" to do):
  x = e                      ->  let x := <e>
  (a, b) = e                 ->  let a := (<e>).1 ; let b := (<e>).2
  x += e                     ->  let x := x + <e>
  a[i] = v / a[i, j] = v …   ->  let a := <set primitive> a …
  l.append(x) / l.pop()      ->  let l := Py.append l x / Py.popLast l
  for i in range(..): body   ->  let s := Py.forRange .. s0 (fun i s => body ; s')   (s = the loop-carried variables)
  for x in xs: body          ->  let s := Py.forEach xs s0 (fun x s => …)
  if c: A else: B            ->  let s := if c then (A ; s') else (B ; s')           (s = variables assigned in A or B)
  if c: raise E(..)          ->  if c then throw "E"                                  (function is in `Except String`)
  assert c                   ->  if ¬ c then throw "AssertionError"   (inside a loop: a carried flag, tested after the loop)
  return e                   ->  the value of the block
Anything outside the subset raises `Unsupported`: the function is then listed as unavailable, the previous
generated text for it is kept out of the file and the theorems about it are skipped by the build (see
`regenerate`) — an extraction miss alone never raises an alarm (DESIGN 3.4); only the differential tie remains.
"""
import ast
import os
import re

SRC = "src/fast_ticc"


class Unsupported(Exception):
    pass


class _Promote(Exception):
    def __init__(self, name, to="scalar"):
        super().__init__(name)
        self.name = name
        self.to = to


# functions that are MODELLED by a hand-written primitive of Model/Py.lean instead of being translated (floating-point
# square root): name -> (parameter types, result type, Lean name)
PRIMITIVE_FUNCS = {"_full_matrix_size": (["int"], "int", "Py.fullMatrixSize")}

# attribute / index PATHS of record-typed parameters: (steps) -> (field, type); "[]" stands for an index expression
RECORD_PATHS = {"bicmodel": {("arguments", "num_clusters"): ("num_clusters", "int"),
                             ("clusters", "[]", "train_inverse"): ("train_inverse", "arr2"),
                             ("clusters", "[]", "empirical_covariance"): ("empirical_covariance", "arr2"),
                             ("point_labels",): ("point_labels", ("list", "int"))},
                # `model.clusters[k]` handed on to another function is represented by the index k (a cluster's identity)
                "donormodel": {("arguments", "min_cluster_size"): ("min_cluster_size", "int")},
                "llmodel": {("arguments", "num_clusters"): ("num_clusters", "int"),
                            ("arguments", "window_size"): ("window_size", "int"),
                            ("clusters", "[]"): ("__index__", "int"),
                            ("point_labels",): ("point_labels", ("list", "int"))}}

ATTRS = {"admmargs": {"window_size": "int", "num_data_series": "int", "rho": "scalar", "sparsity_weight": "lam",
                      "max_iterations": "int", "verbose": "bool", "rho_update": "rhocb",
                      "absolute_tolerance": "scalar", "relative_tolerance": "scalar"},
         "chmodel": {"clusters": ("list", "chcluster")},
         "donormodel": {"clusters": ("list", "donorcluster")},
         "donorcluster": {"size": "int", "computed_covariance": "arr2"},
         "chcluster": {"size": "int", "member_points": ("list", "int")}}


def default_value(t):
    """the value a variable takes after a failed call inside a loop (never observable: the error is thrown later)"""
    if t == "int":
        return "(0 : Int)"
    if t == "scalar":
        return "(0 : α)"
    if isinstance(t, tuple) and t[0] == "list":
        return "[]"
    if isinstance(t, tuple) and t[0] == "tuple":
        return "(" + ", ".join(default_value(x) for x in t[1:]) + ")"
    raise Unsupported(f"no default for {t}")


# ------------------------------------------------------------------------------------------ types
# type tags: 'int' 'rat' 'bool' 'scalar' 'str' ('list', T) ('tuple', T1, T2, ...) 'arr1' 'arr2' 'arr2int' 'sov'
def lean_type(t):
    if t == "int":
        return "Int"
    if t == "rat":
        return "Rat"
    if t == "bool":
        return "Bool"
    if t == "scalar":
        return "α"
    if t == "arr1":
        return "Py.Arr1 α"
    if t == "arr2":
        return "Py.Arr2 α"
    if t == "arr2int":
        return "Py.Arr2 Int"
    if t == "mask2":
        return "Py.Mask2"
    if t == "rhocb":
        return "Option (α → α → α → α → α → α)"
    if t == "sov":
        return "Py.ScalarOrVec α"
    if t == "lam":
        return "Py.Lambda α"
    if t == "admmargs":
        return "Py.ADMMArgs α"
    if t == "bicmodel":
        return "Py.BicModel α"
    if t == "llmodel":
        return "Py.LlModel"
    if t == "donormodel":
        return "Py.DonorModel α"
    if t == "donorcluster":
        return "Py.DonorCluster α"
    if t == "chmodel":
        return "Py.ChModel"
    if t == "chcluster":
        return "Py.ChCluster"
    if isinstance(t, tuple) and t[0] == "dict":
        return f"Py.IntMap ({lean_type(t[2])})"
    if isinstance(t, tuple) and t[0] == "list":
        return f"List ({lean_type(t[1])})"
    if isinstance(t, tuple) and t[0] == "tuple":
        return " × ".join(f"({lean_type(x)})" for x in t[1:])
    raise Unsupported(f"type {t}")


SPECS = [
    # file, function, parameter types, return type, uses the abstract scalar type
    dict(file="data_preparation.py", func="pad_missing_labels",
         params={"original_labels": ("list", "int"), "window_size": "int"}, ret=("list", "int")),
    dict(file="data_preparation.py", func="split_joint_labels",
         params={"joint_labels": ("list", "int"), "stacked_series_lengths": ("list", "int")},
         ret=("list", ("list", "int"))),
    dict(file="data_preparation.py", func="label_switching_cost_template",
         params={"stacked_series_lengths": ("list", "int")}, ret="arr1", scalar=True, ones=True),
    dict(file="data_preparation.py", func="stack_training_data",
         params={"data": "arr2", "window_size": "int"}, ret="arr2", scalar=True),
    dict(file="data_preparation.py", func="stack_training_data_multiple_series",
         params={"all_series": ("list", "arr2"), "window_size": "int"}, ret="arr2", scalar=True),
    dict(file="matrix_compression.py", func="_upper_triangle_indices",
         params={"size": "int"}, ret=("tuple", ("list", "int"), ("list", "int"))),
    dict(file="matrix_compression.py", func="_uncompress_upper_triangle",
         params={"compressed_tri": "arr1"}, ret="arr2", scalar=True),
    dict(file="matrix_compression.py", func="_upper_to_full",
         params={"upper_tri": "arr2"}, ret="arr2", scalar=True),
    dict(file="matrix_compression.py", func="compress_matrix",
         params={"full_matrix": "arr2"}, ret="arr1", scalar=True),
    dict(file="matrix_compression.py", func="reinflate_matrix",
         params={"compressed_utri": "arr1"}, ret="arr2", scalar=True),
    dict(file="admm/unique_values.py", func="_size_including_this_row",
         params={"r": "int", "uncompressed_size": "int"}, ret="rat"),
    dict(file="admm/unique_values.py", func="_elements_in_row_after_target",
         params={"c": "int", "full_row_length": "int"}, ret="int"),
    dict(file="admm/unique_values.py", func="_compressed_index",
         params={"row": "int", "column": "int", "uncompressed_size": "int"}, ret="int"),
    dict(file="admm/unique_values.py", func="_block_start_coordinates",
         params={"block_id": "int", "block_size": "int", "window_size": "int"},
         ret=("list", ("tuple", "int", "int"))),
    dict(file="admm/unique_values.py", func="_unique_variable_locations",
         params={"block_id": "int", "row_in_block": "int", "col_in_block": "int", "block_size": "int",
                 "num_blocks": "int"}, ret=("list", ("tuple", "int", "int"))),
    dict(file="admm/unique_values.py", func="locations_compressed",
         params={"block_id": "int", "row_in_block": "int", "col_in_block": "int", "block_size": "int",
                 "num_blocks": "int"}, ret=("list", "int")),
    dict(file="admm/unique_values.py", func="locations_index_slices",
         params={"block_id": "int", "row_in_block": "int", "col_in_block": "int", "block_size": "int",
                 "num_blocks": "int"}, ret=("tuple", ("list", "int"), ("list", "int"))),
    dict(file="admm/solver.py", func="soft_threshold_prox",
         params={"scaled_point_sum": "scalar", "lambda_sum": "scalar", "rho_times_r": "scalar"}, ret="scalar",
         field=True),
    dict(file="admm/solver.py", func="compute_lambda_sum",
         params={"lambda_parameter": "lam", "block_id": "int", "row": "int", "column": "int", "block_size": "int",
                 "num_blocks": "int"}, ret="scalar", field=True),
    dict(file="admm/solver.py", func="admm_update_z",
         params={"args": "admmargs", "u": "arr1", "x": "arr1"}, ret="arr1", field=True),
    dict(file="admm/solver.py", func="admm_update_u",
         params={"u": "arr1", "x": "arr1", "z": "arr1"}, ret="arr1", field=True),
    dict(file="admm/solver.py", func="admm_update_x",
         params={"args": "admmargs", "u": "arr1", "z": "arr1", "empirical_covariance": "arr2"}, ret="arr1", field=True,
         # the proximal operator of the log-det term (an eigendecomposition) is a function parameter
         consts={"xProx": "Py.Arr2 α → Py.Arr2 α → α → Py.Arr1 α"},
         externs={"x_update_prox": ("xProx", ["arr2", "arr2", "scalar"], "arr1")}),
    dict(file="admm/solver.py", func="check_convergence",
         params={"args": "admmargs", "u": "arr1", "x": "arr1", "z": "arr1", "z_old": "arr1"},
         ret=("tuple", "bool", "scalar", "scalar", "scalar", "scalar"), field=True,
         # the Euclidean norm and the square root of the vector length are function parameters
         consts={"normOf1": "Py.Arr1 α → α", "sqrtOfInt": "Int → α"}),
    dict(file="admm/solver.py", func="run_admm_optimization",
         params={"args": "admmargs", "empirical_covariance": "arr2"}, ret="arr1", field=True,
         consts={"xUpdate": "Py.ADMMArgs α → Py.Arr1 α → Py.Arr1 α → Py.Arr2 α → Py.Arr1 α",
                 "checkConv": "Py.ADMMArgs α → Py.Arr1 α → Py.Arr1 α → Py.Arr1 α → Py.Arr1 α → Bool × α × α × α × α"},
         # the X update (an eigendecomposition) and the convergence check (norms, a square root) are function parameters
         externs={"admm_update_x": ("xUpdate", ["admmargs", "arr1", "arr1", "arr2"], "arr1"),
                  "check_convergence": ("checkConv", ["admmargs", "arr1", "arr1", "arr1", "arr1"],
                                        ("tuple", "bool", "scalar", "scalar", "scalar", "scalar"))}),
    dict(file="cluster_metrics.py", func="calinski_harabasz_index",
         params={"stacked_training_data": "arr2", "model": "chmodel"}, ret="scalar", field=True),
    dict(file="cluster_metrics.py", func="bayesian_information_criterion",
         params={"model": "bicmodel"}, ret="scalar", field=True,
         consts={"logdetOf": "Py.Arr2 α → α", "logOfInt": "Int → α"}),
    dict(file="graphical_lasso.py", func="_zero_small_elements",
         params={"array": "arr2", "epsilon": "scalar", "copy": "bool"}, ret="arr2", field=True, defaults_ok=True),
    dict(file="cluster_maintenance.py", func="_find_point_donor",
         params={"model": "donormodel", "potential_donor_ids": ("list", "int")}, ret=("tuple", "int", ("list", "int")),
         field=True, while_fuel="len(remaining_donors) + 1",
         # protocol form: minimum size, cluster sizes, candidate ids (the covariances are not read)
         exec=("  | \"_find_point_donor\", [a0, a1, a2] => do\n"
               "      let m ← parseInt? a0; let sz ← parseInts? a1; let ids ← parseInts? a2\n"
               "      let cl : List (Py.DonorCluster Rat) := sz.map (fun (s : Int) => ⟨s, ⟨1, 1, fun _ _ => 0⟩⟩)\n"
               "      pure (match Gen._find_point_donor (α := Rat) ⟨m, cl⟩ ids with\n"
               "        | .ok v => \"ok \" ++ toString v.1 ++ \" \" ++ showInts v.2\n"
               "        | .error e => \"err \" ++ e)")),
    dict(file="cluster_maintenance.py", func="_find_ranked_donor_cluster_ids",
         params={"model": "donormodel"}, ret=("list", "int"), field=True, consts={"normOf": "Py.Arr2 α → α"},
         # protocol form: minimum size, cluster sizes, spreads; every covariance is the 1 x 1 matrix [[spread]] (spread >= 0),
         # whose norm is its entry
         exec=("  | \"_find_ranked_donor_cluster_ids\", [a0, a1, a2] => do\n"
               "      let m ← parseInt? a0; let sz ← parseInts? a1; let sp ← parseRats? a2\n"
               "      let cl : List (Py.DonorCluster Rat) := (sz.zip sp).map (fun (p : Int × Rat) => ⟨p.1, ⟨1, 1, fun _ _ => p.2⟩⟩)\n"
               "      pure (\"ok \" ++ showInts (Gen._find_ranked_donor_cluster_ids (α := Rat) (fun M => M.get 0 0) ⟨m, cl⟩))")),
    dict(file="main_loop.py", func="_compute_log_likelihood_by_cluster",
         params={"stacked_training_data": "arr2", "model": "llmodel"}, ret=("list", ("list", "scalar")), field=True,
         consts={"pointLL": "Py.Arr1 α → Int → Int → Rat → α"}, empty_elt="scalar",
         # protocol form: cluster count, labels, the per-point log-likelihoods (handed over as the one-column data array:
         # the per-point likelihood function reads the value off its window)
         exec=("  | \"_compute_log_likelihood_by_cluster\", [a0, a1, a2] => do\n"
               "      let K ← parseInt? a0; let labels ← parseInts? a1; let ll ← parseRats? a2\n"
               "      let data : Py.Arr2 Rat := Py.Arr2.ofLists (ll.map (fun (v : Rat) => [v])) 1\n"
               "      pure (\"ok \" ++ showRatss (Gen._compute_log_likelihood_by_cluster (α := Rat) (fun row _ _ _ => Py.Arr1.get1 row 0) data ⟨K, 1, labels⟩))")),
    dict(file="likelihood.py", func="point_log_likelihood_fast",
         params={"point": "arr1", "mu_i": "arr1", "theta_i": "arr2", "log_det_theta": "scalar", "window_size": "int",
                 "num_data_series": "int"}, ret="scalar", field=True, consts=["log2pi"]),
    dict(file="likelihood.py", func="all_points_all_clusters_log_likelihood_fast",
         params={"window_size": "int", "num_clusters": "int", "mus": "arr2", "thetas": ("list", "arr2"),
                 "log_det_thetas": "arr1", "stacked_training_data": "arr2"}, ret="arr2", field=True, consts=["log2pi"]),
    dict(file="cluster_label_assignment.py", func="assign_point_cluster_labels",
         params={"label_assignment_cost": "arr2", "label_switching_cost": "sov"},
         ret=("tuple", ("list", "int"), "scalar"), scalar=True),
]


# ------------------------------------------------------------------------------------------ helpers
def assigned_names(stmts):
    """names (re)bound by a list of statements (targets, augmented targets, subscript stores, mutating methods)."""
    out = []

    def add(n):
        if n not in out:
            out.append(n)

    def target(t):
        if isinstance(t, ast.Name):
            add(t.id)
        elif isinstance(t, (ast.Tuple, ast.List)):
            for e in t.elts:
                target(e)
        elif isinstance(t, ast.Subscript):
            base = t.value
            while isinstance(base, ast.Subscript):
                base = base.value
            if isinstance(base, ast.Name):
                add(base.id)
            else:
                raise Unsupported("store through a non-name")
        elif isinstance(t, ast.Attribute) and isinstance(t.value, ast.Name):
            add(t.value.id)                      # `record.field = v` rebinds the record
        else:
            raise Unsupported(f"assignment target {ast.dump(t)}")

    for s in stmts:
        if isinstance(s, ast.Assign):
            for t in s.targets:
                target(t)
        elif isinstance(s, ast.AugAssign):
            target(s.target)
        elif isinstance(s, ast.AnnAssign):
            target(s.target)
        elif isinstance(s, ast.For):
            target(s.target)
            for n in assigned_names(s.body):
                add(n)
        elif isinstance(s, (ast.If, ast.While)):
            for n in assigned_names(s.body) + assigned_names(s.orelse):
                add(n)
        elif isinstance(s, ast.Expr) and isinstance(s.value, ast.Call) and isinstance(s.value.func, ast.Attribute) \
                and s.value.func.attr in ("append", "pop") and isinstance(s.value.func.value, ast.Name):
            add(s.value.func.value.id)
        elif isinstance(s, ast.Expr) and isinstance(s.value, ast.Call) and isinstance(s.value.func, ast.Attribute) \
                and s.value.func.attr == "append" and isinstance(s.value.func.value, ast.Subscript) \
                and isinstance(s.value.func.value.value, ast.Name):
            add(s.value.func.value.value.id)
    return out


def contains_assert(stmts):
    return any(isinstance(n, ast.Assert) for s in stmts for n in ast.walk(s))


def called_names(nodes):
    out = set()
    for s_ in nodes:
        for n in ast.walk(s_):
            if isinstance(n, ast.Call):
                f = n.func
                if isinstance(f, ast.Name):
                    out.add(f.id)
                elif isinstance(f, ast.Attribute):
                    out.add(f.attr)
    return out


def used_names(nodes):
    return {n.id for s in nodes for n in ast.walk(s) if isinstance(n, ast.Name)}


# ------------------------------------------------------------------------------------------ the translator
LEAN_KEYWORDS = {"end", "at", "from", "in", "do", "then", "else", "fun", "let", "have", "show", "open", "section",
                 "namespace", "variable", "def", "theorem", "match", "with", "where", "if", "for", "return", "instance",
                 "structure", "class", "by", "using", "this", "Type", "Prop", "Sort", "mut", "local", "prefix", "infix"}


def mangle(name):
    return name + "_" if name in LEAN_KEYWORDS else name


class _Renamer(ast.NodeTransformer):
    """local names that are Lean keywords get a trailing underscore (before translation)"""

    def visit_Name(self, node):
        node.id = mangle(node.id)
        return node

    def visit_arg(self, node):
        node.arg = mangle(node.arg)
        return node


class FuncTranslator:
    def __init__(self, spec, fdef, known_funcs):
        self.spec = spec
        self.fdef = fdef
        self.known = known_funcs        # name -> (param types list, ret type, may_raise)
        self.env = dict(spec["params"])
        self.may_raise = False
        self.uses_ok = False
        self.in_err_loop = False
        self.local_funcs = {}
        self.aliases = {}
        self.loop_depth = 0
        self.promoted = set()
        self.tmp = 0

    # ---- expressions: returns (lean text, type)
    def expr(self, e):
        if isinstance(e, ast.Name):
            if e.id not in self.env:
                raise Unsupported(f"unknown name {e.id}")
            return e.id, self.env[e.id]
        if isinstance(e, ast.Constant):
            if isinstance(e.value, bool):
                return ("true" if e.value else "false"), "bool"
            if isinstance(e.value, int):
                return f"({e.value} : Int)", "int"
            if isinstance(e.value, float) and e.value == 0.0 and (self.spec.get("scalar") or self.spec.get("ones")):
                return "(0 : α)", "scalar"
            if isinstance(e.value, float) and self.spec.get("field"):
                from fractions import Fraction as _F
                fr = _F(e.value)                   # the double, exactly
                return f"((({fr.numerator} : Int) : α) / (({fr.denominator} : Int) : α))", "scalar"
            raise Unsupported(f"constant {e.value!r}")
        if isinstance(e, ast.UnaryOp) and isinstance(e.op, ast.USub):
            if isinstance(e.operand, ast.Constant) and isinstance(e.operand.value, int):
                return f"(-{e.operand.value} : Int)", "int"
            s, t = self.expr(e.operand)
            if t == "scalar":
                return f"((0 : α) - {s})", t       # the scalar type is given by its ring operations; -x is 0 - x
            return f"(-{s})", t
        if isinstance(e, ast.UnaryOp) and isinstance(e.op, ast.Not):
            s, t = self.expr(e.operand)
            return f"(!{self.as_bool(s, t)})", "bool"
        if isinstance(e, ast.BinOp):
            return self.binop(e)
        if isinstance(e, ast.Compare):
            if len(e.ops) != 1:
                raise Unsupported("chained comparison")
            l, lt = self.expr(e.left)
            r, rt = self.expr(e.comparators[0])
            if lt == "arr2" and rt == "scalar" and type(e.ops[0]) in (ast.Lt, ast.Gt):
                # elementwise comparison of a matrix with a number: a boolean mask
                return f"(Py.Arr2.{'ltScalar' if type(e.ops[0]) is ast.Lt else 'gtScalar'} {l} {r})", "mask2"
            op = {ast.Lt: "<", ast.LtE: "≤", ast.Gt: ">", ast.GtE: "≥", ast.Eq: "=", ast.NotEq: "≠"}.get(type(e.ops[0]))
            if op is None:
                raise Unsupported("comparison operator")
            l, r, ut = self.unify_num(l, lt, r, rt)
            if ut == "scalar" and op in ("≤", "≥"):
                # the scalar type comes with `<` only: on a total order `a <= b` is `not (b < a)`
                a_, b_ = (r, l) if op == "≤" else (l, r)
                return f"(!(decide ({a_} < {b_})))", "bool"
            return f"(decide ({l} {op} {r}))", "bool"
        if isinstance(e, ast.BoolOp):
            parts = [self.as_bool(*self.expr(v)) for v in e.values]
            op = " && " if isinstance(e.op, ast.And) else " || "
            return "(" + op.join(parts) + ")", "bool"
        if isinstance(e, ast.Tuple):
            parts = [self.expr(x) for x in e.elts]
            return "(" + ", ".join(p[0] for p in parts) + ")", ("tuple",) + tuple(p[1] for p in parts)
        if isinstance(e, ast.List):
            parts = [self.expr(x) for x in e.elts]
            if not parts:
                if self.spec.get("empty_elt"):
                    et = self.spec["empty_elt"]
                    return f"([] : List ({lean_type(et)}))", ("list", et)
                return "[]", ("list", None)
            return "[" + ", ".join(p[0] for p in parts) + "]", ("list", parts[0][1])
        if isinstance(e, ast.ListComp):
            return self.listcomp(e)
        rp = self.record_path(e)
        if rp is not None:
            return rp
        if isinstance(e, ast.Dict) and not e.keys:
            return "([] : Py.IntMap Int)", ("dict", "int", "int")
        if isinstance(e, ast.Subscript):
            return self.subscript(e)
        if isinstance(e, ast.Attribute):
            if e.attr == "T":
                s0, t0 = self.expr(e.value)
                if t0 == "arr1":
                    return s0, t0               # transposing a 1-d array is the identity
                if t0 == "arr2":
                    return f"(Py.Arr2.transpose {s0})", "arr2"
                raise Unsupported("transpose of " + str(t0))
            if e.attr == "shape":
                s, t = self.expr(e.value)
                if t in ("arr2", "arr2int"):
                    return f"(Py.Arr2.shape0 {s}, Py.Arr2.shape1 {s})", ("tuple", "int", "int")
            if e.attr == "size":
                s, t = self.expr(e.value)
                if t == "arr1":
                    return f"(Py.Arr1.size {s})", "int"
            if isinstance(e.value, ast.Name) and self.env.get(e.value.id) in ATTRS \
                    and e.attr in ATTRS[self.env[e.value.id]]:
                return f"{e.value.id}.{e.attr}", ATTRS[self.env[e.value.id]][e.attr]
            if isinstance(e.value, ast.Subscript):
                s0, t0 = self.expr(e.value)
                if isinstance(t0, str) and t0 in ATTRS and e.attr in ATTRS[t0] and not isinstance(s0, tuple):
                    return f"({s0}).{e.attr}", ATTRS[t0][e.attr]
            raise Unsupported(f"attribute {e.attr}")
        if isinstance(e, ast.Call):
            return self.call(e)
        if isinstance(e, ast.IfExp):
            c = self.as_bool(*self.expr(e.test))
            a, at = self.expr(e.body)
            b, bt = self.expr(e.orelse)
            return f"(if {c} then {a} else {b})", at
        raise Unsupported(f"expression {type(e).__name__}")

    def record_path(self, e):
        """`model.arguments.num_clusters`, `model.clusters[k].train_inverse`, … on a record-typed parameter"""
        steps, idx, node = [], None, e
        while True:
            if isinstance(node, ast.Attribute):
                steps.append(node.attr)
                node = node.value
            elif isinstance(node, ast.Subscript) and not isinstance(node.slice, (ast.Slice, ast.Tuple)):
                steps.append("[]")
                idx = node.slice
                node = node.value
            else:
                break
        if not (isinstance(node, ast.Name) and self.env.get(node.id) in RECORD_PATHS and steps):
            return None
        key = tuple(reversed(steps))
        table = RECORD_PATHS[self.env[node.id]]
        if key not in table:
            return None
        fld, typ = table[key]
        if "[]" in key:
            i, it = self.expr(idx)
            if it != "int":
                raise Unsupported("record index")
            if fld == "__index__":
                return i, typ
            return f"(Py.getItem {node.id}.{fld} {i})", typ
        return f"{node.id}.{fld}", typ

    def as_bool(self, s, t):
        if t == "rhocb":
            return f"(Option.isSome {s})"        # `if callback:` on an optional callback
        if t != "bool":
            raise Unsupported("non-boolean condition")
        return s

    def unify_num(self, l, lt, r, rt):
        if lt == rt:
            return l, r, lt
        if {lt, rt} == {"rat", "scalar"} and self.spec.get("field"):
            # a float that came out of `int / int` among other floats
            if lt == "rat":
                l = f"(Py.ratCast {l})"
            else:
                r = f"(Py.ratCast {r})"
            return l, r, "scalar"
        if {lt, rt} == {"int", "scalar"} and self.spec.get("field"):
            # Python promotes the int operand to float
            if lt == "int":
                l = f"(({l} : Int) : α)"
            else:
                r = f"(({r} : Int) : α)"
            return l, r, "scalar"
        if {lt, rt} == {"int", "rat"}:
            if lt == "int":
                l = f"(({l} : Int) : Rat)"
            else:
                r = f"(({r} : Int) : Rat)"
            return l, r, "rat"
        raise Unsupported(f"operands of types {lt} and {rt}")

    def binop(self, e):
        l, lt = self.expr(e.left)
        r, rt = self.expr(e.right)
        op = type(e.op)
        if op is ast.MatMult and self.spec.get("field"):
            if lt == "arr2" and rt == "arr2":
                return f"(Py.matMul {l} {r})", "arr2"
            if lt == "arr1" and rt == "arr2":
                return f"(Py.vecMat {l} {r})", "arr1"
            if lt == "arr1" and rt == "arr1":
                return f"(Py.dot {l} {r})", "scalar"
            raise Unsupported(f"matmul of {lt}, {rt}")
        if self.spec.get("field") and op is ast.Mult and lt == "scalar" and rt == "arr1":
            return f"(Py.Arr1.scale {l} {r})", "arr1"
        if op is ast.BitAnd and lt == "mask2" and rt == "mask2":
            return f"(Py.Mask2.and {l} {r})", "mask2"
        if op is ast.Sub and lt == "arr1" and rt == "arr1":
            return f"(Py.Arr1.sub {l} {r})", "arr1"
        if op is ast.Add and lt == "arr2" and rt == "arr2":
            return (f"(Py.Arr2.addB {l} {r})" if self.spec.get("field") else f"(Py.Arr2.add {l} {r})"), "arr2"
        if op is ast.Sub and lt == "arr2" and rt == "arr2":
            return f"(Py.Arr2.sub {l} {r})", "arr2"
        islist = lambda t: isinstance(t, tuple) and t[0] == "list"
        if op is ast.Add:
            if islist(lt) and islist(rt):
                return f"({l} ++ {r})", (lt if lt[1] is not None else rt)
            if lt == "arr1" and rt == "arr1":
                return f"(Py.Arr1.add {l} {r})", "arr1"
            if lt == "arr1" and rt == "scalar":
                return f"(Py.Arr1.addScalar {l} {r})", "arr1"
            if lt == "arr1" and rt == "sov":
                return f"(Py.broadcastAdd {l} {r})", "arr1"
        if op is ast.Mult and islist(lt) and rt == "int":
            return f"(Py.repeatList {l} {r})", lt
        if self.spec.get("field") and op is ast.MatMult and lt == "arr2" and rt == "arr2":
            return f"(Py.matMul {l} {r})", "arr2"
        if self.spec.get("field") and op is ast.Add and lt == "int" and rt == "arr2":
            return f"(Py.Arr2.addB (Py.Arr2.ofInt {l}) {r})", "arr2"
        if self.spec.get("field") and op is ast.Add and {lt, rt} == {"arr2"}:
            return f"(Py.Arr2.addB {l} {r})", "arr2"
        if self.spec.get("field") and op is ast.Mult and lt == "int" and rt == "arr2":
            return f"(Py.Arr2.scaleInt {l} {r})", "arr2"
        if self.spec.get("field") and op is ast.Sub and lt == "arr1" and rt == "scalar":
            return f"(Py.Arr1.subScalar {l} {r})", "arr1"
        if self.spec.get("field") and op in (ast.Add, ast.Sub, ast.Mult, ast.Div) and "scalar" in (lt, rt) \
                and lt in ("int", "scalar", "rat") and rt in ("int", "scalar", "rat"):
            sym = {ast.Add: "+", ast.Sub: "-", ast.Mult: "*", ast.Div: "/"}[op]
            l, r, _ = self.unify_num(l, lt, r, rt)
            return f"({l} {sym} {r})", "scalar"
        if op in (ast.Add, ast.Sub, ast.Mult):
            sym = {ast.Add: "+", ast.Sub: "-", ast.Mult: "*"}[op]
            if lt in ("int", "rat") and rt in ("int", "rat"):
                l, r, t = self.unify_num(l, lt, r, rt)
                return f"({l} {sym} {r})", t
            if lt == "scalar" and rt == "scalar" and op is not ast.Mult:
                return f"({l} {sym} {r})", "scalar"
        if op is ast.Div:
            if lt == "int" and rt == "int":
                return f"(Py.trueDiv {l} {r})", "rat"
        raise Unsupported(f"binary operator {op.__name__} on {lt}, {rt}")

    def listcomp(self, e):
        if len(e.generators) != 1 or len(e.generators[0].ifs) > 1 or e.generators[0].is_async:
            raise Unsupported("comprehension shape")
        g = e.generators[0]
        it, itt = self.expr(g.iter)
        if not (isinstance(itt, tuple) and itt[0] == "list"):
            raise Unsupported("comprehension over a non-list")
        saved = dict(self.env)
        binder, prelude = self.bind_target(g.target, itt[1], "x_")
        if g.ifs:
            # `[f(x) for x in xs if c(x)]`: filter, then map
            cond = self.as_bool(*self.pure_expr(g.ifs[0]))
            it = f"(List.filter (fun {binder} => {prelude}{cond}) {it})"
        body, bt = self.expr(e.elt)
        self.env = saved
        if isinstance(body, tuple):
            return ("RAISES", f"(List.mapM (fun {binder} => {prelude}{body[1]}) {it})"), ("list", bt)
        return f"(List.map (fun {binder} => {prelude}{body}) {it})", ("list", bt)

    def bind_target(self, target, typ, tmpname):
        """bind a loop / comprehension target of type `typ`; returns (binder name, let-prelude text)."""
        if isinstance(target, ast.Name):
            self.env[target.id] = typ
            return target.id, ""
        if isinstance(target, ast.Tuple) and isinstance(typ, tuple) and typ[0] == "tuple" \
                and len(target.elts) == len(typ) - 1 == 2:
            self.tmp += 1
            b = f"{tmpname}{self.tmp}"
            pre = ""
            for k, (el, ty) in enumerate(zip(target.elts, typ[1:])):
                if not isinstance(el, ast.Name):
                    raise Unsupported("nested target")
                self.env[el.id] = ty
                if el.id != "_":
                    pre += f"let {el.id} := {b}.{k + 1}; "
            return b, pre
        raise Unsupported("loop target")

    def subscript(self, e):
        sl = e.slice
        cs = self.spec.get("consts") or []
        if "logdetOf" in cs and isinstance(e.value, ast.Call) and isinstance(sl, ast.Constant) and sl.value == 1 \
                and ast.dump(e.value.func) == ast.dump(ast.parse("np.linalg.slogdet", mode="eval").body) and len(e.value.args) == 1:
            a, at = self.expr(e.value.args[0])
            if at == "arr2":
                return f"(logdetOf {a})", "scalar"     # the log-determinant: a parameter of the translated function
        if isinstance(e.value, ast.Attribute) and e.value.attr == "shape" and isinstance(sl, ast.Constant) \
                and sl.value in (0, 1):
            s0, t0 = self.expr(e.value.value)
            if t0 in ("arr2", "arr2int"):
                return f"(Py.Arr2.shape{sl.value} {s0})", "int"
            if t0 == "arr1" and sl.value == 0:
                return f"(Py.Arr1.size {s0})", "int"
        base, bt = self.expr(e.value)
        if isinstance(bt, tuple) and bt[0] == "dict":
            i, it = self.expr(sl)
            if it != bt[1]:
                raise Unsupported("dict key type")
            return f"(Py.IntMap.get {base} {i})", bt[2]
        if isinstance(bt, tuple) and bt[0] == "tuple":
            if isinstance(sl, ast.Constant) and isinstance(sl.value, int) and 0 <= sl.value < len(bt) - 1 == 2 + 0 * sl.value:
                return f"{base}.{sl.value + 1}", bt[1 + sl.value]
            raise Unsupported("tuple index")
        if isinstance(bt, tuple) and bt[0] == "list":
            if isinstance(sl, ast.Slice):
                if sl.step is not None or sl.lower is None or sl.upper is None:
                    raise Unsupported("slice form")
                a, at = self.expr(sl.lower)
                b, btt = self.expr(sl.upper)
                if at != "int" or btt != "int":
                    raise Unsupported("slice bound type")
                return f"(Py.slice {base} {a} {b})", bt
            i, it = self.expr(sl)
            if it != "int":
                raise Unsupported("list index type")
            if bt[1] == "scalar":
                return f"(Py.getItemZ {base} {i})", bt[1]
            return f"(Py.getItem {base} {i})", bt[1]
        if bt == "arr1":
            i, it = self.expr(sl)
            if it != "int":
                raise Unsupported("index type")
            return f"(Py.Arr1.get1 {base} {i})", "scalar"
        if bt in ("arr2", "arr2int"):
            el = "scalar" if bt == "arr2" else "int"
            if isinstance(sl, ast.Tuple) and len(sl.elts) == 2:
                i, it = self.expr(sl.elts[0])
                if it == ("list", "int") and bt == "arr2" and isinstance(sl.elts[1], ast.Slice) \
                        and sl.elts[1].lower is None and sl.elts[1].upper is None and sl.elts[1].step is None:
                    return f"(Py.Arr2.takeRows {base} {i})", "arr2"
                if it != "int":
                    raise Unsupported("index type")
                second = sl.elts[1]
                if isinstance(second, ast.Slice):
                    if second.lower is None and second.upper is None and second.step is None and bt == "arr2":
                        return f"(Py.Arr2.row {base} {i})", "arr1"
                    raise Unsupported("2-d slice load")
                j, jt = self.expr(second)
                if jt != "int":
                    raise Unsupported("index type")
                return f"(Py.Arr2.get2 {base} {i} {j})", el
            if isinstance(sl, (ast.Slice, ast.Tuple)):
                raise Unsupported("array slice")
            i, it = self.pure_expr(sl)
            if it == ("tuple", ("list", "int"), ("list", "int")) and bt == "arr2":
                return f"(Py.Arr2.getAt2 {base} {i})", "arr1"
            if it != "int" or bt != "arr2":
                raise Unsupported("row index")
            return f"(Py.Arr2.row {base} {i})", "arr1"
        raise Unsupported(f"subscript of {bt}")

    def shape_args(self, node):
        """np.zeros argument: [r, c] / (n,) / x.shape  ->  list of int expression texts"""
        if isinstance(node, (ast.List, ast.Tuple)):
            out = []
            for x in node.elts:
                s, t = self.expr(x)
                if t != "int":
                    raise Unsupported("shape entry")
                out.append(s)
            return out
        if isinstance(node, ast.Attribute) and node.attr == "shape":
            s, t = self.expr(node.value)
            if t in ("arr2", "arr2int"):
                return [f"(Py.Arr2.shape0 {s})", f"(Py.Arr2.shape1 {s})"]
        s, t = self.expr(node)
        if t == "int":
            return [s]
        raise Unsupported("shape argument")

    def call(self, e):
        if "log2pi" in (self.spec.get("consts") or []) and ast.dump(e) == ast.dump(ast.parse("np.log(2 * math.pi)", mode="eval").body):
            return "log2pi", "scalar"           # the constant log(2 pi): a parameter of the translated function
        f = e.func
        name = None
        if isinstance(f, ast.Name):
            name = f.id
        elif isinstance(f, ast.Attribute) and isinstance(f.value, ast.Name):
            name = f"{f.value.id}.{f.attr}"
        elif isinstance(f, ast.Attribute) and isinstance(f.value, ast.Attribute) and isinstance(f.value.value, ast.Name):
            name = f"{f.value.value.id}.{f.value.attr}.{f.attr}"
        args = e.args
        kw = {k.arg: k.value for k in e.keywords}
        if name is None and isinstance(f, ast.Attribute) and f.attr in ("reshape", "diagonal"):
            name = "<method>." + f.attr
        if name is None:
            raise Unsupported("call target")
        name = self.aliases.get(name, name)
        if name == "np.linalg.norm" and len(args) == 1 and not kw and "normOf1" in (self.spec.get("consts") or []):
            a, at = self.expr(args[0])
            if at == "arr1":
                return f"(normOf1 {a})", "scalar"
        if name == "math.sqrt" and len(args) == 1 and not kw and "sqrtOfInt" in (self.spec.get("consts") or []):
            a, at = self.expr(args[0])
            if at == "int":
                return f"(sqrtOfInt {a})", "scalar"
        if name == "int" and len(args) == 1:
            s, t = self.expr(args[0])
            if t == "rat":
                return f"(Py.intOfRat {s})", "int"
            if t == "int":
                return s, "int"
            raise Unsupported("int() of " + str(t))
        if name in ("max", "min") and len(args) == 2 and not kw:
            a, at = self.expr(args[0])
            b, bt = self.expr(args[1])
            if {at, bt} == {"int", "scalar"} and not self.spec.get("field"):
                # `max(x, 0)` with an int literal zero next to a float: the literal is promoted
                if at == "int" and a in ("(0 : Int)",):
                    a, at = "(0 : α)", "scalar"
                elif bt == "int" and b in ("(0 : Int)",):
                    b, bt = "(0 : α)", "scalar"
            a, b, t = self.unify_num(a, at, b, bt)
            if t not in ("scalar", "int"):
                raise Unsupported(f"{name} of {t}")
            return f"(Py.{name}2 {a} {b})", t
        if name == "len" and len(args) == 1:
            s, t = self.expr(args[0])
            if t in ("arr2", "arr2int"):
                return f"(Py.Arr2.shape0 {s})", "int"
            if isinstance(t, tuple) and t[0] == "list":
                return f"(Py.len {s})", "int"
            raise Unsupported("len of " + str(t))
        if name == "sum" and len(args) == 1:
            s, t = self.expr(args[0])
            if t == ("list", "int"):
                return f"(Py.sum {s})", "int"
            raise Unsupported("sum of " + str(t))
        if name == "list" and len(args) == 1:
            s, t = self.expr(args[0])
            if isinstance(t, tuple) and t[0] == "list":
                return s, t
            raise Unsupported("list() of " + str(t))
        if name == "itertools.accumulate" and len(args) == 1:
            s, t = self.expr(args[0])
            if t == ("list", "int"):
                return f"(Py.accumulate {s})", t
            raise Unsupported("accumulate of " + str(t))
        if name == "sorted" and len(args) == 1 and set(kw) == {"key", "reverse"} and isinstance(kw["reverse"], ast.Constant) \
                and kw["reverse"].value is True and isinstance(kw["key"], ast.Name) and kw["key"].id in self.local_funcs:
            xs, xt = self.expr(args[0])
            if not (isinstance(xt, tuple) and xt[0] == "list") or isinstance(xs, tuple):
                raise Unsupported("sorted of " + str(xt))
            arg, body = self.local_funcs[kw["key"].id]
            saved = dict(self.env)
            self.env[arg] = xt[1]
            kb, kt = self.pure_expr(body)
            self.env = saved
            if kt != "scalar":
                raise Unsupported("sort key of type " + str(kt))
            # sorted(..., reverse=True) is stable: equal keys keep their original order
            return f"(Py.sortedDescBy (fun {mangle(arg)} => {kb}) {xs})", xt
        if name == "np.linalg.norm" and len(args) == 1 and not kw and "normOf" in (self.spec.get("consts") or []):
            a, at = self.expr(args[0])
            if at == "arr2":
                return f"(normOf {a})", "scalar"
            raise Unsupported("norm of " + str(at))
        ext = (self.spec.get("externs") or {}).get(name)
        if ext is not None and not kw:
            cname, ptypes, rtype = ext
            parts = [self.expr(a) for a in args]
            if [p_[1] for p_ in parts] != list(ptypes) or any(isinstance(p_[0], tuple) for p_ in parts):
                raise Unsupported(f"arguments of {name}: {[p_[1] for p_ in parts]}")
            return f"({cname} " + " ".join(p_[0] for p_ in parts) + ")", rtype
        if name == "args.rho_update" and len(args) == 5 and not kw and self.env.get("args") == "admmargs":
            parts = [self.expr(a) for a in args]
            if any(p_[1] != "scalar" for p_ in parts):
                raise Unsupported("callback arguments")
            return "(Py.callRhoUpdate args.rho_update " + " ".join(p_[0] for p_ in parts) + ")", "scalar"
        if name == "np.copy" and len(args) == 1 and not kw:
            a, at = self.expr(args[0])
            if at in ("arr1", "arr2"):
                return a, at                      # arrays are values here: a copy is the array
            raise Unsupported("np.copy of " + str(at))
        if name == "enumerate" and len(args) == 1 and not kw:
            s_, t_ = self.expr(args[0])
            if isinstance(t_, tuple) and t_[0] == "list":
                return f"(Py.enumerate {s_})", ("list", ("tuple", "int", t_[1]))
            raise Unsupported("enumerate of " + str(t_))
        if name == "likelihood.point_log_likelihood" and len(args) == 4 and not kw \
                and "pointLL" in (self.spec.get("consts") or []):
            parts = [self.expr(a) for a in args]
            if [p_[1] for p_ in parts] != ["arr1", "int", "int", "rat"]:
                raise Unsupported("point_log_likelihood arguments " + str([p_[1] for p_ in parts]))
            return "(pointLL " + " ".join(p_[0] for p_ in parts) + ")", "scalar"
        if name == "numba_guard.prange":
            name = "range"                       # a parallel range is a range (C15: the iterations write disjoint cells)
        if name == "range":
            parts = [self.expr(a) for a in args]
            if any(p[1] != "int" for p in parts) or not 1 <= len(parts) <= 3:
                raise Unsupported("range arguments")
            p = [x[0] for x in parts]
            if len(p) == 1:
                p = ["(0 : Int)", p[0], "(1 : Int)"]
            elif len(p) == 2:
                p = [p[0], p[1], "(1 : Int)"]
            return f"(Py.range {p[0]} {p[1]} {p[2]})", ("list", "int")
        if name in ("np.zeros", "np.ones"):
            fill = "0" if name == "np.zeros" else "1"
            shape_node = kw.get("shape", args[0] if args else None)
            if shape_node is None:
                raise Unsupported("np.zeros without a shape")
            dims = self.shape_args(shape_node)
            dt = kw.get("dtype")
            isint = dt is not None and isinstance(dt, ast.Attribute) and dt.attr.startswith(("uint", "int"))
            if dt is not None and not isint and not (isinstance(dt, ast.Attribute) and dt.attr == "float64"):
                raise Unsupported("dtype")
            if len(dims) == 1 and not isint:
                return f"(Py.Arr1.const {dims[0]} ({fill} : α))", "arr1"
            if len(dims) == 2:
                if isint:
                    return f"(Py.Arr2.const {dims[0]} {dims[1]} ({fill} : Int))", "arr2int"
                return f"(Py.Arr2.const {dims[0]} {dims[1]} ({fill} : α))", "arr2"
            raise Unsupported("array rank")
        if name == "np.sum" and len(args) == 1 and not kw and isinstance(args[0], ast.Subscript):
            base, bt = self.expr(args[0].value)
            sl = args[0].slice
            if bt == "arr1":
                i, it = self.expr(sl)
                if it == ("list", "int"):
                    return f"(Py.Arr1.sumAt {base} {i})", "scalar"
            if bt == "arr2" and isinstance(sl, ast.Tuple) and len(sl.elts) == 2:
                i, it = self.expr(sl.elts[0])
                j, jt = self.expr(sl.elts[1])
                if it == ("list", "int") and jt == ("list", "int"):
                    return f"(Py.Arr2.sumAt {base} {i} {j})", "scalar"
            raise Unsupported("np.sum of this indexing")
        if name == "float" and len(args) == 1 and not kw:
            s, t = self.expr(args[0])
            if t == "scalar":
                return s, t
            raise Unsupported("float() of " + str(t))
        if name not in self.known and "." in name and name.split(".")[-1] in self.known \
                and name.split(".")[0] in ("unique_values", "matrix_compression"):
            name = name.split(".")[-1]
        if name == "np.log" and len(args) == 1 and not kw and "logOfInt" in (self.spec.get("consts") or []):
            a, at = self.expr(args[0])
            if at == "int":
                return f"(logOfInt {a})", "scalar"
        if name == "np.trace" and len(args) == 1 and isinstance(args[0], ast.Call) \
                and ast.dump(args[0].func) == ast.dump(ast.parse("np.dot", mode="eval").body) and len(args[0].args) == 2:
            a, at = self.expr(args[0].args[0])
            b, bt = self.expr(args[0].args[1])
            if at == "arr2" and bt == "arr2":
                return f"(Py.traceDot {a} {b})", "scalar"
        if name == "np.sum" and len(args) == 1 and isinstance(args[0], ast.Compare) and len(args[0].ops) == 1 \
                and isinstance(args[0].ops[0], ast.Gt) and isinstance(args[0].left, ast.Call) \
                and ast.dump(args[0].left.func) == ast.dump(ast.parse("np.abs", mode="eval").body):
            a, at = self.expr(args[0].left.args[0])
            t_, tt = self.expr(args[0].comparators[0])
            if at == "arr2" and tt == "scalar":
                return f"(Py.countAbove {a} {t_})", "int"
        if name == "np.mean" and len(args) == 1 and self.spec.get("field"):
            a, at = self.expr(args[0])
            if at == "arr2" and not kw:
                return f"(Py.Arr2.meanAll {a})", "scalar"
            if at == "arr2" and set(kw) == {"axis"} and isinstance(kw["axis"], ast.Constant) and kw["axis"].value == 0:
                return f"(Py.Arr2.meanAxis0 {a})", "arr1"
            raise Unsupported("np.mean form")
        if name == "np.trace" and len(args) == 1 and not kw and self.spec.get("field") and not isinstance(args[0], ast.Call):
            a, at = self.expr(args[0])
            if at == "arr2":
                return f"(Py.Arr2.trace {a})", "scalar"
        if isinstance(f, ast.Attribute) and f.attr == "reshape" and len(args) == 2 and not kw \
                and ast.dump(args[0]) == ast.dump(ast.parse("-1", mode="eval").body) \
                and isinstance(args[1], ast.Constant) and args[1].value == 1:
            a, at = self.expr(f.value)
            if at == "arr1":
                return f"(Py.colOf {a})", "arr2"
            raise Unsupported("reshape of " + str(at))
        if name == "np.triu_indices" and len(args) == 1 and not kw:
            a, at = self.expr(args[0])
            if at == "int":
                return f"(Py.triuIndices {a})", ("tuple", ("list", "int"), ("list", "int"))
            raise Unsupported("triu_indices of " + str(at))
        if name == "np.diag" and len(args) == 1 and not kw:
            a, at = self.expr(args[0])
            if at == "arr1":
                return f"(Py.diagOf {a})", "arr2"
            raise Unsupported("np.diag of " + str(at))
        if isinstance(f, ast.Attribute) and f.attr == "diagonal" and not args and not kw:
            a, at = self.expr(f.value)
            if at == "arr2":
                return f"(Py.Arr2.diagonal {a})", "arr1"
            raise Unsupported("diagonal of " + str(at))
        if name == "np.vstack" and len(args) == 1 and not kw:
            a, at = self.expr(args[0])
            if at == ("list", "arr2"):
                return f"(Py.vstack {a})", "arr2"
            raise Unsupported("vstack of " + str(at))
        if name == "np.argmin" and len(args) == 1:
            s, t = self.expr(args[0])
            if t == "arr1":
                return f"(Py.Arr1.argmin {s})", "int"
            raise Unsupported("argmin of " + str(t))
        if name in PRIMITIVE_FUNCS and name not in self.known:
            ptypes, ret, lname = PRIMITIVE_FUNCS[name]
            parts = [self.expr(a) for a in args]
            if len(parts) != len(ptypes) or kw or any(p[1] != t for p, t in zip(parts, ptypes)):
                raise Unsupported("call of a modelled primitive")
            return f"({lname} " + " ".join(p[0] for p in parts) + ")", ret
        if name in self.known:
            ptypes, ret, mr = self.known[name][:3]
            extra = self.known[name][3] if len(self.known[name]) > 3 else []
            if any(c not in (self.spec.get("consts") or []) for c in extra):
                raise Unsupported("callee needs a constant this function does not have")
            parts = [self.expr(a) for a in args]
            if len(parts) != len(ptypes) or kw:
                raise Unsupported("call arity")
            for (s, t), pt in zip(parts, ptypes):
                if t != pt:
                    raise Unsupported(f"argument type {t} for {pt}")
            text = f"({name} " + " ".join(list(extra) + [p[0] for p in parts]) + ")"
            if mr:
                return ("RAISES", text), ret
            return text, ret
        raise Unsupported(f"call to {name}")

    # ---- statements
    def pure_expr(self, e):
        s, t = self.expr(e)
        if isinstance(s, tuple):
            raise Unsupported("call to a raising function inside an expression")
        return s, t

    def block(self, stmts, ind, tail_vars=None, top=False):
        """translate a statement list.  `tail_vars`: names whose tuple is the value of the block (loop bodies,
        if-branches); `top`: function level (in the Except monad when the function may raise)."""
        lines = []
        pad = "  " * ind
        for k, s in enumerate(stmts):
            if isinstance(s, ast.Expr) and isinstance(s.value, ast.Constant) and isinstance(s.value.value, str):
                continue                                            # docstring
            if isinstance(s, ast.Assign) and len(s.targets) == 1 and isinstance(s.targets[0], ast.Name) \
                    and ast.dump(s.value) == ast.dump(ast.parse("np.linalg.norm", mode="eval").body):
                self.aliases[s.targets[0].id] = "np.linalg.norm"    # `norm = np.linalg.norm`: a local name for a function
                continue
            if isinstance(s, ast.Assign) and len(s.targets) == 1 \
                    and not (isinstance(s.value, ast.Constant) and s.value.value is None):
                lines += self.assign(s.targets[0], s.value, pad, top)
            elif isinstance(s, ast.AugAssign) and isinstance(s.target, ast.Name):
                fake = ast.BinOp(left=ast.Name(id=s.target.id, ctx=ast.Load()), op=s.op, right=s.value)
                v, t = self.pure_expr(fake)
                self.env[s.target.id] = t
                lines.append(f"{pad}let {s.target.id} := {v}")
            elif isinstance(s, ast.Expr) and isinstance(s.value, ast.Call) and isinstance(s.value.func, ast.Attribute) \
                    and isinstance(s.value.func.value, ast.Name) and s.value.func.attr in ("append", "pop"):
                nm = s.value.func.value.id
                t = self.env.get(nm)
                if not (isinstance(t, tuple) and t[0] == "list"):
                    raise Unsupported("method on a non-list")
                if s.value.func.attr == "append":
                    v, vt = self.pure_expr(s.value.args[0])
                    if t[1] is None:
                        t = ("list", vt)
                        self.env[nm] = t
                    elif vt != t[1]:
                        raise Unsupported("append of another type")
                    lines.append(f"{pad}let {nm} := Py.append {nm} {v}")
                else:
                    if s.value.args:
                        if len(s.value.args) == 1 and isinstance(s.value.args[0], ast.Constant) and s.value.args[0].value == 0:
                            lines.append(f"{pad}let {nm} := Py.popFirst {nm}")
                            continue
                        raise Unsupported("pop with an index")
                    lines.append(f"{pad}let {nm} := Py.popLast {nm}")
            elif isinstance(s, ast.Expr) and isinstance(s.value, ast.Call) and isinstance(s.value.func, ast.Attribute) \
                    and s.value.func.attr == "append" and isinstance(s.value.func.value, ast.Subscript) \
                    and isinstance(s.value.func.value.value, ast.Name) and len(s.value.args) == 1:
                # `xs[i].append(v)` on a list of lists
                nm = s.value.func.value.value.id
                t = self.env.get(nm)
                if not (isinstance(t, tuple) and t[0] == "list" and isinstance(t[1], tuple) and t[1][0] == "list"):
                    raise Unsupported("append through an index on a non-list-of-lists")
                i, it = self.pure_expr(s.value.func.value.slice)
                if it != "int":
                    raise Unsupported("list index type")
                v, vt = self.pure_expr(s.value.args[0])
                if t[1][1] is None:
                    t = ("list", ("list", vt))
                    self.env[nm] = t
                elif vt != t[1][1]:
                    raise Unsupported("append of another type")
                lines.append(f"{pad}let {nm} := Py.setItem {nm} {i} (Py.append (Py.getItem {nm} {i}) {v})")
            elif isinstance(s, ast.FunctionDef) and len(s.body) == 1 and isinstance(s.body[0], ast.Return) \
                    and not (s.args.vararg or s.args.kwarg or s.args.kwonlyargs or s.args.defaults) \
                    and len(s.args.args) == 1 and not s.decorator_list:
                # a one-line local function (`def key(i): return table[i]`): kept as an expression, inlined at its use
                self.local_funcs[s.name] = (s.args.args[0].arg, s.body[0].value)
            elif isinstance(s, ast.While) and top and not s.orelse and self.spec.get("while_fuel"):
                lines += self.while_loop(s, ind, stmts[k + 1:])
                return lines
            elif isinstance(s, ast.Assign) and len(s.targets) == 1 and isinstance(s.targets[0], ast.Name) \
                    and isinstance(s.value, ast.Constant) and s.value.value is None:
                # `v = None` before a loop that assigns it: the variable starts out with the default value of the type its
                # first real assignment gives it (it is never read before that assignment in the code translated here)
                nm = s.targets[0].id
                typ = None
                for n_ in ast.walk(self.fdef):
                    if isinstance(n_, ast.Assign) and len(n_.targets) == 1 and isinstance(n_.targets[0], ast.Name) \
                            and n_.targets[0].id == nm and isinstance(n_.value, ast.Name) and n_.value.id in self.env:
                        typ = self.env[n_.value.id]
                        break
                if typ != "arr1":
                    raise Unsupported("None-initialised variable of unknown type")
                # never read while it is None: between this statement and the loop nothing mentions it, and the loop body
                # assigns it in its FIRST statement
                nxt = stmts[k + 1] if k + 1 < len(stmts) else None
                if not (isinstance(nxt, ast.For) and nxt.body and isinstance(nxt.body[0], ast.Assign)
                        and len(nxt.body[0].targets) == 1 and isinstance(nxt.body[0].targets[0], ast.Name)
                        and nxt.body[0].targets[0].id == nm and nm not in used_names([nxt.body[0].value])
                        and nm not in used_names([nxt.iter])):
                    raise Unsupported("None-initialised variable that may be read before its first assignment")
                self.env[nm] = typ
                lines.append(f"{pad}let {nm} : Py.Arr1 α := Py.Arr1.const 0 (0 : α)")
            elif isinstance(s, ast.Expr) and self.is_log_call(s.value):
                continue                                            # diagnostics with pure arguments: no effect on values
            elif isinstance(s, ast.If) and self.only_logging(s.body) and self.only_logging(s.orelse) \
                    and not any(isinstance(n_, (ast.Call, ast.NamedExpr)) for n_ in ast.walk(s.test)):
                continue                                            # `if verbose: LOGGER.debug(...)`: no effect on values
            elif isinstance(s, ast.For) and top and any(isinstance(n_, ast.Break) for n_ in ast.walk(s)):
                lines += self.for_loop_break(s, ind, stmts[k + 1:])
                return lines
            elif isinstance(s, ast.For):
                lines += self.for_loop(s, ind, stmts[k + 1:], top)
            elif isinstance(s, ast.If) and len(s.body) == 1 and isinstance(s.body[0], ast.Continue) and not s.orelse \
                    and tail_vars is not None and self.loop_depth > 0:
                # `if c: continue` in a loop body: the rest of the body runs only when c is false
                c = self.as_bool(*self.pure_expr(s.test))
                saved = dict(self.env)
                rest_lines = self.block(stmts[k + 1:], ind + 2, tail_vars=tail_vars)
                after = dict(self.env)
                self.env = saved
                for n_ in tail_vars:             # a carried variable whose type changed (promotion): let the loop see it
                    if after.get(n_) != saved.get(n_):
                        self.env[n_] = after.get(n_)
                self.tmp += 1
                res = f"r_{self.tmp}"
                lines.append(f"{pad}let {res} := if {c} then ({self.tuple_of(tail_vars)})")
                lines.append(f"{pad}  else (")
                lines += rest_lines
                lines[-1] += ")"
                lines += self.unpack(tail_vars, res, pad)
                lines.append(pad + self.tuple_of(tail_vars))
                return lines
            elif isinstance(s, ast.If):
                if len(s.body) == 1 and isinstance(s.body[0], ast.Raise) and not s.orelse:
                    if not top:
                        raise Unsupported("raise below the function level")
                    c = self.as_bool(*self.pure_expr(s.test))
                    lines.append(f"{pad}if {c} then throw \"{self.raise_name(s.body[0])}\"")
                    self.may_raise = True
                else:
                    lines += self.if_stmt(s, ind)
            elif isinstance(s, ast.Assert):
                c = self.as_bool(*self.pure_expr(s.test))
                if top:
                    lines.append(f"{pad}if !{c} then throw \"AssertionError\"")
                    self.may_raise = True
                else:
                    self.uses_ok = True
                    lines.append(f"{pad}let ok_ := ok_ && {c}")
            elif isinstance(s, ast.Raise) and top and k == len(stmts) - 1:
                lines.append(f"{pad}throw \"{self.raise_name(s)}\"")
                self.may_raise = True
            elif isinstance(s, ast.Return):
                if not top or k != len(stmts) - 1 or s.value is None:
                    raise Unsupported("return that is not the last statement of the function")
                v, t = self.pure_expr(s.value)
                self.ret_type = t
                lines.append(f"{pad}RETURN {v}")
            else:
                raise Unsupported(f"statement {type(s).__name__}")
        if tail_vars is not None:
            lines.append(pad + self.tuple_of(tail_vars))
        return lines

    def only_logging(self, stmts):
        return all((isinstance(s_, ast.Expr) and (isinstance(s_.value, ast.Constant) or self.is_log_call(s_.value)))
                   or isinstance(s_, ast.Pass) for s_ in stmts)

    def is_log_call(self, e):
        """`LOGGER.debug(fmt, a, b, ...)`: a diagnostic whose arguments are names, constants, attributes or arithmetic"""
        if not (isinstance(e, ast.Call) and isinstance(e.func, ast.Attribute) and isinstance(e.func.value, ast.Name)
                and e.func.value.id == "LOGGER" and e.func.attr in ("debug", "info", "warning", "error")):
            return False
        for a in list(e.args) + [k.value for k in e.keywords]:
            for n_ in ast.walk(a):
                if isinstance(n_, (ast.Call, ast.NamedExpr, ast.Yield, ast.Await, ast.Lambda, ast.ListComp, ast.GeneratorExp)):
                    return False
        return True

    def for_loop_break(self, s, ind, rest):
        """`for x in xs:` at function level whose body contains `break` (and possibly `continue`, raising calls, record
        field stores): a monadic fold `Py.forEachE` over the loop-carried variables plus a flag `brk_` that, once set,
        turns the remaining iterations into no-ops; the body is translated in continuation style, every path ending in the
        new state."""
        pad = "  " * ind
        if s.orelse:
            raise Unsupported("for-else")
        it, itt = self.pure_expr(s.iter)
        if not (isinstance(itt, tuple) and itt[0] == "list"):
            raise Unsupported("loop over a non-list")
        body_assigned = assigned_names(s.body)
        tnames = [n.id for n in ast.walk(s.target) if isinstance(n, ast.Name)]
        carried = [n for n in body_assigned if n in self.env and n not in tnames]
        leaked = [n for n in body_assigned if n not in self.env and n not in tnames and n in used_names(rest)]
        if leaked:
            raise Unsupported(f"loop-local names used after the loop: {leaked}")
        if not carried:
            raise Unsupported("loop without effect")
        self.env["brk_"] = "bool"
        allv = carried + ["brk_"]
        sigma = " × ".join(f"({lean_type(self.env[n])})" for n in allv)
        saved = dict(self.env)
        binder, prelude = self.bind_target(s.target, itt[1], "it_")
        self.tmp += 1
        st, res = f"s_{self.tmp}", f"r_{self.tmp}"
        self.may_raise = True
        self.loop_depth += 1
        body = self.cps_body(list(s.body), allv, ind + 4)
        self.loop_depth -= 1
        for n in carried:
            if self.env.get(n) != saved.get(n):
                raise Unsupported(f"loop-carried variable {n} changes type")
        self.env = saved
        lines = [f"{pad}let brk_ := false",
                 f"{pad}let {res} ← Py.forEachE {it} (({self.tuple_of(allv)}) : {sigma}) (fun {binder} ({st} : {sigma}) => do"]
        lines += [f"{pad}    " + l.strip() for l in self.unpack(allv, st, "")]
        if prelude:
            lines.append(f"{pad}    {prelude.rstrip('; ')}")
        lines.append(f"{pad}    if brk_ then pure {st}")
        lines.append(f"{pad}    else")
        lines += body
        lines[-1] += ")"
        lines += self.unpack(allv, res, pad)
        lines += self.block(rest, ind, top=True)
        return lines

    def cps_body(self, stmts, allv, ind):
        """statements of a loop body in do-notation, every path ending in `pure (state)`"""
        pad = "  " * ind
        done = [f"{pad}pure ({self.tuple_of(allv)})"]
        if not stmts:
            return done
        s0, rest = stmts[0], stmts[1:]
        if isinstance(s0, ast.Expr) and (isinstance(s0.value, ast.Constant) or self.is_log_call(s0.value)):
            return self.cps_body(rest, allv, ind)
        if isinstance(s0, ast.Break):
            return [f"{pad}let brk_ := true"] + done
        if isinstance(s0, ast.Continue):
            return done
        if isinstance(s0, ast.If):
            c = self.as_bool(*self.pure_expr(s0.test))
            saved = dict(self.env)
            a = self.cps_body(list(s0.body) + rest, allv, ind + 1)
            self.env = dict(saved)
            b = self.cps_body(list(s0.orelse) + rest, allv, ind + 1)
            self.env = saved
            return [f"{pad}if {c} then"] + a + [f"{pad}else"] + b
        if isinstance(s0, ast.Assign) and len(s0.targets) == 1 and isinstance(s0.targets[0], ast.Attribute) \
                and isinstance(s0.targets[0].value, ast.Name) and self.env.get(s0.targets[0].value.id) in ATTRS:
            rec, fld = s0.targets[0].value.id, s0.targets[0].attr
            ft = ATTRS[self.env[rec]].get(fld)
            v, vt = self.pure_expr(s0.value)
            if ft is None or vt != ft:
                raise Unsupported("record field store")
            return [f"{pad}let {rec} := {{ {rec} with {fld} := {v} }}"] + self.cps_body(rest, allv, ind)
        if isinstance(s0, ast.Assign) and len(s0.targets) == 1 and isinstance(s0.targets[0], ast.Tuple) \
                and len(s0.targets[0].elts) > 2 and all(isinstance(e_, ast.Name) for e_ in s0.targets[0].elts):
            v, vt = self.pure_expr(s0.value)
            names = [e_.id for e_ in s0.targets[0].elts]
            if not (isinstance(vt, tuple) and vt[0] == "tuple" and len(vt) - 1 == len(names)):
                raise Unsupported("tuple assignment")
            self.tmp += 1
            tmp = f"t_{self.tmp}"
            for n_, ty in zip(names, vt[1:]):
                self.env[n_] = ty
            return [f"{pad}let {tmp} := {v}"] + self.unpack(names, tmp, pad) + self.cps_body(rest, allv, ind)
        if isinstance(s0, (ast.While, ast.For, ast.Raise, ast.Assert, ast.Return)):
            raise Unsupported(f"{type(s0).__name__} inside a loop with break")
        return self.block([s0], ind, top=True) + self.cps_body(rest, allv, ind)

    def while_loop(self, s, ind, rest):
        """`while c: body` at function level, `return` allowed anywhere in the body: `Py.whileRet fuel cond body state`
        with the loop-carried variables as state; the body's value is `Sum.inl v` for `return v` and `Sum.inr state` for
        falling through.  The fuel is the expression the spec names (a bound on the number of iterations; running out of
        it is the error "LoopFuelExhausted", which the equivalence theorem shows cannot happen)."""
        pad = "  " * ind
        assigned = assigned_names(s.body)
        carried = [n for n in assigned if n in self.env]
        local = [n for n in assigned if n not in self.env]
        if not carried:
            raise Unsupported("while loop without state")
        if set(local) & used_names(rest):
            raise Unsupported("a variable first bound inside a while loop is used after it")
        fuel, ft = self.pure_expr(ast.parse(self.spec["while_fuel"], mode="eval").body)
        if ft != "int":
            raise Unsupported("fuel type")
        rho = lean_type(self.spec["ret"])
        sigma = " × ".join(f"({lean_type(self.env[n])})" for n in carried)
        self.tmp += 1
        st, w = f"st_{self.tmp}", f"w_{self.tmp}"
        saved = dict(self.env)
        cond = self.as_bool(*self.pure_expr(s.test))
        unpack = "".join(l.strip() + "; " for l in self.unpack(carried, st, ""))
        body = self.while_body(list(s.body), carried, ind + 3)
        self.env = saved
        self.may_raise = True
        self.ret_type = self.spec["ret"]
        lines = [f"{pad}let {w} := Py.whileRet (Int.toNat {fuel})",
                 f"{pad}    (fun ({st} : {sigma}) => {unpack}{cond})",
                 f"{pad}    (fun ({st} : {sigma}) => {unpack}(("]
        lines += body
        lines[-1] += f") : Sum ({rho}) ({sigma})))"
        lines.append(f"{pad}    {self.tuple_of(carried)}")
        lines.append(f"{pad}match {w} with")
        lines.append(f"{pad}| none => throw \"LoopFuelExhausted\"")
        lines.append(f"{pad}| some (Sum.inl r_) => RETURN r_")
        lines.append(f"{pad}| some (Sum.inr {st}) =>")
        lines += [f"{pad}  " + l.strip() for l in self.unpack(carried, st, "")]
        lines += self.block(rest, ind + 1, top=True)
        return lines

    def while_body(self, stmts, carried, ind):
        pad = "  " * ind
        if not stmts:
            return [f"{pad}Sum.inr {self.tuple_of(carried)}"]
        s0, rest = stmts[0], stmts[1:]
        if isinstance(s0, ast.Expr) and isinstance(s0.value, ast.Constant):
            return self.while_body(rest, carried, ind)
        if isinstance(s0, ast.Return):
            if s0.value is None:
                raise Unsupported("bare return")
            v, t = self.pure_expr(s0.value)
            if t != self.spec["ret"]:
                raise Unsupported(f"return type {t} inside a loop, expected {self.spec['ret']}")
            return [f"{pad}Sum.inl {v}"]
        if isinstance(s0, ast.If):
            c = self.as_bool(*self.pure_expr(s0.test))
            saved = dict(self.env)
            a = self.while_body(list(s0.body) + rest, carried, ind + 1)
            self.env = dict(saved)
            b = self.while_body(list(s0.orelse) + rest, carried, ind + 1)
            self.env = saved
            a[-1] += ")"
            b[-1] += ")"
            return [f"{pad}if {c} then ("] + a + [f"{pad}else ("] + b
        if isinstance(s0, (ast.While, ast.For, ast.Raise, ast.Assert, ast.Continue, ast.Break)):
            raise Unsupported(f"{type(s0).__name__} inside a while loop")
        return self.block([s0], ind) + self.while_body(rest, carried, ind)

    def raise_name(self, r):
        exc = r.exc
        if isinstance(exc, ast.Call):
            exc = exc.func
        if isinstance(exc, ast.Name):
            return exc.id
        raise Unsupported("raise form")

    @staticmethod
    def tuple_of(names):
        return names[0] if len(names) == 1 else "(" + ", ".join(names) + ")"

    def unpack(self, names, src, pad):
        if len(names) == 1:
            return [f"{pad}let {names[0]} := {src}"]
        out = []
        for k, n in enumerate(names):
            proj = ".2" * k + (".1" if k < len(names) - 1 else "")
            out.append(f"{pad}let {n} := {src}{proj}")
        return out

    def assign(self, target, value, pad, top):
        if isinstance(target, ast.Name):
            v, t = self.expr(value)
            if isinstance(v, tuple):
                self.may_raise = True
                self.env[target.id] = t
                if not top:
                    if not self.in_err_loop:
                        raise Unsupported("raising call below the function level")
                    self.tmp += 1
                    tk = f"t_{self.tmp}"
                    return [f"{pad}let {tk} := {v[1]}", f"{pad}let err_ := Py.firstErr err_ {tk}",
                            f"{pad}let {target.id} := Py.okOr {tk} {default_value(t)}"]
                return [f"{pad}let {target.id} ← {v[1]}"]
            if isinstance(t, tuple) and t[0] == "list" and t[1] is None:
                self.env[target.id] = t
                return [f"{pad}let {target.id} := EMPTYLIST:{target.id}"]
            self.env[target.id] = t
            return [f"{pad}let {target.id} := {v}"]
        if isinstance(target, ast.Tuple):
            v, t = self.expr(value)
            if not (isinstance(t, tuple) and t[0] == "tuple" and len(t) - 1 == len(target.elts) == 2):
                raise Unsupported("tuple assignment")
            self.tmp += 1
            tmp = f"t_{self.tmp}"
            if isinstance(v, tuple):                 # a raising call
                self.may_raise = True
                if top:
                    out = [f"{pad}let {tmp} ← {v[1]}"]
                elif self.in_err_loop:
                    out = [f"{pad}let {tmp}e := {v[1]}", f"{pad}let err_ := Py.firstErr err_ {tmp}e",
                           f"{pad}let {tmp} := Py.okOr {tmp}e {default_value(t)}"]
                else:
                    raise Unsupported("raising call below the function level")
            else:
                out = [f"{pad}let {tmp} := {v}"]
            for k, (el, ty) in enumerate(zip(target.elts, t[1:])):
                if not isinstance(el, ast.Name):
                    raise Unsupported("nested tuple target")
                self.env[el.id] = ty
                out.append(f"{pad}let {el.id} := {tmp}.{k + 1}")
            return out
        if isinstance(target, ast.Subscript) and isinstance(target.value, ast.Name):
            nm = target.value.id
            bt = self.env.get(nm)
            sl = target.slice
            v, vt = self.pure_expr(value)
            if isinstance(bt, tuple) and bt[0] == "dict":
                i, it = self.pure_expr(sl)
                if it != bt[1] or vt != bt[2]:
                    raise Unsupported("dict store")
                return [f"{pad}let {nm} := Py.IntMap.set {nm} {i} {v}"]
            if isinstance(bt, tuple) and bt[0] == "list":
                i, it = self.pure_expr(sl)
                if it != "int" or vt != bt[1]:
                    raise Unsupported("list store")
                return [f"{pad}let {nm} := Py.setItem {nm} {i} {v}"]
            if bt == "arr1":
                i, it = self.pure_expr(sl)
                fill = {"(0 : Int)": "(0 : α)", "(1 : Int)": "(1 : α)"}.get(v, v if vt == "scalar" else None)
                if fill is None:
                    raise Unsupported("vector store value")
                if it == ("list", "int"):
                    return [f"{pad}let {nm} := Py.Arr1.setMany {nm} {i} {fill}"]
                if it == "int":
                    return [f"{pad}let {nm} := Py.Arr1.set {nm} {i} {fill}"]
                raise Unsupported("vector store index")
            if bt == "arr2" and not isinstance(sl, (ast.Tuple, ast.Slice)):
                i, it = self.pure_expr(sl)
                if it == "mask2":
                    fill = {"(0 : Int)": "(0 : α)", "(1 : Int)": "(1 : α)"}.get(v, v if vt == "scalar" else None)
                    if fill is None:
                        raise Unsupported("masked store value")
                    return [f"{pad}let {nm} := Py.Arr2.setWhere {nm} {i} {fill}"]
                if it == ("tuple", ("list", "int"), ("list", "int")) and vt == "arr1":
                    return [f"{pad}let {nm} := Py.Arr2.setAt2 {nm} {i} {v}"]
                raise Unsupported("matrix store through this index")
            if bt in ("arr2", "arr2int") and isinstance(sl, ast.Tuple) and len(sl.elts) == 2:
                i, it = self.pure_expr(sl.elts[0])
                if it != "int":
                    raise Unsupported("matrix store index")
                second = sl.elts[1]
                if isinstance(second, ast.Slice):
                    if second.step is not None or second.lower is None or second.upper is None or bt != "arr2" \
                            or vt != "arr1":
                        raise Unsupported("matrix slice store")
                    a, at = self.pure_expr(second.lower)
                    b, btt = self.pure_expr(second.upper)
                    if at != "int" or btt != "int":
                        raise Unsupported("slice bound type")
                    return [f"{pad}let {nm} := Py.Arr2.setRowSlice {nm} {i} {a} {b} {v}"]
                j, jt = self.pure_expr(second)
                want = "scalar" if bt == "arr2" else "int"
                if jt != "int" or vt != want:
                    raise Unsupported("matrix store")
                return [f"{pad}let {nm} := Py.Arr2.set {nm} {i} {j} {v}"]
        raise Unsupported("assignment form")

    def for_loop(self, s, ind, rest, top, stage=0):
        pad = "  " * ind
        promoted_retry = (stage == 2)
        if stage == 0:
            snapshot = (dict(self.env), self.tmp, self.in_err_loop, set(self.promoted), self.loop_depth)
            try:
                return self.for_loop(s, ind, rest, top, stage=1)
            except _Promote as pr:
                self.env, self.tmp, self.in_err_loop = snapshot[0], snapshot[1], snapshot[2]
                self.promoted, self.loop_depth = set(snapshot[3]), snapshot[4]
                self.env[pr.name] = pr.to
                self.promoted.add((id(s), pr.name))
                pre = [f"{pad}let {pr.name} := (({pr.name} : Int) : α)" if pr.to == "scalar"
                       else f"{pad}let {pr.name} := (Py.Arr2.ofInt {pr.name} : Py.Arr2 α)"]
                return pre + self.for_loop(s, ind, rest, top, stage=0)
        if s.orelse:
            raise Unsupported("for-else")
        it, itt = self.pure_expr(s.iter)
        if not (isinstance(itt, tuple) and itt[0] == "list"):
            raise Unsupported("loop over a non-list")
        body_assigned = assigned_names(s.body)
        tnames = [n.id for n in ast.walk(s.target) if isinstance(n, ast.Name)]
        carried = [n for n in body_assigned if n in self.env and n not in tnames]
        leaked = [n for n in body_assigned if n not in self.env and n not in tnames and n in used_names(rest)]
        if leaked:
            raise Unsupported(f"loop-local names used after the loop: {leaked}")
        has_assert = contains_assert(s.body)
        if has_assert:
            carried = carried + ["ok_"]
        raising = [n for n in called_names(s.body) if n in self.known and self.known[n][2]]
        outermost_err = False
        if raising:
            carried = carried + ["err_"]
            outermost_err = not self.in_err_loop
        if not carried:
            raise Unsupported("loop without effect")
        saved = dict(self.env)
        saved_err = self.in_err_loop
        if raising:
            self.in_err_loop = True
        binder, prelude = self.bind_target(s.target, itt[1], "it_")
        self.tmp += 1
        st = f"s_{self.tmp}"
        inner = []
        self.loop_depth += 1
        inner += self.unpack(carried, st, "  " * (ind + 2))
        if prelude:
            inner.append("  " * (ind + 2) + prelude.rstrip("; ").replace("; ", "\n" + "  " * (ind + 2)))
        inner += self.block(s.body, ind + 2, tail_vars=carried)
        self.loop_depth -= 1
        newenv = dict(self.env)
        self.env = saved
        self.in_err_loop = saved_err
        for n in carried:
            if n not in ("ok_", "err_") and newenv.get(n) != saved.get(n):
                # e.g. an empty list that got its element type inside the loop
                if isinstance(saved.get(n), tuple) and saved[n][0] == "list" and saved[n][1] is None:
                    self.env[n] = newenv[n]
                elif self.spec.get("field") and saved.get(n) == "int" and newenv.get(n) in ("scalar", "arr2") \
                        and (id(s), n) not in self.promoted:
                    # an int accumulator that receives floats (or matrices: NumPy broadcasts the int): start the loop from
                    # the promoted value
                    raise _Promote(n, newenv.get(n))
                else:
                    raise Unsupported(f"type of {n} changes in the loop")
        lines = []
        if has_assert:
            lines.append(f"{pad}let ok_ := true")
        if outermost_err:
            lines.append(f"{pad}let err_ := (none : Option String)")
        self.tmp += 1
        res = f"r_{self.tmp}"
        lines.append(f"{pad}let {res} := Py.forEach {it} {self.tuple_of(carried)} (fun {binder} {st} =>")
        lines += inner
        lines[-1] += ")"
        lines += self.unpack(carried, res, pad)
        if has_assert:
            if not top:
                raise Unsupported("assert in a nested loop")
            lines.append(f"{pad}if !ok_ then throw \"AssertionError\"")
            self.may_raise = True
        if outermost_err:
            if not top:
                raise Unsupported("raising call in a loop that is not at the function level")
            lines.append(f"{pad}match err_ with")
            lines.append(f"{pad}| some e_ => throw e_")
            lines.append(f"{pad}| none => pure ()")
            self.may_raise = True
        return lines

    def if_stmt(self, s, ind):
        pad = "  " * ind
        c = self.as_bool(*self.pure_expr(s.test))
        assigned = []
        for n in assigned_names(s.body) + assigned_names(s.orelse):
            if n not in assigned:
                assigned.append(n)
        if contains_assert(s.body) or contains_assert(s.orelse):
            raise Unsupported("assert inside if")
        if not assigned:
            raise Unsupported("if without effect")
        ab, ao = assigned_names(s.body), assigned_names(s.orelse)
        for n in assigned:
            if n not in self.env and not (n in ab and n in ao):
                raise Unsupported(f"{n} assigned in only one branch")
        saved = dict(self.env)
        tb = self.block(s.body, ind + 2, tail_vars=assigned)
        envb = dict(self.env)
        self.env = dict(saved)
        to = self.block(s.orelse, ind + 2, tail_vars=assigned)
        envo = dict(self.env)
        self.env = saved
        for n in assigned:
            if envb.get(n) != envo.get(n):
                if self.spec.get("field") and {envb.get(n), envo.get(n)} == {"int", "scalar"}:
                    # Python: the variable holds an int on one path and a float on the other; numerically the same value
                    tb_or_to = tb if envb.get(n) == "int" else to
                    tb_or_to[-1] = self._cast_tail(tb_or_to[-1], assigned, n)
                    envb[n] = envo[n] = "scalar"
                else:
                    raise Unsupported(f"type of {n} differs between branches")
            self.env[n] = envb[n]
        self.tmp += 1
        res = f"r_{self.tmp}"
        lines = [f"{pad}let {res} := if {c} then ("] + tb
        lines[-1] += ")"
        lines.append(f"{pad}  else (")
        lines += to
        lines[-1] += ")"
        lines += self.unpack(assigned, res, pad)
        return lines

    def _cast_tail(self, tail_line, names, n):
        """the tuple of branch results: cast the int-typed variable `n` to the scalar type"""
        pad = tail_line[:len(tail_line) - len(tail_line.lstrip())]
        parts = [f"(({x} : Int) : α)" if x == n else x for x in names]
        return pad + self.tuple_of(parts)

    def type_dispatch(self, stmts):
        """`if isinstance(P, <scalar types>) …: A` / `if isinstance(P, np.ndarray): B` / `raise …` on a parameter `P` that is
        a scalar-or-array sparsity weight  ->  `match P with | .scalar P => A | .matrix P => B` (the final `raise` is for
        other Python types, which the parameter's type here does not contain)."""
        body = [s for s in stmts if not (isinstance(s, ast.Expr) and isinstance(s.value, ast.Constant))]
        if len(body) != 3 or not (isinstance(body[0], ast.If) and isinstance(body[1], ast.If) and isinstance(body[2], ast.Raise)):
            return None
        if body[0].orelse or body[1].orelse:
            return None

        def isinstance_target(test):
            names = set()
            kinds = set()
            for n in ast.walk(test):
                if isinstance(n, ast.Call) and isinstance(n.func, ast.Name) and n.func.id == "isinstance" and len(n.args) == 2 \
                        and isinstance(n.args[0], ast.Name):
                    names.add(n.args[0].id)
                    kinds.add("matrix" if "ndarray" in ast.dump(n.args[1]) else "scalar")
                elif isinstance(n, ast.Call):
                    return None, None
            return (names.pop() if len(names) == 1 else None), kinds
        p1, k1 = isinstance_target(body[0].test)
        p2, k2 = isinstance_target(body[1].test)
        if p1 is None or p1 != p2 or self.env.get(p1) != "lam" or k1 != {"scalar"} or k2 != {"matrix"}:
            return None
        lines = [f"  match {p1} with"]
        saved = dict(self.env)
        for ctor, typ, branch in ((".scalar", "scalar", body[0].body), (".matrix", "arr2", body[1].body)):
            self.env = dict(saved)
            self.env[p1] = typ
            lines.append(f"  | {ctor} {p1} =>")
            lines += self.block(branch, 2, top=True)
        self.env = saved
        return lines

    # ---- whole function
    def translate(self):
        fd = self.fdef
        names = [a.arg for a in fd.args.args]
        if names != list(self.spec["params"]):
            raise Unsupported(f"parameters {names}")
        if fd.args.vararg or fd.args.kwarg or fd.args.kwonlyargs or (fd.args.defaults and not self.spec.get("defaults_ok")):
            raise Unsupported("parameter form")
        self.ret_type = None
        body = self.type_dispatch(fd.body)
        if body is None:
            body = self.block(fd.body, 1, top=True)
        if self.ret_type is None:
            raise Unsupported("no return")
        if self.ret_type != self.spec["ret"]:
            raise Unsupported(f"return type {self.ret_type}, expected {self.spec['ret']}")
        text = "\n".join(body)
        # empty-list literals take the element type they get later
        for m in re.finditer(r"EMPTYLIST:(\w+)", text):
            t = self.env.get(m.group(1))
            if not (isinstance(t, tuple) and t[0] == "list" and t[1] is not None):
                raise Unsupported("empty list of unknown type")
            text = text.replace(m.group(0), f"([] : {lean_type(t)})")
        ret = lean_type(self.spec["ret"])
        if self.may_raise:
            text = text.replace("RETURN ", "return ")
            ret = f"Except String ({ret})"
            text = "  do\n" + "\n".join("  " + l for l in text.split("\n"))
        else:
            text = text.replace("RETURN ", "")
        cs = self.spec.get("consts") or []
        ctypes = cs if isinstance(cs, dict) else {c: "α" for c in cs}
        params = " ".join([f"({c} : {ty})" for c, ty in ctypes.items()]
                          + [f"({n} : {lean_type(t)})" for n, t in self.spec["params"].items()])
        return f"def {fd.name} {params} : {ret} :=\n{text}\n", self.may_raise


def _parse_for(t, tok, var):
    """(lean statement parsing token `tok` into `var`, expression to pass) for a parameter of type t"""
    if t == "int":
        return f"let {var} ← parseInt? {tok}", var
    if t == ("list", "int"):
        return f"let {var} ← parseInts? {tok}", var
    if t == "scalar":
        return f"let {var} ← parseRat? {tok}", var
    if t == "bool":
        return f"let {var} ← (match {tok} with | \"true\" => some true | \"false\" => some false | _ => none)", var
    if t == "arr1":
        return f"let {var} ← parseRats? {tok}", f"(Py.Arr1.ofList {var} : Py.Arr1 Rat)"
    if t == "arr2":
        return (f"let {var} ← parseRatss? {tok}",
                f"(Py.Arr2.ofLists {var} (({var}.headD []).length) : Py.Arr2 Rat)")
    if t == ("list", "arr2"):
        return (f"let {var} ← parseListWith parseRatss? \"|\" {tok}",
                f"({var}.map (fun m => (Py.Arr2.ofLists m ((m.headD []).length) : Py.Arr2 Rat)))")
    if t == "lam":
        return (f"let {var} ← (match {tok}.splitOn \":\" with\n"
                f"        | [\"s\", v] => (parseRat? v).map Py.Lambda.scalar\n"
                f"        | [\"m\", v] => (parseRatss? v).map (fun l => Py.Lambda.matrix (Py.Arr2.ofLists l ((l.headD []).length)))\n"
                f"        | _ => none)", var)
    if t == "admmargs":
        return (f"let {var} ← (match {tok}.splitOn \"~\" with\n"
                f"        | [w, n, r, l] => do\n"
                f"            let w ← parseInt? w; let n ← parseInt? n; let r ← parseRat? r\n"
                f"            let l ← (match l.splitOn \":\" with\n"
                f"              | [\"s\", v] => (parseRat? v).map Py.Lambda.scalar\n"
                f"              | [\"m\", v] => (parseRatss? v).map (fun l => Py.Lambda.matrix (Py.Arr2.ofLists l ((l.headD []).length)))\n"
                f"              | _ => none)\n"
                f"            pure (Py.ADMMArgs.mk w n r l 1000 false none 0 0)\n"
                f"        | _ => none)", f"({var} : Py.ADMMArgs Rat)")
    if t == "sov":
        return (f"let {var} ← (match {tok}.splitOn \":\" with\n"
                f"        | [\"s\", v] => (parseRat? v).map Py.ScalarOrVec.scalar\n"
                f"        | [\"v\", v] => (parseRats? v).map (fun l => Py.ScalarOrVec.vec (Py.Arr1.ofList l))\n"
                f"        | _ => none)", var)
    raise Unsupported(f"no protocol form for parameter type {t}")


def _show_for(t):
    if t == "int":
        return "(fun (x : Int) => toString x)"
    if t in ("rat", "scalar"):
        return "showRat"
    if t == ("list", "int"):
        return "showInts"
    if t == ("list", ("list", "int")):
        return "showIntss"
    if t == ("list", ("tuple", "int", "int")):
        return "(showList (fun (p : Int × Int) => s!\"{p.1}:{p.2}\") \",\")"
    if t == ("tuple", ("list", "int"), ("list", "int")):
        return "(fun (p : List Int × List Int) => showInts p.1 ++ \" \" ++ showInts p.2)"
    if t == "arr1":
        return "(fun (a : Py.Arr1 Rat) => showRats a.toList)"
    if t == "arr2":
        return "(fun (a : Py.Arr2 Rat) => showRatss a.toLists)"
    if t == ("tuple", ("list", "int"), "scalar"):
        return "(fun (p : List Int × Rat) => showInts p.1 ++ \" \" ++ showRat p.2)"
    raise Unsupported(f"no protocol form for result type {t}")


def exec_wrappers(available, known):
    """`GenExec.run name args`: the translated functions behind the driver's string protocol (scalars are `Rat`)."""
    arms = []
    for spec in SPECS:
        name = spec["func"]
        if name not in available:
            continue
        if spec.get("exec"):
            arms.append(spec["exec"])    # a hand-written protocol form (function-valued parameters instantiated)
            continue
        if isinstance(spec.get("consts"), dict):
            continue                     # function-valued parameters have no protocol form: no driver op for this one
        consts = list(spec.get("consts") or [])
        toks = [f"a{k}" for k in range(len(consts) + len(spec["params"]))]
        lets, passed = [], []
        for k, cn in enumerate(consts):
            lets.append(f"let c{k} ← parseRat? {toks[k]}")
            passed.append(f"c{k}")
        try:
            for k, (pn, pt) in enumerate(spec["params"].items(), start=len(consts)):
                st, ex = _parse_for(pt, toks[k], f"x{k}")
                lets.append(st)
                passed.append(ex)
            _show_for(spec["ret"])
        except Unsupported:
            continue
        call = f"Gen.{name} " + " ".join(passed)
        if spec.get("scalar") or spec.get("ones") or spec.get("field"):
            call = f"Gen.{name} (α := Rat) " + " ".join(passed)
        show = _show_for(spec["ret"])
        may_raise = known[name][2]
        if may_raise:
            out = f"(match {call} with | .ok v => \"ok \" ++ {show} v | .error e => \"err \" ++ e)"
        else:
            out = f"(\"ok \" ++ {show} ({call}))"
        body = "\n      ".join(lets + [f"pure {out}"])
        arms.append(f"  | \"{name}\", [{', '.join(toks)}] => do\n      {body}")
    arms.append("  | _, _ => none")
    names = ", ".join(f"\"{n}\"" for n in available)
    return ("namespace FastTicc.GenExec\nopen FastTicc FastTicc.Proto\n\n"
            "/-- the translated functions behind the model driver's line protocol -/\n"
            "def run (name : String) (args : List String) : Option String :=\n  match name, args with\n"
            + "\n".join(arms) + "\n\n"
            f"def available : List String := [{names}]\n\nend FastTicc.GenExec\n")


HEADER = """/-
GENERATED by harness/py2lean.py from the Python source under $REPO/src/fast_ticc on every run.
Shallow translation of the listed functions, statement by statement, over the primitives of Model/Py.lean.
Do not edit by hand.  (Functions the translator could not handle are listed at the end as comments.)
-/
import FastTicc.Model.Py
import FastTicc.Model.Proto
namespace FastTicc.Gen
open FastTicc

"""

SCALAR_VARS = "variable {α : Type} [Zero α] [Add α] [Sub α] [LT α] [DecidableLT α]\n"
ONES_VARS = "variable {α : Type} [Zero α] [One α]\n"
FIELD_VARS = "variable {α : Type} [Zero α] [Add α] [Sub α] [Mul α] [Div α] [LT α] [DecidableLT α] [IntCast α]\n"


def translate_all(repo, exclude=None):
    """returns (lean text, list of available function names, dict name -> reason for the unavailable ones)"""
    trees = {}
    known = {}
    chunks, available, unavailable = [], [], {}
    exclude = exclude or {}
    for spec in SPECS:
        path = os.path.join(repo, SRC, spec["file"])
        name = spec["func"]
        try:
            if name in exclude:
                raise Unsupported(exclude[name])
            if path not in trees:
                trees[path] = ast.parse(open(path).read())
            fdefs = [n for n in trees[path].body if isinstance(n, ast.FunctionDef) and n.name == name]
            if len(fdefs) != 1:
                raise Unsupported("function not found at module level")
            fdef = _Renamer().visit(fdefs[0])
            tr = FuncTranslator(spec, fdef, known)
            text, may_raise = tr.translate()
            known[name] = (list(spec["params"].values()), spec["ret"], may_raise, list(spec.get("consts") or []))
            text = f"/-- translated from {SRC}/{spec['file']}::{name} -/\n" + text
            if spec.get("field"):
                text = "section\n" + FIELD_VARS + text + "end\n"
            elif spec.get("ones"):
                text = "section\n" + ONES_VARS + text + "end\n"
            elif spec.get("scalar"):
                text = "section\n" + SCALAR_VARS + text + "end\n"
            chunks.append(text)
            available.append(name)
        except (Unsupported, OSError, SyntaxError) as ex:
            unavailable[name] = str(ex)
    text = HEADER + "\n".join(chunks) + "\nend FastTicc.Gen\n\n" + exec_wrappers(available, known)
    if unavailable:
        text += "\n/- not translated:\n" + "\n".join(f"  {k}: {v}" for k, v in unavailable.items()) + "\n-/\n"
    return text, available, unavailable


def _typecheck(text, lean_dir):
    """compile the generated text on its own; returns (ok, {function name: message} for the definitions in error)"""
    import subprocess
    tmpdir = os.path.join(lean_dir, ".lake")
    os.makedirs(tmpdir, exist_ok=True)
    tmp = os.path.join(tmpdir, f"kernels_try_{os.getpid()}.lean")
    with open(tmp, "w") as f:
        f.write(text)
    try:
        subprocess.run(["lake", "build", "FastTicc.Model.Py", "FastTicc.Model.Proto"], cwd=lean_dir,
                       capture_output=True, text=True)
        p = subprocess.run(["lake", "env", "lean", tmp], cwd=lean_dir, capture_output=True, text=True)
    finally:
        try:
            os.unlink(tmp)
        except OSError:
            pass
    if p.returncode == 0:
        return True, {}
    lines = text.split("\n")
    starts = []          # (line number, function name) of every translated definition and wrapper arm
    for i, l in enumerate(lines, 1):
        m = re.match(r"def (\w+) ", l)
        if m:
            starts.append((i, m.group(1)))
        m = re.match(r'  \| "(\w+)", \[', l)
        if m:
            starts.append((i, m.group(1)))
    bad = {}
    names = {s["func"] for s in SPECS}
    for m in re.finditer(r":(\d+):\d+: error:? ?(.*)", p.stdout + p.stderr):
        ln = int(m.group(1))
        owner = None
        for (i, n) in starts:
            if i <= ln:
                owner = n
        if owner in names:
            bad.setdefault(owner, "generated Lean does not type-check: " + m.group(2)[:160])
    if not bad:          # cannot attribute the error: give up on every function
        bad = {n: "generated Lean does not compile" for n in names}
    return False, bad


def regenerate(repo, lean_dir):
    """rewrite Generated/Kernels.lean from the current source.  A function whose translation fails, or whose
    generated text does not type-check, is left out and reported as unavailable (never an alarm by itself)."""
    path = os.path.join(lean_dir, "FastTicc", "Generated", "Kernels.lean")
    old = None
    try:
        old = open(path).read()
    except OSError:
        pass
    exclude = {}
    text, available, unavailable = translate_all(repo, exclude)
    if text != old:
        for _ in range(len(SPECS) + 1):
            ok, bad = _typecheck(text, lean_dir)
            if ok:
                break
            exclude.update(bad)
            text, available, unavailable = translate_all(repo, exclude)
    changed = old != text
    if changed:
        tmp = path + f".{os.getpid()}.tmp"
        with open(tmp, "w") as f:
            f.write(text)
        os.replace(tmp, path)
    return available, unavailable, changed


if __name__ == "__main__":
    import sys
    repo = sys.argv[1] if len(sys.argv) > 1 else "/repo"
    t, a, u = translate_all(repo)
    print(t)
    print("-- available:", a, file=sys.stderr)
    print("-- unavailable:", u, file=sys.stderr)

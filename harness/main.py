"""./check <property> --tier quick|thorough [--replay file]

exit 0: property held on everything explored (KNOWN-FINDING lines allowed)
exit 1: VIOLATION line printed
exit 2: infrastructure failure / timeout (never a violation)
"""
import argparse
import glob
import importlib
import json
import os
import sys
import traceback

HERE = os.path.dirname(os.path.abspath(__file__))
sys.path.insert(0, HERE)
import common  # noqa: E402


def main():
    ap = argparse.ArgumentParser()
    ap.add_argument("prop")
    ap.add_argument("--tier", default=os.environ.get("VERIF_TIER", "quick"),
                    choices=["quick", "thorough"])
    ap.add_argument("--replay", default=None)
    args = ap.parse_args()
    prop = args.prop.upper()
    try:
        seed = int(os.environ.get("VERIF_SEED", "0"))
    except ValueError:
        seed = 0
    os.chdir(common.VERIF)
    # whole-check watchdog: a check that does not finish is an infrastructure failure (exit 2)
    import threading
    limit_s = int(os.environ.get("VERIF_TIMEOUT", "1500" if args.tier == "quick" else "14000"))

    def _expired():
        print(f"[{prop}] infrastructure failure: check did not finish within {limit_s} s", file=sys.stderr, flush=True)
        os._exit(2)
    wd = threading.Timer(limit_s, _expired)
    wd.daemon = True
    wd.start()
    import srccov
    srccov.start(common.REPO)
    try:
        mod = importlib.import_module("props." + prop.lower())
    except ImportError as e:
        print(f"no check for {prop}: {e}", file=sys.stderr)
        return 2
    ctx = common.Ctx(prop, args.tier, seed, mod.LEVEL)
    ctx.rule = getattr(mod, "RULE", "")
    ctx.explanation = getattr(mod, "EXPLANATION", "")
    ctx.assumptions = list(getattr(mod, "ASSUMPTIONS", []))
    # corpus / replay
    ctx.corpus = []
    for path in sorted(glob.glob(os.path.join(common.VERIF, "corpus", prop, "*.json"))):
        try:
            ctx.corpus.append(json.load(open(path)))
        except ValueError:
            pass
    if args.replay:
        doc = json.load(open(args.replay))
        ctx.replay = doc.get("input", doc)
    # per-call watchdog for complete runs (ticc_util.execute): a run that does not return is a violation of the
    # properties that promise termination (C09: bounded loop; C20: failures never hang) and an infrastructure
    # failure for the others (their check cannot decide anything about a call that never returns)
    import ticc_util as _tu

    def _on_hang(cfg):
        sys.stdout = sys.__stdout__
        try:
            if prop in ("C09", "C20"):
                ctx.violation("impl-violation", f"a complete run did not return within {_tu.HANG['seconds']} s "
                              "(the main loop does not terminate)", cfg, {"site": "hang"})
                ctx.extra["aborted_after_hang"] = True
                code = common.finish(ctx)
                sys.stdout.flush()
                os._exit(code)
            print(f"[{prop}] infrastructure failure: a complete run did not return within {_tu.HANG['seconds']} s: {cfg}",
                  file=sys.stderr, flush=True)
        finally:
            os._exit(2)
    _tu.HANG["on_hang"] = _on_hang
    _tu.HANG["seconds"] = int(os.environ.get("VERIF_CALL_TIMEOUT", "300"))
    try:
        lean = common.LeanSide(mod.LEAN_PROPS, mod.LEAN_HELPERS, getattr(mod, "LEAN_TRANSLATED", None))
        lean.recheck = (args.tier == "thorough")      # thorough tier: the compiled modules are re-checked by leanchecker
        ctx.lean = lean.run()
        if not ctx.driver.available():
            print("model driver could not be built:", ctx.lean.get("failures"), file=sys.stderr)
            return 2
        mod.run(ctx)
        return common.finish(ctx)
    except Exception as exc:
        tb = traceback.extract_tb(exc.__traceback__)
        src = os.path.realpath(os.path.join(common.REPO, "src"))
        impl_frames = [f for f in tb if os.path.realpath(f.filename).startswith(src)]
        traceback.print_exc()
        if impl_frames and not isinstance(exc, (MemoryError, KeyboardInterrupt)):
            # the implementation itself raised where the harness expected it to return (or to raise
            # one of the documented errors): that is a behaviour change, not an infrastructure problem
            last = impl_frames[-1]
            ctx.violation("impl-violation",
                          f"implementation raised unexpected {type(exc).__name__}: {str(exc)[:200]} "
                          f"at {os.path.relpath(last.filename, src)}:{last.lineno} ({last.name})",
                          {"traceback": traceback.format_exception_only(type(exc), exc)[-1].strip(),
                           "frames": [f"{os.path.basename(f.filename)}:{f.lineno}:{f.name}" for f in tb][-12:],
                           "note": "re-run this check with the same VERIF_SEED to reproduce"},
                          {"site": "unexpected-exception", "exception": type(exc).__name__})
            return common.finish(ctx)
        print(f"[{prop}] infrastructure failure", file=sys.stderr)
        return 2


if __name__ == "__main__":
    sys.exit(main())

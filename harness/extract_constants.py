"""Regenerate lean/FastTicc/Generated/Constants.lean from the source under $REPO.

Walks the AST of the anchored files and extracts the literals the decision logic
uses.  A pattern that is not found falls back to the expected value and is
reported as 'unavailable' (an extraction miss alone never raises an alarm; the
differential tie remains).
"""
import ast
import os
from fractions import Fraction

EXPECTED = {
    "emptyBelow": 2, "donorFactor": 2, "donorFactorFind": 2, "retireFactor": 3,
    "repopAfterRound": 0, "bicThresholdNum": 1, "bicThresholdDen": 50000,
    "padSub": 1, "padDiv": 2, "admmRho": 1, "admmMaxIter": 1000,
    "admmTolNum": 1, "admmTolDen": 1000000,
    "convSlackNum": 1, "convSlackDen": 10000,
}

DOC = {
    "emptyBelow": "`cluster.size < 2` (cluster_maintenance.repopulate_empty_clusters)",
    "donorFactor": "`size >= 2 * min_cluster_size` (_find_ranked_donor_cluster_ids)",
    "donorFactorFind": "`size >= 2 * min_cluster_size` (_find_point_donor)",
    "retireFactor": "`size < 3 * min_cluster_size` (_find_point_donor: donor retirement)",
    "repopAfterRound": "`if current_iteration > 0` (main loop: repopulate only after this round index)",
    "bicThresholdNum": "BIC threshold `2e-5` as an exact rational num/den",
    "bicThresholdDen": "",
    "padSub": "padding split `front = int((W - padSub) / padDiv)`",
    "padDiv": "",
    "admmRho": "ADMM defaults handed to the optimiser by _setup_optimization_task",
    "admmMaxIter": "",
    "admmTolNum": "relative/absolute tolerance 1e-6 as num/den",
    "admmTolDen": "",
    "convSlackNum": "`sqrt(n) * abs_tol + 0.0001`: additive slack as num/den",
    "convSlackDen": "",
}


def _func(tree, name):
    for node in ast.walk(tree):
        if isinstance(node, ast.FunctionDef) and node.name == name:
            return node
    return None


def _const_int(node):
    if isinstance(node, ast.Constant) and isinstance(node.value, int) and not isinstance(node.value, bool):
        return node.value
    return None


def _mult_factor(node, other_name_contains):
    """k * <expr mentioning other_name_contains>  (either order) -> k"""
    if isinstance(node, ast.BinOp) and isinstance(node.op, ast.Mult):
        for a, b in ((node.left, node.right), (node.right, node.left)):
            k = _const_int(a)
            if k is not None and other_name_contains in ast.dump(b):
                return k
    return None


def extract(repo):
    found = {}
    src = os.path.join(repo, "src", "fast_ticc")

    def parse(rel):
        try:
            with open(os.path.join(src, rel)) as f:
                return ast.parse(f.read())
        except (OSError, SyntaxError):
            return None

    cm = parse("cluster_maintenance.py")
    if cm is not None:
        f = _func(cm, "repopulate_empty_clusters")
        if f:
            for n in ast.walk(f):
                if (isinstance(n, ast.Compare) and len(n.ops) == 1
                        and isinstance(n.left, ast.Attribute) and n.left.attr == "size"):
                    k = _const_int(n.comparators[0])
                    if k is not None and isinstance(n.ops[0], ast.Lt):
                        found["emptyBelow"] = k
                    elif k is not None and isinstance(n.ops[0], ast.LtE):
                        found["emptyBelow"] = k + 1
        f = _func(cm, "_find_ranked_donor_cluster_ids")
        if f:
            for n in ast.walk(f):
                if isinstance(n, ast.Compare) and len(n.ops) == 1 and isinstance(n.ops[0], ast.GtE):
                    k = _mult_factor(n.comparators[0], "min_cluster_size")
                    if k is not None:
                        found["donorFactor"] = k
        f = _func(cm, "_find_point_donor")
        if f:
            for n in ast.walk(f):
                if isinstance(n, ast.Compare) and len(n.ops) == 1:
                    k = _mult_factor(n.comparators[0], "min_cluster_size")
                    if k is None:
                        continue
                    if isinstance(n.ops[0], ast.GtE):
                        found["donorFactorFind"] = k
                    elif isinstance(n.ops[0], ast.Lt):
                        found["retireFactor"] = k

    ml = parse("main_loop.py")
    if ml is not None:
        f = _func(ml, "fit_stacked_data")
        if f:
            for n in ast.walk(f):
                if (isinstance(n, ast.If) and isinstance(n.test, ast.Compare)
                        and isinstance(n.test.left, ast.Name)
                        and n.test.left.id == "current_iteration"
                        and len(n.test.ops) == 1):
                    k = _const_int(n.test.comparators[0])
                    if k is not None and isinstance(n.test.ops[0], ast.Gt):
                        found["repopAfterRound"] = k
                    elif k is not None and isinstance(n.test.ops[0], ast.GtE) and k >= 1:
                        found["repopAfterRound"] = k - 1

    met = parse("cluster_metrics.py")
    if met is not None:
        f = _func(met, "bayesian_information_criterion")
        if f:
            for n in ast.walk(f):
                if (isinstance(n, ast.Assign) and len(n.targets) == 1
                        and isinstance(n.targets[0], ast.Name) and n.targets[0].id == "threshold"
                        and isinstance(n.value, ast.Constant)
                        and isinstance(n.value.value, (int, float))):
                    fr = Fraction(repr(n.value.value))
                    found["bicThresholdNum"] = fr.numerator
                    found["bicThresholdDen"] = fr.denominator

    dp = parse("data_preparation.py")
    if dp is not None:
        f = _func(dp, "pad_missing_labels")
        if f:
            for n in ast.walk(f):
                if (isinstance(n, ast.Assign) and isinstance(n.targets[0], ast.Name)
                        and n.targets[0].id == "front_length"):
                    v = n.value
                    # int((window_size - a) / d)
                    if (isinstance(v, ast.Call) and isinstance(v.func, ast.Name) and v.func.id == "int"
                            and len(v.args) == 1 and isinstance(v.args[0], ast.BinOp)
                            and isinstance(v.args[0].op, (ast.Div, ast.FloorDiv))):
                        num, den = v.args[0].left, v.args[0].right
                        d = _const_int(den)
                        if (d is not None and isinstance(num, ast.BinOp) and isinstance(num.op, ast.Sub)
                                and isinstance(num.left, ast.Name) and num.left.id == "window_size"):
                            a = _const_int(num.right)
                            if a is not None:
                                found["padSub"] = a
                                found["padDiv"] = d

    gl = parse("graphical_lasso.py")
    if gl is not None:
        f = _func(gl, "_setup_optimization_task")
        if f:
            for n in ast.walk(f):
                if isinstance(n, ast.Dict):
                    for k, v in zip(n.keys, n.values):
                        if not (isinstance(k, ast.Constant) and isinstance(v, ast.Constant)):
                            continue
                        if k.value == "rho" and isinstance(v.value, int):
                            found["admmRho"] = v.value
                        if k.value == "max_iterations" and isinstance(v.value, int):
                            found["admmMaxIter"] = v.value
                        if k.value == "relative_tolerance" and isinstance(v.value, (int, float)):
                            fr = Fraction(repr(v.value))
                            found["admmTolNum"] = fr.numerator
                            found["admmTolDen"] = fr.denominator

    so = parse(os.path.join("admm", "solver.py"))
    if so is not None:
        f = _func(so, "check_convergence")
        if f:
            for n in ast.walk(f):
                if (isinstance(n, ast.Assign) and isinstance(n.targets[0], ast.Name)
                        and n.targets[0].id == "absolute_term" and isinstance(n.value, ast.BinOp)
                        and isinstance(n.value.op, ast.Add) and isinstance(n.value.right, ast.Constant)
                        and isinstance(n.value.right.value, (int, float))):
                    fr = Fraction(repr(n.value.right.value))
                    found["convSlackNum"] = fr.numerator
                    found["convSlackDen"] = fr.denominator
    return found


def render(values):
    lines = [
        "/-",
        "GENERATED by harness/extract_constants.py from the source under $REPO on every run.",
        "Decision constants the model is stated over.  Do not edit by hand.",
        "-/",
        "namespace FastTicc.Constants",
        "",
    ]
    for name in EXPECTED:
        if DOC.get(name):
            lines.append(f"/-- {DOC[name]} -/")
        lines.append(f"def {name} : Nat := {values[name]}")
    lines += ["", "end FastTicc.Constants", ""]
    return "\n".join(lines)


def regenerate(repo, lean_dir):
    """Returns (values, unavailable, changed_vs_expected, rewritten)."""
    found = extract(repo)
    values = dict(EXPECTED)
    unavailable = []
    for k in EXPECTED:
        if k in found and isinstance(found[k], int) and found[k] >= 0:
            values[k] = found[k]
        else:
            unavailable.append(k)
    text = render(values)
    path = os.path.join(lean_dir, "FastTicc", "Generated", "Constants.lean")
    old = None
    try:
        with open(path) as f:
            old = f.read()
    except OSError:
        pass
    rewritten = old != text
    if rewritten:
        with open(path, "w") as f:
            f.write(text)
    changed = {k: (EXPECTED[k], values[k]) for k in EXPECTED if values[k] != EXPECTED[k]}
    return values, unavailable, changed, rewritten


if __name__ == "__main__":
    import sys
    repo = sys.argv[1] if len(sys.argv) > 1 else os.environ.get("REPO", "/repo")
    here = os.path.dirname(os.path.abspath(__file__))
    print(regenerate(repo, os.path.join(here, "..", "lean")))

"""Regenerate lean/FastTicc/Generated/Constants.lean from the source under $REPO.

Walks the AST of the anchored files and extracts the literals the decision logic
uses.  A pattern that is not found falls back to the expected value and is
reported as 'unavailable' (an extraction miss alone never raises an alarm; the
differential tie remains).
"""
import ast
import os
from fractions import Fraction

EXPECTED = {
    "emptyBelow": 2, "donorFactor": 2, "donorFactorFind": 2, "retireFactor": 3,
    "repopAfterRound": 0, "bicThresholdNum": 1, "bicThresholdDen": 50000,
    "padSub": 1, "padDiv": 2, "admmRho": 1, "admmMaxIter": 1000,
    "admmTolNum": 1, "admmTolDen": 1000000,
    "convSlackNum": 1, "convSlackDen": 10000,
    # structure of the main loop's round (translated, not just a literal): the phase calls in source order,
    # 1 = repopulate_empty_clusters, 2 = update_all_cluster_statistics, 3 = optimize_markov_random_fields,
    # 4 = predict_cluster_labels; whether the repopulation call sits under the `current_iteration > k` guard;
    # whether the loop is `for … in range(<…>.iteration_limit)`
    "phaseOrder": [1, 2, 3, 4], "repopGuarded": 1, "loopOverLimit": 1,
    # structure of the ADMM sweep (solver.run_admm_optimization): the update calls in source order (1 = X, 2 = Z,
    # 3 = U), the iteration index after which the stopping rule is consulted (`if iteration > k`), and which
    # variable is returned (1 = x, 2 = z, 3 = u)
    "admmUpdateOrder": [1, 2, 3], "admmCheckAfter": 0, "admmReturns": 1,
}

DOC = {
    "emptyBelow": "`cluster.size < 2` (cluster_maintenance.repopulate_empty_clusters)",
    "donorFactor": "`size >= 2 * min_cluster_size` (_find_ranked_donor_cluster_ids)",
    "donorFactorFind": "`size >= 2 * min_cluster_size` (_find_point_donor)",
    "retireFactor": "`size < 3 * min_cluster_size` (_find_point_donor: donor retirement)",
    "repopAfterRound": "`if current_iteration > 0` (main loop: repopulate only after this round index)",
    "bicThresholdNum": "BIC threshold `2e-5` as an exact rational num/den",
    "bicThresholdDen": "",
    "padSub": "padding split `front = int((W - padSub) / padDiv)`",
    "padDiv": "",
    "admmRho": "ADMM defaults handed to the optimiser by _setup_optimization_task",
    "admmMaxIter": "",
    "admmTolNum": "relative/absolute tolerance 1e-6 as num/den",
    "admmTolDen": "",
    "convSlackNum": "`sqrt(n) * abs_tol + 0.0001`: additive slack as num/den",
    "convSlackDen": "",
    "phaseOrder": "the phase calls of one round of fit_stacked_data, in SOURCE ORDER (1 repopulate, 2 statistics, 3 optimise, 4 relabel)",
    "repopGuarded": "1 iff the repopulation call sits under the `current_iteration > repopAfterRound` guard",
    "loopOverLimit": "1 iff the round loop is `for current_iteration in range(<…>.iteration_limit)`",
    "admmUpdateOrder": "the update calls of one ADMM sweep in SOURCE ORDER (1 = admm_update_x, 2 = admm_update_z, 3 = admm_update_u)",
    "admmCheckAfter": "`if iteration > 0`: the stopping rule is consulted only after this sweep index",
    "admmReturns": "the variable run_admm_optimization returns (1 = x, 2 = z, 3 = u)",
}


def _func(tree, name):
    for node in ast.walk(tree):
        if isinstance(node, ast.FunctionDef) and node.name == name:
            return node
    return None


def _const_int(node):
    if isinstance(node, ast.Constant) and isinstance(node.value, int) and not isinstance(node.value, bool):
        return node.value
    return None


def _mult_factor(node, other_name_contains):
    """k * <expr mentioning other_name_contains>  (either order) -> k"""
    if isinstance(node, ast.BinOp) and isinstance(node.op, ast.Mult):
        for a, b in ((node.left, node.right), (node.right, node.left)):
            k = _const_int(a)
            if k is not None and other_name_contains in ast.dump(b):
                return k
    return None


def extract(repo):
    found = {}
    src = os.path.join(repo, "src", "fast_ticc")

    def parse(rel):
        try:
            with open(os.path.join(src, rel)) as f:
                return ast.parse(f.read())
        except (OSError, SyntaxError):
            return None

    cm = parse("cluster_maintenance.py")
    if cm is not None:
        f = _func(cm, "repopulate_empty_clusters")
        if f:
            for n in ast.walk(f):
                if (isinstance(n, ast.Compare) and len(n.ops) == 1
                        and isinstance(n.left, ast.Attribute) and n.left.attr == "size"):
                    k = _const_int(n.comparators[0])
                    if k is not None and isinstance(n.ops[0], ast.Lt):
                        found["emptyBelow"] = k
                    elif k is not None and isinstance(n.ops[0], ast.LtE):
                        found["emptyBelow"] = k + 1
        f = _func(cm, "_find_ranked_donor_cluster_ids")
        if f:
            for n in ast.walk(f):
                if isinstance(n, ast.Compare) and len(n.ops) == 1 and isinstance(n.ops[0], ast.GtE):
                    k = _mult_factor(n.comparators[0], "min_cluster_size")
                    if k is not None:
                        found["donorFactor"] = k
        f = _func(cm, "_find_point_donor")
        if f:
            for n in ast.walk(f):
                if isinstance(n, ast.Compare) and len(n.ops) == 1:
                    k = _mult_factor(n.comparators[0], "min_cluster_size")
                    if k is None:
                        continue
                    if isinstance(n.ops[0], ast.GtE):
                        found["donorFactorFind"] = k
                    elif isinstance(n.ops[0], ast.Lt):
                        found["retireFactor"] = k

    ml = parse("main_loop.py")
    if ml is not None:
        f = _func(ml, "fit_stacked_data")
        if f:
            for n in ast.walk(f):
                if (isinstance(n, ast.If) and isinstance(n.test, ast.Compare)
                        and isinstance(n.test.left, ast.Name)
                        and n.test.left.id == "current_iteration"
                        and len(n.test.ops) == 1):
                    k = _const_int(n.test.comparators[0])
                    if k is not None and isinstance(n.test.ops[0], ast.Gt):
                        found["repopAfterRound"] = k
                    elif k is not None and isinstance(n.test.ops[0], ast.GtE) and k >= 1:
                        found["repopAfterRound"] = k - 1

        if f:
            names = {"repopulate_empty_clusters": 1, "update_all_cluster_statistics": 2,
                     "optimize_markov_random_fields": 3, "predict_cluster_labels": 4}
            for loop in ast.walk(f):
                if not (isinstance(loop, ast.For) and isinstance(loop.target, ast.Name)
                        and loop.target.id == "current_iteration"):
                    continue
                order, guarded = [], 0

                def visit(stmts, under_if):
                    nonlocal guarded
                    for st in stmts:
                        if isinstance(st, ast.If):
                            is_guard = (isinstance(st.test, ast.Compare) and isinstance(st.test.left, ast.Name)
                                        and st.test.left.id == "current_iteration")
                            visit(st.body, under_if or is_guard)
                            visit(st.orelse, under_if)
                            continue
                        if isinstance(st, (ast.For, ast.While, ast.With, ast.Try)):
                            visit(getattr(st, "body", []), under_if)
                            continue
                        for n in ast.walk(st):
                            if isinstance(n, ast.Call) and isinstance(n.func, ast.Attribute) and n.func.attr in names:
                                order.append(names[n.func.attr])
                                if names[n.func.attr] == 1 and under_if:
                                    guarded = 1
                visit(loop.body, False)
                if sorted(order) == [1, 2, 3, 4]:
                    found["phaseOrder"] = order
                    found["repopGuarded"] = guarded
                it = loop.iter
                found["loopOverLimit"] = int(isinstance(it, ast.Call) and isinstance(it.func, ast.Name)
                                             and it.func.id == "range" and len(it.args) == 1
                                             and "iteration_limit" in ast.dump(it.args[0]))
                break

    met = parse("cluster_metrics.py")
    if met is not None:
        f = _func(met, "bayesian_information_criterion")
        if f:
            for n in ast.walk(f):
                if (isinstance(n, ast.Assign) and len(n.targets) == 1
                        and isinstance(n.targets[0], ast.Name) and n.targets[0].id == "threshold"
                        and isinstance(n.value, ast.Constant)
                        and isinstance(n.value.value, (int, float))):
                    fr = Fraction(repr(n.value.value))
                    found["bicThresholdNum"] = fr.numerator
                    found["bicThresholdDen"] = fr.denominator

    dp = parse("data_preparation.py")
    if dp is not None:
        f = _func(dp, "pad_missing_labels")
        if f:
            for n in ast.walk(f):
                if (isinstance(n, ast.Assign) and isinstance(n.targets[0], ast.Name)
                        and n.targets[0].id == "front_length"):
                    v = n.value
                    # int((window_size - a) / d)
                    if (isinstance(v, ast.Call) and isinstance(v.func, ast.Name) and v.func.id == "int"
                            and len(v.args) == 1 and isinstance(v.args[0], ast.BinOp)
                            and isinstance(v.args[0].op, (ast.Div, ast.FloorDiv))):
                        num, den = v.args[0].left, v.args[0].right
                        d = _const_int(den)
                        if (d is not None and isinstance(num, ast.BinOp) and isinstance(num.op, ast.Sub)
                                and isinstance(num.left, ast.Name) and num.left.id == "window_size"):
                            a = _const_int(num.right)
                            if a is not None:
                                found["padSub"] = a
                                found["padDiv"] = d

    gl = parse("graphical_lasso.py")
    if gl is not None:
        f = _func(gl, "_setup_optimization_task")
        if f:
            for n in ast.walk(f):
                if isinstance(n, ast.Dict):
                    for k, v in zip(n.keys, n.values):
                        if not (isinstance(k, ast.Constant) and isinstance(v, ast.Constant)):
                            continue
                        if k.value == "rho" and isinstance(v.value, int):
                            found["admmRho"] = v.value
                        if k.value == "max_iterations" and isinstance(v.value, int):
                            found["admmMaxIter"] = v.value
                        if k.value == "relative_tolerance" and isinstance(v.value, (int, float)):
                            fr = Fraction(repr(v.value))
                            found["admmTolNum"] = fr.numerator
                            found["admmTolDen"] = fr.denominator

    so = parse(os.path.join("admm", "solver.py"))
    if so is not None:
        f = _func(so, "run_admm_optimization")
        if f:
            names = {"admm_update_x": 1, "admm_update_z": 2, "admm_update_u": 3}
            for loop in ast.walk(f):
                if not isinstance(loop, ast.For):
                    continue
                order = []
                for st in loop.body:
                    if isinstance(st, ast.Assign) and isinstance(st.value, ast.Call):
                        fn = st.value.func
                        nm = fn.id if isinstance(fn, ast.Name) else fn.attr if isinstance(fn, ast.Attribute) else None
                        if nm in names:
                            order.append(names[nm])
                    if (isinstance(st, ast.If) and isinstance(st.test, ast.Compare) and isinstance(st.test.left, ast.Name)
                            and st.test.left.id == "iteration" and len(st.test.ops) == 1):
                        k = _const_int(st.test.comparators[0])
                        if k is not None and isinstance(st.test.ops[0], ast.Gt):
                            found["admmCheckAfter"] = k
                        elif k is not None and isinstance(st.test.ops[0], ast.GtE) and k >= 1:
                            found["admmCheckAfter"] = k - 1
                if sorted(order) == [1, 2, 3]:
                    found["admmUpdateOrder"] = order
                break
            for st in f.body:
                if isinstance(st, ast.Return) and isinstance(st.value, ast.Name) and st.value.id in ("x", "z", "u"):
                    found["admmReturns"] = {"x": 1, "z": 2, "u": 3}[st.value.id]
        f = _func(so, "check_convergence")
        if f:
            for n in ast.walk(f):
                if (isinstance(n, ast.Assign) and isinstance(n.targets[0], ast.Name)
                        and n.targets[0].id == "absolute_term" and isinstance(n.value, ast.BinOp)
                        and isinstance(n.value.op, ast.Add) and isinstance(n.value.right, ast.Constant)
                        and isinstance(n.value.right.value, (int, float))):
                    fr = Fraction(repr(n.value.right.value))
                    found["convSlackNum"] = fr.numerator
                    found["convSlackDen"] = fr.denominator
    return found


def render(values):
    lines = [
        "/-",
        "GENERATED by harness/extract_constants.py from the source under $REPO on every run.",
        "Decision constants the model is stated over.  Do not edit by hand.",
        "-/",
        "namespace FastTicc.Constants",
        "",
    ]
    for name in EXPECTED:
        if DOC.get(name):
            lines.append(f"/-- {DOC[name]} -/")
        if isinstance(values[name], list):
            lines.append(f"def {name} : List Nat := [" + ", ".join(str(x) for x in values[name]) + "]")
        else:
            lines.append(f"def {name} : Nat := {values[name]}")
    lines += ["", "end FastTicc.Constants", ""]
    return "\n".join(lines)


def regenerate(repo, lean_dir):
    """Returns (values, unavailable, changed_vs_expected, rewritten)."""
    found = extract(repo)
    values = dict(EXPECTED)
    unavailable = []
    for k in EXPECTED:
        if k in found and isinstance(found[k], int) and not isinstance(EXPECTED[k], list) and found[k] >= 0:
            values[k] = found[k]
        elif k in found and isinstance(EXPECTED[k], list) and isinstance(found[k], list) \
                and all(isinstance(x, int) and x >= 0 for x in found[k]):
            values[k] = list(found[k])
        else:
            unavailable.append(k)
    text = render(values)
    path = os.path.join(lean_dir, "FastTicc", "Generated", "Constants.lean")
    old = None
    try:
        with open(path) as f:
            old = f.read()
    except OSError:
        pass
    rewritten = old != text
    if rewritten:
        with open(path, "w") as f:
            f.write(text)
    changed = {k: (EXPECTED[k], values[k]) for k in EXPECTED if values[k] != EXPECTED[k]}
    return values, unavailable, changed, rewritten


if __name__ == "__main__":
    import sys
    repo = sys.argv[1] if len(sys.argv) > 1 else os.environ.get("REPO", "/repo")
    here = os.path.dirname(os.path.abspath(__file__))
    print(regenerate(repo, os.path.join(here, "..", "lean")))

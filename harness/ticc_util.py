"""Helpers for driving the real fast_ticc code: synthetic data, in-process pool,
phase tracing by wrapping module attributes (no source hooks), RNG control."""
import contextlib
import io
import logging
import random as pyrandom

import numpy as np


# --------------------------------------------------------------------------- data
def make_series(rng, T, N, regimes=3, scale=1.0, seg=(15, 40), offset=None, mean_scale=1.0):
    """regime-switching Gaussian series, T x N; each regime has its own mean and mixing matrix (mean_scale = 0: the
    regimes share one mean and differ in correlation structure only)."""
    rs = np.random.RandomState(rng.randrange(2 ** 31))
    mixes = [rs.randn(N, N) * 0.6 + np.eye(N) for _ in range(regimes)]
    means = [rs.randn(N) * 3.0 * mean_scale for _ in range(regimes)]
    out = np.zeros((T, N))
    t = 0
    r = rs.randint(regimes)
    while t < T:
        L = rs.randint(seg[0], seg[1] + 1)
        block = rs.randn(min(L, T - t), N) @ mixes[r].T + means[r]
        out[t:t + block.shape[0]] = block
        t += block.shape[0]
        r = (r + 1 + rs.randint(max(1, regimes - 1))) % regimes
    out *= scale
    if offset is not None:
        out += offset
    return out


# --------------------------------------------------------------------------- pool
# completion schedule of the in-process pool: None = every task completes when it is asked for (submission order);
# "reverse" / "rotate" / an int seed = the tasks of a batch complete in that permuted order, and a task that was not
# asked for yet may already be `ready()` — what a real multi-worker pool does.  Set through `completion_order(...)`.
COMPLETION = {"mode": None}


class _Done:
    """the AsyncResult of the in-process pool: get / wait / ready / successful."""

    def __init__(self, fn, args, kwargs, pool=None):
        self._fn, self._args, self._kwargs = fn, args, kwargs or {}
        self._has, self._val, self._exc = False, None, None
        self._pool = pool

    def _run(self):
        if not self._has:
            try:
                self._val = self._fn(*self._args, **self._kwargs)
            except BaseException as e:      # re-raised on get(), like AsyncResult
                self._exc = e
            self._has = True

    def _complete(self):
        if self._pool is not None:
            self._pool._advance_until(self)
        else:
            self._run()

    def wait(self, timeout=None):
        self._complete()

    def ready(self):
        return self._has

    def successful(self):
        if not self._has:
            raise ValueError("not ready")
        return self._exc is None

    def get(self, timeout=None):
        self._complete()
        if self._exc is not None:
            raise self._exc
        return self._val


class InlinePool:
    """in-process stand-in for multiprocessing.Pool (apply_async / close / join / terminate) with a scriptable
    completion order (see COMPLETION)."""

    def __init__(self):
        self.closed = self.joined = self.terminated = False
        self._pending = []          # submitted, not yet completed, in submission order
        self._order = None          # completion order of the current batch
        self.completions = []       # submission indices within their batch, in completion order (for the evidence)

    def apply_async(self, fn, args=(), kwds=None):
        t = _Done(fn, args, kwds, self)
        if self._order is not None:        # a new batch starts: finish what is left of the old one first
            for x in self._order:
                x._run()
            self._order, self._pending = None, []
        self._pending.append(t)
        return t

    def _advance_until(self, task):
        if task._has:
            return
        if self._order is None:
            batch = list(self._pending)
            mode = COMPLETION["mode"]
            if mode == "reverse":
                order = batch[::-1]
            elif mode == "rotate":
                order = batch[-1:] + batch[:-1]
            elif isinstance(mode, int):
                order = list(batch)
                pyrandom.Random(mode + len(self.completions)).shuffle(order)
            else:
                order = batch
            self._order = order
            self._batch = batch
        for x in self._order:
            if not x._has:
                x._run()
                self.completions.append(self._batch.index(x))
            if x is task:
                break

    def close(self):
        self.closed = True

    def join(self):
        self.joined = True

    def terminate(self):
        self.terminated = True


@contextlib.contextmanager
def completion_order(mode):
    old = COMPLETION["mode"]
    COMPLETION["mode"] = mode
    try:
        yield
    finally:
        COMPLETION["mode"] = old


@contextlib.contextmanager
def patched(obj, name, new):
    old = getattr(obj, name)
    setattr(obj, name, new)
    try:
        yield old
    finally:
        setattr(obj, name, old)


@contextlib.contextmanager
def inline_pool():
    """run the optimisation tasks in-process: `multiprocessing.Pool(...)` yields an InlinePool while active
    (independent of how the library names its pool helper)."""
    import multiprocessing
    pools = []

    def make(*a, **k):
        p = InlinePool()
        pools.append(p)
        return p
    with patched(multiprocessing, "Pool", make):
        yield pools


@contextlib.contextmanager
def record_label_assignments():
    """records every `state.point_labels = ...` (the public label setter) as (id(state), labels) — independent
    of how the library names its private helpers."""
    from fast_ticc.containers import model_state as _ms
    prop = _ms.ModelState.__dict__["point_labels"]
    log = []

    def fset(self, new_labels):
        log.append((id(self), None if new_labels is None else [int(x) for x in new_labels]))
        prop.fset(self, new_labels)
    _ms.ModelState.point_labels = property(prop.fget, fset, prop.fdel, prop.__doc__)
    try:
        yield log
    finally:
        _ms.ModelState.point_labels = prop


def moves_from_assignments(start_labels, assigned):
    """[(donor, recipient, positions-in-donor-member-list, new labelling)] from successive labellings."""
    out = []
    prev = list(start_labels)
    for lab in assigned:
        changed = [i for i, (a, b) in enumerate(zip(prev, lab)) if a != b]
        if changed:
            donor, recipient = prev[changed[0]], lab[changed[0]]
            members = [i for i, x in enumerate(prev) if x == donor]
            out.append((donor, recipient, [members.index(i) for i in changed if prev[i] == donor], list(lab), len(members)))
        prev = list(lab)
    return out


@contextlib.contextmanager
def quiet():
    with contextlib.redirect_stdout(io.StringIO()):
        yield


class _SinkHandler(logging.Handler):
    """formats every record (so that the argument expressions and %-formatting of each logging call really run) and
    throws the text away"""
    def __init__(self):
        super().__init__(level=logging.DEBUG)
        self.records = 0

    def emit(self, record):
        record.getMessage()
        self.records += 1


@contextlib.contextmanager
def debug_logging():
    """the process-wide condition "somebody is listening at DEBUG level": the `fast_ticc` logger tree at DEBUG with a
    handler that formats every record.  A property of the library holds whatever the logging configuration is, so
    every diagnostic code path guarded by isEnabledFor / a verbose flag derived from it is inside the checked domain."""
    lg = logging.getLogger("fast_ticc")
    old_level, old_prop = lg.level, lg.propagate
    h = _SinkHandler()
    lg.addHandler(h)
    lg.setLevel(logging.DEBUG)
    lg.propagate = False
    try:
        yield h
    finally:
        lg.removeHandler(h)
        lg.setLevel(old_level)
        lg.propagate = old_prop


def ambient(cfg):
    """context for the ambient (non-argument) conditions a configuration asks for"""
    stack = contextlib.ExitStack()
    if cfg.get("logging") == "DEBUG":
        stack.enter_context(debug_logging())
    if cfg.get("mp"):
        stack.enter_context(multiprocessing_enabled())
    return stack


@contextlib.contextmanager
def multiprocessing_enabled():
    """the library's documented switch for a real worker pool (CUPCAKE_ENABLE_MULTIPROCESSING non-empty)"""
    import os
    old = os.environ.get("CUPCAKE_ENABLE_MULTIPROCESSING")
    os.environ["CUPCAKE_ENABLE_MULTIPROCESSING"] = "1"
    try:
        yield
    finally:
        if old is None:
            os.environ.pop("CUPCAKE_ENABLE_MULTIPROCESSING", None)
        else:
            os.environ["CUPCAKE_ENABLE_MULTIPROCESSING"] = old


def seed_all(seed):
    np.random.seed(seed % (2 ** 32))
    pyrandom.seed(seed)


# --------------------------------------------------------------------------- tracing
def snapshot_state(model):
    """deep, comparable snapshot of a ModelState (content only)."""
    def arr(a):
        return None if a is None else np.array(a, copy=True)
    return {
        "labels": None if model.point_labels is None else [int(x) for x in model.point_labels],
        "cost": model.label_assignment_cost,
        "clusters": [{
            "members": [int(i) for i in c.member_points],
            "mean": arr(c.stacked_data_mean), "emp": arr(c.empirical_covariance),
            "train": arr(c.train_inverse), "comp": arr(c.computed_covariance),
            "inv": arr(c.inverse_covariance), "logdet": c.log_determinant,
        } for c in model.clusters],
    }


def real_model(thetas, mus, window_size, num_points, eps=0, labels=None, covs=None):
    """a REAL ModelState (real argument bundle, real cluster containers) carrying the given MRFs and means — the
    checks never hand the library a stand-in object: a harmless refactoring that reads another public attribute of
    the containers must keep working, and a defect must not be 'caught' by an AttributeError."""
    from fast_ticc.containers import arguments, model_state
    K = len(thetas)
    n = int(np.atleast_2d(thetas[0]).shape[0])
    ua = arguments.UserArguments(sparsity_weight=0.11, iteration_limit=5, label_switching_cost=1.0, min_cluster_size=2,
                                 min_meaningful_covariance=eps, num_clusters=K, num_processors=1,
                                 window_size=window_size, biased_covariance=False)
    st = model_state.ModelState.empty_model(ua, np.zeros((num_points, n)))
    if labels is not None:
        st.point_labels = list(labels)
    for k, cl in enumerate(st.clusters):
        t = np.atleast_2d(np.asarray(thetas[k], dtype=float))
        cl.train_inverse = t
        cl.stacked_data_mean = np.asarray(mus[k], dtype=float)
        if covs is not None:
            cl.empirical_covariance = np.atleast_2d(np.asarray(covs[k], dtype=float))
    return st


def snapshots_equal(a, b, fields=("members", "mean", "emp", "train", "comp", "logdet")):
    if a["labels"] != b["labels"] or len(a["clusters"]) != len(b["clusters"]):
        return False
    for ca, cb in zip(a["clusters"], b["clusters"]):
        for f in fields:
            x, y = ca[f], cb[f]
            if isinstance(x, np.ndarray) or isinstance(y, np.ndarray):
                if x is None or y is None:
                    return False
                if x.dtype == object or y.dtype == object:
                    if repr(x.tolist()) != repr(y.tolist()):
                        return False
                elif x.shape != y.shape or not np.array_equal(x, y, equal_nan=True):
                    return False
            elif x != y and not (x is None and y is None):
                if isinstance(x, float) and isinstance(y, float) and np.isnan(x) and np.isnan(y):
                    continue
                return False
    return True


class RunawayLoop(BaseException):
    """raised by the tracing wrapper when the main loop starts far more rounds than its iteration limit allows
    (a BaseException, so that no `except Exception` inside the implementation can swallow it)."""


# per-call watchdog of `execute`: set by harness/main.py.  A complete small run takes seconds; one that does not
# return within `seconds` is reported by `on_hang(cfg)` (which ends the process).
HANG = {"seconds": 300, "on_hang": None}


class Trace:
    """Wraps the four phase functions the main loop reaches through module attributes, the
    labelling kernel and the ADMM entry point.  Records, per phase call: name, input state
    object, output state object, snapshots before/after of the input."""

    def __init__(self, record_states=True, capture_kernel=True, wrap_admm=True, max_rounds=None):
        self.wrap_admm = wrap_admm
        self.max_rounds = max_rounds
        self.stats_calls = 0
        self.events = []            # dicts
        self.kernel_calls = []      # (cost_table copy, beta as passed, labels, cost)
        self.admm_calls = []        # dicts of the arguments reaching admm_optimize_theta
        self.record_states = record_states
        self.capture_kernel = capture_kernel
        self._stack = contextlib.ExitStack()

    def __enter__(self):
        from fast_ticc import cluster_maintenance, graphical_lasso, cluster_label_assignment, admm
        tr = self

        def wrap_phase(mod, name, label):
            orig = getattr(mod, name)

            def wrapped(model, *a, **k):
                if label == "stats":
                    tr.stats_calls += 1
                    if tr.max_rounds is not None and tr.stats_calls > tr.max_rounds:
                        raise RunawayLoop(f"the main loop started round {tr.stats_calls} (limit {tr.max_rounds - 3})")
                before = snapshot_state(model) if tr.record_states else None
                try:
                    out = orig(model, *a, **k)
                except BaseException as e:
                    tr.events.append({"phase": label, "in": model, "out": None, "error": e,
                                      "in_before": before, "in_after": snapshot_state(model) if tr.record_states else None})
                    raise
                tr.events.append({"phase": label, "in": model, "out": out, "error": None,
                                  "in_before": before,
                                  "in_after": snapshot_state(model) if tr.record_states else None,
                                  "out_snap": snapshot_state(out) if tr.record_states else None})
                return out
            tr._stack.enter_context(patched(mod, name, wrapped))

        wrap_phase(cluster_maintenance, "repopulate_empty_clusters", "repop")
        wrap_phase(cluster_maintenance, "update_all_cluster_statistics", "stats")
        wrap_phase(graphical_lasso, "optimize_markov_random_fields", "opt")
        wrap_phase(cluster_label_assignment, "predict_cluster_labels", "relabel")

        if self.capture_kernel:
            orig_k = cluster_label_assignment.assign_point_cluster_labels

            def kernel(label_assignment_cost=None, label_switching_cost=None, *a, **k):
                table = np.array(label_assignment_cost, copy=True)
                beta = label_switching_cost
                if isinstance(beta, np.ndarray) and beta.ndim == 0:
                    beta_copy = beta.item()          # a zero-dimensional array is a scalar
                else:
                    beta_copy = np.array(beta, copy=True) if isinstance(beta, np.ndarray) else beta
                out = orig_k(label_assignment_cost=label_assignment_cost,
                             label_switching_cost=label_switching_cost, *a, **k)
                tr.kernel_calls.append({"table": table, "beta": beta_copy,
                                        "labels": [int(x) for x in out[0]], "cost": float(out[1])})
                return out
            tr._stack.enter_context(patched(cluster_label_assignment, "assign_point_cluster_labels", kernel))

        orig_admm = admm.admm_optimize_theta

        def admm_wrapped(*a, **k):
            rec = {"args": a, "kwargs": dict(k), "cov_copy": np.array(a[0], copy=True) if a else None, "result": None}
            tr.admm_calls.append(rec)
            out = orig_admm(*a, **k)
            th = getattr(out, "theta", None)
            if th is not None:
                rec["result"] = np.array(th, dtype=float, copy=True)     # the raw (compressed) solver output
            return out
        # the in-process pool calls the function object it is handed; graphical_lasso looks it
        # up as `admm.admm_optimize_theta` at submit time
        admm_wrapped.__module__ = "fast_ticc.admm"
        admm_wrapped.__qualname__ = admm_wrapped.__name__ = "admm_optimize_theta"
        if self.wrap_admm:
            tr._stack.enter_context(patched(admm, "admm_optimize_theta", admm_wrapped))
        return self

    def __exit__(self, *exc):
        self._stack.close()
        return False

    def rounds(self):
        """group events into rounds: a round ends with 'relabel'."""
        out, cur = [], []
        for e in self.events:
            cur.append(e)
            if e["phase"] == "relabel":
                out.append(cur)
                cur = []
        if cur:
            out.append(cur)
        return out


def run_single(data, **kw):
    """ticc_labels with the in-process pool, stdout silenced."""
    import fast_ticc
    with inline_pool(), quiet():
        return fast_ticc.ticc_labels(data, **kw)


def run_joint(series, **kw):
    import fast_ticc
    with inline_pool(), quiet():
        return fast_ticc.ticc_joint_labels(series, **kw)


def result_fields(res):
    """canonical content of a result object (for bitwise comparison)."""
    out = {}
    for k, v in vars(res).items():
        if k == "markov_random_fields":
            out[k] = [np.asarray(m).tobytes() for m in v]
        elif k == "point_labels":
            if len(v) and isinstance(v[0], (list, tuple)):
                out[k] = [[int(x) for x in l] for l in v]
            else:
                out[k] = [int(x) for x in v]
        elif isinstance(v, np.ndarray):
            out[k] = v.tobytes()
        elif isinstance(v, (list, tuple)):
            out[k] = [float(x) for x in v]
        elif isinstance(v, (float, np.floating)):
            out[k] = np.float64(v).tobytes()
        else:
            out[k] = v
    return out


# --------------------------------------------------------------------------- run configs
def gen_config(rng, joint=None, small=True):
    """a JSON-able description of one complete small TICC run."""
    if joint is None:
        joint = rng.random() < 0.5
    N = rng.choice([1, 2, 2, 3])
    W = rng.choice([1, 2, 3, 3, 4, 5, 6, 7]) if N < 3 else rng.choice([1, 2, 3, 4])
    K = rng.choice([2, 2, 3, 3, 4])
    if joint:
        ns = rng.choice([1, 2, 2, 3, 4, 6])
        lens = [W + rng.choice([0, 1, 5, rng.randint(20, 70), rng.randint(30, 90)]) for _ in range(ns)]
        if sum(l - W + 1 for l in lens) < 12 * K:
            lens[rng.randrange(ns)] += 16 * K
    else:
        lens = [W - 1 + rng.randint(14 * K, 40 * K)]
    cfg = {
        "joint": joint, "N": N, "W": W, "K": K, "lens": lens,
        "beta": rng.choice([0, 1, 5.0, 25.0, 200]), "lam": rng.choice([0.11, 0.05, 0.5, 0.0, 1.0]),
        "m": rng.choice([2, 3, 5]), "limit": rng.choice([1, 2, 3, 6, 15]),
        "biased": rng.random() < 0.4, "eps": 0,
        "seed": rng.randrange(2 ** 31), "data_seed": rng.randrange(2 ** 31),
        "scale": 1.0, "regimes": rng.choice([2, 3, 4]),
    }
    # rare dimensions every end-to-end check gets a share of (drawn from a generator of their own so that the main
    # stream of choices — and with it every earlier corpus / replay — is unchanged)
    r2 = pyrandom.Random(cfg["seed"] ^ 0x5EED)
    if r2.random() < 0.10:
        cfg["dtype"] = r2.choice(["float32", "int64", "int32"])       # caller-side dtype other than float64
    if r2.random() < 0.10 and K >= 3:
        cfg["completion"] = r2.choice(["reverse", "rotate", r2.randrange(1000)])   # solver tasks finish out of order
    if r2.random() < 0.08:
        cfg["eps"] = r2.choice([0.03, 0.08, 0.2])                      # a covariance floor that zeroes entries
        cfg["lam"] = r2.choice([0.0, 0.01, 0.05])
    r3 = pyrandom.Random(cfg["seed"] ^ 0xF1A7)
    if r3.random() < 0.07:
        cfg["flat"] = [r3.choice([0.0, 0.3, 0.5, 1.0]), r3.choice([12, 20, 30]), r3.choice([6.0, -5.0, 9.0])]   # a stuck stretch
    r4 = pyrandom.Random(cfg["seed"] ^ 0xD1A6)
    if r4.random() < 0.15:
        cfg["logging"] = "DEBUG"                                       # somebody listens to the library's diagnostics
    if r4.random() < 0.12:
        cfg["beta_form"] = r4.choice(["0d", "0d", "f32", "f64", "i64"])  # the scalar switching cost as a NumPy object
    return cfg


def flat_config(rng, joint=False):
    """a configuration whose data contain a flat-lined stretch long enough to become a cluster of identical windows"""
    cfg = gen_config(rng, joint=joint)
    cfg.update({"K": 3 if rng.random() < 0.8 else 2, "W": rng.choice([1, 2, 2, 3]), "N": 2, "m": rng.choice([3, 5, 10]),
                "limit": max(3, cfg["limit"]), "beta": 5.0, "eps": 0, "lam": 0.11,
                "flat": [rng.choice([0.3, 0.5]), 30, rng.choice([6.0, -6.0])]})
    if not joint:
        cfg["lens"] = [cfg["W"] - 1 + rng.randint(120, 170)]
    for k in ("dtype", "completion"):
        cfg.pop(k, None)
    return cfg


def degenerate_configs(rng, count):
    """complete runs whose cluster covariances are exactly singular or rank deficient - two sensors reporting the same
    signal - with a light penalty, so that a cluster's solve typically exhausts its iteration budget instead of
    stopping by the rule (the return path after the last sweep), half of them with DEBUG logging on."""
    out = []
    for i in range(count):
        cfg = gen_config(rng, joint=False)
        cfg.update({"N": rng.choice([2, 2, 3]), "W": rng.choice([1, 2, 2]), "K": 2, "regimes": 2, "limit": rng.choice([2, 4]),
                    "lam": rng.choice([0.01, 0.0, 0.005]), "beta": 5.0, "eps": 0, "m": 10, "duplicate_sensor": True,
                    "scale": 1.0})
        cfg["lens"] = [cfg["W"] - 1 + rng.randint(140, 170)]
        for k in ("dtype", "completion", "flat", "logging"):
            cfg.pop(k, None)
        if i % 2 == 0:
            cfg["logging"] = "DEBUG"
        out.append(cfg)
    return out


def twin_regime_configs(rng, count):
    """complete runs on data made of two regimes that are exact copies up to a constant shift, fitted with one cluster
    more than there are regimes: the surplus cluster is under-populated and the two donors TIE exactly."""
    out = []
    for i in range(count):
        cfg = gen_config(rng, joint=False)
        for k in ("dtype", "completion", "flat", "beta_form"):
            cfg.pop(k, None)
        kind = ["pattern", "flat"][i % 2]
        cfg.update({"N": 2, "W": 2, "K": 3, "regimes": 2, "beta": 5.0, "lam": 0.11, "eps": 0, "biased": False,
                    "m": 8 if kind == "pattern" else 10, "limit": 10 if kind == "pattern" else 8,
                    "lens": [2 * rng.choice([61, 65, 70])], "twin_regimes": kind})
        out.append(cfg)
    return out


def threshold_configs(rng, count):
    """complete runs with a POSITIVE covariance floor (min_meaningful_covariance) on data whose variances lie on both
    sides of it: a flat-lined stretch (variance 0), a sensor stuck at one reading, small-amplitude data (variances
    around 1e-6 under a floor of 1e-4), ordinary data under a large floor."""
    out = []
    for i in range(count):
        kind = ["flat", "constant-sensor", "tiny", "large-floor"][i % 4]
        cfg = flat_config(rng) if kind == "flat" else gen_config(rng, joint=False)
        for k in ("dtype", "completion"):
            cfg.pop(k, None)
        cfg.update({"N": 2, "K": 2 if kind != "flat" else cfg["K"], "limit": max(2, min(cfg["limit"], 3)), "lam": 0.11})
        cfg["lens"] = [cfg["W"] - 1 + rng.randint(120, 170)]
        if kind == "flat":
            cfg["eps"] = rng.choice([0.05, 1e-4])
        elif kind == "constant-sensor":
            cfg.update({"constant_sensor": True, "eps": rng.choice([1e-3, 0.05]), "W": rng.choice([1, 2])})
        elif kind == "tiny":
            cfg.update({"scale": 1e-3, "eps": 1e-4, "W": rng.choice([1, 2])})
        else:
            cfg["eps"] = rng.choice([0.2, 0.5])
        cfg["threshold_kind"] = kind
        out.append(cfg)
    return out


def concentrated_configs(rng, count):
    """complete runs on small-amplitude data (normalised sensors: within-regime std 0.05 .. 0.2) with a light penalty and
    regimes that differ in correlation structure more than in level: densities above 1, so that minus the log-likelihood
    of a window is NEGATIVE under several clusters at once (the sign of a cost carries no meaning)."""
    out = []
    for i in range(count):
        cfg = gen_config(rng, joint=False)
        cfg.update({"N": 2, "W": rng.choice([1, 2, 2]), "K": 2, "regimes": 2, "limit": rng.choice([3, 6]),
                    "scale": rng.choice([0.05, 0.1, 0.2]), "mean_scale": rng.choice([0.0, 0.15, 0.3]),
                    "lam": rng.choice([0.01, 0.0, 0.02]), "beta": rng.choice([1, 5.0]), "eps": 0, "m": 5})
        cfg["lens"] = [cfg["W"] - 1 + rng.randint(150, 200)]
        for k in ("dtype", "completion", "flat"):
            cfg.pop(k, None)
        out.append(cfg)
    return out


def high_dimensional_configs(rng, scales):
    """complete runs with many dimensions (3 sensors x window 20: NW = 60) at extreme data scales: the determinant of an
    MRF, its square root and every partial product of pivots leave the double range (log det around -1700 at scale 1e6)."""
    out = []
    for sc in scales:
        cfg = gen_config(rng, joint=False)
        cfg.update({"N": 3, "W": 20, "K": 2, "regimes": 2, "lens": [19 + 300], "limit": 2, "scale": sc, "lam": 0.11,
                    "beta": 5.0, "eps": 0, "m": 5, "high_dimensional": True})
        for k in ("dtype", "completion"):
            cfg.pop(k, None)
        out.append(cfg)
    return out


def find_repopulating_config(rng, tries=40, joint=False):
    """a configuration whose run really repopulates a cluster (a repopulation phase that returns a new state): found
    by running candidates traced, so that a check that needs the repopulation path does not depend on the draw."""
    for _ in range(tries):
        cfg = gen_config(rng, joint=joint)
        cfg.update({"K": 4, "regimes": 2, "m": 2, "limit": max(3, cfg["limit"]), "beta": 1})
        res, tr, err, _series = execute(cfg, record_states=False, capture_kernel=False)
        if err is None and tr is not None and any(e["phase"] == "repop" and e["out"] is not e["in"] for e in tr.events):
            return cfg
    return None


def config_data(cfg):
    r = pyrandom.Random(cfg["data_seed"])
    series = [make_series(r, L, cfg["N"], regimes=cfg.get("regimes", 3), scale=cfg.get("scale", 1.0),
                          seg=(8, 30), mean_scale=cfg.get("mean_scale", 1.0)) for L in cfg["lens"]]
    if cfg.get("twin_regimes"):
        # two regimes that are EXACT copies of one another up to a constant shift (an integer-valued pattern repeated at an
        # integer offset - counters, status words - or two perfectly flat levels): their covariances, and every
        # quantity ranked or compared by them, tie bit for bit
        rs_t = np.random.RandomState(cfg["data_seed"] % 2 ** 31)
        new = []
        for s_ in series:
            half = s_.shape[0] // 2
            if cfg["twin_regimes"] == "pattern":
                P = rs_t.randint(0, 3, size=(half, cfg["N"])).astype(float)
            else:
                P = np.tile(rs_t.randint(1, 4, size=(1, cfg["N"])).astype(float), (half, 1))
            off = rs_t.randint(5, 12, size=(1, cfg["N"])).astype(float) * (1 + np.arange(cfg["N"]))
            new.append(np.vstack([P, P + off] + ([P[:s_.shape[0] - 2 * half]] if s_.shape[0] > 2 * half else [])))
        series = new
    if cfg.get("flat"):
        # a flat-lined stretch: every sensor stuck at one reading for a run of rows (exactly repeated rows, hence
        # exactly repeated windows: a cluster of identical windows has a zero covariance)
        frac, length, level = cfg["flat"]
        for s_ in series:
            a = int(frac * max(0, s_.shape[0] - length))
            if s_.shape[0] >= length + 2 * cfg["W"]:
                s_[a:a + length, :] = level * cfg.get("scale", 1.0)
    if cfg.get("sensor_scales"):
        # sensors on very different scales (unnormalised units): column j multiplied by sensor_scales[j]
        sc_ = np.asarray(cfg["sensor_scales"], dtype=float)[:cfg["N"]]
        series = [s_ * sc_ for s_ in series]
    if cfg.get("constant_sensor") and cfg["N"] >= 2:
        for s_ in series:
            s_[:, -1] = 2.5 * cfg.get("scale", 1.0)      # a sensor stuck at one reading for the whole record
    if cfg.get("duplicate_sensor") and cfg["N"] >= 2:
        for s_ in series:
            s_[:, -1] = s_[:, 0]
    if cfg.get("data_factor"):
        series = [s_ * cfg["data_factor"] for s_ in series]
    shift = cfg.get("shift")
    if shift is not None:
        series = [s + np.asarray(shift, dtype=float) for s in series]
    if cfg.get("parent_views") and len(series) >= 2:
        # the series are row-slice VIEWS of one recording, listed in another order than they sit in it (segments cut from a
        # long record and re-ordered / a held-out segment first): same values as private copies
        order = list(range(1, len(series))) + [0]
        parent = np.ascontiguousarray(np.vstack([series[i] for i in order]))
        offs, pos = {}, 0
        for i in order:
            offs[i] = pos
            pos += series[i].shape[0]
        series = [parent[offs[i]:offs[i] + series[i].shape[0]] for i in range(len(series))]
    dt = cfg.get("dtype")
    if dt is not None:
        # caller-side dtypes other than float64: integer counts / ADC readings (values scaled to a useful integer
        # range first) or single precision
        if np.issubdtype(np.dtype(dt), np.integer):
            series = [np.round(s * 16.0).astype(dt) for s in series]
        else:
            series = [s.astype(dt) for s in series]
    return series


def scalar_form(value, form):
    """the same number handed over as another kind of scalar object (a zero-dimensional array is what np.asarray,
    a reduction with keepdims=False or an indexing with an empty tuple hand a caller)"""
    if form is None or isinstance(value, np.ndarray) or float(value) != float(np.float32(value)):
        return value
    if form == "0d":
        return np.array(float(value))
    if form == "f32":
        return np.float32(value)
    if form == "f64":
        return np.float64(value)
    if form == "i64":
        return np.int64(int(value)) if float(value) == int(value) else np.float64(value)
    return value


def config_kwargs(cfg):
    if cfg.get("beta_form"):
        cfg = dict(cfg, beta=scalar_form(cfg["beta"], cfg["beta_form"]))
    if cfg.get("beta_zero_vector") is not None and not cfg["joint"] and not isinstance(cfg["beta"], np.ndarray):
        # the switching cost as a per-pair vector: the constant with exact zeros at a few positions ("free" switches, the
        # documented way to mark boundaries inside one stacked series)
        npts = cfg["lens"][0] - cfg["W"] + 1
        rs_ = np.random.RandomState(cfg["beta_zero_vector"] % 2 ** 31)
        vec = np.full(npts, float(cfg["beta"]))
        vec[rs_.rand(npts) < 0.08] = 0.0
        cfg = dict(cfg, beta=vec)
    return dict(window_size=cfg["W"], num_clusters=cfg["K"], sparsity_weight=cfg["lam"],
                label_switching_cost=cfg["beta"], iteration_limit=cfg["limit"],
                min_meaningful_covariance=cfg.get("eps", 0), min_cluster_size=cfg["m"],
                biased_covariance=cfg["biased"], num_processors=cfg.get("nproc", 1))


def forced_labelling(cfg, npts):
    """a labelling of the stacked points in which cluster K-1 ends with 0 / 1 / 2 points."""
    K = cfg["K"]
    kind = cfg["force_final"]
    r = pyrandom.Random(cfg["seed"] + 77)
    lab = [min(K - 2, (i * (K - 1)) // max(1, npts)) if K > 1 else 0 for i in range(npts)]
    n_last = {"empty": 0, "singleton": 1, "pair": 2}[kind]
    for pos in r.sample(range(npts), min(n_last, npts)):
        lab[pos] = K - 1
    return lab


def execute(cfg, trace=True, **trace_kw):
    """returns (result or None, Trace or None, exception or None, data series).
    cfg['force_final'] in {'empty','singleton','pair'}: the relabel phase's output labelling is replaced
    (use with limit=1) so that the result is assembled for a final labelling with a tiny cluster."""
    import warnings
    series = config_data(cfg)
    seed_all(cfg["seed"])
    if trace and "max_rounds" not in trace_kw and cfg.get("limit"):
        trace_kw = dict(trace_kw, max_rounds=int(cfg["limit"]) + 3)
    tr = Trace(**trace_kw) if trace else None
    res, err = None, None
    stack = contextlib.ExitStack()
    if cfg.get("force_final"):
        from fast_ticc import cluster_label_assignment as _cla
        npts = sum(s.shape[0] - cfg["W"] + 1 for s in series)
        forced = forced_labelling(cfg, npts)
        _orig = _cla.predict_cluster_labels

        def _forced(model, data):
            out = _orig(model, data)
            out.point_labels = list(forced)
            return out
        stack.enter_context(patched(_cla, "predict_cluster_labels", _forced))
    timer = None
    if HANG.get("on_hang") is not None:
        import threading
        timer = threading.Timer(HANG["seconds"], HANG["on_hang"], args=(dict(cfg),))
        timer.daemon = True
        timer.start()
    if cfg.get("completion") is not None:
        stack.enter_context(completion_order(cfg["completion"]))
    stack.enter_context(ambient(cfg))
    with stack, warnings.catch_warnings():
        warnings.simplefilter("ignore")
        try:
            if tr is not None:
                with tr:
                    res = run_joint(series, **config_kwargs(cfg)) if cfg["joint"] else \
                        run_single(series[0], **config_kwargs(cfg))
            else:
                res = run_joint(series, **config_kwargs(cfg)) if cfg["joint"] else \
                    run_single(series[0], **config_kwargs(cfg))
        except Exception as e:       # a run that does not complete is outside the conditional clauses
            err = e
        except RunawayLoop as e:
            err = e
        finally:
            if timer is not None:
                timer.cancel()
    return res, tr, err, series


# --------------------------------------------------------------------------- fresh-process reference
_FRESH = r"""
import sys, json, os, hashlib
os.environ["NUMBA_DISABLE_JIT"] = "1"
sys.path.insert(0, sys.argv[1]); sys.path.insert(0, os.path.join(sys.argv[2], "src"))
import ticc_util as tu, fast_ticc
cfg = json.loads(sys.argv[3])
series = tu.config_data(cfg)
tu.seed_all(cfg["seed"])
with tu.quiet(), tu.ambient(cfg):
    r = fast_ticc.ticc_joint_labels(series, **tu.config_kwargs(cfg)) if cfg["joint"] else fast_ticc.ticc_labels(series[0], **tu.config_kwargs(cfg))
print("DIGEST " + tu.digest(r))
"""


def digest(res):
    import hashlib
    f = result_fields(res)
    return hashlib.sha1(repr(sorted((k, repr(v)) for k, v in f.items())).encode()).hexdigest()


def fresh_digest(cfg, repo):
    """the same call in a fresh interpreter (real pool, nothing called before it)."""
    import json as _json
    import os as _os
    import subprocess as _sp
    import sys as _sys
    here = _os.path.dirname(_os.path.abspath(__file__))
    p = _sp.run([_sys.executable, "-c", _FRESH, here, repo, _json.dumps(cfg)], capture_output=True, text=True, timeout=600)
    for line in p.stdout.splitlines():
        if line.startswith("DIGEST "):
            return line[7:].strip()
    raise RuntimeError("fresh-process reference failed: " + p.stderr[-400:])

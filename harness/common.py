"""Shared machinery of every check: Lean side (constants, build, axiom audit),
model driver, evidence, violations / known findings, replay files."""
import hashlib
import json
import os
import random
import re
import subprocess
import sys
import time
from fractions import Fraction

HERE = os.path.dirname(os.path.abspath(__file__))
VERIF = os.path.dirname(HERE)
LEAN_DIR = os.path.join(VERIF, "lean")
REPO = os.environ.get("REPO", "/repo")
if os.path.realpath(REPO) != os.path.realpath("/repo"):
    # a scratch tree (mutant trial): use a private copy of the Lean project so that the regenerated
    # constants of that tree never touch the project the registered commands build
    _priv = "/tmp/fast_ticc_verif_lean_" + hashlib.sha1(os.path.realpath(REPO).encode()).hexdigest()[:12]
    import fcntl
    with open(_priv + ".lock", "w") as _lk:          # parallel trials on the same scratch tree share the copy
        fcntl.flock(_lk, fcntl.LOCK_EX)
        subprocess.run(["rsync", "-a", "--exclude", ".lake/audit_*", LEAN_DIR + "/", _priv + "/"], check=True)
    LEAN_DIR = _priv
    OUT_DIR = "/tmp/fast_ticc_verif_out_" + hashlib.sha1(os.path.realpath(REPO).encode()).hexdigest()[:12]
else:
    OUT_DIR = VERIF
ALLOWED_AXIOMS = {"propext", "Classical.choice", "Quot.sound"}
FORBIDDEN = re.compile(
    r"\bsorry\b|\badmit\b|^\s*axiom\s|native_decide|bv_decide|implemented_by|\bunsafe\s|maxHeartbeats\s+0\b",
    re.M)

sys.path.insert(0, HERE)
import extract_constants  # noqa: E402
import py2lean  # noqa: E402


def setup_repo_import(disable_jit=True):
    """Import fast_ticc from $REPO/src (first on sys.path)."""
    if disable_jit:
        os.environ.setdefault("NUMBA_DISABLE_JIT", "1")
    os.environ.setdefault("OPENBLAS_NUM_THREADS", "1")
    os.environ.setdefault("OMP_NUM_THREADS", "1")
    src = os.path.join(REPO, "src")
    if src not in sys.path:
        sys.path.insert(0, src)
    import fast_ticc  # noqa: F401
    f = os.path.realpath(fast_ticc.__file__)
    assert f.startswith(os.path.realpath(src)), f"fast_ticc imported from {f}, not {src}"
    return fast_ticc


# --------------------------------------------------------------------------- numbers
def frac_str(x):
    """exact protocol form of an int / Fraction / float (floats are dyadic rationals)."""
    if isinstance(x, bool):
        raise TypeError
    if isinstance(x, int):
        return str(x)
    fr = Fraction(x)
    return str(fr.numerator) if fr.denominator == 1 else f"{fr.numerator}/{fr.denominator}"


def parse_frac(s):
    return Fraction(s)


def show_list(xs, f=str, sep=","):
    xs = list(xs)
    return sep.join(f(x) for x in xs) if xs else "-"


def parse_list(s, f=int, sep=","):
    return [] if s in ("-", "") else [f(x) for x in s.split(sep)]


# --------------------------------------------------------------------------- Lean side
def strip_comments(text):
    # remove /- ... -/ (nested not handled beyond one level, enough here) and -- ...
    out = []
    i, depth = 0, 0
    while i < len(text):
        if text.startswith("/-", i):
            depth += 1
            i += 2
        elif depth and text.startswith("-/", i):
            depth -= 1
            i += 2
        elif depth:
            i += 1
        elif text.startswith("--", i):
            j = text.find("\n", i)
            i = len(text) if j < 0 else j
        else:
            out.append(text[i])
            i += 1
    return "".join(out)


THEOREM_RE = re.compile(r"^\s*(?:private\s+|protected\s+)?(theorem|lemma)\s+([A-Za-z_][\w.'?!]*)", re.M)
NAMESPACE_RE = re.compile(r"^namespace\s+([\w.]+)", re.M)


class LeanSide:
    """Regenerates constants, builds the property's modules, audits axioms."""

    def __init__(self, prop_modules, helper_modules, translated=None):
        self.prop_modules = list(prop_modules)      # e.g. ["FastTicc.Props.C01"]
        self.helper_modules = list(helper_modules)  # e.g. ["FastTicc.Proofs.Viterbi"]
        # {module of "translated code = model" theorems: [translated functions it is about]}
        self.translated = dict(translated or {})
        self.result = {}

    def _path(self, module):
        return os.path.join(LEAN_DIR, *module.split(".")) + ".lean"

    def theorems(self, module):
        try:
            text = strip_comments(open(self._path(module)).read())
        except OSError:
            return []
        out, stack = [], []
        for line in text.splitlines():
            m = re.match(r"^\s*namespace\s+([\w.]+)", line)
            if m:
                stack.append(m.group(1))
                continue
            m = re.match(r"^\s*end\s+([\w.]+)\s*$", line)
            if m and stack and stack[-1] == m.group(1):
                stack.pop()
                continue
            m = THEOREM_RE.match(line)
            if m:
                out.append(".".join(stack + [m.group(2)]))
        return out

    def run(self):
        # one check at a time regenerates the source-derived files and builds: checks running in parallel share this
        # project, and a rebuild (after a source change) must not pull the driver from under another check
        import fcntl
        os.makedirs(os.path.join(LEAN_DIR, ".lake"), exist_ok=True)
        with open(os.path.join(LEAN_DIR, ".lake", "verif_build.lock"), "w") as lk:
            fcntl.flock(lk, fcntl.LOCK_EX)
            try:
                return self._run_locked()
            finally:
                fcntl.flock(lk, fcntl.LOCK_UN)

    def _run_locked(self):
        t0 = time.time()
        res = {"ok": True, "failures": [], "constants": {}, "constants_unavailable": [],
               "constants_changed": {}}
        values, unavailable, changed, _ = extract_constants.regenerate(REPO, LEAN_DIR)
        res["constants"] = values
        res["constants_unavailable"] = unavailable
        res["constants_changed"] = {k: list(v) for k, v in changed.items()}
        # the translated kernels: Generated/Kernels.lean is rewritten from the source's AST
        avail, unavail, kchanged = py2lean.regenerate(REPO, LEAN_DIR)
        res["translated_functions"] = avail
        res["translation_unavailable"] = unavail
        res["translated_text_changed"] = bool(kchanged)
        res["translated_modules"] = []
        res["translated_modules_skipped"] = {}
        for module, funcs in self.translated.items():
            missing = [f for f in funcs if f not in avail]
            if missing:
                # an extraction miss alone never raises an alarm: the equivalence theorems about these functions
                # cannot be stated; only the differential tie remains for them
                res["translated_modules_skipped"][module] = missing
            else:
                res["translated_modules"].append(module)
        if res["translated_modules"]:
            self.prop_modules = self.prop_modules + [m for m in res["translated_modules"] if m not in self.prop_modules]
            if "FastTicc.Proofs.Translated" not in self.helper_modules:
                self.helper_modules = self.helper_modules + ["FastTicc.Proofs.Translated"]
        # forbidden constructs
        for module in self.prop_modules + self.helper_modules:
            try:
                text = strip_comments(open(self._path(module)).read())
            except OSError:
                res["ok"] = False
                res["failures"].append(f"missing Lean module {module}")
                continue
            m = FORBIDDEN.search(text)
            if m:
                res["ok"] = False
                res["failures"].append(f"forbidden construct {m.group(0)!r} in {module}")
        # build
        # the driver first and on its own: a property module that no longer checks must not keep the (regenerated)
        # translated code out of the driver the correspondence runs
        pd = subprocess.run(["lake", "build", "driver"], cwd=LEAN_DIR, capture_output=True, text=True)
        if pd.returncode != 0:
            res["ok"] = False
            res["failures"].append("lake build driver failed: " + " | ".join(
                [l for l in (pd.stdout + pd.stderr).splitlines() if "error" in l.lower()][:6]))
        targets = self.prop_modules + ["driver"]
        cmd = ["lake", "build"] + targets
        p = subprocess.run(cmd, cwd=LEAN_DIR, capture_output=True, text=True)
        res["checker_cmd"] = "cd lean && " + " ".join(cmd) + " && lake env lean <axiom audit file>"
        if p.returncode != 0:
            res["ok"] = False
            out = (p.stdout + p.stderr)
            errs = [l for l in out.splitlines() if "error" in l.lower()][:12]
            res["failures"].append("lake build failed: " + " | ".join(errs))
        # obligations
        prop_thms = []
        for module in self.prop_modules:
            prop_thms += self.theorems(module)
        helper_thms = []
        for module in self.helper_modules:
            helper_thms += self.theorems(module)
        res["property_theorems"] = prop_thms
        res["obligations"] = len(prop_thms) + len(helper_thms)
        res["axioms"] = {}
        if p.returncode == 0:
            audit = "\n".join([f"import {m}" for m in self.prop_modules]
                              + [f"#print axioms {t}" for t in prop_thms]) + "\n"
            tmp = os.path.join(LEAN_DIR, ".lake", f"audit_{os.getpid()}.lean")
            with open(tmp, "w") as f:
                f.write(audit)
            q = subprocess.run(["lake", "env", "lean", tmp], cwd=LEAN_DIR,
                               capture_output=True, text=True)
            os.unlink(tmp)
            out = q.stdout + q.stderr
            if q.returncode != 0:
                res["ok"] = False
                res["failures"].append("axiom audit failed: " + out[:400])
            # parse "'name' depends on axioms: [a, b]" / "'name' does not depend on any axioms"
            flat = re.sub(r"\s+", " ", out)
            for m in re.finditer(r"'([^']+)' depends on axioms: \[([^\]]*)\]", flat):
                axs = [a.strip() for a in m.group(2).split(",") if a.strip()]
                res["axioms"][m.group(1)] = axs
                bad = [a for a in axs if a not in ALLOWED_AXIOMS]
                if bad:
                    res["ok"] = False
                    res["failures"].append(f"theorem {m.group(1)} depends on {bad}")
            for m in re.finditer(r"'([^']+)' does not depend on any axioms", flat):
                res["axioms"][m.group(1)] = []
            missing = [t for t in prop_thms if t not in res["axioms"]]
            if missing:
                res["ok"] = False
                res["failures"].append(f"no axiom report for {missing[:5]}")
        # thorough tier: the toolchain's independent re-checker replays the compiled property modules (and everything they
        # import from this project) through the kernel again
        res["leanchecker"] = "not run (quick tier)"
        if getattr(self, "recheck", False) and p.returncode == 0:
            lc = subprocess.run(["lake", "env", "leanchecker"] + self.prop_modules, cwd=LEAN_DIR, capture_output=True, text=True)
            if lc.returncode != 0:
                res["ok"] = False
                res["failures"].append("leanchecker rejected a compiled module: " + (lc.stdout + lc.stderr)[-400:])
                res["leanchecker"] = "failed"
            else:
                res["leanchecker"] = f"ok ({len(self.prop_modules)} modules)"
        res["discharged"] = res["obligations"] if res["ok"] else 0
        res["wall_s"] = round(time.time() - t0, 2)
        self.result = res
        return res


class Driver:
    """Batch interface to the compiled model driver."""

    def __init__(self):
        self.exe = os.path.join(LEAN_DIR, ".lake", "build", "bin", "driver")
        self.calls = 0

    def available(self):
        return os.path.exists(self.exe)

    def run(self, lines):
        if not lines:
            return []
        # another check may be relinking the driver right now (source-derived files changed): wait for it
        for _ in range(180):
            if self.available():
                break
            time.sleep(1)
        if not self.available():
            raise RuntimeError("model driver not built")
        for attempt in range(3):
            try:
                p = subprocess.run([self.exe], input="\n".join(lines) + "\n", capture_output=True,
                                   text=True, timeout=1800)
                break
            except OSError:                  # "text file busy" / replaced while starting
                if attempt == 2:
                    raise
                time.sleep(5)
        if p.returncode != 0:
            raise RuntimeError("driver failed: " + p.stderr[:500])
        out = p.stdout.split("\n")
        if out and out[-1] == "":
            out.pop()
        if len(out) != len(lines):
            raise RuntimeError(f"driver returned {len(out)} lines for {len(lines)} ops")
        self.calls += len(lines)
        return out


# --------------------------------------------------------------------------- context
class Ctx:
    def __init__(self, prop, tier, seed, level, replay=None):
        self.prop = prop
        self.tier = tier
        self.seed = seed
        self.level = level
        self.replay = replay
        self.rng = random.Random(seed * 1000003 + int(prop[1:]))
        self.t0 = time.time()
        self.driver = Driver()
        self.evaluations = 0
        self.distinct = set()
        self.samples = []
        self.dist = {}
        self.violations = []      # dicts
        self.known_hits = []
        self.breaks = []          # correspondence / proof breaks (dicts)
        self.notes = []
        self.extra = {}
        self.lean = None
        self.known = load_known_findings()
        self.rule = ""
        self.explanation = ""
        self.assumptions = []
        self.exhaustive = None

    # ---- bookkeeping
    def quick(self):
        return self.tier == "quick"

    def count(self, key, n=1):
        self.dist[key] = self.dist.get(key, 0) + n

    def case(self, key=None, nontrivial=False, sample=None):
        """register one evaluated case; key identifies distinct cases."""
        self.evaluations += 1
        if nontrivial and key is not None:
            h = hashlib.sha1(repr(key).encode()).hexdigest()[:16]
            self.distinct.add(h)
        if sample is not None and len(self.samples) < 6:
            self.samples.append(sample)

    def elapsed(self):
        return time.time() - self.t0

    # ---- the translated code, run by the model driver on the inputs the implementation was run on
    def gen_compare(self, name, cases, what=None, tol=None):
        """cases: list of (driver argument string, expected protocol output, replay data).  The function translated
        from the source (Generated/Kernels.lean) must return exactly what the implementation returned (with `tol`:
        every number within that relative tolerance - the translated code computes in exact rationals where the
        implementation divides / sums in doubles)."""
        if not cases:
            return

        def same(out, e):
            if out == e:
                return True
            if tol is None:
                return False
            ta, tb = re.split(r"[ ,;|]", out), re.split(r"[ ,;|]", e)
            if len(ta) != len(tb):
                return False
            for x, y in zip(ta, tb):
                if x == y:
                    continue
                try:
                    fx, fy = Fraction(x), Fraction(y)
                except (ValueError, ZeroDivisionError):
                    return False
                if abs(fx - fy) > tol * max(1, abs(fx), abs(fy)):
                    return False
            return True
        outs = self.driver.run([f"gen {name} {a}" for (a, _e, _d) in cases])
        for (a, e, d), out in zip(cases, outs):
            if out == "unavailable":
                self.count(f"translated:{name}:unavailable")
                continue
            self.count(f"translated:{name}:compared")
            if not same(out, e):
                self.violation("correspondence-break", what or f"translated {name} vs the implementation",
                               {"function": name, "args": a, "translated": out, "impl": e, "input": d})

    # ---- violations
    def violation(self, kind, what, data, finding_sig=None):
        """kind: impl-violation | correspondence-break | proof-break.
        finding_sig: a dict describing the failure for known-finding matching."""
        v = {"kind": kind, "what": what, "data": data, "sig": finding_sig}
        if kind == "impl-violation":
            k = match_known(self.known, self.prop, finding_sig)
            if k is not None:
                if k["id"] not in [h["id"] for h in self.known_hits]:
                    self.known_hits.append({"id": k["id"], "what": k["description"], "example": what})
                return False
            self.violations.append(v)
        else:
            self.breaks.append(v)
        return True


def load_known_findings():
    path = os.path.join(VERIF, "known_findings.json")
    try:
        with open(path) as f:
            return json.load(f).get("findings", [])
    except (OSError, ValueError):
        return []


def match_known(known, prop, sig):
    """A known finding matches when status == 'known', same property, and every key of
    its 'signature' equals the violation's signature value."""
    if not sig:
        return None
    for k in known:
        if k.get("status") != "known" or k.get("property") != prop:
            continue
        ksig = k.get("signature", {})
        if all(sig.get(a) == b for a, b in ksig.items()):
            return k
    return None


def jsonable(x):
    import numpy as np
    if isinstance(x, dict):
        return {str(k): jsonable(v) for k, v in x.items()}
    if isinstance(x, (list, tuple)):
        return [jsonable(v) for v in x]
    if isinstance(x, np.ndarray):
        return jsonable(x.tolist())
    if isinstance(x, (np.integer,)):
        return int(x)
    if isinstance(x, (np.floating,)):
        return float(x)
    if isinstance(x, Fraction):
        return str(x)
    if isinstance(x, (set, frozenset)):
        return sorted(jsonable(v) for v in x)
    if isinstance(x, (str, int, float, bool)) or x is None:
        return x
    return repr(x)


def finish(ctx):
    """Writes replay files, evidence; prints lines; returns exit code."""
    lean = ctx.lean or {}
    # a proof break is a break, handled like a correspondence break
    if lean and not lean.get("ok", True):
        ctx.breaks.insert(0, {"kind": "proof-break", "what": "; ".join(lean.get("failures", [])),
                              "data": {"constants_changed": lean.get("constants_changed")}, "sig": None})
    os.makedirs(os.path.join(OUT_DIR, "replays"), exist_ok=True)
    lines = []
    exit_code = 0
    for k in ctx.known_hits:
        lines.append(f"KNOWN-FINDING: property={ctx.prop} {k['id']}: {k['what']}")
    reported = []
    if ctx.violations:
        for i, v in enumerate(ctx.violations[:5]):
            path = write_replay(ctx, v, i)
            lines.append(f"VIOLATION property={ctx.prop} replay={path}")
            reported.append(v)
        exit_code = 1
    elif ctx.breaks:
        # the proof or the correspondence no longer checks and the search found no
        # failing input on the implementation
        v = ctx.breaks[0]
        path = write_replay(ctx, v, 0, no_input=True)
        lines.append(f"VIOLATION property={ctx.prop} replay={path} no-failing-input-found")
        exit_code = 1
    write_evidence(ctx, exit_code)
    for l in lines:
        print(l)
    status = "held" if exit_code == 0 else "VIOLATED"
    print(f"[{ctx.prop}] {status}: tier={ctx.tier} seed={ctx.seed} evaluations={ctx.evaluations} "
          f"distinct_nontrivial={len(ctx.distinct)} lean_ok={lean.get('ok')} "
          f"obligations={lean.get('obligations')} wall={ctx.elapsed():.1f}s")
    return exit_code


def write_replay(ctx, v, i, no_input=False):
    name = f"{ctx.prop}_{ctx.tier}_{ctx.seed}_{i}.json"
    path = os.path.join(OUT_DIR, "replays", name)
    doc = {
        "property": ctx.prop, "kind": v["kind"], "theorem_or_relation": v["what"],
        "seed": ctx.seed, "tier": ctx.tier, "input": jsonable(v["data"]),
        "signature": jsonable(v.get("sig")),
        "no_failing_input_found": bool(no_input),
        "all_breaks": jsonable([{"kind": b["kind"], "what": b["what"]} for b in ctx.breaks[:10]]),
        "how_to_replay": f"./check {ctx.prop} --replay replays/{name}",
    }
    with open(path, "w") as f:
        json.dump(doc, f, indent=1)
    return os.path.relpath(path, VERIF) if OUT_DIR == VERIF else path


def write_evidence(ctx, exit_code):
    lean = ctx.lean or {}
    cov = {
        "evaluations": ctx.evaluations,
        "distinct_nontrivial": len(ctx.distinct),
        "rule": ctx.rule,
        "samples": jsonable(ctx.samples) or ["(no case generated)"],
        "obligations": lean.get("obligations", 0),
        "discharged": lean.get("discharged", 0),
        "checker_cmd": lean.get("checker_cmd", ""),
        "leanchecker": lean.get("leanchecker", "not run"),
        "trusted_base": [
            "Lean 4.33.0 kernel; axioms used by the property theorems: "
            + ", ".join(sorted({a for axs in lean.get("axioms", {}).values() for a in axs}) or ["none"]),
            "Mathlib v4.33.0 definitions used in statements",
            "hand-written Lean model, tied to the code by the differential correspondence run here; for the functions "
            "listed under translated_functions additionally by the translator harness/py2lean.py (Python AST -> "
            "Generated/Kernels.lean over the primitives of Model/Py.lean) and the equivalence theorems of the Props/Tr* "
            "modules, and the translated code itself is run against the implementation on the same inputs",
            "Python harness: generators, canonicalisation, oracles, line protocol, constant extractor",
        ] + ctx.assumptions,
        "explanation": ctx.explanation,
        "input_distribution": ctx.dist,
        "property_theorems": lean.get("property_theorems", []),
        "axioms_per_theorem": lean.get("axioms", {}),
        "constants": lean.get("constants", {}),
        "constants_unavailable": lean.get("constants_unavailable", []),
        "constants_changed_vs_expected": lean.get("constants_changed", {}),
        "translated_functions": lean.get("translated_functions", []),
        "translation_unavailable": lean.get("translation_unavailable", {}),
        "translated_equivalence_modules": lean.get("translated_modules", []),
        "translated_equivalence_modules_skipped": lean.get("translated_modules_skipped", {}),
        "lean_failures": lean.get("failures", []),
        "model_driver_ops": ctx.driver.calls,
        "known_findings_hit": ctx.known_hits,
        "breaks": jsonable([{"kind": b["kind"], "what": b["what"]} for b in ctx.breaks[:10]]),
        "notes": ctx.notes,
    }
    try:
        import srccov
        sc = srccov.report()
        if sc is not None:
            cov["source_line_coverage"] = sc
    except Exception as e:          # measurement only: never affects the verdict
        cov["source_line_coverage"] = {"error": repr(e)}
    if ctx.exhaustive is not None:
        cov["exhaustive"] = bool(ctx.exhaustive)
    cov.update(jsonable(ctx.extra))
    doc = {
        "property_id": ctx.prop, "tier": ctx.tier, "seed": ctx.seed, "level": ctx.level,
        "coverage": cov,
        "assumptions": ctx.assumptions,
        "wall_s": round(ctx.elapsed(), 2),
        "violations": len(ctx.violations) + (1 if (ctx.breaks and not ctx.violations) else 0),
    }
    os.makedirs(os.path.join(OUT_DIR, "evidence"), exist_ok=True)
    with open(os.path.join(OUT_DIR, "evidence", f"{ctx.prop}.json"), "w") as f:
        json.dump(doc, f, indent=1)

"""Runs the kernels / a complete run in one execution mode (selected by the parent through the
environment) and prints JSON.  argv: <repo> ; stdin: JSON {"mode":..., "kernel":[...], "ll":[...], "runs":[...]}"""
import json
import os
import sys

job = json.load(sys.stdin)
mode = job["mode"]
if mode == "nonumba":
    sys.modules["numba"] = None           # import numba -> ImportError: exercises the fallback decorators
repo = sys.argv[1]
here = os.path.dirname(os.path.abspath(__file__))
sys.path.insert(0, here)
sys.path.insert(0, os.path.join(repo, "src"))
import numpy as np  # noqa: E402
import fast_ticc  # noqa: E402
from fast_ticc import cluster_label_assignment as cla, likelihood, numba_guard  # noqa: E402
import ticc_util as tu  # noqa: E402

out = {"mode": mode, "numba_available": bool(numba_guard.NUMBA_AVAILABLE),
       "jit_disabled_env": os.environ.get("NUMBA_DISABLE_JIT"), "threads_env": os.environ.get("NUMBA_NUM_THREADS")}
if mode == "jit":
    import numba
    out["numba_threads"] = int(numba.get_num_threads())
    out["is_compiled"] = hasattr(cla.assign_point_cluster_labels, "signatures")


def arr(spec):
    a = np.array(spec["data"], dtype=np.float64).reshape(spec["shape"])
    lay = spec.get("layout", "C")
    if lay == "F":
        a = np.asfortranarray(a)
    elif lay == "strided":
        big = np.zeros((a.shape[0] * 2,) + a.shape[1:])
        big[::2] = a
        a = big[::2]
    if spec.get("dtype"):
        a = a.astype(spec["dtype"])          # values are chosen exactly representable in the narrower dtype
    if spec.get("readonly"):
        a.setflags(write=False)
    return a


def do_runs():
    runs = []
    for cfg in job.get("runs", []):
        series = tu.config_data(cfg)
        tu.seed_all(cfg["seed"])
        try:
            r = tu.run_joint(series, **tu.config_kwargs(cfg)) if cfg["joint"] else tu.run_single(series[0], **tu.config_kwargs(cfg))
            lab = r.point_labels
            runs.append({"labels": [[int(x) for x in l] for l in lab] if cfg["joint"] else [int(x) for x in lab],
                         "cost": float(r.label_assignment_cost).hex()})
        except Exception as e:
            runs.append({"error": f"{type(e).__name__}: {e}"[:200]})
    return runs


def run_kernel_cases():
    kern = []
    for c in job.get("kernel", []):
        table = arr(c["table"])
        if c["beta_kind"] == "vector":
            beta = np.array(c["beta"], dtype=np.float64)
        elif c["beta_kind"] == "int":
            beta = int(c["beta"])
        else:
            beta = float(c["beta"])
        try:
            labels, cost = cla.assign_point_cluster_labels(table, beta)
            kern.append({"labels": [int(x) for x in labels], "cost": float(cost).hex()})
        except Exception as e:
            kern.append({"error": f"{type(e).__name__}: {e}"[:200]})
    return kern


RUNS_FIRST = None
if job.get("order") == "runs-first":
    # a fresh process whose FIRST use of the kernels is a complete run (the compiled kernel's first specialisation comes
    # from what the front end passes: e.g. an integer-typed switching cost), the direct kernel calls only afterwards
    RUNS_FIRST = do_runs()
out["kernel"] = run_kernel_cases()

lls = []
for c in job.get("ll", []):
    import types
    K = len(c["thetas"])
    thetas = [np.array(t, dtype=np.float64) for t in c["thetas"]]
    mus = [np.array(m, dtype=np.float64) for m in c["mus"]]
    data = arr(c["data"])
    model = tu.real_model(thetas, mus, c["W"], int(data.shape[0]))
    clusters = model.clusters
    try:
        table = likelihood.all_points_all_clusters_log_likelihood(model, data)
        lls.append({"table": [[float(v).hex() for v in row] for row in np.asarray(table)],
                    "logdets": [float(cl.log_determinant).hex() for cl in clusters]})
    except Exception as e:
        lls.append({"error": f"{type(e).__name__}: {e}"[:200]})
out["ll"] = lls

runs = RUNS_FIRST if RUNS_FIRST is not None else do_runs()
out["runs"] = runs
# the same kernel cases AGAIN, after the complete runs (integer- and float-typed switching costs among them) have
# been through the compiled kernels: what earlier calls left in the process must not change a later call
out["kernel_again"] = run_kernel_cases()
print("RESULT " + json.dumps(out))

"""Line coverage of $REPO/src/fast_ticc by the calls a check makes IN THIS PROCESS (sys.monitoring, Python 3.12).

The correspondence ties the Lean model to the code only as far as it exercises the code; this measures how far:
which executable lines of the package the run executed, per file, and which it never reached.  (Kernels run
interpreted under NUMBA_DISABLE_JIT=1, so their lines count.  Code run in subprocesses — the execution-mode workers of
C15, the fresh-process references of C14/C20 — is not seen.)"""
import os
import sys

_hit = {}          # filename -> set(lines)
_root = None
TOOL = 4           # a free tool id (0-5; 0-2 are reserved for debugger / coverage / profiler by convention)


def start(repo):
    global _root
    mon = getattr(sys, "monitoring", None)
    if mon is None:
        return False
    _root = os.path.realpath(os.path.join(repo, "src", "fast_ticc")) + os.sep
    try:
        mon.use_tool_id(TOOL, "fast_ticc_verif_srccov")
    except ValueError:
        return False

    def on_line(code, line):
        fn = code.co_filename
        if fn.startswith(_root) or os.path.realpath(fn).startswith(_root):
            _hit.setdefault(os.path.realpath(fn), set()).add(line)
        return mon.DISABLE          # one hit per location is all we need: no further overhead there
    mon.register_callback(TOOL, mon.events.LINE, on_line)
    mon.set_events(TOOL, mon.events.LINE)
    return True


def _executable_lines(path):
    """line numbers that carry code, from the compiled code objects (all nested functions)."""
    try:
        with open(path) as f:
            src = f.read()
        top = compile(src, path, "exec")
    except (OSError, SyntaxError):
        return set()
    out, todo = set(), [top]
    while todo:
        co = todo.pop()
        for (_s, _e, ln) in co.co_lines():
            if ln is not None and ln > 0:
                out.add(ln)
        todo.extend(c for c in co.co_consts if hasattr(c, "co_lines"))
    # lines of a docstring-only / def-header kind are executed at import; keep them: they are hit then
    return out


def _ranges(lines):
    out, run = [], []
    for ln in sorted(lines):
        if run and ln == run[-1] + 1:
            run.append(ln)
        else:
            if run:
                out.append(run)
            run = [ln]
    if run:
        out.append(run)
    return [f"{r[0]}" if len(r) == 1 else f"{r[0]}-{r[-1]}" for r in out]


def report():
    if _root is None:
        return None
    files = {}
    tot_exec = tot_hit = 0
    for dirpath, _d, fs in os.walk(_root):
        for f in sorted(fs):
            if not f.endswith(".py"):
                continue
            path = os.path.realpath(os.path.join(dirpath, f))
            ex = _executable_lines(path)
            if not ex:
                continue
            hit = _hit.get(path, set()) & ex
            rel = os.path.relpath(path, _root)
            files[rel] = {"executable": len(ex), "executed": len(hit), "never_executed": _ranges(ex - hit)}
            tot_exec += len(ex)
            tot_hit += len(hit)
    return {"executable_lines": tot_exec, "executed_lines": tot_hit,
            "note": "lines of src/fast_ticc executed in this process by this run (import-time lines included); "
                    "subprocess work is not seen", "files": files}

"""Direct property oracles on the implementation's outputs (shared by several checks)."""
import math
from fractions import Fraction

import numpy as np


def rel_close(a, b, rtol=1e-9, atol=1e-9):
    a, b = float(a), float(b)
    if math.isnan(a) or math.isnan(b):
        return False
    if math.isinf(a) or math.isinf(b):
        return a == b
    return abs(a - b) <= atol + rtol * max(abs(a), abs(b))


def exact_median(xs):
    s = sorted(Fraction(float(x)) for x in xs)
    n = len(s)
    if n % 2 == 1:
        return s[n // 2]
    return (s[n // 2 - 1] + s[n // 2]) / 2


def flat_labels(point_labels):
    if len(point_labels) and isinstance(point_labels[0], (list, tuple)):
        return [int(x) for l in point_labels for x in l], [len(l) for l in point_labels]
    return [int(x) for x in point_labels], [len(point_labels)]


def switches(per_series_labelled):
    """(#within-series consecutive labelled pairs with different labels,
        #series-boundary pairs with different labels)"""
    within = 0
    for l in per_series_labelled:
        within += sum(1 for a, b in zip(l, l[1:]) if a != b)
    boundary = 0
    for a, b in zip(per_series_labelled, per_series_labelled[1:]):
        if a and b and a[-1] != b[0]:
            boundary += 1
    return within, boundary


def result_consistency(res, K, beta, joint, check_cost=True):
    """C06 oracle.  beta: float scalar or per-pair list over stacked points (single front end).
    Returns a list of (site, message, signature_extra)."""
    problems = []
    if joint:
        series = [[int(x) for x in l] for l in res.point_labels]
    else:
        series = [[int(x) for x in res.point_labels]]
    labelled = [[x for x in l if x >= 0] for l in series]
    flat = [x for l in labelled for x in l]
    n_lab = len(flat)
    all_ll = [float(x) for x in res.all_log_likelihood]
    if len(all_ll) != n_lab:
        problems.append(("all-ll-length",
                         f"all_log_likelihood has {len(all_ll)} entries for {n_lab} labelled points",
                         {"extra_entries": len(all_ll) - n_lab,
                          "empty_clusters": sum(1 for k in range(K) if flat.count(k) == 0)}))
        return problems
    if not all(math.isfinite(x) for x in all_ll):
        problems.append(("nonfinite-ll", "non-finite per-point log-likelihood", {}))
        return problems
    tot = math.fsum(all_ll)
    if not rel_close(res.overall_log_likelihood, tot):
        problems.append(("overall-sum", f"overall_log_likelihood {res.overall_log_likelihood} != sum {tot}", {}))
    if n_lab and not rel_close(res.overall_log_likelihood_mean, tot / n_lab):
        problems.append(("overall-mean", f"overall mean {res.overall_log_likelihood_mean} != {tot / n_lab}", {}))
    if n_lab and not rel_close(res.overall_log_likelihood_median, float(exact_median(all_ll)), 1e-12, 1e-12):
        problems.append(("overall-median",
                         f"overall median {res.overall_log_likelihood_median} != {float(exact_median(all_ll))}", {}))
    # per-cluster: all_ll is grouped by cluster in cluster order
    pos = 0
    cm = [float(x) for x in res.cluster_log_likelihood_mean]
    cmed = [float(x) for x in res.cluster_log_likelihood_median]
    if len(cm) != K or len(cmed) != K:
        problems.append(("cluster-stat-length", "per-cluster statistics do not have K entries", {}))
    else:
        for k in range(K):
            nk = flat.count(k)
            vals = all_ll[pos:pos + nk]
            pos += nk
            want_mean = math.fsum(vals) / nk if nk else 0.0
            want_med = float(exact_median(vals)) if nk else 0.0
            if not rel_close(cm[k], want_mean):
                problems.append(("cluster-mean", f"cluster {k} mean {cm[k]} != {want_mean}", {"nk": nk}))
            if not rel_close(cmed[k], want_med, 1e-12, 1e-12):
                problems.append(("cluster-median", f"cluster {k} median {cmed[k]} != {want_med}", {"nk": nk}))
    # cost identity
    if not check_cost:
        return problems
    within, boundary = switches(labelled)
    if isinstance(beta, (list, tuple, np.ndarray)):
        b = [float(x) for x in beta]
        l = labelled[0]
        sw = math.fsum(b[i] for i in range(len(l) - 1) if l[i] != l[i + 1])
        bscalar = None
    else:
        bscalar = float(beta)
        sw = bscalar * within
    want = -tot + sw
    cost = float(res.label_assignment_cost)
    if not rel_close(cost, want, 1e-9, 1e-7):
        extra = {}
        if bscalar is not None and joint and boundary > 0 and rel_close(cost, want + bscalar * boundary, 1e-9, 1e-7):
            extra = {"joint_boundary_priced": True}
        problems.append(("cost-identity", f"label_assignment_cost {cost} != -LL + within-series switching {want} "
                         f"(within={within}, boundary pairs with different labels={boundary})", extra))
    return problems


def textbook_dp_float(table, betas):
    """O(T K^2) forward DP in floating point; returns (optimal cost, one optimal path)."""
    T, K = table.shape
    cur = table[0].astype(float).copy()
    back = np.zeros((T, K), dtype=int)
    for i in range(1, T):
        nxt = np.empty(K)
        for c in range(K):
            cand = cur + betas[i - 1]
            cand[c] = cur[c]
            p = int(np.argmin(cand))
            back[i, c] = p
            nxt[c] = table[i, c] + cand[p]
        cur = nxt
    c = int(np.argmin(cur))
    cost = float(cur[c])
    path = [c]
    for i in range(T - 1, 0, -1):
        c = int(back[i, c])
        path.append(c)
    return cost, path[::-1]


def path_cost_float(table, betas, labels):
    c = math.fsum(float(table[i, l]) for i, l in enumerate(labels))
    c += math.fsum(float(betas[i]) for i in range(len(labels) - 1) if labels[i] != labels[i + 1])
    return c

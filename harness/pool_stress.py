"""C20 stress: failing calls under CPU load.  Usage: pool_stress.py <calls> <busy processes> <per-call limit s> <mode>
mode: "1" = default single-worker pool, "mp4" = CUPCAKE_ENABLE_MULTIPROCESSING with 4 workers; prefix "big" (big1 /
bigmp4): only the FIRST solver task of each call raises and the others return a large result (as a problem with NW in
the hundreds does: a result bigger than the pipe buffer keeps the result queue's lock for a while), sparsity weight legal.
Every solver task of the run raises (penalty matrix of the wrong shape), so the loop's error path runs while other
tasks of the same round are still being delivered.  Prints one line: `ok <calls>` / `HANG <call index>` /
`LEFTOVER <call index> <n>` (worker processes alive when the exception reached the caller)."""
import os
import subprocess
import sys
import threading
import warnings

repo = os.environ.get("REPO", "/repo")
sys.path.insert(0, os.path.join(repo, "src"))
os.environ.setdefault("NUMBA_DISABLE_JIT", "1")
os.environ.setdefault("OPENBLAS_NUM_THREADS", "1")
calls, nbusy, limit, mode = int(sys.argv[1]), int(sys.argv[2]), float(sys.argv[3]), sys.argv[4]
big = mode.startswith("big")
mode = mode[3:] if big else mode
if mode == "mp4":
    os.environ["CUPCAKE_ENABLE_MULTIPROCESSING"] = "1"
else:
    os.environ.pop("CUPCAKE_ENABLE_MULTIPROCESSING", None)
import io                                   # noqa: E402
import contextlib                           # noqa: E402
import multiprocessing                      # noqa: E402
import numpy as np                          # noqa: E402
import fast_ticc                            # noqa: E402

if big:
    import fast_ticc.admm as _admm
    _orig = _admm.admm_optimize_theta
    _count = [0]
    _SEED = [0]
    _DELAYS = (0.0, 0.001, 0.003, 0.006, 0.012, 0.025, 0.05, 0.1, 0.15)

    def admm_optimize_theta(*a, **k):
        _count[0] += 1
        if _count[0] == 1:
            raise FloatingPointError("injected fault in the first solver task")
        r = _orig(*a, **k)
        import time as _t
        _t.sleep(_DELAYS[(_SEED[0] + _count[0]) % len(_DELAYS)])
        r.theta = np.zeros(400_000)              # ~3 MB: larger than a pipe buffer
        return r
    admm_optimize_theta.__module__ = "fast_ticc.admm"
    admm_optimize_theta.__qualname__ = "admm_optimize_theta"
    _admm.admm_optimize_theta = admm_optimize_theta
rs = np.random.RandomState(0)
data = np.vstack([rs.randn(60, 2), rs.randn(60, 2) * 3 + 4])
busy = [subprocess.Popen([sys.executable, "-c", "while True: pass"]) for _ in range(nbusy)]
done = [0]


def finish(line, code):
    for b in busy:
        b.kill()
    sys.__stdout__.write(line + "\n")
    sys.__stdout__.flush()
    os._exit(code)


try:
    for i in range(calls):
        t = threading.Timer(limit, lambda: finish(f"HANG {done[0]}", 3))
        t.daemon = True
        t.start()
        try:
            with warnings.catch_warnings(), contextlib.redirect_stdout(io.StringIO()):
                warnings.simplefilter("ignore")
                np.random.seed(i)
                if big:
                    _SEED[0] = i            # inherited by the workers forked for this call
                fast_ticc.ticc_labels(data, window_size=2, num_clusters=3,
                                      sparsity_weight=0.11 if big else np.ones((3, 3)),
                                      iteration_limit=3, num_processors=4 if mode == "mp4" else 1)
            t.cancel()
            finish(f"RETURNED {i}", 4)
        except Exception:
            pass
        t.cancel()
        left = len(multiprocessing.active_children())
        if left:
            finish(f"LEFTOVER {i} {left}", 5)
        done[0] += 1
    finish(f"ok {calls}", 0)
finally:
    for b in busy:
        b.kill()

import FastTicc.Model.Index
import FastTicc.Model.Stack
import FastTicc.Model.Viterbi

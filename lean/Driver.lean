/-
Model driver: one operation per input line, one canonical output line per operation.
Run with `lake exe driver` (compiled; the model files are Mathlib-free) or
`lake env lean --run Driver.lean`.
-/
import FastTicc.Model.Proto
import FastTicc.Model.Index
import FastTicc.Model.Stack
import FastTicc.Model.Viterbi
import FastTicc.Model.Repop
import FastTicc.Model.Result
import FastTicc.Model.MainLoop
import FastTicc.Model.Numeric
import FastTicc.Model.Heap
import FastTicc.Model.Run
import FastTicc.Model.Final
import FastTicc.Model.FrontEnd
import FastTicc.Model.OptPhase
import FastTicc.Model.AdmmSolve
import FastTicc.Generated.Kernels

open FastTicc FastTicc.Proto

def matOfList (n : Nat) (l : List Int) : Nat → Nat → Int := fun r c => l.getD (r * n + c) 0
def listOfMat (n : Nat) (M : Nat → Nat → Int) : List Int :=
  (List.range n).flatMap fun r => (List.range n).map fun c => M r c


/-- scripted phases for the main-loop model: state = (rounds relabelled so far, current
labelling id, phase trace).  `relabel` in round `j` yields `script[j]` (cycled when `cyc`).
`fault = (round, phase)` makes that phase raise. -/
structure LoopSt where
  counter : Nat
  label : Nat
  trace : List String

def scriptedPhases (script : List Nat) (cyc : Bool) (fault : Option (Nat × String)) :
    MainLoop.Phases LoopSt String :=
  let fails (s : LoopSt) (ph : String) : Bool :=
    match fault with
    | some (r, p) => r == s.counter && p == ph
    | none => false
  let stepPh (ph : String) (s : LoopSt) : Except String LoopSt :=
    if fails s ph then .error s!"{s.counter}:{ph}" else .ok { s with trace := s.trace ++ [ph] }
  { repop := stepPh "repop"
    stats := stepPh "stats"
    opt := stepPh "opt"
    relabel := fun s =>
      if fails s "relabel" then .error s!"{s.counter}:relabel" else
      let j := if cyc then s.counter % script.length else min s.counter (script.length - 1)
      .ok { counter := s.counter + 1, label := script.getD j 0, trace := s.trace ++ ["relabel"] } }

/-! heap histories (C13 / C19) -/
open FastTicc.Heap in
def showArr (a : Option Arr) : String := match a with | some x => s!"o{x.id}/{x.val}" | none => "-"
open FastTicc.Heap in
def showParam (p : Param) : String := match p with | .scalar _ => "s" | .array a => s!"o{a.id}/{a.val}"
def showOptNat (o : Option Nat) : String := match o with | some v => toString v | none => "-"

open FastTicc.Heap in
def dumpHeap (h : Heap) : String :=
  let stateItems := (List.range h.states.length).map fun i =>
    match h.states[i]? with
    | none => ""
    | some st =>
      let lab := match st.labels with
        | some (id, ls) => s!"o{id}:" ++ showNats ls
        | none => "None:-"
      s!"S{i}:L={lab}:CL=o{st.clustersId}:C=" ++ showList (fun r => s!"c{r}") "," st.clusters
        ++ s!":A=a{st.args}:D=o{st.data.id}/{st.data.val}:P={showArr st.pll}:cost={showOptNat st.cost}"
        ++ s!":inv={InvB h i}"
  let refs := (h.states.flatMap (·.clusters)).eraseDups
  let cellItems := refs.map fun r =>
    let c := h.cluster r
    s!"c{r}:m=" ++ showNats c.members ++ s!":cc={showArr c.computedCov}:ec={showArr c.empCov}:ic={showArr c.invCov}"
      ++ s!":mu={showArr c.mean}:ti={showArr c.trainInv}:ld={showOptNat c.logDet}"
  let argRefs := (h.states.map (·.args)).eraseDups
  let argItems := argRefs.map fun a =>
    let x := h.argsOf a
    s!"a{a}:lam={showParam x.lam}:beta={showParam x.beta}:K={x.K}"
  " ".intercalate (stateItems ++ cellItems ++ argItems)

open FastTicc.Heap in
def heapOp (repaired : Bool) (h : Heap) (op : String) : Option Heap :=
  match op.splitOn ":" with
  | ["init", K, lamK, betaK] => do
      let K ← parseNat? K
      -- identities: data o0, lam o1 (if array), beta o2 (if array); next = 3
      let lam : Param := if lamK == "a" then .array ⟨1, 1⟩ else .scalar 0
      let beta : Param := if betaK == "a" then .array ⟨2, 2⟩ else .scalar 0
      let h0 : Heap := ⟨[], [⟨lam, beta, K⟩], [], 3⟩
      pure (emptyModel h0 0 ⟨0, 1000000⟩).2
  | ["assign", s, ls] => do
      let s ← parseNat? s; let ls ← parseNats? ls
      let (lid, h1) := h.fresh
      pure (assign h1 s (lid, ls))
  | ["shallow", s] => do let s ← parseNat? s; pure (shallowState h s).2
  | ["deep", s] => do let s ← parseNat? s; pure (deepState repaired h s).2
  | ["repop", s, moves] => do
      let s ← parseNat? s; let mv ← parseNatss? moves
      pure (repopPhase h s mv).2
  | ["stats", s] => do let s ← parseNat? s; pure (statsPhase h s).2
  | ["opt", s] => do let s ← parseNat? s; pure (optPhase h s).2
  | ["relabel", s, ls] => do
      let s ← parseNat? s; let ls ← parseNats? ls
      pure (relabelPhase h s ls 0).2
  | _ => none

open FastTicc.Heap in
def heapHistory (repaired : Bool) (ops : List String) : Option String := do
  let mut h : Heap := ⟨[], [], [], 0⟩
  let mut outs : List String := []
  for op in ops do
    h ← heapOp repaired h op
    outs := outs ++ [dumpHeap h]
  pure (" # ".intercalate outs)

/-! numeric kernels at Rat / Float -/
instance : Zero Float := ⟨0.0⟩
instance : NatCast Float := ⟨Float.ofNat⟩

def matFn (rows : List (List Rat)) : Nat → Nat → Rat := fun i j => (rows.getD i []).getD j 0
def vecFn (v : List Rat) : Nat → Rat := fun i => v.getD i 0
def parseFloat? (s : String) : Option Float :=
  -- exact: num/den with den a power of two, or an integer
  match s.splitOn "/" with
  | [a] => (a.toInt?).map Float.ofInt
  | [a, b] => do let n ← a.toInt?; let d ← b.toNat?; pure (Float.ofInt n / Float.ofNat d)
  | _ => none

/-! whole-run replay: `replayrun T d K m limit half nwlog2pi betas data init rounds`
rounds = `@`-separated blocks `thetas#logdets#spreads#order#picks`, thetas = `|`-separated K matrices. -/
structure RoundOracle where
  thetas : List (List (List Rat))
  logdets : List Rat
  spreads : List Rat
  order : List Nat
  picks : List (List Nat)
  raws : List (List Rat) := []      -- raw (compressed) solver outputs, one per cluster; `[]` = not recorded
  eps : Rat := 0

def parseRound? (blk : String) : Option RoundOracle :=
  match blk.splitOn "#" with
  | [th, ld, sp, od, pk] => do
    let thetas ← parseListWith parseRatss? "|" th
    let logdets ← parseRats? ld
    let spreads ← parseRats? sp
    let order ← parseNats? od
    let picks ← parseNatss? pk
    pure ⟨thetas, logdets, spreads, order, picks, [], 0⟩
  | [th, ld, sp, od, pk, rw, ep] => do
    let thetas ← parseListWith parseRatss? "|" th
    let logdets ← parseRats? ld
    let spreads ← parseRats? sp
    let order ← parseNats? od
    let picks ← parseNatss? pk
    let raws ← parseRatss? rw
    let eps ← parseRat? ep
    pure ⟨thetas, logdets, spreads, order, picks, raws, eps⟩
  | _ => none

/-- MRF entry the run model reads: reconstructed by the model from the raw solver output when that was
recorded (`OptPhase.reconstruct`), the recorded matrix otherwise. -/
def thetaOf (ro : RoundOracle) (k i j : Nat) : Rat :=
  ((ro.thetas.getD k []).getD i []).getD j 0

/-- replace the recorded MRFs of a round by the ones the model reconstructs from the raw solver
outputs (computed once, stored as rows). -/
def materialise (d : Nat) (ro : RoundOracle) : RoundOracle :=
  if ro.raws.isEmpty then ro else
  { ro with thetas := ro.raws.map fun v =>
      (List.range d).map fun i => (List.range d).map fun j => OptPhase.reconstruct ro.eps v i j }

/-- do the matrices the model reconstructs from the raw solver outputs equal the recorded MRFs (the
implementation's `train_inverse`) entry for entry?  `-` when no raw output was recorded. -/
def rawCheck (d : Nat) (rounds : List RoundOracle) : String :=
  if rounds.all (fun ro => ro.raws.isEmpty) then "-" else
  let bad := (List.range rounds.length).filter fun r =>
    let ro := rounds.getD r ⟨[], [], [], [], [], [], 0⟩
    !ro.raws.isEmpty && (materialise d ro).thetas != ro.thetas
  if bad.isEmpty then "rawok" else "rawdiff:" ++ showNats bad

def replayRun (T d K m limit : Nat) (half nwl : Rat) (betas : List Rat) (data : List (List Rat))
    (init : List Nat) (rounds : List RoundOracle) : String :=
  let inp : Run.Input Rat := ⟨T, d, K, m, matFn data, betas, half, nwl⟩
  let get (r : Nat) : RoundOracle := rounds.getD r ⟨[], [], [], [], [], [], 0⟩
  let orc : Run.Oracles Rat :=
    { theta := fun r k i j => thetaOf (get r) k i j
      logDet := fun r k => (get r).logdets.getD k 0
      spread := fun r k => (get r).spreads.getD k 0
      order := fun r => (get r).order
      pick := fun r => Repop.pickOfRecorded m (get r).picks }
  match Run.run inp orc limit init with
  | .ok o => s!"ok {o.rounds} " ++ showNatss (o.history.map (·.labels)) ++ " " ++ showRats (o.history.map (·.cost))
  | .error e => s!"err {e}"

/-- whole-result replay: the run of `replayRun` followed by the result assembly (`Final.report`).
Output: `ok rounds labels cost all total mean median clusterMeans clusterMedians params bic ch fitted`. -/
def replayFit (T d K m limit : Nat) (half nwl logT thr : Rat) (biased : Bool) (betas : List Rat)
    (data : List (List Rat)) (init : List Nat) (rounds0 : List RoundOracle) : String :=
  let inp : Run.Input Rat := ⟨T, d, K, m, matFn data, betas, half, nwl⟩
  let rounds := rounds0.map (materialise d)
  let get (r : Nat) : RoundOracle := rounds.getD r ⟨[], [], [], [], [], [], 0⟩
  let orc : Run.Oracles Rat :=
    { theta := fun r k i j => thetaOf (get r) k i j
      logDet := fun r k => (get r).logdets.getD k 0
      spread := fun r k => (get r).spreads.getD k 0
      order := fun r => (get r).order
      pick := fun r => Repop.pickOfRecorded m (get r).picks }
  match Run.run inp orc limit init with
  | .ok o =>
    let rep := Final.report inp orc logT thr biased o
    " ".intercalate [s!"ok {rep.rounds}", showNats rep.labels, showRat rep.cost, showRats rep.agg.all,
      showRat rep.agg.total, showRat rep.agg.mean, showRat rep.agg.median, showRats rep.agg.clusterMean,
      showRats rep.agg.clusterMedian, toString rep.params, showRat rep.bic, showRat rep.ch,
      showNats o.final.fitted, rawCheck d rounds0]
  | .error e => s!"err {e}"

/-- front-end replay: raw series in, per-series padded label lists out (`FrontEnd.single` / `FrontEnd.joint`).
Output: `ok rounds labelLists cost total bic ch`. -/
def replayFront (isJoint masked : Bool) (W K m limit : Nat) (half nwl logT thr : Rat) (biased : Bool)
    (betas : List Rat) (series : List (List (List Rat))) (init : List Nat) (rounds : List RoundOracle) : String :=
  let a : FrontEnd.Args Rat := ⟨W, K, m, limit, fun i => betas.getD i 0, biased, half, logT, thr, nwl⟩
  let get (r : Nat) : RoundOracle := rounds.getD r ⟨[], [], [], [], [], [], 0⟩
  let orc : Run.Oracles Rat :=
    { theta := fun r k i j => thetaOf (get r) k i j
      logDet := fun r k => (get r).logdets.getD k 0
      spread := fun r k => (get r).spreads.getD k 0
      order := fun r => (get r).order
      pick := fun r => Repop.pickOfRecorded m (get r).picks }
  let res := if isJoint then FrontEnd.joint masked a orc init series
             else FrontEnd.single a orc init (series.headD [])
  match res with
  | .ok o => " ".intercalate [s!"ok {o.report.rounds}", showIntss o.labels, showRat o.report.cost,
      showRat o.report.agg.total, showRat o.report.bic, showRat o.report.ch]
  | .error e => s!"err {e}"

def bad : String := "bad-op"

def opt (o : Option String) : String := o.getD bad

def step (line : String) : String :=
  match line.trimAscii.toString.splitOn " " with
  -- ---------------------------------------------------------------- C11
  | ["triu", n] => opt do
      let n ← parseNat? n
      pure (showPairs (Index.triuIdx n))
  | ["cidx", r, c, n] => opt do
      let r ← parseNat? r; let c ← parseNat? c; let n ← parseNat? n
      pure (match Index.compressedIndex? r c n with | some k => toString k | none => "err")
  | ["fullsize", m] => opt do
      let m ← parseNat? m
      pure (toString (Index.fullSize m))
  | ["compress", n, cells] => opt do
      let n ← parseNat? n; let l ← parseInts? cells
      pure (showInts (Index.compress (matOfList n l) n))
  | ["reinflate", v] => opt do
      let v ← parseInts? v
      let n := Index.fullSize v.length
      pure (s!"{n} " ++ showInts (listOfMat n (Index.reinflate v)))
  | ["blockstarts", b, N, W] => opt do
      let b ← parseNat? b; let N ← parseNat? N; let W ← parseNat? W
      pure (match Index.blockStarts? b N W with | some l => showPairs l | none => "err")
  | ["classes", N, W] => opt do
      let N ← parseNat? N; let W ← parseNat? W
      pure (showList (fun k : Nat × Nat × Nat => s!"{k.1}:{k.2.1}:{k.2.2}") "," (Index.classes N W))
  | ["positions", b, r, c, N, W] => opt do
      let b ← parseNat? b; let r ← parseNat? r; let c ← parseNat? c
      let N ← parseNat? N; let W ← parseNat? W
      let sl := Index.locSlices b r c N W
      pure (showPairs (Index.positions b r c N W) ++ " " ++ showNats (Index.locCompressed b r c N W)
            ++ " " ++ showNats sl.1 ++ " " ++ showNats sl.2)
  -- ---------------------------------------------------------------- C10 / C04 / C07
  | ["stack", W, rows] => opt do
      let W ← parseNat? W; let d ← parseIntss? rows
      pure (showIntss (Stack.stack d W))
  | ["stackmulti", W, series] => opt do
      let W ← parseNat? W; let s ← parseIntsss? series
      pure (showIntss (Stack.stackMulti s W))
  | ["mask", lens] => opt do
      let l ← parseNats? lens
      pure (showNats (Stack.maskTemplate l))
  | ["maskpinned", lens] => opt do
      let l ← parseNats? lens
      pure (showNats (Stack.maskTemplatePinned l))
  | ["seriesof", lens, i] => opt do
      let l ← parseNats? lens; let i ← parseNat? i
      pure (toString (Stack.seriesOf l i))
  | ["pad", W, labels] => opt do
      let W ← parseNat? W; let l ← parseInts? labels
      pure (showInts (Stack.padMissing l W))
  | ["split", lens, labels] => opt do
      let lens ← parseNats? lens; let l ← parseInts? labels
      pure (match Stack.splitJoint? l lens with | some p => showIntss p | none => "err")
  | ["splitpad", W, lens, labels] => opt do
      let W ← parseNat? W; let lens ← parseNats? lens; let l ← parseInts? labels
      pure (match Stack.splitJoint? l lens with
            | some _ => showIntss (Stack.splitAndPad l lens W) | none => "err")
  -- ---------------------------------------------------------------- C01
  | ["viterbi", K, mode, beta, rows] => opt do
      let K ← parseNat? K
      let rows ← parseRatss? rows
      let frows := rows.map Viterbi.rowOfList
      let pts ← (match mode with
        | "scalar" => do let b ← parseRat? beta; pure (Viterbi.withScalarBeta frows b)
        | "vector" => do let bs ← parseRats? beta; pure (Viterbi.withVectorBeta frows bs)
        | _ => none)
      if pts.length ≠ rows.length then none else
      let r := Viterbi.viterbiFast K pts
      pure (showNats r.1 ++ " " ++ showRat r.2)
  | ["totalcost", mode, beta, rows, labels] => opt do
      let rows ← parseRatss? rows
      let ls ← parseNats? labels
      let frows := rows.map Viterbi.rowOfList
      let pts ← (match mode with
        | "scalar" => do let b ← parseRat? beta; pure (Viterbi.withScalarBeta frows b)
        | "vector" => do let bs ← parseRats? beta; pure (Viterbi.withVectorBeta frows bs)
        | _ => none)
      pure (showRat (Viterbi.totalCost pts ls))
  -- ---------------------------------------------------------------- C06 / C16
  | ["assemble", K, labels, ll] => opt do
      let K ← parseNat? K; let labels ← parseInts? labels; let ll ← parseRats? ll
      let a := Result.assemble K labels ll
      pure (showRats a.all ++ " " ++ showRat a.total ++ " " ++ showRat a.mean ++ " " ++ showRat a.median
            ++ " " ++ showRats a.clusterMean ++ " " ++ showRats a.clusterMedian)
  | ["clusterlists", K, labels, ll] => opt do
      let K ← parseNat? K; let labels ← parseInts? labels; let ll ← parseRats? ll
      pure (showRatss (Result.clusterLists K labels ll) ++ " " ++ showRatss (Result.clusterListsPinned K labels ll))
  | ["runsparams", params, labels] => opt do
      let ps ← parseNats? params; let labels ← parseNats? labels
      pure (toString (Result.runsParams (fun k => ps.getD k 0) labels))
  | ["nnz", thr, rows] => opt do
      let t ← parseRat? thr; let rows ← parseRatss? rows
      pure (toString (Result.nnz t rows))
  | ["bicthreshold"] => some (showRat (mkRat Constants.bicThresholdNum Constants.bicThresholdDen)) |>.getD bad
  -- ---------------------------------------------------------------- C09 / C20
  | ["mainloop", limit, cyc, script, faultR, faultP] => opt do
      let limit ← parseNat? limit
      let script ← parseNats? script
      if script.isEmpty then none else
      let fault : Option (Nat × String) := (faultR.toNat?).map (fun r => (r, faultP))
      let P := scriptedPhases script (cyc == "1") fault
      let r := MainLoop.runWithPool true P (fun s => s.label) limit ⟨0, 1000000, []⟩
      let rp := MainLoop.runWithPool false P (fun s => s.label) limit ⟨0, 1000000, []⟩
      pure (match r.1 with
        | .ok o => s!"ok {o.rounds} {o.final.label} " ++ showList id "," o.final.trace ++ " "
                   ++ showNats (o.history.map (·.label)) ++ s!" {repr r.2} {repr rp.2}"
        | .error e => s!"err {e} {repr r.2} {repr rp.2}")
  | ["gather", tasks] => opt do
      -- tasks: comma list of `v<nat>` (value) or `e<nat>` (error)
      let ts ← (splitList tasks ",").mapM (fun t =>
        if t.startsWith "v" then (t.drop 1).toNat?.map (fun n => (Except.ok n : Except Nat Nat))
        else if t.startsWith "e" then (t.drop 1).toNat?.map (fun n => (Except.error n : Except Nat Nat))
        else none)
      pure (match MainLoop.gather ts with
        | .ok vs => "ok " ++ showNats vs
        | .error e => s!"err {e}")
  | ["complete", K, sched] => opt do
      let K ← parseNat? K; let sched ← parseNats? sched
      pure (showList (fun (o : Option Nat) => match o with | some v => toString v | none => "none") ","
              (MainLoop.complete (fun k => 100 + k) K sched))
  -- ---------------------------------------------------------------- C13 / C19
  | "heap" :: rep :: ops => (heapHistory (rep == "1") ops).getD bad
  -- ---------------------------------------------------------------- numeric (C02 C03 C05 C12 C17 C18)
  | ["softthr", a, b, c] => opt do
      let a ← parseRat? a; let b ← parseRat? b; let c ← parseRat? c
      pure (showRat (Numeric.softThreshold a b c))
  | ["lambdasum", kind, lam, b, r, c, N, W] => opt do
      let b ← parseNat? b; let r ← parseNat? r; let c ← parseNat? c
      let N ← parseNat? N; let W ← parseNat? W
      if kind == "scalar" then do
        let v ← parseRat? lam
        pure (showRat (Numeric.lambdaSum (.scalar v) b r c N W))
      else do
        let M ← parseRatss? lam
        pure (showRat (Numeric.lambdaSum (.matrix (matFn M)) b r c N W))
  | ["zupdate", rho, kind, lam, N, W, u, x] => opt do
      let rho ← parseRat? rho; let N ← parseNat? N; let W ← parseNat? W
      let u ← parseRats? u; let x ← parseRats? x
      let l ← (if kind == "scalar" then (parseRat? lam).map Numeric.Lambda.scalar
               else (parseRatss? lam).map (fun M => Numeric.Lambda.matrix (matFn M)))
      pure (showRats (Numeric.zUpdate rho l N W u x))
  | ["uupdate", u, x, z] => opt do
      let u ← parseRats? u; let x ← parseRats? x; let z ← parseRats? z
      pure (showRats (Numeric.uUpdate u x z))
  | ["stoprule", args] => opt do
      let a ← parseRats? args
      match a with
      | [sq, at_, rt, nx, nz, nu, rp, rd] =>
        let slack := mkRat Constants.convSlackNum Constants.convSlackDen
        pure (toString (Numeric.stopRule sq at_ rt slack nx nz nu rp rd))
      | _ => none
  | ["floor", eps, xs] => opt do
      let eps ← parseRat? eps; let xs ← parseRats? xs
      pure (showRats (xs.map (Numeric.floorFilter eps)))
  | ["eigfloat", rho, d] => opt do
      let rho ← parseFloat? rho; let d ← parseFloat? d
      let p := Numeric.eigPinned Float.sqrt rho d
      let r := Numeric.eigRepaired Float.sqrt rho d
      pure (s!"{decide (p > 0.0)} {decide (r > 0.0)} {p.toBits.toNat} {r.toBits.toNat}")
  | ["quadform", n, theta, d] => opt do
      let n ← parseNat? n; let th ← parseRatss? theta; let d ← parseRats? d
      pure (showRat (Numeric.quadForm n (matFn th) (vecFn d)))
  | ["loglik", n, logdet, nwlog, theta, mu, x] => opt do
      let n ← parseNat? n; let ld ← parseRat? logdet; let nl ← parseRat? nwlog
      let th ← parseRatss? theta; let mu ← parseRats? mu; let x ← parseRats? x
      pure (showRat (Numeric.logLik n (1/2) ld nl (matFn th) (vecFn mu) (vecFn x)))
  | ["clusterstats", biased, d, members, data] => opt do
      let d ← parseNat? d; let mem ← parseNats? members; let rows ← parseRatss? data
      let f := matFn rows
      let mean := (List.range d).map (Numeric.clusterMean f mem)
      let cov := (List.range d).map (fun a => (List.range d).map (fun b =>
        Numeric.clusterCov f mem (biased == "1") a b))
      pure (showRats mean ++ " " ++ showRatss cov)
  | ["ch", T, K, d, members, means, data] => opt do
      let T ← parseNat? T; let K ← parseNat? K; let d ← parseNat? d
      let mem ← parseNatss? members; let means ← parseRatss? means; let rows ← parseRatss? data
      let memF : Nat → List Nat := fun k => mem.getD k []
      let B0 := Numeric.between K d (fun k => (memF k).length) (matFn means) (fun _ => Numeric.scalarMean T d (matFn rows))
      let B1 := Numeric.between K d (fun k => (memF k).length) (matFn means) (Numeric.centroid T (matFn rows))
      let Wd := Numeric.within K d memF (matFn means) (matFn rows)
      pure (showRat (Numeric.chPinned T K d memF (matFn means) (matFn rows)) ++ " "
            ++ showRat (Numeric.chSpec T K d memF (matFn means) (matFn rows)) ++ " "
            ++ showRat B0 ++ " " ++ showRat B1 ++ " " ++ showRat Wd)
  | ["replaysolve", rho, kind, lam, N, W, maxIter, sqrtN, absTol, relTol, xs, norms] => opt do
      -- whole-solve replay: X outputs and norms per sweep are oracles; Z, U, the rule and the loop are computed
      let rho ← parseRat? rho; let N ← parseNat? N; let W ← parseNat? W; let maxIter ← parseNat? maxIter
      let sqrtN ← parseRat? sqrtN; let absTol ← parseRat? absTol; let relTol ← parseRat? relTol
      let xs ← parseRatss? xs; let ns ← parseRatss? norms
      let l ← (if kind == "scalar" then (parseRat? lam).map Numeric.Lambda.scalar
               else (parseRatss? lam).map (fun M => Numeric.Lambda.matrix (matFn M)))
      let slack := mkRat Constants.convSlackNum Constants.convSlackDen
      let orc : AdmmSolve.Oracles Rat :=
        { x := fun i => xs.getD i []
          norms := fun i => match ns.getD i [] with
            | [a, b, c, d, e] => ⟨a, b, c, d, e⟩
            | _ => ⟨0, 0, 0, 0, 0⟩ }
      let n := N * W
      let r := AdmmSolve.solve rho l N W maxIter sqrtN absTol relTol slack orc (n * (n + 1) / 2)
      pure (s!"{r.2} " ++ showRats r.1.x ++ " " ++ showRats r.1.z ++ " " ++ showRats r.1.u)
  | ["admmloop", maxIter, stops] => opt do
      -- scripted stopping rule: `stops[k]` is the rule's verdict after sweep k+1
      let m ← parseNat? maxIter; let st ← parseNats? stops
      let r := MainLoop.admmRun (fun s : MainLoop.Admm Nat => ⟨s.x + 1, s.x + 1, s.u⟩)
        (fun s' _ => st.getD (s'.x - 1) 0 == 1) (fun s _ => s) m 0
      pure s!"{r.1} {r.2}"
  -- ---------------------------------------------------------------- whole-run replay
  | ["replayrun", T, d, K, m, limit, half, nwl, betas, data, init, rounds] => opt do
      let T ← parseNat? T; let d ← parseNat? d; let K ← parseNat? K; let m ← parseNat? m; let limit ← parseNat? limit
      let half ← parseRat? half; let nwl ← parseRat? nwl
      let betas ← parseRats? betas; let data ← parseRatss? data; let init ← parseNats? init
      let rs ← (splitList rounds "@").mapM parseRound?
      pure (replayRun T d K m limit half nwl betas data init rs)
  | ["replayfit", T, d, K, m, limit, half, nwl, logT, thr, biased, betas, data, init, rounds] => opt do
      let T ← parseNat? T; let d ← parseNat? d; let K ← parseNat? K; let m ← parseNat? m; let limit ← parseNat? limit
      let half ← parseRat? half; let nwl ← parseRat? nwl; let logT ← parseRat? logT; let thr ← parseRat? thr
      let biased ← parseNat? biased
      let betas ← parseRats? betas; let data ← parseRatss? data; let init ← parseNats? init
      let rs ← (splitList rounds "@").mapM parseRound?
      pure (replayFit T d K m limit half nwl logT thr (biased != 0) betas data init rs)
  | ["replayfront", jn, msk, W, K, m, limit, half, nwl, logT, thr, biased, betas, series, init, rounds] => opt do
      let jn ← parseNat? jn; let msk ← parseNat? msk
      let W ← parseNat? W; let K ← parseNat? K; let m ← parseNat? m; let limit ← parseNat? limit
      let half ← parseRat? half; let nwl ← parseRat? nwl; let logT ← parseRat? logT; let thr ← parseRat? thr
      let biased ← parseNat? biased
      let betas ← parseRats? betas; let series ← parseListWith parseRatss? "|" series; let init ← parseNats? init
      let rs ← (splitList rounds "@").mapM parseRound?
      pure (replayFront (jn != 0) (msk != 0) W K m limit half nwl logT thr (biased != 0) betas series init rs)
  -- ---------------------------------------------------------------- C08
  | ["repop", K, m, spreads, order, recorded, labels] => opt do
      let K ← parseNat? K; let m ← parseNat? m
      let sp ← parseRats? spreads
      let order ← parseNats? order
      let rec ← parseNatss? recorded
      let labels ← parseNats? labels
      let spread : Nat → Rat := fun k => sp.getD k 0
      let pick := Repop.pickOfRecorded m rec
      let donors := Repop.donorsUsed K m spread pick order labels
      pure (match Repop.repopulate K m spread pick order labels with
        | some l => "ok " ++ showNats l ++ " " ++ showNats donors
        | none => "err - " ++ showNats donors)
  -- ---------------------------------------------------------------- the TRANSLATED functions (Generated/Kernels.lean)
  | "gen" :: name :: args => (GenExec.run name args).getD "unavailable"
  | ["needy", K, labels] => opt do
      let K ← parseNat? K; let labels ← parseNats? labels
      pure (showNats (Repop.needy K labels))
  | _ => bad

partial def loop (h : IO.FS.Stream) (out : IO.FS.Stream) : IO Unit := do
  let line ← h.getLine
  if line.isEmpty then return ()
  out.putStrLn (step line)
  loop h out

def main : IO Unit := do
  let out ← IO.getStdout
  loop (← IO.getStdin) out
  out.flush

/-
Model driver: one operation per input line, one canonical output line per operation.
Run with `lake exe driver` (compiled; the model files are Mathlib-free) or
`lake env lean --run Driver.lean`.
-/
import FastTicc.Model.Proto
import FastTicc.Model.Index
import FastTicc.Model.Stack
import FastTicc.Model.Viterbi
import FastTicc.Model.Repop
import FastTicc.Model.Result
import FastTicc.Model.MainLoop
import FastTicc.Model.Numeric
import FastTicc.Model.Heap

open FastTicc FastTicc.Proto

def matOfList (n : Nat) (l : List Int) : Nat → Nat → Int := fun r c => l.getD (r * n + c) 0
def listOfMat (n : Nat) (M : Nat → Nat → Int) : List Int :=
  (List.range n).flatMap fun r => (List.range n).map fun c => M r c

def bad : String := "bad-op"

def opt (o : Option String) : String := o.getD bad

def step (line : String) : String :=
  match line.trimAscii.toString.splitOn " " with
  -- ---------------------------------------------------------------- C11
  | ["triu", n] => opt do
      let n ← parseNat? n
      pure (showPairs (Index.triuIdx n))
  | ["cidx", r, c, n] => opt do
      let r ← parseNat? r; let c ← parseNat? c; let n ← parseNat? n
      pure (match Index.compressedIndex? r c n with | some k => toString k | none => "err")
  | ["fullsize", m] => opt do
      let m ← parseNat? m
      pure (toString (Index.fullSize m))
  | ["compress", n, cells] => opt do
      let n ← parseNat? n; let l ← parseInts? cells
      pure (showInts (Index.compress (matOfList n l) n))
  | ["reinflate", v] => opt do
      let v ← parseInts? v
      let n := Index.fullSize v.length
      pure (s!"{n} " ++ showInts (listOfMat n (Index.reinflate v)))
  | ["blockstarts", b, N, W] => opt do
      let b ← parseNat? b; let N ← parseNat? N; let W ← parseNat? W
      pure (match Index.blockStarts? b N W with | some l => showPairs l | none => "err")
  | ["classes", N, W] => opt do
      let N ← parseNat? N; let W ← parseNat? W
      pure (showList (fun k : Nat × Nat × Nat => s!"{k.1}:{k.2.1}:{k.2.2}") "," (Index.classes N W))
  | ["positions", b, r, c, N, W] => opt do
      let b ← parseNat? b; let r ← parseNat? r; let c ← parseNat? c
      let N ← parseNat? N; let W ← parseNat? W
      let sl := Index.locSlices b r c N W
      pure (showPairs (Index.positions b r c N W) ++ " " ++ showNats (Index.locCompressed b r c N W)
            ++ " " ++ showNats sl.1 ++ " " ++ showNats sl.2)
  -- ---------------------------------------------------------------- C10 / C04 / C07
  | ["stack", W, rows] => opt do
      let W ← parseNat? W; let d ← parseIntss? rows
      pure (showIntss (Stack.stack d W))
  | ["stackmulti", W, series] => opt do
      let W ← parseNat? W; let s ← parseIntsss? series
      pure (showIntss (Stack.stackMulti s W))
  | ["mask", lens] => opt do
      let l ← parseNats? lens
      pure (showNats (Stack.maskTemplate l))
  | ["maskpinned", lens] => opt do
      let l ← parseNats? lens
      pure (showNats (Stack.maskTemplatePinned l))
  | ["seriesof", lens, i] => opt do
      let l ← parseNats? lens; let i ← parseNat? i
      pure (toString (Stack.seriesOf l i))
  | ["pad", W, labels] => opt do
      let W ← parseNat? W; let l ← parseInts? labels
      pure (showInts (Stack.padMissing l W))
  | ["split", lens, labels] => opt do
      let lens ← parseNats? lens; let l ← parseInts? labels
      pure (match Stack.splitJoint? l lens with | some p => showIntss p | none => "err")
  | ["splitpad", W, lens, labels] => opt do
      let W ← parseNat? W; let lens ← parseNats? lens; let l ← parseInts? labels
      pure (match Stack.splitJoint? l lens with
            | some _ => showIntss (Stack.splitAndPad l lens W) | none => "err")
  -- ---------------------------------------------------------------- C01
  | ["viterbi", K, mode, beta, rows] => opt do
      let K ← parseNat? K
      let rows ← parseRatss? rows
      let frows := rows.map Viterbi.rowOfList
      let pts ← (match mode with
        | "scalar" => do let b ← parseRat? beta; pure (Viterbi.withScalarBeta frows b)
        | "vector" => do let bs ← parseRats? beta; pure (Viterbi.withVectorBeta frows bs)
        | _ => none)
      if pts.length ≠ rows.length then none else
      let r := Viterbi.viterbiFast K pts
      pure (showNats r.1 ++ " " ++ showRat r.2)
  | ["totalcost", mode, beta, rows, labels] => opt do
      let rows ← parseRatss? rows
      let ls ← parseNats? labels
      let frows := rows.map Viterbi.rowOfList
      let pts ← (match mode with
        | "scalar" => do let b ← parseRat? beta; pure (Viterbi.withScalarBeta frows b)
        | "vector" => do let bs ← parseRats? beta; pure (Viterbi.withVectorBeta frows bs)
        | _ => none)
      pure (showRat (Viterbi.totalCost pts ls))
  -- ---------------------------------------------------------------- C06 / C16
  | ["assemble", K, labels, ll] => opt do
      let K ← parseNat? K; let labels ← parseInts? labels; let ll ← parseRats? ll
      let a := Result.assemble K labels ll
      pure (showRats a.all ++ " " ++ showRat a.total ++ " " ++ showRat a.mean ++ " " ++ showRat a.median
            ++ " " ++ showRats a.clusterMean ++ " " ++ showRats a.clusterMedian)
  | ["clusterlists", K, labels, ll] => opt do
      let K ← parseNat? K; let labels ← parseInts? labels; let ll ← parseRats? ll
      pure (showRatss (Result.clusterLists K labels ll) ++ " " ++ showRatss (Result.clusterListsPinned K labels ll))
  | ["runsparams", params, labels] => opt do
      let ps ← parseNats? params; let labels ← parseNats? labels
      pure (toString (Result.runsParams (fun k => ps.getD k 0) labels))
  | ["nnz", thr, rows] => opt do
      let t ← parseRat? thr; let rows ← parseRatss? rows
      pure (toString (Result.nnz t rows))
  | ["bicthreshold"] => some (showRat (mkRat Constants.bicThresholdNum Constants.bicThresholdDen)) |>.getD bad
  -- ---------------------------------------------------------------- C08
  | ["repop", K, m, spreads, order, recorded, labels] => opt do
      let K ← parseNat? K; let m ← parseNat? m
      let sp ← parseRats? spreads
      let order ← parseNats? order
      let rec ← parseNatss? recorded
      let labels ← parseNats? labels
      let spread : Nat → Rat := fun k => sp.getD k 0
      let pick := Repop.pickOfRecorded m rec
      let donors := Repop.donorsUsed K m spread pick order labels
      pure (match Repop.repopulate K m spread pick order labels with
        | some l => "ok " ++ showNats l ++ " " ++ showNats donors
        | none => "err - " ++ showNats donors)
  | ["needy", K, labels] => opt do
      let K ← parseNat? K; let labels ← parseNats? labels
      pure (showNats (Repop.needy K labels))
  | _ => bad

partial def loop (h : IO.FS.Stream) (out : IO.FS.Stream) : IO Unit := do
  let line ← h.getLine
  if line.isEmpty then return ()
  out.putStrLn (step line)
  loop h out

def main : IO Unit := do
  let out ← IO.getStdout
  loop (← IO.getStdin) out
  out.flush

/-
Model of `fast_ticc/cluster_maintenance.py:89-230` (property C08).  Core Lean only.

A labelling is a `List Nat`; cluster `k`'s member list is the sorted list of indices
with label `k` (what the label setter derives, C13).  `spread k` is
`np.linalg.norm(cluster.computed_covariance)`; `pick step n` is the result of
`random.sample(range(n), m)` at refill number `step`; `order` is the order in which
Python iterates the `set` of needy clusters.
-/
import FastTicc.Generated.Constants

namespace FastTicc.Repop
open FastTicc.Constants

/-- `cluster.size`. -/
def size (labels : List Nat) (k : Nat) : Nat := labels.count k

/-- `cluster.member_points` (sorted). -/
def members (labels : List Nat) (k : Nat) : List Nat :=
  (List.range labels.length).filter (fun i => labels[i]? == some k)

/-- clusters with `size < 2`, in index order. -/
def needy (K : Nat) (labels : List Nat) : List Nat :=
  (List.range K).filter (fun k => size labels k < emptyBelow)

section
variable {α : Type} [LT α] [DecidableLT α]

/-- stable insertion for `sorted(ids, key=spread, reverse=True)`: ties keep index order. -/
def insertDesc (spread : Nat → α) (x : Nat) : List Nat → List Nat
  | [] => [x]
  | y :: ys => if spread x < spread y then y :: insertDesc spread x ys else x :: y :: ys

/-- `_find_ranked_donor_cluster_ids`: clusters with `size ≥ 2m`, by decreasing spread. -/
def rankedDonors (spread : Nat → α) (K m : Nat) (labels : List Nat) : List Nat :=
  ((List.range K).filter (fun i => donorFactor * m ≤ size labels i)).foldr (insertDesc spread) []
end

/-- `_find_point_donor`, literally — including the `pop()` of the *last* element when the
*first* one is too small.  `none` is the `RuntimeError`. -/
def findDonor (sz : Nat → Nat) (m : Nat) (remaining : List Nat) : Option (Nat × List Nat) :=
  match remaining with
  | [] => none
  | d :: rest =>
    if donorFactorFind * m ≤ sz d then
      if sz d < retireFactor * m then some (d, rest) else some (d, d :: rest)
    else findDonor sz m (d :: rest).dropLast
termination_by remaining.length
decreasing_by simp [List.length_dropLast]

/-- relabel the given points. -/
def setLabels (labels : List Nat) (pts : List Nat) (k : Nat) : List Nat :=
  pts.foldl (fun l p => l.set p k) labels

/-- `_move_random_points`: the drawn positions index the donor's member list. -/
def movePoints (labels : List Nat) (donor recipient : Nat) (choice : List Nat) : List Nat :=
  setLabels labels (choice.map (fun i => (members labels donor).getD i 0)) recipient

/-- the recipient loop (lines 108-115); `s` counts refills. -/
def refill (m : Nat) (pick : Nat → Nat → List Nat) :
    List Nat → List Nat → List Nat → Nat → Option (List Nat)
  | [], _, labels, _ => some labels
  | e :: es, rem, labels, s =>
    match findDonor (size labels) m rem with
    | none => none
    | some (d, rem') =>
      refill m pick es rem' (movePoints labels d e (pick s (size labels d))) (s + 1)

/-- same loop, also reporting the donor used at every refill (for the donor-order clause). -/
def refillDonors (m : Nat) (pick : Nat → Nat → List Nat) :
    List Nat → List Nat → List Nat → Nat → List Nat
  | [], _, _, _ => []
  | e :: es, rem, labels, s =>
    match findDonor (size labels) m rem with
    | none => []
    | some (d, rem') =>
      d :: refillDonors m pick es rem' (movePoints labels d e (pick s (size labels d))) (s + 1)

/-- `repopulate_empty_clusters`.  `none` = `RuntimeError` (no donor). -/
def repopulate {α : Type} [LT α] [DecidableLT α] (K m : Nat) (spread : Nat → α)
    (pick : Nat → Nat → List Nat) (order : List Nat) (labels : List Nat) : Option (List Nat) :=
  if needy K labels = [] then some labels
  else refill m pick order (rankedDonors spread K m labels) labels 0

def donorsUsed {α : Type} [LT α] [DecidableLT α] (K m : Nat) (spread : Nat → α)
    (pick : Nat → Nat → List Nat) (order : List Nat) (labels : List Nat) : List Nat :=
  if needy K labels = [] then []
  else refillDonors m pick order (rankedDonors spread K m labels) labels 0

/-- an admissible `random.sample(range(n), m)`: `m` distinct positions `< n`. -/
def ValidPick (m : Nat) (pick : Nat → Nat → List Nat) : Prop :=
  ∀ s n, m ≤ n → (pick s n).length = m ∧ (pick s n).Nodup ∧ ∀ x ∈ pick s n, x < n

/-- driver helper: use the recorded draw when admissible, else the first `m` positions. -/
def pickOfRecorded (m : Nat) (rec : List (List Nat)) : Nat → Nat → List Nat := fun s n =>
  let c := rec.getD s []
  if c.length = m ∧ c.Nodup ∧ c.all (· < n) then c else List.range m

end FastTicc.Repop

namespace FastTicc.Repop

/-- the recipient loop again, also returning the working labelling at the moment it stops
(`true` = all recipients served, `false` = `RuntimeError`: no donor found). -/
def refillTrace (m : Nat) (pick : Nat → Nat → List Nat) :
    List Nat → List Nat → List Nat → Nat → List Nat × Bool
  | [], _, labels, _ => (labels, true)
  | e :: es, rem, labels, s =>
    match findDonor (size labels) m rem with
    | none => (labels, false)
    | some (d, rem') =>
      refillTrace m pick es rem' (movePoints labels d e (pick s (size labels d))) (s + 1)

end FastTicc.Repop

/-
The two front ends (`front_end.ticc_labels`, `front_end.ticc_joint_labels`) composed from the
per-phase models: window stacking (`Stack.stack` / `Stack.stackMulti`), the whole fit
(`Final.fit` = main loop + result assembly), label splitting and padding (`Stack.splitJoint`,
`Stack.padMissing`) and — for the joint front end — the series-boundary mask of the switching cost
(`Stack.maskTemplate`).  Core Lean only.

`masked = false` is the joint front end as the code is (the masked switching cost is computed after
the argument bundle was built, so the kernel receives the caller's switching cost unchanged — known
finding K1); `masked = true` is the documented behaviour (the kernel receives `beta * mask`).
-/
import FastTicc.Model.Stack
import FastTicc.Model.Final

namespace FastTicc.FrontEnd
open FastTicc

/-- what the caller passes besides the data. -/
structure Args (α : Type) where
  W : Nat
  K : Nat
  m : Nat
  limit : Nat
  beta : Nat → α              -- per-pair switching cost (a scalar is the constant function)
  biased : Bool
  half : α
  logT : α
  thr : α
  nwLog2pi : α

/-- a result: everything `Final.report` holds, with the label lists the caller sees. -/
structure Out (α : Type) where
  report : Final.Report α
  labels : List (List Int)    -- one padded list per input series (one list for the single front end)

section
variable {α : Type} [Add α] [Sub α] [Mul α] [Div α] [Neg α] [Zero α] [NatCast α]
  [LT α] [DecidableLT α] [LE α] [DecidableLE α]

/-- rows of a stacked array as the `Nat → Nat → α` view the run model reads. -/
def dataFn (rows : List (List α)) : Nat → Nat → α := fun i j => (rows.getD i []).getD j 0

/-- the run input the main loop receives from a front end. -/
def runInput (a : Args α) (stacked : List (List α)) (betas : List α) : Run.Input α :=
  { T := stacked.length
    d := (stacked.headD []).length
    K := a.K
    m := a.m
    data := dataFn stacked
    betas := betas
    half := a.half
    nwLog2pi := a.nwLog2pi }

/-- `ticc_labels`: stack, fit, pad. -/
def single (a : Args α) (orc : Run.Oracles α) (init : List Nat) (data : List (List α)) :
    Except String (Out α) :=
  let stacked := Stack.stack data a.W
  let betas := (List.range stacked.length).map a.beta
  match Final.fit (runInput a stacked betas) orc a.logT a.thr a.biased a.limit init with
  | .ok rep => .ok ⟨rep, [Stack.padMissing (rep.labels.map Int.ofNat) a.W]⟩
  | .error e => .error e

/-- the switching cost that reaches the kernel in a joint run. -/
def jointBetas (masked : Bool) (a : Args α) (lens : List Nat) : List α :=
  let mask := Stack.maskTemplate lens
  (List.range lens.sum).map fun i =>
    if masked then a.beta i * ((mask.getD i 1 : Nat) : α) else a.beta i

/-- `ticc_joint_labels`: stack every series on its own, concatenate, fit once, split, pad each. -/
def joint (masked : Bool) (a : Args α) (orc : Run.Oracles α) (init : List Nat)
    (series : List (List (List α))) : Except String (Out α) :=
  let stacked := Stack.stackMulti series a.W
  let lens := series.map (fun s => Stack.stackedLen s.length a.W)
  match Final.fit (runInput a stacked (jointBetas masked a lens)) orc a.logT a.thr a.biased a.limit init with
  | .ok rep => .ok ⟨rep, Stack.splitAndPad (rep.labels.map Int.ofNat) lens a.W⟩
  | .error e => .error e
end

end FastTicc.FrontEnd

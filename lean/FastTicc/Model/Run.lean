/-
Whole-run model: the per-phase models (`Repop`, `Numeric.clusterMean`, `Numeric.logLikTable`,
`Viterbi`) plugged into the main-loop model (`MainLoop.run`).  Core Lean only.

What the model does NOT compute is supplied as oracles, recorded from the real run when a history
is replayed: the ADMM output of every (round, cluster) (`theta`, `logDet`), the iteration order of
the needy set and the `random.sample` draws of every repopulation, and the donor ranking key
(`spread`).  Everything else — membership, means, the cost table, the labelling, the loop — is
computed by the model.
-/
import FastTicc.Model.MainLoop
import FastTicc.Model.Repop
import FastTicc.Model.Viterbi
import FastTicc.Model.Numeric

namespace FastTicc.Run
open FastTicc

structure Input (α : Type) where
  T : Nat                       -- stacked windows
  d : Nat                       -- N * W
  K : Nat
  m : Nat                       -- min_cluster_size
  data : Nat → Nat → α
  betas : List α                -- per-pair switching cost (length T; scalar beta = replicate)
  half : α
  nwLog2pi : α

structure Oracles (α : Type) where
  theta : Nat → Nat → Nat → Nat → α      -- round, cluster, i, j
  logDet : Nat → Nat → α                 -- round, cluster
  spread : Nat → Nat → α                 -- round, cluster
  order : Nat → List Nat                 -- round ↦ iteration order of the needy clusters
  pick : Nat → Nat → Nat → List Nat      -- round, refill step, donor size ↦ drawn positions

structure St (α : Type) where
  labels : List Nat
  round : Nat
  cost : α
  means : List (List α)                  -- K rows of d entries (the array of cluster means)
  fitted : List Nat                      -- the labelling the current means / MRFs were fitted to

section
variable {α : Type} [Add α] [Sub α] [Mul α] [Div α] [Neg α] [Zero α] [NatCast α] [LT α] [DecidableLT α]

/-- `means[k][j]` with the array's bounds made explicit. -/
def meanOf (s : St α) (k j : Nat) : α := (s.means.getD k []).getD j 0

/-- the cost table the relabel phase hands to the kernel: minus the log-likelihood of every window
under every cluster's (mean, MRF) — one stored row of `K` entries per window (as the NumPy table is),
paired with that pair's switching cost. -/
def costPoints (inp : Input α) (orc : Oracles α) (s : St α) : List ((Nat → α) × α) :=
  (List.range inp.T).map fun p =>
    let row := (List.range inp.K).map fun k =>
      - Numeric.logLik inp.d inp.half (orc.logDet s.round k) inp.nwLog2pi
          (orc.theta s.round k) (meanOf s k) (inp.data p)
    (Viterbi.rowOfList row, inp.betas.getD p 0)

/-- the statistics phase's mean table: for every cluster the mean of exactly its member windows. -/
def meanTable (inp : Input α) (labels : List Nat) : List (List α) :=
  (List.range inp.K).map fun k =>
    (List.range inp.d).map fun j => Numeric.clusterMean inp.data (Repop.members labels k) j

/-- some cluster holds no window: `update_cluster_member_data_statistics` asserts `cluster.size > 0`
(cluster_maintenance.py:255), so the statistics phase fails on such a labelling. -/
def hasEmpty (K : Nat) (labels : List Nat) : Bool :=
  (List.range K).any (fun k => Repop.size labels k == 0)

def phases (inp : Input α) (orc : Oracles α) : MainLoop.Phases (St α) String where
  repop := fun s =>
    match Repop.repopulate inp.K inp.m (orc.spread s.round) (orc.pick s.round) (orc.order s.round) s.labels with
    | some l => .ok { s with labels := l }
    | none => .error "no-donor"
  stats := fun s =>
    if hasEmpty inp.K s.labels then .error "empty-cluster"
    else .ok { s with means := meanTable inp s.labels, fitted := s.labels }
  opt := fun s => .ok s
  relabel := fun s =>
    let r := Viterbi.viterbiFast inp.K (costPoints inp orc s)
    .ok { s with labels := r.1, cost := r.2, round := s.round + 1 }

/-- `fit_stacked_data` from the initial (mixture-model) labelling on. -/
def run (inp : Input α) (orc : Oracles α) (limit : Nat) (init : List Nat) :
    Except String (MainLoop.Outcome (St α)) :=
  MainLoop.run (phases inp orc) (fun s => s.labels) limit ⟨init, 0, 0, [], []⟩
end

end FastTicc.Run

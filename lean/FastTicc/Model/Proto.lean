/-
Line-protocol helpers for the model driver.  Core Lean only.

Tokens are separated by single spaces.  Lists: `,`-separated (`-` = empty list);
lists of lists: `;`-separated; third level: `|`-separated.  Numbers: integers or
`num/den` rationals.
-/
namespace FastTicc.Proto

def splitList (s : String) (sep : String) : List String :=
  if s = "-" || s = "" then [] else s.splitOn sep

def parseNat? (s : String) : Option Nat := s.toNat?
def parseInt? (s : String) : Option Int := s.toInt?

def parseRat? (s : String) : Option Rat :=
  match s.splitOn "/" with
  | [a] => (a.toInt?).map (fun n => (n : Rat))
  | [a, b] => do
    let n ← a.toInt?
    let d ← b.toNat?
    if d = 0 then none else some (mkRat n d)
  | _ => none

def parseListWith {β} (f : String → Option β) (sep : String) (s : String) : Option (List β) :=
  (splitList s sep).mapM f

def parseNats? := parseListWith parseNat? ","
def parseInts? := parseListWith parseInt? ","
def parseRats? := parseListWith parseRat? ","
def parseNatss? := parseListWith parseNats? ";"
def parseIntss? := parseListWith parseInts? ";"
def parseRatss? := parseListWith parseRats? ";"
def parseIntsss? := parseListWith parseIntss? "|"

def showRat (q : Rat) : String :=
  if q.den = 1 then toString q.num else s!"{q.num}/{q.den}"

def showList {β} (f : β → String) (sep : String) (l : List β) : String :=
  if l.isEmpty then "-" else sep.intercalate (l.map f)

def showNats (l : List Nat) : String := showList toString "," l
def showInts (l : List Int) : String := showList toString "," l
def showRats (l : List Rat) : String := showList showRat "," l
def showNatss (l : List (List Nat)) : String := showList showNats ";" l
def showIntss (l : List (List Int)) : String := showList showInts ";" l
def showRatss (l : List (List Rat)) : String := showList showRats ";" l
def showPairs (l : List (Nat × Nat)) : String := showList (fun p => s!"{p.1}:{p.2}") "," l

end FastTicc.Proto

/-
Support library for the TRANSLATED kernels (`Generated/Kernels.lean`, written by
`harness/py2lean.py` from the Python AST of `$REPO/src/fast_ticc` on every run).

Each definition here is the meaning the translator gives to one Python / NumPy primitive.
Python `int` is `Int`; the result of `/` on two ints is an exact `Rat` (Python: a double — exact
while the operands stay below 2^53, trusted-base item "true division"); a Python `float` that is
only added, subtracted and compared is an arbitrary scalar type `α`.

What is NOT modelled (the translated function is total where Python raises): an out-of-range
index (`IndexError`) reads the default / writes nothing; a shape mismatch in a slice assignment.
The correspondence run of the translated code against the implementation covers those.
Core Lean only (this file is linked into the compiled driver).
-/
namespace FastTicc.Py

/-! ### ranges and loops -/

/-- number of elements of `range(start, stop, step)` -/
def rangeLen (start stop step : Int) : Nat :=
  if 0 < step then ((stop - start + step - 1) / step).toNat
  else if step < 0 then ((start - stop + (-step) - 1) / (-step)).toNat
  else 0

/-- `range(start, stop, step)` -/
def range (start stop step : Int) : List Int :=
  (List.range (rangeLen start stop step)).map (fun (k : Nat) => start + step * (k : Int))

/-- `for i in range(start, stop, step): body` with the loop-carried variables as state -/
def forRange {σ} (start stop step : Int) (init : σ) (body : Int → σ → σ) : σ :=
  (range start stop step).foldl (fun s i => body i s) init

/-- `for x in xs: body` -/
def forEach {β σ} (xs : List β) (init : σ) (body : β → σ → σ) : σ :=
  xs.foldl (fun s x => body x s) init

/-! ### ints, true division, `int()` -/

/-- `a / b` on Python ints: an exact rational (a double in Python). -/
def trueDiv (a b : Int) : Rat := (a : Rat) / (b : Rat)

/-- `int(x)`: truncation toward zero -/
def intOfRat (x : Rat) : Int := if 0 ≤ x then x.floor else x.ceil

/-- Python `max(a, b)` / `min(a, b)` of two numbers: the first argument wins ties -/
def max2 {α} [LT α] [DecidableLT α] (a b : α) : α := if a < b then b else a
def min2 {α} [LT α] [DecidableLT α] (a b : α) : α := if b < a then b else a

/-- `len(l)` -/
def len {α} (l : List α) : Int := (l.length : Int)

/-! ### lists -/

/-- Python index normalisation: a negative index counts from the end. -/
def idx (n : Nat) (i : Int) : Nat := if i < 0 then ((n : Int) + i).toNat else i.toNat

/-- `l[i]` -/
def getItem {α} [Inhabited α] (l : List α) (i : Int) : α := l.getD (idx l.length i) default

/-- `l[i]` on a list of scalars -/
def getItemZ {α} [Zero α] (l : List α) (i : Int) : α := l.getD (idx l.length i) 0

/-- `l[i] = v` -/
def setItem {α} (l : List α) (i : Int) (v : α) : List α := l.set (idx l.length i) v

/-- slice bound normalisation: negative counts from the end, then clamp to `[0, n]`. -/
def sliceBound (n : Nat) (i : Int) : Nat :=
  if i < 0 then ((n : Int) + i).toNat else min i.toNat n

/-- `l[a:b]` -/
def slice {α} (l : List α) (a b : Int) : List α :=
  (l.drop (sliceBound l.length a)).take (sliceBound l.length b - sliceBound l.length a)

/-- `[x] * n` / `l * n` -/
def repeatList {α} (l : List α) (n : Int) : List α := (List.replicate n.toNat l).flatten

/-- `sum(l)` on ints -/
def sum (l : List Int) : Int := l.foldl (· + ·) 0

/-- `list(itertools.accumulate(l))` -/
def accumulateFrom (acc : Int) : List Int → List Int
  | [] => []
  | x :: xs => (acc + x) :: accumulateFrom (acc + x) xs

def accumulate (l : List Int) : List Int := accumulateFrom 0 l

/-- `l.pop()` as a statement (the popped value is discarded) -/
def popLast {α} (l : List α) : List α := l.dropLast

/-- `l.append(x)` -/
def append {α} (l : List α) (x : α) : List α := l ++ [x]

/-- `l.pop(0)` -/
def popFirst {α} (l : List α) : List α := l.tail

/-- `while cond: body`, where the body may `return` (`Sum.inl v`) or fall through with a new state (`Sum.inr s`); `none`
when the fuel runs out -/
def whileRet {σ ρ} : Nat → (σ → Bool) → (σ → Sum ρ σ) → σ → Option (Sum ρ σ)
  | 0, _, _, _ => none
  | n + 1, cond, body, s =>
    if cond s then
      match body s with
      | .inl r => some (.inl r)
      | .inr s' => whileRet n cond body s'
    else some (.inr s)

/-- `enumerate(l)` as a list of (index, element) pairs -/
def enumerate {α} (l : List α) : List (Int × α) := l.zipIdx.map (fun (p : α × Nat) => ((p.2 : Int), p.1))

/-! ### NumPy arrays of scalars (functions with an explicit shape) -/

structure Arr1 (α : Type) where
  n : Nat
  get : Nat → α

structure Arr2 (α : Type) where
  rows : Nat
  cols : Nat
  get : Nat → Nat → α

namespace Arr1
variable {α : Type}

/-- `k * a` for a number `k` -/
def scale [Mul α] (k : α) (a : Arr1 α) : Arr1 α := ⟨a.n, fun i => k * a.get i⟩

/-- `np.zeros(n)` / `np.ones(n)` / a constant vector -/
def const (n : Int) (v : α) : Arr1 α := ⟨n.toNat, fun _ => v⟩

/-- `a[i]` -/
def get1 (a : Arr1 α) (i : Int) : α := a.get (idx a.n i)

/-- `a[i] = v` -/
def set (a : Arr1 α) (i : Int) (v : α) : Arr1 α :=
  ⟨a.n, fun k => if k = idx a.n i then v else a.get k⟩

/-- `a[index_list] = v` (fancy assignment of one value) -/
def setMany (a : Arr1 α) (is : List Int) (v : α) : Arr1 α :=
  ⟨a.n, fun k => if (is.map (idx a.n)).contains k then v else a.get k⟩

/-- elementwise `a + b` of two vectors -/
def add [Add α] (a b : Arr1 α) : Arr1 α := ⟨a.n, fun k => a.get k + b.get k⟩

/-- elementwise `a - b` -/
def sub [Sub α] (a b : Arr1 α) : Arr1 α := ⟨a.n, fun k => a.get k - b.get k⟩

/-- `a + s` (broadcast of a scalar) -/
def addScalar [Add α] (a : Arr1 α) (s : α) : Arr1 α := ⟨a.n, fun k => a.get k + s⟩

def toList (a : Arr1 α) : List α := (List.range a.n).map a.get

def ofList [Inhabited α] (l : List α) : Arr1 α := ⟨l.length, fun k => l.getD k default⟩

/-- `np.argmin(a)`: the first minimum (0 for an empty vector, where NumPy raises). -/
def argminUpTo [LT α] [DecidableLT α] (f : Nat → α) : Nat → Nat
  | 0 => 0
  | n + 1 => let a := argminUpTo f n; if f (n + 1) < f a then n + 1 else a

def argmin [LT α] [DecidableLT α] (a : Arr1 α) : Int := (argminUpTo a.get (a.n - 1) : Nat)

end Arr1

namespace Arr2
variable {α : Type}

/-- `np.zeros([r, c])` / `np.zeros(shape)` -/
def const (r c : Int) (v : α) : Arr2 α := ⟨r.toNat, c.toNat, fun _ _ => v⟩

/-- `a.shape[0]`, `a.shape[1]` -/
def shape0 (a : Arr2 α) : Int := a.rows
def shape1 (a : Arr2 α) : Int := a.cols

/-- `a[i, j]` -/
def get2 (a : Arr2 α) (i j : Int) : α := a.get (idx a.rows i) (idx a.cols j)

/-- `a[i, j] = v` -/
def set (a : Arr2 α) (i j : Int) (v : α) : Arr2 α :=
  ⟨a.rows, a.cols, fun r c => if r = idx a.rows i ∧ c = idx a.cols j then v else a.get r c⟩

/-- `a[i]` / `a[i, :]` -/
def row (a : Arr2 α) (i : Int) : Arr1 α := ⟨a.cols, fun c => a.get (idx a.rows i) c⟩

/-- `a[i, s:e] = v` for a vector `v` (NumPy raises when the lengths differ; not modelled) -/
def setRowSlice (a : Arr2 α) (i s e : Int) (v : Arr1 α) : Arr2 α :=
  let s' := sliceBound a.cols s
  let e' := sliceBound a.cols e
  ⟨a.rows, a.cols, fun r c => if r = idx a.rows i ∧ s' ≤ c ∧ c < e' then v.get (c - s') else a.get r c⟩

def toLists (a : Arr2 α) : List (List α) :=
  (List.range a.rows).map (fun r => (List.range a.cols).map (a.get r))

def ofLists [Inhabited α] (l : List (List α)) (cols : Nat) : Arr2 α :=
  ⟨l.length, cols, fun r c => (l.getD r []).getD c default⟩

end Arr2

instance {α} [Zero α] : Inhabited (Arr2 α) := ⟨⟨0, 0, fun _ _ => 0⟩⟩

/-- `f 0 + f 1 + … + f (n-1)`, accumulated from `0` in index order -/
def sumTo {α} [Zero α] [Add α] (n : Nat) (f : Nat → α) : α := (List.range n).foldl (fun acc i => acc + f i) 0

/-- `x @ M` for a vector and a matrix: entry `j` is `Σ_i x_i M_ij` -/
def vecMat {α} [Zero α] [Add α] [Mul α] (x : Arr1 α) (M : Arr2 α) : Arr1 α :=
  ⟨M.cols, fun j => sumTo x.n (fun i => x.get i * M.get i j)⟩

/-- `a @ b` for two vectors -/
def dot {α} [Zero α] [Add α] [Mul α] (a b : Arr1 α) : α := sumTo a.n (fun j => a.get j * b.get j)

/-- `np.vstack(list of 2-d arrays)`: the blocks one under the other, in list order (NumPy raises when the column
counts differ; not modelled: the result takes the first block's column count) -/
def vstackGet {α} [Zero α] : List (Arr2 α) → Nat → Nat → α
  | [], _, _ => 0
  | a :: t, r, c => if r < a.rows then a.get r c else vstackGet t (r - a.rows) c

def vstack {α} [Zero α] (l : List (Arr2 α)) : Arr2 α :=
  ⟨(l.map (·.rows)).sum, (l.head?.map (·.cols)).getD 0, vstackGet l⟩

/-- `np.triu_indices(n)`: row-major upper triangle as a pair of index lists -/
def triuIndices (n : Int) : List Int × List Int :=
  let ps := (List.range n.toNat).flatMap (fun r => (List.range (n.toNat - r)).map (fun k => (r, r + k)))
  (ps.map (fun p => (p.1 : Int)), ps.map (fun p => (p.2 : Int)))

/-- `_full_matrix_size(m)`: `int((np.sqrt(8 m + 1) - 1) / 2)`.  MODELLED, not translated (a floating-point square root):
for a real square root `s ≥ 1`, `⌊(s - 1)/2⌋ = (⌊s⌋ - 1) div 2`, so the integer square root gives the same value. -/
def fullMatrixSize (m : Int) : Int := ((Nat.sqrt (8 * m.toNat + 1) - 1) / 2 : Nat)

/-- `M[rows, cols]` (fancy indexing with two index lists): a vector -/
def Arr2.getAt2 {α} (M : Arr2 α) (rc : List Int × List Int) : Arr1 α :=
  ⟨rc.1.length, fun k => M.get (idx M.rows (rc.1.getD k 0)) (idx M.cols (rc.2.getD k 0))⟩

/-- `M[rows, cols] = v` for a vector `v` (entry `k` of `v` goes to `(rows[k], cols[k])`; for repeated positions NumPy
keeps the last write - not modelled: the first match is used; `np.triu_indices` never repeats a position) -/
def Arr2.setAt2 {α} (M : Arr2 α) (rc : List Int × List Int) (v : Arr1 α) : Arr2 α :=
  ⟨M.rows, M.cols, fun r c =>
    match (rc.1.zip rc.2).findIdx? (fun p => idx M.rows p.1 == r && idx M.cols p.2 == c) with
    | some k => v.get k
    | none => M.get r c⟩

/-- `M.T` -/
def Arr2.transpose {α} (M : Arr2 α) : Arr2 α := ⟨M.cols, M.rows, fun r c => M.get c r⟩

/-- `M.diagonal()` -/
def Arr2.diagonal {α} (M : Arr2 α) : Arr1 α := ⟨min M.rows M.cols, fun k => M.get k k⟩

/-- `np.diag(v)` -/
def diagOf {α} [Zero α] (v : Arr1 α) : Arr2 α := ⟨v.n, v.n, fun r c => if r = c then v.get r else 0⟩

/-- elementwise `A + B`, `A - B` of two matrices -/
def Arr2.add {α} [Add α] (A B : Arr2 α) : Arr2 α := ⟨A.rows, A.cols, fun r c => A.get r c + B.get r c⟩
def Arr2.sub {α} [Sub α] (A B : Arr2 α) : Arr2 α := ⟨A.rows, A.cols, fun r c => A.get r c - B.get r c⟩

/-- a Python dict with int keys (the last value stored for a key; a missing key reads the default, where Python raises) -/
abbrev IntMap (β : Type) := List (Int × β)
def IntMap.set {β} (d : IntMap β) (k : Int) (v : β) : IntMap β := (k, v) :: d
def IntMap.get {β} [Inhabited β] (d : IntMap β) (k : Int) : β :=
  match d.find? (fun p => p.1 == k) with
  | some p => p.2
  | none => default

/-- `np.trace(np.dot(A, B))` = `Σ_i Σ_j A_ij B_ji` -/
def traceDot {α} [Zero α] [Add α] [Mul α] (A B : Arr2 α) : α :=
  sumTo A.rows (fun i => sumTo A.cols (fun j => A.get i j * B.get j i))

/-- `np.sum(np.abs(M) > t)`: how many entries have magnitude above the threshold -/
def countAbove {α} [Zero α] [Sub α] [LT α] [DecidableLT α] (M : Arr2 α) (t : α) : Int :=
  ((List.range M.rows).foldl (fun acc r =>
    acc + ((List.range M.cols).filter (fun c => decide (t < (if M.get r c < 0 then 0 - M.get r c else M.get r c)))).length) 0 : Nat)

/-- what `bayesian_information_criterion` reads of a model state -/
structure BicModel (α : Type) where
  num_clusters : Int
  train_inverse : List (Arr2 α)
  empirical_covariance : List (Arr2 α)
  point_labels : List Int

/-- a Python float that came out of `int / int`, used among other floats: numerator over denominator in the scalar type -/
def ratCast {α} [IntCast α] [Div α] (q : Rat) : α := ((q.num : Int) : α) / (((q.den : Nat) : Int) : α)

/-- an int used where NumPy broadcasts it against a matrix (`acc = 0; acc += M`): the constant function, no shape of its own -/
def Arr2.ofInt {α} [IntCast α] (k : Int) : Arr2 α := ⟨0, 0, fun _ _ => ((k : Int) : α)⟩

/-- `A + B` where either side may be a broadcast scalar (`Arr2.ofInt`): the larger shape, entries added -/
def Arr2.addB {α} [Add α] (A B : Arr2 α) : Arr2 α := ⟨max A.rows B.rows, max A.cols B.cols, fun r c => A.get r c + B.get r c⟩

/-- `np.mean(M)`: the mean of all entries -/
def Arr2.meanAll {α} [Zero α] [Add α] [Div α] [IntCast α] (M : Arr2 α) : α :=
  sumTo M.rows (fun i => sumTo M.cols (fun j => M.get i j)) / (((M.rows * M.cols : Nat) : Int) : α)

/-- `M[index_list, :]` -/
def Arr2.takeRows {α} (M : Arr2 α) (is : List Int) : Arr2 α :=
  ⟨is.length, M.cols, fun r c => M.get (idx M.rows (is.getD r 0)) c⟩

/-- `np.mean(M, axis=0)`: the mean of every column -/
def Arr2.meanAxis0 {α} [Zero α] [Add α] [Div α] [IntCast α] (M : Arr2 α) : Arr1 α :=
  ⟨M.cols, fun j => sumTo M.rows (fun i => M.get i j) / (((M.rows : Nat) : Int) : α)⟩

/-- `v - s` (a scalar subtracted from every entry) -/
def Arr1.subScalar {α} [Sub α] (v : Arr1 α) (s : α) : Arr1 α := ⟨v.n, fun k => v.get k - s⟩

/-- `v.reshape(-1, 1)`: a column -/
def colOf {α} (v : Arr1 α) : Arr2 α := ⟨v.n, 1, fun r _ => v.get r⟩

/-- `A @ B` -/
def matMul {α} [Zero α] [Add α] [Mul α] (A B : Arr2 α) : Arr2 α :=
  ⟨A.rows, B.cols, fun r c => sumTo A.cols (fun k => A.get r k * B.get k c)⟩

/-- a boolean matrix (the result of an elementwise comparison) -/
structure Mask2 where
  rows : Nat
  cols : Nat
  get : Nat → Nat → Bool

/-- `M < x` / `M > x`, elementwise -/
def Arr2.ltScalar {α} [LT α] [DecidableLT α] (M : Arr2 α) (x : α) : Mask2 := ⟨M.rows, M.cols, fun r c => decide (M.get r c < x)⟩
def Arr2.gtScalar {α} [LT α] [DecidableLT α] (M : Arr2 α) (x : α) : Mask2 := ⟨M.rows, M.cols, fun r c => decide (x < M.get r c)⟩

/-- `a & b` on boolean matrices of one shape -/
def Mask2.and (a b : Mask2) : Mask2 := ⟨a.rows, a.cols, fun r c => a.get r c && b.get r c⟩

/-- `M[mask] = v` -/
def Arr2.setWhere {α} (M : Arr2 α) (mask : Mask2) (v : α) : Arr2 α :=
  ⟨M.rows, M.cols, fun r c => if mask.get r c then v else M.get r c⟩

/-- `k * M` for a Python int `k` -/
def Arr2.scaleInt {α} [Mul α] [IntCast α] (k : Int) (M : Arr2 α) : Arr2 α := ⟨M.rows, M.cols, fun r c => ((k : Int) : α) * M.get r c⟩

/-- `np.trace(M)` -/
def Arr2.trace {α} [Zero α] [Add α] (M : Arr2 α) : α := sumTo (min M.rows M.cols) (fun k => M.get k k)

/-- what `_find_ranked_donor_cluster_ids` reads of a cluster / of a model state -/
structure DonorCluster (α : Type) where
  size : Int
  computed_covariance : Arr2 α

structure DonorModel (α : Type) where
  min_cluster_size : Int
  clusters : List (DonorCluster α)

instance {α} [Zero α] : Inhabited (DonorCluster α) := ⟨⟨0, default⟩⟩

/-- stable insertion by decreasing key: `x` goes in front of the first element whose key is not larger than its own -/
def insertDescBy {β γ} [LT β] [DecidableLT β] (key : γ → β) (x : γ) : List γ → List γ
  | [] => [x]
  | y :: ys => if key x < key y then y :: insertDescBy key x ys else x :: y :: ys

/-- `sorted(l, key=key, reverse=True)`: decreasing keys, elements with equal keys in their original order (Python's sort is
stable and `reverse=True` preserves that stability) -/
def sortedDescBy {β γ} [LT β] [DecidableLT β] (key : γ → β) (l : List γ) : List γ := l.foldr (insertDescBy key) []

/-- the final model as `_compute_log_likelihood_by_cluster` reads it: a cluster handed on to the per-point likelihood is
represented by its index -/
structure LlModel where
  num_clusters : Int
  window_size : Int
  point_labels : List Int

/-- what `calinski_harabasz_index` reads of a cluster / of a model state -/
structure ChCluster where
  size : Int
  member_points : List Int

structure ChModel where
  clusters : List ChCluster

instance : Inhabited ChCluster := ⟨⟨0, []⟩⟩

/-- a sparsity weight: one number or an `NW × NW` array (`isinstance` dispatch in `compute_lambda_sum`) -/
inductive Lambda (α : Type) where
  | scalar (v : α)
  | matrix (M : Arr2 α)

/-- the fields of `ADMMArguments` the translated solver steps read -/
structure ADMMArgs (α : Type) where
  window_size : Int
  num_data_series : Int
  rho : α
  sparsity_weight : Lambda α
  max_iterations : Int := 1000
  verbose : Bool := false
  /-- the optional step-parameter update hook `rho_update(rho, r_primal, tol_primal, r_dual, tol_dual)` -/
  rho_update : Option (α → α → α → α → α → α) := none
  absolute_tolerance : α
  relative_tolerance : α

/-- `args.rho_update(...)` (only reached under `if args.rho_update:`); without a hook the step parameter stays -/
def callRhoUpdate {α} (f : Option (α → α → α → α → α → α)) (rho rp tp rd td : α) : α :=
  match f with
  | some g => g rho rp tp rd td
  | none => rho

/-- a `for` loop whose body may fail: the first error ends the loop -/
def forEachE {β σ} (xs : List β) (init : σ) (body : β → σ → Except String σ) : Except String σ :=
  xs.foldlM (fun s x => body x s) init

/-- `a.size` of a vector -/
def Arr1.size {α} (a : Arr1 α) : Int := a.n

/-- `np.sum(a[index_list])` -/
def Arr1.sumAt {α} [Zero α] [Add α] (a : Arr1 α) (is : List Int) : α :=
  is.foldl (fun acc i => acc + a.get (idx a.n i)) 0

/-- `np.sum(M[rows, cols])` (fancy indexing with two index lists) -/
def Arr2.sumAt {α} [Zero α] [Add α] (M : Arr2 α) (rows cols : List Int) : α :=
  (rows.zip cols).foldl (fun acc p => acc + M.get (idx M.rows p.1) (idx M.cols p.2)) 0

/-- a raising call inside a loop: remember the FIRST error, go on with a default (the error is thrown after the loop;
nothing computed after the first error is observable) -/
def firstErr {β} (err : Option String) (t : Except String β) : Option String :=
  match err, t with
  | some e, _ => some e
  | none, .error e => some e
  | none, .ok _ => none

def okOr {β} (t : Except String β) (d : β) : β :=
  match t with
  | .ok v => v
  | .error _ => d

/-- the switching-cost argument of the labelling kernel: one number or one per point -/
inductive ScalarOrVec (α : Type) where
  | scalar (v : α)
  | vec (a : Arr1 α)

/-- `np.zeros(shape=(n,)) + x` where `x` is a scalar or a length-`n` vector -/
def broadcastAdd {α} [Add α] (z : Arr1 α) : ScalarOrVec α → Arr1 α
  | .scalar v => z.addScalar v
  | .vec a => z.add a

end FastTicc.Py

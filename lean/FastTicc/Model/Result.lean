/-
Model of the result assembly in `main_loop.py:146-176, 243-279` (property C06) and of
`cluster_metrics.bayesian_information_criterion` (property C16).  Core Lean only.
Numbers are any type with the listed operations (`Rat` when executed, a linearly ordered
field in the theorems).
-/
import FastTicc.Generated.Constants

namespace FastTicc.Result

section
variable {α : Type} [Add α] [Sub α] [Mul α] [Div α] [Zero α] [NatCast α] [LE α] [DecidableLE α]

def sum (l : List α) : α := l.foldl (· + ·) 0

/-- `np.mean`. -/
def mean (l : List α) : α := sum l / (l.length : α)

/-- `np.median`: sort; middle element, or the mean of the two middle elements. -/
def median (l : List α) : α :=
  let s := l.mergeSort (fun a b => decide (a ≤ b))
  let n := s.length
  if n % 2 = 1 then s.getD (n / 2) 0
  else (s.getD (n / 2 - 1) 0 + s.getD (n / 2) 0) / ((2 : Nat) : α)

/-- `_compute_log_likelihood_by_cluster`: for every cluster the log-likelihoods of the points
carrying its label, in point order; points labelled `-1` are skipped.  `ll[i]` is the
log-likelihood of point `i` under its own cluster. -/
def clusterLists (K : Nat) (labels : List Int) (ll : List α) : List (List α) :=
  (List.range K).map fun (k : Nat) =>
    ((labels.zip ll).filter (fun (p : Int × α) => p.1 == Int.ofNat k)).map (fun (p : Int × α) => p.2)

/-- pinned behaviour (main_loop.py:275-277 before the repair): a phantom `0` is appended to
every empty per-cluster list. -/
def clusterListsPinned (K : Nat) (labels : List Int) (ll : List α) : List (List α) :=
  (clusterLists K labels ll).map (fun l => if l.isEmpty then [0] else l)

/-- `all_log_likelihood = list(itertools.chain(*cluster_log_likelihood))`. -/
def allLL (K : Nat) (labels : List Int) (ll : List α) : List α := (clusterLists K labels ll).flatten
def allLLPinned (K : Nat) (labels : List Int) (ll : List α) : List α :=
  (clusterListsPinned K labels ll).flatten

/-- per-cluster mean / median; `0` for a cluster without points (repaired behaviour). -/
def clusterMeans (K : Nat) (labels : List Int) (ll : List α) : List α :=
  (clusterLists K labels ll).map (fun l => if l.isEmpty then 0 else mean l)
def clusterMedians (K : Nat) (labels : List Int) (ll : List α) : List α :=
  (clusterLists K labels ll).map (fun l => if l.isEmpty then 0 else median l)

structure Aggregates (α : Type) where
  all : List α
  total : α
  mean : α
  median : α
  clusterMean : List α
  clusterMedian : List α

def assemble (K : Nat) (labels : List Int) (ll : List α) : Aggregates α :=
  let a := allLL K labels ll
  ⟨a, sum a, mean a, median a, clusterMeans K labels ll, clusterMedians K labels ll⟩
end

/-! ### C16: Bayesian information criterion -/

section
variable {α : Type} [Add α] [Sub α] [Mul α] [Neg α] [Zero α] [NatCast α] [LT α] [DecidableLT α]

def absv (x : α) : α := if x < 0 then -x else x

/-- `np.sum(np.abs(theta) > threshold)`. -/
def nnz (threshold : α) (theta : List (List α)) : Nat :=
  (theta.map (fun row => (row.filter (fun x => decide (threshold < absv x))).length)).foldl (· + ·) 0

/-- lines 78-82: walk the labels; whenever the label differs from the previous one
(initially `-1`, i.e. no label) add that cluster's parameter count. -/
def runsParamsAux (params : Nat → Nat) : Option Nat → List Nat → Nat
  | _, [] => 0
  | last, l :: ls =>
    (if last = some l then 0 else params l) + runsParamsAux params (some l) ls

def runsParams (params : Nat → Nat) (labels : List Nat) : Nat := runsParamsAux params none labels

/-- `np.trace(np.dot(theta, S))`. -/
def traceMul (theta S : List (List α)) : α :=
  ((List.range theta.length).map fun i =>
    ((List.range theta.length).map fun j =>
      (theta.getD i []).getD j 0 * (S.getD j []).getD i 0).foldl (· + ·) 0).foldl (· + ·) 0

/-- `mod_lle = Σ_k (log det Θ_k − tr(Θ_k S_k))`; the log-determinants are parameters. -/
def modLle (logdets : List α) (thetas Ss : List (List (List α))) : α :=
  ((List.range logdets.length).map fun k =>
    logdets.getD k 0 - traceMul (thetas.getD k []) (Ss.getD k [])).foldl (· + ·) 0

/-- `non_zero_params * np.log(T) - 2*mod_lle`; `logT` is a parameter. -/
def bic (P : Nat) (logT lle : α) : α := (P : α) * logT - ((2 : Nat) : α) * lle
end

end FastTicc.Result

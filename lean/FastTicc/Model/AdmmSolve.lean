/-
The whole ADMM solve (`solver.run_admm_optimization`) composed from the per-step models: the sweep
TRANSLATED from the source (`MainLoop.sweep`: X, Z, U in source order), the concrete Z update
(`Numeric.zUpdate`) and U update (`Numeric.uUpdate`), the stopping rule (`Numeric.stopRule`) and the
loop (`MainLoop.admmLoop`: the rule is consulted only after the first sweep; the last X is returned).
Core Lean only.

Oracles, recorded from the real solve when a history is replayed: the X update's output of every
sweep (an eigendecomposition) and the five norms the stopping rule compares (square roots).
Everything else — Z, U, the rule's verdict, the number of sweeps, what is returned — is computed.
-/
import FastTicc.Model.MainLoop
import FastTicc.Model.Numeric

namespace FastTicc.AdmmSolve
open FastTicc FastTicc.MainLoop

/-- the norms `check_convergence` computes in sweep `i`: ‖x‖, ‖z‖, ‖ρu‖, ‖x − z‖, ‖ρ(z − z_old)‖. -/
structure Norms (α : Type) where
  normX : α
  normZ : α
  normRhoU : α
  resPrimal : α
  resDual : α

structure Oracles (α : Type) where
  x : Nat → List α                -- sweep index ↦ output of the X update
  norms : Nat → Norms α           -- sweep index ↦ the norms of that sweep's convergence check

/-- solver state plus the sweep counter the oracles are indexed by. -/
structure St (α : Type) where
  it : Nat
  z : List α
  u : List α
  x : List α

section
variable {α : Type} [Add α] [Sub α] [Mul α] [Div α] [Neg α] [Zero α] [NatCast α] [LT α] [DecidableLT α]

/-- one sweep: the translated `sweep` over the (x, z, u) triple, with the X update supplied by the
oracle and the Z / U updates computed. -/
def step (rho : α) (lam : Numeric.Lambda α) (N W : Nat) (orc : Oracles α) (s : Admm (St α)) : Admm (St α) :=
  -- the `Admm` record of the loop carries the whole state in each component's place: x := state after the sweep
  let cur := s.x
  let tri : Admm (List α) := ⟨cur.x, cur.z, cur.u⟩
  let tri' := sweep (fun _ => orc.x cur.it) (fun t => Numeric.zUpdate rho lam N W t.u t.x)
    (fun t => Numeric.uUpdate t.u t.x t.z) tri
  let nxt : St α := ⟨cur.it + 1, tri'.z, tri'.u, tri'.x⟩
  ⟨nxt, nxt, nxt⟩

/-- the stopping rule of sweep `it` on the recorded norms. -/
def stop (sqrtN absTol relTol slack : α) (orc : Oracles α) (s' : Admm (St α)) (_zOld : St α) : Bool :=
  let n := orc.norms (s'.x.it - 1)
  Numeric.stopRule sqrtN absTol relTol slack n.normX n.normZ n.normRhoU n.resPrimal n.resDual

/-- `run_admm_optimization` without a rho update: returns the final state and the number of sweeps. -/
def solve (rho : α) (lam : Numeric.Lambda α) (N W maxIter : Nat) (sqrtN absTol relTol slack : α)
    (orc : Oracles α) (len : Nat) : St α × Nat :=
  let zero : St α := ⟨0, List.replicate len 0, List.replicate len 0, List.replicate len 0⟩
  admmLoop (step rho lam N W orc) (stop sqrtN absTol relTol slack orc) (fun s _ => s) maxIter 0
    ⟨zero, zero, zero⟩
end

end FastTicc.AdmmSolve

/-
Model of `assign_point_cluster_labels` (cluster_label_assignment.py:88-172),
property C01 (and the kernel half of C06, C07, C18).  Core Lean only.

A cost row is a function `Nat → α` (only arguments `< K` matter).  The input is a
list of points `(row_i, beta_i)`; `beta_i` prices the pair `(i, i+1)`; the last
`beta` is never read (as in the code, which broadcasts to length `T`).
-/
namespace FastTicc.Viterbi

section
variable {α : Type} [Add α] [Sub α] [LT α] [DecidableLT α] [Zero α]

/-- `np.argmin` over indices `0..n` inclusive: the first minimum. -/
def argminUpTo (f : Nat → α) : Nat → Nat
  | 0 => 0
  | n + 1 => let a := argminUpTo f n; if f (n + 1) < f a then n + 1 else a

/-- `np.argmin` of a length-`K` vector (`K ≥ 1`). -/
def argmin (f : Nat → α) (K : Nat) : Nat := argminUpTo f (K - 1)

/-- line 145: `future[i+1] + cost[i+1] + beta[i]` (in that order). -/
def totalVals (fut' row' : Nat → α) (b : α) : Nat → α := fun c => (fut' c + row' c) + b

/-- lines 148-156: the new future-cost entry for `cluster`. -/
def stepFuture (K : Nat) (fut' row' : Nat → α) (b : α) : Nat → α := fun c =>
  let tot := totalVals fut' row' b
  let am := argmin tot K
  if tot am < tot c - b then tot am else tot c - b

/-- lines 148-156: the path-matrix entry for `cluster`. -/
def stepPath (K : Nat) (fut' row' : Nat → α) (b : α) : Nat → Nat := fun c =>
  let tot := totalVals fut' row' b
  let am := argmin tot K
  if tot am < tot c - b then am else c

/-- The backward pass (lines 142-156) over the points from some index `i` to the
end.  Returns `future_cost_vals[i]` and the path-matrix rows `i, i+1, …, T-2`. -/
def back (K : Nat) : List ((Nat → α) × α) → (Nat → α) × List (Nat → Nat)
  | [] => (fun _ => 0, [])
  | [_] => (fun _ => 0, [])
  | p :: q :: rest =>
    let r := back K (q :: rest)
    (stepFuture K r.1 q.1 p.2, stepPath K r.1 q.1 p.2 :: r.2)

/-- lines 168-169: follow the path matrix. -/
def follow : List (Nat → Nat) → Nat → List Nat
  | [], _ => []
  | p :: ps, c => p c :: follow ps (p c)

/-- lines 160-172: `(path, true_cost)`.  For an empty table the real code fails;
the model returns `([], 0)`. -/
def viterbi (K : Nat) (pts : List ((Nat → α) × α)) : List Nat × α :=
  match pts with
  | [] => ([], 0)
  | p :: _ =>
    let r := back K pts
    let start := argmin (fun c => r.1 c + p.1 c) K
    (start :: follow r.2 start, r.1 start + p.1 start)

/-- Specification, part 1: the chosen assignment costs. -/
def assignCost : List ((Nat → α) × α) → List Nat → α
  | p :: ps, l :: ls => p.1 l + assignCost ps ls
  | _, _ => 0

/-- Specification, part 2: the switching cost `beta_i` of every consecutive pair
`(i, i+1)` that carries different labels. -/
def switchCost : List ((Nat → α) × α) → List Nat → α
  | p :: ps, l :: l' :: ls => (if l = l' then 0 else p.2) + switchCost ps (l' :: ls)
  | _, _ => 0

/-- Specification: total cost of a labelling. -/
def totalCost (pts : List ((Nat → α) × α)) (ls : List Nat) : α :=
  assignCost pts ls + switchCost pts ls

/-! ### executable refinement

`back` returns closures, so evaluating it re-computes the whole suffix for every
lookup (exponential).  `backFast` stores each row on `[0, K)` as a list — exactly what the
NumPy arrays `future_cost_vals[i]` / `path_matrix[i]` are.  `viterbiFast_eq`
(Props/C01.lean) proves it returns the same labels and cost as `viterbi`; the driver
runs `viterbiFast`. -/

/-- rows stored as arrays of length `K` (lists), so nothing is recomputed. -/
def backFast (K : Nat) : List ((Nat → α) × α) → List α × List (List Nat)
  | [] => (List.replicate K 0, [])
  | [_] => (List.replicate K 0, [])
  | p :: q :: rest =>
    let r := backFast K (q :: rest)
    let fut' : Nat → α := fun c => r.1.getD c 0
    ((List.range K).map (stepFuture K fut' q.1 p.2),
     (List.range K).map (stepPath K fut' q.1 p.2) :: r.2)

def viterbiFast (K : Nat) (pts : List ((Nat → α) × α)) : List Nat × α :=
  match pts with
  | [] => ([], 0)
  | p :: _ =>
    let r := backFast K pts
    let fut : Nat → α := fun c => r.1.getD c 0
    let start := argmin (fun c => fut c + p.1 c) K
    (start :: follow (r.2.map (fun l c => l.getD c 0)) start, fut start + p.1 start)

/-- scalar beta: line 140 `np.zeros(T) + beta`. -/
def withScalarBeta (rows : List (Nat → α)) (b : α) : List ((Nat → α) × α) :=
  rows.map (fun r => (r, b))

def withVectorBeta (rows : List (Nat → α)) (bs : List α) : List ((Nat → α) × α) :=
  rows.zip bs

end

/-- list row → function row (driver boundary). -/
def rowOfList {α} [Zero α] (l : List α) : Nat → α := fun c => l.getD c 0

end FastTicc.Viterbi

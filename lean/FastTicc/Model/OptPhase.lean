/-
The optimise phase's post-processing (`graphical_lasso._reconstruct_optimized_matrix`, lines
201-222): the solver returns the upper triangle of the MRF as a compressed vector; the phase
re-inflates it to the symmetric `NW × NW` matrix (`matrix_compression.reinflate_matrix`) and
applies the covariance floor (`_zero_small_elements`, `copy=False`).  Core Lean only.

`oraclesOfRaw` turns recorded *raw* solver outputs into the `Run.Oracles` the whole-run model
reads, so that the MRFs the run scores with are computed by the model from what the solver
returned, not supplied.
-/
import FastTicc.Model.Run

namespace FastTicc.OptPhase
open FastTicc

section
variable {α : Type} [Add α] [Sub α] [Neg α] [Zero α] [LT α] [DecidableLT α]

/-- `_reconstruct_optimized_matrix(model, compressed_result)`, entry `(r, c)`. -/
def reconstruct (eps : α) (v : List α) (r c : Nat) : α :=
  Numeric.floorFilter eps (Index.reinflate v r c)

/-- the oracles of a run whose MRFs are reconstructed from the raw (compressed) solver outputs. -/
def oraclesOfRaw (eps : α) (raw : Nat → Nat → List α) (logDet spread : Nat → Nat → α)
    (order : Nat → List Nat) (pick : Nat → Nat → Nat → List Nat) : Run.Oracles α :=
  { theta := fun r k => reconstruct eps (raw r k)
    logDet := logDet
    spread := spread
    order := order
    pick := pick }
end

end FastTicc.OptPhase

/-
Heap model of `containers/model_state.py`, `containers/arguments.py` and of how the four phases
copy and mutate model states (properties C13, C19).  Core Lean only.

Mutable Python objects are heap cells addressed by reference; every object also carries an
identity (for the alias partition that the correspondence compares with `id()`):
  * cluster objects  — cells in `Heap.clusters` (identity = index),
  * argument bundles — cells in `Heap.args`,
  * states           — cells in `Heap.states`,
  * arrays, label lists, cluster-list objects — a fresh identity from `Heap.next`; arrays also
    carry a content token `val` (arrays are never written in place by the modelled code).
-/
import FastTicc.Model.Repop

namespace FastTicc.Heap

structure Arr where
  id : Nat
  val : Nat
  deriving DecidableEq, Repr

structure Cluster where
  members : List Nat
  computedCov : Option Arr
  empCov : Option Arr
  invCov : Option Arr
  mean : Option Arr
  trainInv : Option Arr
  logDet : Option Nat
  lassoCost : Option Nat
  deriving DecidableEq, Repr

inductive Param where
  | scalar (v : Nat)
  | array (a : Arr)
  deriving DecidableEq, Repr

structure Args where
  lam : Param
  beta : Param
  K : Nat
  deriving DecidableEq, Repr

structure State where
  clusters : List Nat
  clustersId : Nat
  labels : Option (Nat × List Nat)
  args : Nat
  data : Arr
  pll : Option Arr
  cost : Option Nat
  deriving DecidableEq, Repr

structure Heap where
  clusters : List Cluster
  args : List Args
  states : List State
  next : Nat
  deriving Repr

def emptyCluster : Cluster := ⟨[], none, none, none, none, none, none, none⟩

def Heap.cluster (h : Heap) (r : Nat) : Cluster := h.clusters.getD r emptyCluster
def Heap.state? (h : Heap) (s : Nat) : Option State := h.states[s]?
def Heap.argsOf (h : Heap) (a : Nat) : Args := h.args.getD a ⟨.scalar 0, .scalar 0, 0⟩

/-- allocate a fresh identity. -/
def Heap.fresh (h : Heap) : Nat × Heap := (h.next, { h with next := h.next + 1 })

def Heap.allocCluster (h : Heap) (c : Cluster) : Nat × Heap :=
  (h.clusters.length, { h with clusters := h.clusters ++ [c] })

def Heap.allocState (h : Heap) (s : State) : Nat × Heap :=
  (h.states.length, { h with states := h.states ++ [s] })

def Heap.allocArgs (h : Heap) (a : Args) : Nat × Heap :=
  (h.args.length, { h with args := h.args ++ [a] })

def Heap.setCluster (h : Heap) (r : Nat) (c : Cluster) : Heap :=
  { h with clusters := h.clusters.set r c }

def Heap.setState (h : Heap) (s : Nat) (st : State) : Heap :=
  { h with states := h.states.set s st }

/-- `ModelState.empty_model(args, data)`: `K` fresh empty clusters. -/
def allocEmptyClusters : Nat → Heap → List Nat × Heap
  | 0, h => ([], h)
  | n + 1, h =>
    let (r, h1) := h.allocCluster emptyCluster
    let (rs, h2) := allocEmptyClusters n h1
    (r :: rs, h2)

def emptyModel (h : Heap) (argsRef : Nat) (data : Arr) : Nat × Heap :=
  let K := (h.argsOf argsRef).K
  let (refs, h1) := allocEmptyClusters K h
  let (lid, h2) := h1.fresh
  h2.allocState ⟨refs, lid, none, argsRef, data, none, none⟩

/-! ### cluster copies -/

/-- `np.copy(x)`: a new array object with the same content (`np.copy(None)` is a new 0-d object array). -/
def copyArr (a : Option Arr) (id : Nat) : Option Arr := some ⟨id, (a.map (·.val)).getD 0⟩

/-- `ClusterParameters.shallow_copy()`: a new cluster object pointing at the same arrays
(the constructor sorts the member list into a new list). -/
def clusterShallow (h : Heap) (r : Nat) : Nat × Heap := h.allocCluster (h.cluster r)

/-- `ClusterParameters.deep_copy()`: new cluster object, every array copied. -/
def clusterDeep (h : Heap) (r : Nat) : Nat × Heap :=
  let c := h.cluster r
  let i := h.next
  let c' : Cluster :=
    { c with computedCov := copyArr c.computedCov i, empCov := copyArr c.empCov (i + 1),
             invCov := copyArr c.invCov (i + 2), mean := copyArr c.mean (i + 3),
             trainInv := copyArr c.trainInv (i + 4) }
  ({ h with next := h.next + 5 }).allocCluster c'

def clustersDeep : List Nat → Heap → List Nat × Heap
  | [], h => ([], h)
  | r :: rs, h =>
    let (r', h1) := clusterDeep h r
    let (rs', h2) := clustersDeep rs h1
    (r' :: rs', h2)

/-! ### the label setter -/

/-- `ClusterParameters.member_points` setter. -/
def setMembers (c : Cluster) (new : List Nat) : Cluster :=
  if new = [] then { c with members := [] }
  else if new ≠ c.members then { c with members := new }
  else c

/-- `_update_cluster_membership` for a non-empty labelling: for `k` in `range(K)` write the
derived member list into the cluster object `clusters[k]` *in place*. -/
def updateMembership (h : Heap) (refs : List Nat) (K : Nat) (ls : List Nat) : Heap :=
  (List.range K).foldl
    (fun h k =>
      match refs[k]? with
      | some r => h.setCluster r (setMembers (h.cluster r) (Repop.members ls k))
      | none => h)
    h

def clearMembership (h : Heap) (refs : List Nat) : Heap :=
  refs.foldl (fun h r => h.setCluster r { h.cluster r with members := [] }) h

/-- `ModelState.point_labels = new_labels`: no-op when the content is equal; otherwise alias the
given list object and re-derive membership in the referenced cluster objects. -/
def assign (h : Heap) (s : Nat) (lab : Nat × List Nat) : Heap :=
  match h.state? s with
  | none => h
  | some st =>
    if st.labels.map (·.2) = some lab.2 then h
    else
      let h1 := h.setState s { st with labels := some lab }
      if lab.2 = [] then clearMembership h1 st.clusters
      else updateMembership h1 st.clusters (h.argsOf st.args).K lab.2

/-! ### state copies -/

/-- `ModelState.shallow_copy()`: a new state and a new list holding the *same* cluster references. -/
def shallowState (h : Heap) (s : Nat) : Nat × Heap :=
  match h.state? s with
  | none => (s, h)
  | some st =>
    let (lid, h1) := h.fresh
    h1.allocState { st with clustersId := lid }

def copyParam (p : Param) (id : Nat) : Param :=
  match p with
  | .scalar v => .scalar v
  | .array a => .array ⟨id, a.val⟩

/-- `UserArguments.deep_copy()`.  `repaired = false` is the pinned behaviour (falls through to
`shallow_copy`, so array-valued members are still shared). -/
def argsDeep (repaired : Bool) (h : Heap) (a : Nat) : Nat × Heap :=
  let x := h.argsOf a
  if repaired then
    let i := h.next
    ({ h with next := h.next + 2 }).allocArgs
      { x with lam := copyParam x.lam i, beta := copyParam x.beta (i + 1) }
  else h.allocArgs x

/-- `ModelState.deep_copy()`. -/
def deepState (repaired : Bool) (h : Heap) (s : Nat) : Nat × Heap :=
  match h.state? s with
  | none => (s, h)
  | some st =>
    let (refs, h1) := clustersDeep st.clusters h
    let (a, h2) := argsDeep repaired h1 st.args
    let i := h2.next
    let h3 := { h2 with next := h2.next + 4 }
    h3.allocState
      { clusters := refs, clustersId := i,
        labels := st.labels.map (fun l => (i + 1, l.2)),
        args := a, data := ⟨i + 2, st.data.val⟩, pll := copyArr st.pll (i + 3), cost := st.cost }

/-- `state.clusters = [...]` (plain attribute assignment of a new list). -/
def setClusters (h : Heap) (s : Nat) (refs : List Nat) : Heap :=
  match h.state? s with
  | none => h
  | some st =>
    let (lid, h1) := h.fresh
    h1.setState s { st with clusters := refs, clustersId := lid }

/-! ### the four phases -/

def needsRepop (h : Heap) (st : State) : Bool :=
  st.clusters.any (fun r => decide ((h.cluster r).members.length < Constants.emptyBelow))

/-- `repopulate_empty_clusters`: returns the *same* state when no cluster is under 2 points;
otherwise a shallow state copy with deep-copied clusters, to which the successive labellings
`moves` (one per refill) are assigned. -/
def repopPhase (h : Heap) (s : Nat) (moves : List (List Nat)) : Nat × Heap :=
  match h.state? s with
  | none => (s, h)
  | some st =>
    if !needsRepop h st then (s, h)
    else
      let (n, h1) := shallowState h s
      let (refs, h2) := clustersDeep st.clusters h1
      let h3 := setClusters h2 n refs
      let h4 := moves.foldl
        (fun h ls => let (lid, h') := h.fresh; assign h' n (lid, ls)) h3
      (n, h4)

/-- `update_all_cluster_statistics`: shallow state copy whose list entries are replaced by shallow
cluster copies carrying a new mean and empirical covariance. -/
def statsPhase (h : Heap) (s : Nat) : Nat × Heap :=
  match h.state? s with
  | none => (s, h)
  | some _ =>
    let (n, h1) := shallowState h s
    let K := (h1.argsOf ((h1.state? n).map (·.args) |>.getD 0)).K
    let h2 := (List.range K).foldl
      (fun h k =>
        match h.state? n with
        | none => h
        | some stn =>
          match stn.clusters[k]? with
          | none => h
          | some r =>
            let i := h.next
            let c := h.cluster r
            let (r', h') := ({ h with next := h.next + 2 }).allocCluster
              { c with empCov := some ⟨i, i⟩, mean := some ⟨i + 1, i + 1⟩ }
            h'.setState n { stn with clusters := stn.clusters.set k r' })
      h1
    (n, h2)

/-- `optimize_markov_random_fields`: shallow cluster copies with new MRF / covariance /
log-determinant, gathered into a new list on a shallow state copy. -/
def optClusters : List Nat → Heap → List Nat × Heap
  | [], h => ([], h)
  | r :: rs, h =>
    let i := h.next
    let c := h.cluster r
    let (r', h1) := ({ h with next := h.next + 2 }).allocCluster
      { c with computedCov := some ⟨i, i⟩, trainInv := some ⟨i + 1, i + 1⟩, logDet := some (i + 1) }
    let (rs', h2) := optClusters rs h1
    (r' :: rs', h2)

def optPhase (h : Heap) (s : Nat) : Nat × Heap :=
  match h.state? s with
  | none => (s, h)
  | some st =>
    let (refs, h1) := optClusters st.clusters h
    let (n, h2) := shallowState h1 s
    (n, setClusters h2 n refs)

/-- the scoring-cache refresh of `all_points_all_clusters_log_likelihood`: in the *given*
state's cluster objects, `inverse_covariance := train_inverse` (aliased) and
`log_determinant := slogdet(train_inverse)`. -/
def refreshScoring (h : Heap) (refs : List Nat) (K : Nat) : Heap :=
  (List.range K).foldl
    (fun h k =>
      match refs[k]? with
      | some r =>
        let c := h.cluster r
        h.setCluster r { c with invCov := c.trainInv, logDet := c.trainInv.map (·.val) }
      | none => h)
    h

/-- `predict_cluster_labels`: refresh, then shallow state copy + deep cluster copies + assign. -/
def relabelPhase (h : Heap) (s : Nat) (newLabels : List Nat) (cost : Nat) : Nat × Heap :=
  match h.state? s with
  | none => (s, h)
  | some st =>
    let h0 := refreshScoring h st.clusters (h.argsOf st.args).K
    let (n, h1) := shallowState h0 s
    let (refs, h2) := clustersDeep st.clusters h1
    let h3 := setClusters h2 n refs
    let (lid, h4) := h3.fresh
    let h5 := assign h4 n (lid, newLabels)
    match h5.state? n with
    | none => (n, h5)
    | some stn => (n, h5.setState n { stn with cost := some cost })

/-! ### observations -/

/-- what a phase must not change in a state it was given: labelling, membership and the
fitted statistics (by content). -/
structure ClusterView where
  members : List Nat
  mean : Option Nat
  empCov : Option Nat
  trainInv : Option Nat
  computedCov : Option Nat
  logDet : Option Nat
  deriving DecidableEq, Repr

def clusterView (c : Cluster) : ClusterView :=
  ⟨c.members, c.mean.map (·.val), c.empCov.map (·.val), c.trainInv.map (·.val),
   c.computedCov.map (·.val), c.logDet⟩

structure StateView where
  labels : Option (List Nat)
  clusters : List ClusterView
  cost : Option Nat
  deriving DecidableEq, Repr

def view (h : Heap) (s : Nat) : Option StateView :=
  (h.state? s).map fun st =>
    ⟨st.labels.map (·.2), st.clusters.map (fun r => clusterView (h.cluster r)), st.cost⟩

/-- the partition invariant: `K` clusters, and cluster `k`'s member list is exactly the sorted
set of points labelled `k`. -/
def InvB (h : Heap) (s : Nat) : Bool :=
  match h.state? s with
  | none => false
  | some st =>
    let K := (h.argsOf st.args).K
    decide (st.clusters.length = K) &&
    (match st.labels with
     | none => st.clusters.all (fun r => (h.cluster r).members == [])
     | some (_, ls) =>
       (List.range K).all (fun k =>
         match st.clusters[k]? with
         | some r => (h.cluster r).members == Repop.members ls k
         | none => false))

/-- mutable objects reachable from a state, tagged by kind. -/
inductive Obj where
  | cluster (r : Nat) | args (r : Nat) | obj (id : Nat)
  deriving DecidableEq, Repr

def arrObjs (a : Option Arr) : List Obj := match a with | some x => [.obj x.id] | none => []
def paramObjs (p : Param) : List Obj := match p with | .array a => [.obj a.id] | .scalar _ => []

def clusterObjs (h : Heap) (r : Nat) : List Obj :=
  let c := h.cluster r
  .cluster r :: (arrObjs c.computedCov ++ arrObjs c.empCov ++ arrObjs c.invCov
    ++ arrObjs c.mean ++ arrObjs c.trainInv)

def reachable (h : Heap) (s : Nat) : List Obj :=
  match h.state? s with
  | none => []
  | some st =>
    let a := h.argsOf st.args
    [.obj st.clustersId] ++ st.clusters.flatMap (clusterObjs h)
      ++ (match st.labels with | some l => [.obj l.1] | none => [])
      ++ [.args st.args] ++ paramObjs a.lam ++ paramObjs a.beta
      ++ [.obj st.data.id] ++ arrObjs st.pll

end FastTicc.Heap

/-
Model of `fast_ticc/data_preparation.py` (properties C04, C07, C10).  Core Lean only.
Cells are copied, never computed, so the cell type is arbitrary.
-/
namespace FastTicc.Stack

/-- `stack_training_data(data, W)`: `data` is a list of `T` rows; row `i` of the
result is `data[i] ++ data[i+1] ++ … ++ data[i+W-1]`
(`stacked[i, j*N:(j+1)*N] = data[i+j, :]`), for `i < T - W + 1`. -/
def stackRow {α} (data : List (List α)) (W i : Nat) : List α :=
  (List.range W).flatMap (fun j => data.getD (i + j) [])

def stack {α} (data : List (List α)) (W : Nat) : List (List α) :=
  (List.range (data.length + 1 - W)).map (stackRow data W)

/-- `stack_training_data_multiple_series`: stack each, then `np.vstack`. -/
def stackMulti {α} (series : List (List (List α))) (W : Nat) : List (List α) :=
  series.flatMap (fun d => stack d W)

/-- stacked length of one series (`len(series) - W + 1`, front_end.py:326). -/
def stackedLen (T W : Nat) : Nat := T + 1 - W

/-- `itertools.accumulate(lens)`. -/
def accumulate : List Nat → List Nat
  | [] => []
  | x :: xs => x :: (accumulate xs).map (x + ·)

/-- `label_switching_cost_template` as on the pinned tree: ones, zeros **at** the
cumulative lengths (all but the last). -/
def maskTemplatePinned (lens : List Nat) : List Nat :=
  let total := lens.sum
  let ends := (accumulate lens).dropLast
  (List.range total).map (fun i => if ends.contains i then 0 else 1)

/-- the repaired helper: zeros at `endpoint - 1` (the pair `(i,i+1)` that straddles). -/
def maskTemplate (lens : List Nat) : List Nat :=
  let total := lens.sum
  let ends := ((accumulate lens).dropLast).map (· - 1)
  (List.range total).map (fun i => if ends.contains i then 0 else 1)

/-- index of the series that stacked point `i` belongs to. -/
def seriesOf : List Nat → Nat → Nat
  | [], _ => 0
  | l :: ls, i => if i < l then 0 else seriesOf ls (i - l) + 1

/-- `pad_missing_labels`: front = `int((W-1)/2)`, back = `(W-1) - front`. -/
def frontLen (W : Nat) : Nat := (W - 1) / 2
def backLen (W : Nat) : Nat := (W - 1) - frontLen W

def padMissing (labels : List Int) (W : Nat) : List Int :=
  List.replicate (frontLen W) (-1) ++ labels ++ List.replicate (backLen W) (-1)

/-- `split_joint_labels`: `joint[start:end]` for consecutive cumulative ends.
The real code asserts `len(joint) = sum(lens)` (modelled by `splitJoint?`). -/
def splitJoint {α} : List α → List Nat → List (List α)
  | _, [] => []
  | l, n :: ns => l.take n :: splitJoint (l.drop n) ns

def splitJoint? {α} (l : List α) (lens : List Nat) : Option (List (List α)) :=
  if l.length = lens.sum then some (splitJoint l lens) else none

/-- `_split_combined_result` label part: split, then pad each part. -/
def splitAndPad (joint : List Int) (lens : List Nat) (W : Nat) : List (List Int) :=
  (splitJoint joint lens).map (fun l => padMissing l W)

end FastTicc.Stack

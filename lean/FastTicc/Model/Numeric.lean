/-
Numeric kernels (properties C02, C03, C05, C12, C17, C18).  Core Lean only.

Every definition is written once, polymorphic in the scalar: it is instantiated at `Rat`
(exact) or `Float` (IEEE double) when the driver executes it, and at an ordered field / ℝ in
the theorems.  Vectors and matrices are functions `Nat → α` / `Nat → Nat → α` with explicit
sizes; `sumTo n f = f 0 + … + f (n-1)`.
-/
import FastTicc.Model.Index
import FastTicc.Generated.Constants

namespace FastTicc.Numeric
open FastTicc.Index

section
variable {α : Type} [Add α] [Sub α] [Mul α] [Div α] [Neg α] [Zero α] [NatCast α] [LT α] [DecidableLT α]

def sumTo (n : Nat) (f : Nat → α) : α := (List.range n).foldl (fun acc i => acc + f i) 0

/-- sum of `f` over a list of positions. -/
def sumOver {ι : Type} (l : List ι) (f : ι → α) : α := l.foldl (fun acc i => acc + f i) 0

/-! ### ADMM Z-update (solver.py:168-242, 298-384) — C02, C18 -/

/-- Python `max(a, b)` / `min(a, b)` (first argument wins ties). -/
def pyMax (a b : α) : α := if a < b then b else a
def pyMin (a b : α) : α := if b < a then b else a

/-- `soft_threshold_prox(scaled_point_sum, lambda_sum, rho_times_r)`, literally (including the
redundant clamps). -/
def softThreshold (s lam rr : α) : α :=
  if lam < s then pyMax ((s - lam) / rr) 0
  else if s < -lam then pyMin ((s + lam) / rr) 0
  else 0

/-- `compute_lambda_sum`, scalar branch: `float(lambda) * num_occurrences`. -/
def lambdaSumScalar (lam : α) (b W : Nat) : α := lam * ((W - b : Nat) : α)

/-- `compute_lambda_sum`, matrix branch: `np.sum(lambda[rows, cols])` over the class positions. -/
def lambdaSumMatrix (Lam : Nat → Nat → α) (b r c N W : Nat) : α :=
  sumOver (positions b r c N W) (fun p => Lam p.1 p.2)

/-- the sparsity weight in either form. -/
inductive Lambda (α : Type) where
  | scalar (v : α)
  | matrix (M : Nat → Nat → α)

def lambdaSum (lam : Lambda α) (b r c N W : Nat) : α :=
  match lam with
  | .scalar v => lambdaSumScalar v b W
  | .matrix M => lambdaSumMatrix M b r c N W

/-- the new consensus value of one Toeplitz class (lines 217-238). -/
def classValue (rho : α) (lam : Lambda α) (tpu : Nat → α) (b r c N W : Nat) : α :=
  softThreshold (rho * sumOver (locCompressed b r c N W) tpu) (lambdaSum lam b r c N W)
    (rho * ((W - b : Nat) : α))

/-- `admm_update_z`: start from zeros; for every class, `z_update[indices] = value`.
Compressed vectors are `List α`. -/
def zUpdate (rho : α) (lam : Lambda α) (N W : Nat) (u x : List α) : List α :=
  let tpu : Nat → α := fun i => x.getD i 0 + u.getD i 0
  (classes N W).foldl
    (fun z k =>
      let v := classValue rho lam tpu k.1 k.2.1 k.2.2 N W
      (locCompressed k.1 k.2.1 k.2.2 N W).foldl (fun z i => z.set i v) z)
    (List.replicate x.length 0)

/-- `admm_update_u`: `u + x - z`. -/
def uUpdate (u x z : List α) : List α :=
  (List.range u.length).map (fun i => (u.getD i 0 + x.getD i 0) - z.getD i 0)

/-- the stopping rule of `check_convergence` with the norms / square root supplied as numbers. -/
def stopRule (sqrtN absTol relTol slack normX normZ normRhoU resPrimal resDual : α) : Bool :=
  let absTerm := sqrtN * absTol + slack
  let tolPrimal := absTerm + relTol * pyMax normX normZ
  let tolDual := absTerm + relTol * normRhoU
  (!decide (tolPrimal < resPrimal)) && (!decide (tolDual < resDual))

/-! ### X-update eigenvalue map (solver.py:405-416) and the covariance floor — C03 -/

/-- pinned: `(1/(2ρ)) * (d + sqrt(d² + 4ρ))`. -/
def eigPinned (sqrt : α → α) (rho d : α) : α :=
  ((1 : Nat) : α) / (((2 : Nat) : α) * rho) * (d + sqrt (d * d + ((4 : Nat) : α) * rho))

/-- repaired: the same real number, evaluated as `4ρ / (sqrt(d²+4ρ) − d)` for `d < 0`. -/
def eigRepaired (sqrt : α → α) (rho d : α) : α :=
  let root := sqrt (d * d + ((4 : Nat) : α) * rho)
  ((1 : Nat) : α) / (((2 : Nat) : α) * rho) *
    (if d < 0 then (((4 : Nat) : α) * rho) / (root - d) else d + root)

/-- `_zero_small_elements`: `(x < eps) & (x > -eps)` → 0. -/
def floorFilter (eps x : α) : α := if x < eps ∧ -eps < x then 0 else x

/-! ### Gaussian log-likelihood (likelihood.py:85-93, 169-184) — C05 -/

/-- `x_minus_mu.T @ theta @ x_minus_mu`. -/
def quadForm (n : Nat) (theta : Nat → Nat → α) (d : Nat → α) : α :=
  sumTo n (fun j => sumTo n (fun i => d i * theta i j) * d j)

/-- `0.5 * (log_det_theta - quad - nw_log_2pi)`; the two logarithms are parameters. -/
def logLik (n : Nat) (half logDet nwLog2pi : α) (theta : Nat → Nat → α) (mu x : Nat → α) : α :=
  half * ((logDet - quadForm n theta (fun i => x i - mu i)) - nwLog2pi)

/-- the all-points / all-clusters table: entry `(p, k)`. -/
def logLikTable (n : Nat) (half nwLog2pi : α) (logDets : Nat → α) (thetas : Nat → Nat → Nat → α)
    (mus : Nat → Nat → α) (data : Nat → Nat → α) (p k : Nat) : α :=
  logLik n half (logDets k) nwLog2pi (thetas k) (mus k) (data p)

/-! ### cluster statistics (cluster_maintenance.py:233-270) — C12 -/

/-- `np.mean(training_data[members], axis=0)`, column `j`. -/
def clusterMean (data : Nat → Nat → α) (members : List Nat) (j : Nat) : α :=
  sumOver members (fun i => data i j) / (members.length : α)

/-- `np.cov(X.T, bias=biased)`, entry `(a, b)`: divides by `n` if biased else `n - 1`. -/
def clusterCov (data : Nat → Nat → α) (members : List Nat) (biased : Bool) (a b : Nat) : α :=
  let ma := clusterMean data members a
  let mb := clusterMean data members b
  sumOver members (fun i => (data i a - ma) * (data i b - mb)) /
    ((members.length : α) - (if biased then 0 else ((1 : Nat) : α)))

/-! ### Calinski-Harabasz index (cluster_metrics.py:88-128) — C17 -/

/-- `np.mean(stacked_training_data)`: the scalar mean of all entries (what the code centres on). -/
def scalarMean (T d : Nat) (data : Nat → Nat → α) : α :=
  sumTo T (fun i => sumTo d (fun j => data i j)) / ((T * d : Nat) : α)

/-- per-column centroid (what the definition centres on). -/
def centroid (T : Nat) (data : Nat → Nat → α) (j : Nat) : α :=
  sumTo T (fun i => data i j) / (T : α)

def sqDist (d : Nat) (v w : Nat → α) : α := sumTo d (fun j => (v j - w j) * (v j - w j))

/-- between-group dispersion for a given centre. -/
def between (K d : Nat) (sizes : Nat → Nat) (means : Nat → Nat → α) (centre : Nat → α) : α :=
  sumTo K (fun k => (sizes k : α) * sqDist d (means k) centre)

/-- within-group dispersion. -/
def within (K d : Nat) (members : Nat → List Nat) (means : Nat → Nat → α) (data : Nat → Nat → α) : α :=
  sumTo K (fun k => sumOver (members k) (fun i => sqDist d (data i) (means k)))

/-- `[B/(K-1)] / [Wd/(T-K)]` evaluated the way the code does: `(B / Wd) * ((T - K)/(K - 1))`. -/
def chIndex (T K : Nat) (B Wd : α) : α := (B / Wd) * (((T : α) - (K : α)) / ((K : α) - ((1 : Nat) : α)))

/-- the code: trace of the accumulated outer-product matrices, centred on the scalar mean. -/
def traceOuterSum (K d : Nat) (w : Nat → α) (v : Nat → Nat → α) : α :=
  sumTo d (fun j => sumTo K (fun k => w k * (v k j * v k j)))

def chPinned (T K d : Nat) (members : Nat → List Nat) (means : Nat → Nat → α) (data : Nat → Nat → α) : α :=
  chIndex T K (between K d (fun k => (members k).length) means (fun _ => scalarMean T d data))
    (within K d members means data)

def chSpec (T K d : Nat) (members : Nat → List Nat) (means : Nat → Nat → α) (data : Nat → Nat → α) : α :=
  chIndex T K (between K d (fun k => (members k).length) means (centroid T data))
    (within K d members means data)
end

end FastTicc.Numeric

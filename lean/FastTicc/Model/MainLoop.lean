/-
Model of `main_loop.fit_stacked_data` (main_loop.py:87-194) — properties C09 and C20 —
and of the task scatter/gather of `graphical_lasso.py:79-162` (C14, C20).  Core Lean only.

The four phases are parameters (`Except ε`-valued, so a phase may fail).  `labels`
projects the labelling out of a model state.  The loop mirrors the code:

    prev = None
    for i in range(limit):
        if i > 0: s = repop(s)
        s = stats(s); s = opt(s); s = relabel(s)
        if prev == labels(s): break
        prev = copy(labels(s))
-/
import FastTicc.Generated.Constants

namespace FastTicc.MainLoop
open FastTicc.Constants

structure Phases (σ ε : Type) where
  repop : σ → Except ε σ
  stats : σ → Except ε σ
  opt : σ → Except ε σ
  relabel : σ → Except ε σ

/-- one fit-and-relabel round with index `i` (lines 110-124), as a reader writes it down. -/
def roundSpec {σ ε : Type} (P : Phases σ ε) (i : Nat) (s : σ) : Except ε σ := do
  let s1 ← if repopAfterRound < i then P.repop s else pure s
  let s2 ← P.stats s1
  let s3 ← P.opt s2
  P.relabel s3

/-- one phase call, by its code in `Constants.phaseOrder` (1 repopulate — under the round-index guard
iff the source has it there —, 2 statistics, 3 optimise, 4 relabel). -/
def applyPhase {σ ε : Type} (P : Phases σ ε) (i : Nat) (code : Nat) (s : σ) : Except ε σ :=
  match code with
  | 1 => if repopGuarded = 1 then (if repopAfterRound < i then P.repop s else pure s) else P.repop s
  | 2 => P.stats s
  | 3 => P.opt s
  | 4 => P.relabel s
  | _ => pure s

/-- one round as TRANSLATED FROM THE SOURCE on every run: the phase calls in the order the AST of
`fit_stacked_data` has them (`Generated/Constants.lean`).  This is the definition the loop, the
theorems and the compiled driver use; `round_eq_spec` (Proofs/MainLoop.lean) proves it equal to
`roundSpec` — a proof that only checks while the source's round has the shape C09 describes. -/
def round {σ ε : Type} (P : Phases σ ε) (i : Nat) (s : σ) : Except ε σ :=
  phaseOrder.foldlM (fun s c => applyPhase P i c s) s

/-- what a run produced: the last state, the number of rounds performed, and the state
after every round (oldest first). -/
structure Outcome (σ : Type) where
  final : σ
  rounds : Nat
  history : List σ

/-- the `for` loop with `fuel` iterations left, about to start round `i`. -/
def loop {σ ε L : Type} [DecidableEq L] (P : Phases σ ε) (labels : σ → L) :
    (fuel i : Nat) → (prev : Option L) → (s : σ) → (hist : List σ) → Except ε (Outcome σ)
  | 0, i, _, s, hist => pure ⟨s, i, hist⟩
  | fuel + 1, i, prev, s, hist => do
    let s' ← round P i s
    if prev = some (labels s') then pure ⟨s', i + 1, hist ++ [s']⟩
    else loop P labels fuel (i + 1) (some (labels s')) s' (hist ++ [s'])

/-- `fit_stacked_data` after initialisation: `limit = iteration_limit` (asserted `> 0`). -/
def run {σ ε L : Type} [DecidableEq L] (P : Phases σ ε) (labels : σ → L) (limit : Nat) (s0 : σ) :
    Except ε (Outcome σ) :=
  loop P labels limit 0 none s0 []

/-! ### worker pool life cycle (C20) -/

inductive PoolState where
  | created | closedJoined | terminatedJoined | abandoned
  deriving DecidableEq, Repr

/-- pool handling around the loop.  `repaired = false` is the pinned behaviour (close/join only
on the success path); `repaired = true` terminates and joins on the error path, then re-raises. -/
def runWithPool {σ ε L : Type} [DecidableEq L] (repaired : Bool) (P : Phases σ ε) (labels : σ → L)
    (limit : Nat) (s0 : σ) : Except ε (Outcome σ) × PoolState :=
  match run P labels limit s0 with
  | .ok r => (.ok r, .closedJoined)
  | .error e => (.error e, if repaired then .terminatedJoined else .abandoned)

/-! ### scatter / gather of the per-cluster optimisation tasks (C14, C20) -/

/-- `_retrieve_optimization_results`: `AsyncResult.get()` in cluster order; the first failing
`get` raises. -/
def gather {β ε : Type} : List (Except ε β) → Except ε (List β)
  | [] => pure []
  | t :: ts => do
    let v ← t
    let vs ← gather ts
    pure (v :: vs)

/-- tasks complete in some order `sched` (a list of task indices); each completion stores its
value in the slot of its own handle. -/
def complete {β : Type} (f : Nat → β) (K : Nat) (sched : List Nat) : List (Option β) :=
  sched.foldl (fun slots k => slots.set k (some (f k))) (List.replicate K none)

/-- front-end input-kind dispatch (front_end.py:186-193, :315-324). -/
inductive InputKind where
  | array2d | listOfArrays
  deriving DecidableEq, Repr

inductive FrontEndError where
  | typeError (rightEntryPoint : String)
  | runtimeErrorNoDonor
  | other (tag : Nat)
  deriving DecidableEq, Repr

/-- `ticc_labels` stacks with `data.shape` (AttributeError on a list → TypeError);
`ticc_joint_labels` iterates the array's rows and fails with IndexError on `shape[1]` → TypeError. -/
def singleFrontEndAccepts : InputKind → Except FrontEndError Unit
  | .array2d => pure ()
  | .listOfArrays => throw (.typeError "ticc_joint_labels")

def jointFrontEndAccepts : InputKind → Except FrontEndError Unit
  | .listOfArrays => pure ()
  | .array2d => throw (.typeError "ticc_labels")

/-! ### memoised pure helpers (C14) -/

/-- `functools.cache`: look the key up, else compute and store. -/
def cached {κ β : Type} [DecidableEq κ] (f : κ → β) (table : List (κ × β)) (x : κ) : β × List (κ × β) :=
  match table.lookup x with
  | some v => (v, table)
  | none => (f x, (x, f x) :: table)

/-- a history of calls through the cache. -/
def cachedCalls {κ β : Type} [DecidableEq κ] (f : κ → β) : List (κ × β) → List κ → List β × List (κ × β)
  | table, [] => ([], table)
  | table, x :: xs =>
    let r := cached f table x
    let rest := cachedCalls f r.2 xs
    (r.1 :: rest.1, rest.2)

/-! ### parallel fill of the likelihood table (C15) -/

/-- cells written in any order `order` (flat indices), each with a value depending only on the index. -/
def fill {β : Type} (g : Nat → β) (init : List β) (order : List Nat) : List β :=
  order.foldl (fun t i => t.set i (g i)) init

end FastTicc.MainLoop

namespace FastTicc.MainLoop

/-! ### the optimise phase as K per-cluster tasks (graphical_lasso.py:79-162) -/

/-- `optimize_markov_random_fields`: submit one task per cluster (cluster order), gather with
`get()` in cluster order, then store the results. -/
def optFromTasks {σ ε β : Type} (K : Nat) (task : σ → Nat → Except ε β) (store : σ → List β → σ) :
    σ → Except ε σ :=
  fun s => (gather ((List.range K).map (task s))).map (store s)

/-! ### the ADMM outer loop (solver.py:100-127) -/

/-- one ADMM state: `(x, z, u)`. -/
structure Admm (ν : Type) where
  x : ν
  z : ν
  u : ν

/-- `for iteration in range(max_iterations)`: x, z, u updates; the stopping rule is evaluated only
for `iteration > 0`; returns the last `x` (not `z`) and the number of iterations performed.
`step` is one sweep of the three updates (`z_old` is the previous `z`), `stop` the stopping rule
(`check_convergence(args, u, x, z, z_old)`), `rescale` the optional rho update applied when the
rule did not fire. -/
def admmLoop {ν : Type} (step : Admm ν → Admm ν) (stop : Admm ν → ν → Bool) (rescale : Admm ν → ν → Admm ν) :
    (fuel iteration : Nat) → Admm ν → ν × Nat
  | 0, it, s => (s.x, it)
  | fuel + 1, it, s =>
    let s' := step s
    if 0 < it ∧ stop s' s.z then (s'.x, it + 1)
    else admmLoop step stop rescale fuel (it + 1) (if 0 < it then rescale s' s.z else s')

/-- one sweep TRANSLATED FROM THE SOURCE: the X, Z and U updates applied in the order the AST of
`run_admm_optimization` has them (`Constants.admmUpdateOrder`; 1 = X, 2 = Z, 3 = U), each reading the
state the previous one left. -/
def sweep {ν : Type} (ux uz uu : Admm ν → ν) (s : Admm ν) : Admm ν :=
  List.foldl (fun s c =>
    match c with
    | 1 => { s with x := ux s }
    | 2 => { s with z := uz s }
    | 3 => { s with u := uu s }
    | _ => s) s Constants.admmUpdateOrder

/-- the sweep as the paper (and C02) describe it: X from (z, u), then Z from (the new x, u), then U
from (u, the new x, the new z). -/
def sweepSpec {ν : Type} (ux uz uu : Admm ν → ν) (s : Admm ν) : Admm ν :=
  let s1 := { s with x := ux s }
  let s2 := { s1 with z := uz s1 }
  { s2 with u := uu s2 }

def admmRun {ν : Type} (step : Admm ν → Admm ν) (stop : Admm ν → ν → Bool) (rescale : Admm ν → ν → Admm ν)
    (maxIter : Nat) (zero : ν) : ν × Nat :=
  admmLoop step stop rescale maxIter 0 ⟨zero, zero, zero⟩

end FastTicc.MainLoop

/-
Whole-result model: what `fit_stacked_data` (main_loop.py:146-204) derives from the state its loop
ends with, composed from the per-property models — the per-point log-likelihoods under the returned
model (`likelihood.point_log_likelihood`), their aggregates (`Result.assemble`), the Bayesian
information criterion (`cluster_metrics.bayesian_information_criterion`: run counting, non-zero
parameter counts, log-determinant and trace terms) and the Calinski-Harabasz index
(`cluster_metrics.calinski_harabasz_index`, scalar-centred as the code is, means of the final member
lists).  Core Lean only.

Inputs that the model does not compute are the oracles of `Run` (ADMM outputs and their
log-determinants) plus `log T`.  Everything else is computed from the data, the final state and the
labelling the final model was fitted to (`St.fitted`).
-/
import FastTicc.Model.Run
import FastTicc.Model.Result

namespace FastTicc.Final
open FastTicc FastTicc.Run

structure Report (α : Type) where
  labels : List Nat
  cost : α
  rounds : Nat
  agg : Result.Aggregates α
  params : Nat
  bic : α
  ch : α

section
variable {α : Type} [Add α] [Sub α] [Mul α] [Div α] [Neg α] [Zero α] [NatCast α]
  [LT α] [DecidableLT α] [LE α] [DecidableLE α]

/-- the oracle round the state's scoring model (MRFs, log-determinants) belongs to: the relabel
phase increments the counter after scoring. -/
def fitRound (s : St α) : Nat := s.round - 1

/-- `point_log_likelihood(data[p], clusters[labels[p]], …)` under the returned model. -/
def pointLL (inp : Input α) (orc : Oracles α) (s : St α) (p : Nat) : α :=
  let k := s.labels.getD p 0
  Numeric.logLik inp.d inp.half (orc.logDet (fitRound s) k) inp.nwLog2pi
    (orc.theta (fitRound s) k) (meanOf s k) (inp.data p)

def pointLLs (inp : Input α) (orc : Oracles α) (s : St α) : List α :=
  (List.range inp.T).map (pointLL inp orc s)

/-- the returned MRF of cluster `k` as rows. -/
def thetaRows (inp : Input α) (orc : Oracles α) (s : St α) (k : Nat) : List (List α) :=
  (List.range inp.d).map fun i => (List.range inp.d).map fun j => orc.theta (fitRound s) k i j

/-- the empirical covariance the last statistics phase stored for cluster `k`: over the windows of
the labelling that phase saw (`fitted`), divisor by the flag — with the single-window fallback to
the biased estimator (cluster_maintenance.py:263-266). -/
def covRows (inp : Input α) (biased : Bool) (s : St α) (k : Nat) : List (List α) :=
  let mem := Repop.members s.fitted k
  let b := biased || decide (mem.length < 2)
  (List.range inp.d).map fun a => (List.range inp.d).map fun c => Numeric.clusterCov inp.data mem b a c

/-- `non_zero_params`: the run-counting fold over the final labelling. -/
def bicParams (inp : Input α) (orc : Oracles α) (thr : α) (s : St α) : Nat :=
  Result.runsParams (fun k => Result.nnz thr (thetaRows inp orc s k)) s.labels

/-- `mod_lle`. -/
def bicLle (inp : Input α) (orc : Oracles α) (biased : Bool) (s : St α) : α :=
  Result.modLle ((List.range inp.K).map (orc.logDet (fitRound s)))
    ((List.range inp.K).map (thetaRows inp orc s)) ((List.range inp.K).map (covRows inp biased s))

/-- the member lists and means the index is computed from: those of the *returned* labelling. -/
def finalMembers (s : St α) (k : Nat) : List Nat := Repop.members s.labels k
def finalMeans (inp : Input α) (s : St α) (k j : Nat) : α :=
  Numeric.clusterMean inp.data (finalMembers s k) j

def chValue (inp : Input α) (s : St α) : α :=
  Numeric.chPinned inp.T inp.K inp.d (finalMembers s) (finalMeans inp s) inp.data

/-- everything `fit_stacked_data` returns, from the loop's outcome. -/
def report (inp : Input α) (orc : Oracles α) (logT thr : α) (biased : Bool)
    (o : MainLoop.Outcome (St α)) : Report α :=
  let s := o.final
  { labels := s.labels
    cost := s.cost
    rounds := o.rounds
    agg := Result.assemble inp.K (s.labels.map Int.ofNat) (pointLLs inp orc s)
    params := bicParams inp orc thr s
    bic := Result.bic (bicParams inp orc thr s) logT (bicLle inp orc biased s)
    ch := chValue inp s }

/-- `fit_stacked_data` from the initial labelling to the returned result. -/
def fit (inp : Input α) (orc : Oracles α) (logT thr : α) (biased : Bool) (limit : Nat)
    (init : List Nat) : Except String (Report α) :=
  match Run.run inp orc limit init with
  | .ok o => .ok (report inp orc logT thr biased o)
  | .error e => .error e
end

end FastTicc.Final

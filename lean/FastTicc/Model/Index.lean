/-
Model of `fast_ticc/matrix_compression.py` and `fast_ticc/admm/unique_values.py`
(property C11).  Core Lean only.

Matrices are functions `Nat → Nat → α` together with an explicit size; the
compressed form is a `List α` in row-major order of the upper triangle.
-/
namespace FastTicc.Index

/-- `np.triu_indices(n)` zipped: row-major upper triangle, `(r,c)` with `r ≤ c < n`. -/
def rowIdx (n r : Nat) : List (Nat × Nat) :=
  (List.range (n - r)).map (fun k => (r, r + k))

def triuIdx (n : Nat) : List (Nat × Nat) :=
  (List.range n).flatMap (rowIdx n)

/-- `_size_including_this_row(r, n)`: `n*(r+1) - r*(r+1)/2` (the division is exact). -/
def sizeIncludingRow (r n : Nat) : Nat := n * (r + 1) - r * (r + 1) / 2

/-- `_elements_in_row_after_target(c, n)` = `(n-1) - c`. -/
def elementsAfter (c n : Nat) : Nat := (n - 1) - c

/-- `_compressed_index(row, column, n)`; the real code raises `IndexError` when
`column < row` (modelled as `none`). -/
def compressedIndex? (r c n : Nat) : Option Nat :=
  if c < r then none else some (sizeIncludingRow r n - (elementsAfter c n + 1))

def compressedIndex (r c n : Nat) : Nat :=
  sizeIncludingRow r n - (elementsAfter c n + 1)

/-- `compress_matrix`: `full_matrix[triu_indices(n)]`. -/
def compress {α} (M : Nat → Nat → α) (n : Nat) : List α :=
  (triuIdx n).map (fun p => M p.1 p.2)

/-- `_full_matrix_size(m)`: `int((sqrt(8m+1) - 1)/2)`; integer square root in the model. -/
def fullSize (m : Nat) : Nat := (Nat.sqrt (8 * m + 1) - 1) / 2

/-- position of `(r,c)` in `triuIdx n` (what `square[triu_indices] = v` uses). -/
def posOf (n r c : Nat) : Option Nat :=
  (triuIdx n).findIdx? (fun p => p.1 == r && p.2 == c)

/-- `_uncompress_upper_triangle`: zeros, then `square[triu_indices(size)] = v`. -/
def uncompressUpper {α} [Zero α] (v : List α) (n : Nat) (r c : Nat) : α :=
  match posOf n r c with
  | some k => v.getD k 0
  | none => 0

/-- `_upper_to_full`: `(upper + upper.T) - diag(diagonal(upper))`, literally. -/
def upperToFull {α} [Add α] [Sub α] [Zero α] (U : Nat → Nat → α) (r c : Nat) : α :=
  (U r c + U c r) - (if r = c then U r r else 0)

/-- `reinflate_matrix` with `size = _full_matrix_size(len v)`. -/
def reinflate {α} [Add α] [Sub α] [Zero α] (v : List α) (r c : Nat) : α :=
  upperToFull (uncompressUpper v (fullSize v.length)) r c

/-- `_block_start_coordinates(b, N, W)`: corners `(i*N, b*N + i*N)`, `i < W - b`.
The real code raises for `b ≥ W`, `N ≤ 0`, `W ≤ 0` (modelled by `blockStarts?`). -/
def blockStarts (b N W : Nat) : List (Nat × Nat) :=
  (List.range (W - b)).map (fun i => (0 + i * N, b * N + i * N))

def blockStarts? (b N W : Nat) : Option (List (Nat × Nat)) :=
  if b ≥ W then none else if N = 0 then none else if W = 0 then none
  else some (blockStarts b N W)

/-- `_unique_variable_locations`. -/
def positions (b r c N W : Nat) : List (Nat × Nat) :=
  (blockStarts b N W).map (fun p => (p.1 + r, p.2 + c))

/-- `locations_compressed`. -/
def locCompressed (b r c N W : Nat) : List Nat :=
  (positions b r c N W).map (fun p => compressedIndex p.1 p.2 (N * W))

/-- `locations_index_slices`. -/
def locSlices (b r c N W : Nat) : List Nat × List Nat :=
  ((positions b r c N W).map (·.1), (positions b r c N W).map (·.2))

/-- the classes the Z-update iterates over (solver.py:197-207):
`b < W`, `r < N`, `c ∈ [if b = 0 then r else 0, N)`. -/
def classes (N W : Nat) : List (Nat × Nat × Nat) :=
  (List.range W).flatMap fun b =>
    (List.range N).flatMap fun r =>
      ((List.range N).filter (fun c => if b = 0 then r ≤ c else true)).map fun c => (b, r, c)

end FastTicc.Index

/-
Property C02 (continued) — SOUNDNESS OF THE KKT CERTIFICATE.  DESIGN.md used to cite "the certificate
implies global optimality" as mathematics; it is now a theorem over Mathlib's real matrices:

* `kkt_global_min`: a positive definite `X` that is constant on the classes of an arbitrary
  classification of the matrix positions and satisfies the class-wise KKT conditions of
  `−log det Θ + tr(SΘ) + Σ_ij Λ_ij|Θ_ij|` minimises that objective over ALL positive definite matrices
  that are constant on the classes (block-Toeplitz matrices for TICC's classes; every matrix for the
  identity classification).
* `admm_fixed_point_global_min`: the conditions hold at a fixed point of the ADMM iteration — there
  `X = Z`, the X-update's stationarity gives `X⁻¹ − S = ρU`, and every class value is the soft
  threshold of its own `x + u` entries (`fixed_point_class_kkt`, C02) — so an ADMM fixed point IS the
  constrained optimum.
* `mle_is_inverse_covariance`: with no penalty the optimum is `S⁻¹`.
* `blockToeplitz_iff_class_constant`, `ticc_admm_fixed_point_optimal`: for TICC's own classes (block offset,
  in-block row, in-block column, mirror positions folded) "constant on the classes" IS "block-Toeplitz with
  symmetric leading block", so the fixed point is the optimum over exactly the set the property names.
* `kkt_approx_global_min`: a certificate that holds up to residuals `r_c` bounds the suboptimality against
  every competitor by `Σ_c r_c |y_c − x_c|` — "a minimiser to within the stopping tolerance" made exact.

What remains unproved for C02 is only that the floating-point iteration reaches (a neighbourhood of)
such a fixed point within its budget.  Helper lemmas: `FastTicc/Proofs/LogDet.lean`.
-/
import FastTicc.Props.C02
import FastTicc.Proofs.LogDet

namespace FastTicc.C02opt
open Matrix FastTicc.LogDet FastTicc.Numeric
variable {n : Type*} [Fintype n] [DecidableEq n]

/-- the graphical-lasso objective `−log det Θ + tr(SΘ) + Σ_ij Λ_ij |Θ_ij|`. -/
noncomputable def glassoObj (S Lam Θ : Matrix n n ℝ) : ℝ :=
  - Real.log Θ.det + (S * Θ).trace + ∑ i, ∑ j, Lam i j * |Θ i j|

/-- one scalar subgradient inequality: if `g = L·sign x` (x ≠ 0) or `|g| ≤ L` (x = 0), `L ≥ 0`, then
`L(|y| − |x|) − g (y − x) ≥ 0`. -/
theorem abs_subgradient (L g x y : ℝ) (hL : 0 ≤ L)
    (h1 : x ≠ 0 → g = L * SignType.sign x) (h0 : x = 0 → |g| ≤ L) :
    0 ≤ L * (|y| - |x|) - g * (y - x) := by
  by_cases hx : x = 0
  · subst hx
    have hg := h0 rfl
    simp only [abs_zero, sub_zero]
    have : g * y ≤ |g| * |y| := by
      calc g * y ≤ |g * y| := le_abs_self _
        _ = |g| * |y| := abs_mul g y
    nlinarith [abs_nonneg y, abs_nonneg g]
  · have hg := h1 hx
    rcases lt_or_gt_of_ne hx with hneg | hpos
    · rw [hg, sign_neg hneg, abs_of_neg hneg]
      simp only [SignType.coe_neg_one]
      nlinarith [neg_abs_le y, le_abs_self y]
    · rw [hg, sign_pos hpos, abs_of_pos hpos]
      simp only [SignType.coe_one]
      nlinarith [neg_abs_le y, le_abs_self y]

variable {κ : Type*} [Fintype κ] [DecidableEq κ]

/-- SOUNDNESS OF THE KKT CERTIFICATE (class-wise form, as the Toeplitz-constrained problem needs it).
`cls` assigns every matrix position to a class; `x`/`y` give the common value of a class.
If `X` (positive definite, constant on classes) satisfies, for every class `c`, with
`g_c = Σ_{(i,j) ∈ c} (X⁻¹ − S)_ij` and `L_c = Σ_{(i,j) ∈ c} Λ_ij`:
`g_c = L_c · sign x_c` when `x_c ≠ 0` and `|g_c| ≤ L_c` when `x_c = 0`,
then `X` minimises the graphical-lasso objective over ALL positive definite matrices that are constant
on the classes. -/
theorem kkt_global_min (S Lam X : Matrix n n ℝ) (cls : n → n → κ) (x : κ → ℝ)
    (hX : X.PosDef) (hXc : ∀ i j, X i j = x (cls i j)) (hLam : ∀ i j, 0 ≤ Lam i j)
    (hkkt1 : ∀ c, x c ≠ 0 →
      (∑ p : n × n with cls p.1 p.2 = c, (X⁻¹ - S) p.1 p.2)
        = (∑ p : n × n with cls p.1 p.2 = c, Lam p.1 p.2) * SignType.sign (x c))
    (hkkt0 : ∀ c, x c = 0 →
      |∑ p : n × n with cls p.1 p.2 = c, (X⁻¹ - S) p.1 p.2|
        ≤ ∑ p : n × n with cls p.1 p.2 = c, Lam p.1 p.2)
    (Y : Matrix n n ℝ) (y : κ → ℝ) (hY : Y.PosDef) (hYc : ∀ i j, Y i j = y (cls i j)) :
    glassoObj S Lam X ≤ glassoObj S Lam Y := by
  have hconc := log_det_concave hX hY
  set G := X⁻¹ - S with hG
  -- tr(X⁻¹ (Y − X)) − tr(S (Y − X)) = Σ_ij G_ij (Y − X)_ij   (Y − X symmetric)
  have hsymm : ∀ i j, (Y - X) j i = (Y - X) i j := by
    intro i j
    have h1 := congrFun (congrFun hY.1 i) j
    have h2 := congrFun (congrFun hX.1 i) j
    simp only [conjTranspose_apply, star_trivial] at h1 h2
    simp [Matrix.sub_apply, h1, h2]
  have htrG : (X⁻¹ * (Y - X)).trace - (S * (Y - X)).trace = ∑ p : n × n, G p.1 p.2 * (Y - X) p.1 p.2 := by
    rw [← trace_sub, ← Matrix.sub_mul, ← hG, trace, Fintype.sum_prod_type]
    apply Finset.sum_congr rfl
    intro i _
    simp only [diag_apply, mul_apply]
    apply Finset.sum_congr rfl
    intro j _
    rw [hsymm]
  have hpen : ∀ M : Matrix n n ℝ, (∑ i, ∑ j, Lam i j * |M i j|) = ∑ p : n × n, Lam p.1 p.2 * |M p.1 p.2| := by
    intro M; rw [Fintype.sum_prod_type]
  -- group the sum over positions by class
  have hclass : ∑ p : n × n, (Lam p.1 p.2 * (|Y p.1 p.2| - |X p.1 p.2|) - G p.1 p.2 * (Y - X) p.1 p.2)
      = ∑ c : κ, ((∑ p : n × n with cls p.1 p.2 = c, Lam p.1 p.2) * (|y c| - |x c|)
          - (∑ p : n × n with cls p.1 p.2 = c, G p.1 p.2) * (y c - x c)) := by
    rw [← Finset.sum_fiberwise Finset.univ (fun p : n × n => cls p.1 p.2)]
    apply Finset.sum_congr rfl
    intro c _
    rw [Finset.sum_mul, Finset.sum_mul, ← Finset.sum_sub_distrib]
    apply Finset.sum_congr rfl
    intro p hp
    have hc : cls p.1 p.2 = c := (Finset.mem_filter.mp hp).2
    rw [hYc, hXc, Matrix.sub_apply, hYc, hXc, hc]
  have hnonneg : 0 ≤ ∑ p : n × n, (Lam p.1 p.2 * (|Y p.1 p.2| - |X p.1 p.2|) - G p.1 p.2 * (Y - X) p.1 p.2) := by
    rw [hclass]
    apply Finset.sum_nonneg
    intro c _
    apply abs_subgradient
    · exact Finset.sum_nonneg (fun p _ => hLam p.1 p.2)
    · exact hkkt1 c
    · exact hkkt0 c
  unfold glassoObj
  rw [hpen X, hpen Y]
  have hexp : ∑ p : n × n, (Lam p.1 p.2 * (|Y p.1 p.2| - |X p.1 p.2|) - G p.1 p.2 * (Y - X) p.1 p.2)
      = (∑ p : n × n, Lam p.1 p.2 * |Y p.1 p.2|) - (∑ p : n × n, Lam p.1 p.2 * |X p.1 p.2|)
        - ((X⁻¹ * (Y - X)).trace - (S * (Y - X)).trace) := by
    rw [htrG, Finset.sum_sub_distrib]
    congr 1
    rw [← Finset.sum_sub_distrib]
    apply Finset.sum_congr rfl
    intro p _
    ring
  rw [hexp] at hnonneg
  have hS : (S * (Y - X)).trace = (S * Y).trace - (S * X).trace := by
    rw [Matrix.mul_sub, trace_sub]
  linarith

/-- AN ADMM FIXED POINT IS THE CONSTRAINED OPTIMUM.  Let `X` be positive definite and constant on the
classes (`X = Z`, zero primal residual), let `U` be the scaled dual variable with
`X⁻¹ − S = ρ U` (what the X-update's stationarity `ρX − X⁻¹ = ρ(Z − U) − S` says when `Z = X`), and let
every class value be what the Z-update writes for that class from its own entries `x_c + U_p`
(zero dual residual): `softThreshold (ρ Σ_{p∈c} (x_c + U_p)) (Σ_{p∈c} Λ_p) (ρ |c|) = x_c`.
Then `X` minimises the graphical-lasso objective over all positive definite class-constant matrices. -/
theorem admm_fixed_point_global_min (S Lam X U : Matrix n n ℝ) (rho : ℝ) (hrho : 0 < rho)
    (cls : n → n → κ) (x : κ → ℝ)
    (hX : X.PosDef) (hXc : ∀ i j, X i j = x (cls i j)) (hLam : ∀ i j, 0 ≤ Lam i j)
    (hstat : X⁻¹ - S = rho • U)
    (hfix : ∀ c, (∃ p : n × n, cls p.1 p.2 = c) →
      softThreshold (rho * ∑ p : n × n with cls p.1 p.2 = c, (x c + U p.1 p.2))
        (∑ p : n × n with cls p.1 p.2 = c, Lam p.1 p.2)
        (rho * ((Finset.univ.filter (fun p : n × n => cls p.1 p.2 = c)).card : ℝ)) = x c)
    (Y : Matrix n n ℝ) (y : κ → ℝ) (hY : Y.PosDef) (hYc : ∀ i j, Y i j = y (cls i j)) :
    glassoObj S Lam X ≤ glassoObj S Lam Y := by
  -- class-wise KKT from the fixed-point property of every non-empty class
  have hclass : ∀ c, (0 < x c → rho * ∑ p : n × n with cls p.1 p.2 = c, U p.1 p.2
        = ∑ p : n × n with cls p.1 p.2 = c, Lam p.1 p.2) ∧
      (x c < 0 → rho * ∑ p : n × n with cls p.1 p.2 = c, U p.1 p.2
        = - ∑ p : n × n with cls p.1 p.2 = c, Lam p.1 p.2) ∧
      (x c = 0 → |rho * ∑ p : n × n with cls p.1 p.2 = c, U p.1 p.2|
        ≤ ∑ p : n × n with cls p.1 p.2 = c, Lam p.1 p.2) := by
    intro c
    set F := Finset.univ.filter (fun p : n × n => cls p.1 p.2 = c) with hF
    by_cases hne : ∃ p : n × n, cls p.1 p.2 = c
    · have hFne : F.Nonempty := by
        obtain ⟨p, hp⟩ := hne
        exact ⟨p, by simp [hF, hp]⟩
      set us : List ℝ := F.toList.map (fun p => U p.1 p.2) with hus
      have hsum : us.sum = ∑ p ∈ F, U p.1 p.2 := by
        rw [hus, Finset.sum_map_toList]
      have hlen : us.length = F.card := by simp [hus]
      have husne : us ≠ [] := by
        intro h
        have : us.length = 0 := by rw [h]; rfl
        rw [hlen] at this
        exact (Finset.card_ne_zero.mpr hFne) this
      have hsum2 : (us.map (fun u => x c + u)).sum = ∑ p ∈ F, (x c + U p.1 p.2) := by
        rw [hus, List.map_map]
        exact Finset.sum_map_toList F (fun p => x c + U p.1 p.2)
      have hL : 0 ≤ ∑ p ∈ F, Lam p.1 p.2 := Finset.sum_nonneg (fun p _ => hLam p.1 p.2)
      have := fixed_point_class_kkt (∑ p ∈ F, Lam p.1 p.2) rho (x c) us hL hrho husne
        (by rw [hsum2, hlen]; exact hfix c hne)
      rw [hsum] at this
      exact this
    · -- an empty class: all sums are empty
      have hF0 : F = ∅ := by
        apply Finset.filter_eq_empty_iff.mpr
        intro p _ hp
        exact hne ⟨p, hp⟩
      simp [hF0]
  apply kkt_global_min S Lam X cls x hX hXc hLam ?_ ?_ Y y hY hYc
  · intro c hc
    have hG : ∀ p : n × n, (X⁻¹ - S) p.1 p.2 = rho * U p.1 p.2 := by
      intro p; rw [hstat]; rfl
    simp only [hG, ← Finset.mul_sum]
    rcases lt_or_gt_of_ne hc with hneg | hpos
    · rw [(hclass c).2.1 hneg, sign_neg hneg]; simp
    · rw [(hclass c).1 hpos, sign_pos hpos]; simp
  · intro c hc
    have hG : ∀ p : n × n, (X⁻¹ - S) p.1 p.2 = rho * U p.1 p.2 := by
      intro p; rw [hstat]; rfl
    simp only [hG, ← Finset.mul_sum]
    exact (hclass c).2.2 hc

/-- with no penalty the optimum is the inverse covariance: for positive definite `S`, `S⁻¹` minimises
`−log det Θ + tr(SΘ)` over all positive definite `Θ` (the classification is the identity). -/
theorem mle_is_inverse_covariance (S : Matrix n n ℝ) (hS : S.PosDef) (Y : Matrix n n ℝ) (hY : Y.PosDef) :
    glassoObj S 0 S⁻¹ ≤ glassoObj S 0 Y := by
  have hinv : (S⁻¹)⁻¹ = S := Matrix.nonsing_inv_nonsing_inv S ((isUnit_iff_ne_zero).mpr hS.det_pos.ne')
  apply kkt_global_min S 0 S⁻¹ (fun i j => (i, j)) (fun p => S⁻¹ p.1 p.2) hS.inv (fun _ _ => rfl)
    (fun _ _ => le_refl _) ?_ ?_ Y (fun p => Y p.1 p.2) hY (fun _ _ => rfl)
  · intro c _
    simp [hinv]
  · intro c _
    simp [hinv]

/-- the scalar subgradient inequality with slack `r`: an `r`-approximate subgradient loses at most
`r |y − x|`. -/
theorem abs_subgradient_slack (L g x y r : ℝ) (hL : 0 ≤ L) (hr : 0 ≤ r)
    (h1 : x ≠ 0 → |g - L * SignType.sign x| ≤ r) (h0 : x = 0 → |g| ≤ L + r) :
    -(r * |y - x|) ≤ L * (|y| - |x|) - g * (y - x) := by
  by_cases hx : x = 0
  · subst hx
    have hg := h0 rfl
    simp only [abs_zero, sub_zero]
    have : g * y ≤ |g| * |y| := by
      calc g * y ≤ |g * y| := le_abs_self _
        _ = |g| * |y| := abs_mul g y
    nlinarith [abs_nonneg y, abs_nonneg g]
  · have hex := abs_subgradient L (L * SignType.sign x) x y hL (fun _ => rfl) (fun h => absurd h hx)
    have hd := h1 hx
    have : (L * SignType.sign x - g) * (y - x) ≥ -(r * |y - x|) := by
      have h2 : |(L * SignType.sign x - g) * (y - x)| ≤ r * |y - x| := by
        rw [abs_mul]
        apply mul_le_mul_of_nonneg_right _ (abs_nonneg _)
        rw [abs_sub_comm]; exact hd
      linarith [neg_abs_le ((L * SignType.sign x - g) * (y - x))]
    nlinarith [this, hex]

/-- QUANTITATIVE SOUNDNESS: a certificate that holds only up to a residual `r_c` per class bounds the
suboptimality against every competitor: `f(X) ≤ f(Y) + Σ_c r_c |y_c − x_c|`.  (This is the statement
behind "a minimiser to within the stopping tolerance": the check evaluates the class residuals `r_c` of
the returned matrix numerically.) -/
theorem kkt_approx_global_min (S Lam X : Matrix n n ℝ) (cls : n → n → κ) (x r : κ → ℝ)
    (hX : X.PosDef) (hXc : ∀ i j, X i j = x (cls i j)) (hLam : ∀ i j, 0 ≤ Lam i j) (hr : ∀ c, 0 ≤ r c)
    (hkkt1 : ∀ c, x c ≠ 0 →
      |(∑ p : n × n with cls p.1 p.2 = c, (X⁻¹ - S) p.1 p.2)
        - (∑ p : n × n with cls p.1 p.2 = c, Lam p.1 p.2) * SignType.sign (x c)| ≤ r c)
    (hkkt0 : ∀ c, x c = 0 →
      |∑ p : n × n with cls p.1 p.2 = c, (X⁻¹ - S) p.1 p.2|
        ≤ (∑ p : n × n with cls p.1 p.2 = c, Lam p.1 p.2) + r c)
    (Y : Matrix n n ℝ) (y : κ → ℝ) (hY : Y.PosDef) (hYc : ∀ i j, Y i j = y (cls i j)) :
    glassoObj S Lam X ≤ glassoObj S Lam Y + ∑ c, r c * |y c - x c| := by
  have hconc := log_det_concave hX hY
  set G := X⁻¹ - S with hG
  have hsymm : ∀ i j, (Y - X) j i = (Y - X) i j := by
    intro i j
    have h1 := congrFun (congrFun hY.1 i) j
    have h2 := congrFun (congrFun hX.1 i) j
    simp only [conjTranspose_apply, star_trivial] at h1 h2
    simp [Matrix.sub_apply, h1, h2]
  have htrG : (X⁻¹ * (Y - X)).trace - (S * (Y - X)).trace = ∑ p : n × n, G p.1 p.2 * (Y - X) p.1 p.2 := by
    rw [← trace_sub, ← Matrix.sub_mul, ← hG, trace, Fintype.sum_prod_type]
    apply Finset.sum_congr rfl
    intro i _
    simp only [diag_apply, mul_apply]
    apply Finset.sum_congr rfl
    intro j _
    rw [hsymm]
  have hpen : ∀ M : Matrix n n ℝ, (∑ i, ∑ j, Lam i j * |M i j|) = ∑ p : n × n, Lam p.1 p.2 * |M p.1 p.2| := by
    intro M; rw [Fintype.sum_prod_type]
  have hclass : ∑ p : n × n, (Lam p.1 p.2 * (|Y p.1 p.2| - |X p.1 p.2|) - G p.1 p.2 * (Y - X) p.1 p.2)
      = ∑ c : κ, ((∑ p : n × n with cls p.1 p.2 = c, Lam p.1 p.2) * (|y c| - |x c|)
          - (∑ p : n × n with cls p.1 p.2 = c, G p.1 p.2) * (y c - x c)) := by
    rw [← Finset.sum_fiberwise Finset.univ (fun p : n × n => cls p.1 p.2)]
    apply Finset.sum_congr rfl
    intro c _
    rw [Finset.sum_mul, Finset.sum_mul, ← Finset.sum_sub_distrib]
    apply Finset.sum_congr rfl
    intro p hp
    have hc : cls p.1 p.2 = c := (Finset.mem_filter.mp hp).2
    rw [hYc, hXc, Matrix.sub_apply, hYc, hXc, hc]
  have hlow : -(∑ c, r c * |y c - x c|)
      ≤ ∑ p : n × n, (Lam p.1 p.2 * (|Y p.1 p.2| - |X p.1 p.2|) - G p.1 p.2 * (Y - X) p.1 p.2) := by
    rw [hclass, ← Finset.sum_neg_distrib]
    apply Finset.sum_le_sum
    intro c _
    apply abs_subgradient_slack
    · exact Finset.sum_nonneg (fun p _ => hLam p.1 p.2)
    · exact hr c
    · exact hkkt1 c
    · exact hkkt0 c
  unfold glassoObj
  rw [hpen X, hpen Y]
  have hexp : ∑ p : n × n, (Lam p.1 p.2 * (|Y p.1 p.2| - |X p.1 p.2|) - G p.1 p.2 * (Y - X) p.1 p.2)
      = (∑ p : n × n, Lam p.1 p.2 * |Y p.1 p.2|) - (∑ p : n × n, Lam p.1 p.2 * |X p.1 p.2|)
        - ((X⁻¹ * (Y - X)).trace - (S * (Y - X)).trace) := by
    rw [htrG, Finset.sum_sub_distrib]
    congr 1
    rw [← Finset.sum_sub_distrib]
    apply Finset.sum_congr rfl
    intro p _
    ring
  rw [hexp] at hlow
  have hS : (S * (Y - X)).trace = (S * Y).trace - (S * X).trace := by
    rw [Matrix.mul_sub, trace_sub]
  linarith

/-! ### TICC's classes: block-Toeplitz = constant on the classes -/

/-- index of a stacked window entry: (block `0..W-1`, sensor `0..N-1`) — the flat index is
`block * N + sensor`. -/
abbrev Idx (W N : ℕ) := Fin W × Fin N

/-- TICC's Toeplitz class of a matrix position, mirror positions folded together: block offset,
in-block row, in-block column (taken from the upper-triangle representative; inside a diagonal
block the unordered pair of sensors). -/
def ticcCls (W N : ℕ) (p q : Idx W N) : Fin W × Fin N × Fin N :=
  if p.1 < q.1 then (⟨q.1 - p.1, by omega⟩, p.2, q.2)
  else if q.1 < p.1 then (⟨p.1 - q.1, by omega⟩, q.2, p.2)
  else (⟨0, p.1.pos⟩, min p.2 q.2, max p.2 q.2)

theorem ticcCls_symm (W N : ℕ) (p q : Idx W N) : ticcCls W N p q = ticcCls W N q p := by
  unfold ticcCls
  by_cases h1 : p.1 < q.1
  · have h2 : ¬ q.1 < p.1 := by omega
    simp [h1, h2]
  · by_cases h2 : q.1 < p.1
    · simp [h1, h2]
    · simp only [h1, h2, if_false]
      rw [min_comm, max_comm]

/-- block-Toeplitz with symmetric leading block (C02's words): symmetric, and an entry depends only on
the block offset and the two in-block coordinates. -/
def IsBlockToeplitz (W N : ℕ) (M : Matrix (Idx W N) (Idx W N) ℝ) : Prop :=
  (∀ p q, M p q = M q p) ∧
  ∀ (bi bj bi' bj' : Fin W) (r c : Fin N), bi ≤ bj → bi' ≤ bj' →
    (bj : ℕ) - bi = bj' - bi' → M (bi, r) (bj, c) = M (bi', r) (bj', c)

/-- a matrix is block-Toeplitz (with symmetric leading block) exactly when it is constant on TICC's
classes. -/
theorem blockToeplitz_iff_class_constant (W N : ℕ) (M : Matrix (Idx W N) (Idx W N) ℝ) :
    IsBlockToeplitz W N M ↔ ∃ x : Fin W × Fin N × Fin N → ℝ, ∀ p q, M p q = x (ticcCls W N p q) := by
  constructor
  · rintro ⟨hs, ht⟩
    refine ⟨fun k => if h : 0 < W then M (⟨0, h⟩, k.2.1) (k.1, k.2.2) else 0, ?_⟩
    rintro ⟨bi, r⟩ ⟨bj, c⟩
    have hW : 0 < W := bi.pos
    simp only [ticcCls, dif_pos hW]
    by_cases h1 : bi < bj
    · simp only [h1, if_true]
      exact (ht ⟨0, hW⟩ ⟨bj - bi, by omega⟩ bi bj r c (Fin.mk_le_mk.mpr (Nat.zero_le _)) h1.le (by simp)).symm
    · by_cases h2 : bj < bi
      · simp only [h1, h2, if_false, if_true]
        rw [hs]
        exact (ht ⟨0, hW⟩ ⟨bi - bj, by omega⟩ bj bi c r (Fin.mk_le_mk.mpr (Nat.zero_le _)) h2.le (by simp)).symm
      · have he : bi = bj := by
          apply Fin.ext; simp only [Fin.lt_def] at h1 h2; omega
        subst he
        simp only [h1, if_false]
        rcases le_total r c with hrc | hrc
        · rw [min_eq_left hrc, max_eq_right hrc]
          exact (ht ⟨0, hW⟩ ⟨0, hW⟩ bi bi r c le_rfl le_rfl (by simp)).symm
        · rw [min_eq_right hrc, max_eq_left hrc, hs]
          exact (ht ⟨0, hW⟩ ⟨0, hW⟩ bi bi c r le_rfl le_rfl (by simp)).symm
  · rintro ⟨x, hx⟩
    refine ⟨fun p q => by rw [hx, hx, ticcCls_symm], ?_⟩
    intro bi bj bi' bj' r c h1 h2 hd
    rw [hx, hx]
    congr 1
    unfold ticcCls
    by_cases e1 : bi < bj
    · have e2 : bi' < bj' := by
        simp only [Fin.lt_def, Fin.le_def] at *; omega
      simp only [e1, e2, if_true]
      congr 1
      apply Fin.ext; simpa using hd
    · have e1' : bi = bj := le_antisymm h1 (not_lt.mp e1)
      have e2' : bi' = bj' := by
        apply Fin.ext
        have : (bj : ℕ) - bi = 0 := by rw [e1']; simp
        simp only [Fin.le_def] at h2; omega
      subst e1' e2'
      simp

/-- C02 IN ITS OWN WORDS: an ADMM fixed point whose matrix is block-Toeplitz (class values `x`) minimises
`−log det Θ + tr(SΘ) + ‖Λ∘Θ‖₁` over ALL symmetric positive definite block-Toeplitz matrices
(`W` distinct `N×N` blocks, symmetric leading block). -/
theorem ticc_admm_fixed_point_optimal (W N : ℕ) (S Lam X U : Matrix (Idx W N) (Idx W N) ℝ) (rho : ℝ)
    (hrho : 0 < rho) (x : Fin W × Fin N × Fin N → ℝ)
    (hX : X.PosDef) (hXc : ∀ p q, X p q = x (ticcCls W N p q)) (hLam : ∀ p q, 0 ≤ Lam p q)
    (hstat : X⁻¹ - S = rho • U)
    (hfix : ∀ c, (∃ p : Idx W N × Idx W N, ticcCls W N p.1 p.2 = c) →
      Numeric.softThreshold (rho * ∑ p : Idx W N × Idx W N with ticcCls W N p.1 p.2 = c, (x c + U p.1 p.2))
        (∑ p : Idx W N × Idx W N with ticcCls W N p.1 p.2 = c, Lam p.1 p.2)
        (rho * ((Finset.univ.filter (fun p : Idx W N × Idx W N => ticcCls W N p.1 p.2 = c)).card : ℝ)) = x c)
    (Y : Matrix (Idx W N) (Idx W N) ℝ) (hY : Y.PosDef) (hYt : IsBlockToeplitz W N Y) :
    IsBlockToeplitz W N X ∧ glassoObj S Lam X ≤ glassoObj S Lam Y := by
  obtain ⟨y, hy⟩ := (blockToeplitz_iff_class_constant W N Y).mp hYt
  exact ⟨(blockToeplitz_iff_class_constant W N X).mpr ⟨x, hXc⟩,
    admm_fixed_point_global_min S Lam X U rho hrho (ticcCls W N) x hX hXc hLam hstat hfix Y y hY hy⟩

end FastTicc.C02opt

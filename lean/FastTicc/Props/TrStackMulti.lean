/-
TRANSLATED CODE = MODEL (stack_training_data_multiple_series, properties C07 / C10).  `Generated/Kernels.lean` is
rewritten from the Python AST of `$REPO/src/fast_ticc` by `harness/py2lean.py` on every run; the theorems below are about
those generated definitions.  They only keep checking while the source still says what the model says.
-/
import FastTicc.Props.TrStack
open FastTicc FastTicc.PyLemmas

namespace FastTicc.Translated
section
variable {α : Type} [Zero α] [Add α] [Sub α] [LT α] [DecidableLT α]

omit [Add α] [Sub α] [LT α] [DecidableLT α] in
/-- rows of a vertical stack = the rows of the blocks, in order (all blocks `N` columns wide) -/
theorem vstack_toLists (N : Nat) : ∀ (l : List (Py.Arr2 α)), l ≠ [] → (∀ a ∈ l, a.cols = N) →
    (Py.vstack l).toLists = l.flatMap (fun a => a.toLists)
  | [], h, _ => absurd rfl h
  | [a], _, hc => by
    have ha := hc a (by simp)
    simp only [Py.vstack, Py.Arr2.toLists, List.map_cons, List.map_nil, List.sum_cons, List.sum_nil, Nat.add_zero,
      List.head?_cons, Option.map_some, Option.getD_some, List.flatMap_cons, List.flatMap_nil, List.append_nil]
    apply List.map_congr_left
    intro r hr
    have hr' : r < a.rows := List.mem_range.mp hr
    apply List.map_congr_left
    intro c _
    simp [Py.vstackGet, hr']
  | a :: b :: t, _, hc => by
    have ha := hc a (by simp)
    have hb := hc b (by simp)
    have ih := vstack_toLists N (b :: t) (by simp) (fun x hx => hc x (by simp [hx]))
    simp only [List.flatMap_cons] at ih ⊢
    rw [← ih]
    simp only [Py.vstack, Py.Arr2.toLists, List.map_cons, List.sum_cons, List.head?_cons, Option.map_some,
      Option.getD_some]
    rw [List.range_add, List.map_append]
    congr 1
    · apply List.map_congr_left
      intro r hr
      have hr' : r < a.rows := List.mem_range.mp hr
      try simp only [ha, hb]
      apply List.map_congr_left
      intro c _
      simp [Py.vstackGet, hr']
    · rw [List.map_map]
      apply List.map_congr_left
      intro r _
      simp only [Function.comp]
      try simp only [ha, hb]
      apply List.map_congr_left
      intro c _
      have : ¬ (a.rows + r < a.rows) := by omega
      simp [Py.vstackGet, this]

/-- **the translated joint stacking is the model's**: the rows of the brick are the concatenation, in input order, of
the stackings of the individual series (`Stack.stackMulti`), for series of `N` columns and `W ≤ T_s + 1`, `1 ≤ W`. -/
theorem stack_training_data_multiple_series_eq (series : List (Py.Arr2 α)) (W N : Nat) (hne : series ≠ [])
    (hW : ∀ a ∈ series, W ≤ a.rows + 1) (hN : ∀ a ∈ series, a.cols = N) :
    (Gen.stack_training_data_multiple_series series (W : Int)).toLists
      = Stack.stackMulti (series.map (fun a => a.toLists)) W := by
  unfold Gen.stack_training_data_multiple_series Stack.stackMulti
  rw [vstack_toLists (N * W)]
  · rw [List.flatMap_map, List.flatMap_map]
    apply List.flatMap_congr
    intro a ha
    exact stack_training_data_eq a W (hW a ha)
  · simpa using hne
  · intro x hx
    obtain ⟨a, ha, rfl⟩ := List.mem_map.mp hx
    rw [(stack_training_data_cells a W (hW a ha)).2.1, hN a ha]

end
end FastTicc.Translated

/-
Property C09 — main loop: bounded, stops only at a fixed point, returns what it scored.
Property theorems only; helper lemmas live in `FastTicc/Proofs/MainLoop.lean`.
Quantified over all phase functions (which may fail), all projections `labels`, all limits.
-/
import FastTicc.Model.MainLoop
import FastTicc.Proofs.MainLoop

namespace FastTicc.MainLoop

variable {σ ε L : Type} [DecidableEq L] (P : Phases σ ε) (labels : σ → L)

/-- the source's repopulation guard is `current_iteration > 0`; its round calls the four phases in
the order repopulate, statistics, optimise, relabel with the repopulation under that guard; its
loop is `for … in range(iteration_limit)` (all re-extracted from the AST on every run). -/
theorem constants_tie : Constants.repopAfterRound = 0 ∧ Constants.phaseOrder = [1, 2, 3, 4] ∧
    Constants.repopGuarded = 1 ∧ Constants.loopOverLimit = 1 := by
  exact ⟨rfl, rfl, rfl, rfl⟩

/-- the round the model executes is TRANSLATED from the source's phase order on every run
(`MainLoop.round` folds over `Constants.phaseOrder`); it is the round this property describes. -/
theorem round_translated_eq_spec (i : Nat) (s : σ) : round P i s = roundSpec P i s :=
  round_eq_spec P i s

/-- round 0 is stats → opt → relabel; every later round is repop → stats → opt → relabel,
each phase applied to the previous phase's output. -/
theorem round_shape (s : σ) :
    round P 0 s = (P.stats s >>= P.opt >>= P.relabel) ∧
    ∀ i, 0 < i → round P i s = (P.repop s >>= P.stats >>= P.opt >>= P.relabel) := by
  exact ⟨round_zero P s, fun i hi => round_pos P i hi s⟩

/-- at least one and at most `limit` rounds. -/
theorem rounds_bounds (limit : Nat) (hl : 1 ≤ limit) (s0 : σ) (r : Outcome σ)
    (h : run P labels limit s0 = .ok r) : 1 ≤ r.rounds ∧ r.rounds ≤ limit := by
  have S := run_spec P labels h
  have h1 := S.lo' hl
  have h2 := S.hi
  omega

/-- one recorded state per round, and what is returned is the state of the last round. -/
theorem history_length (limit : Nat) (s0 : σ) (r : Outcome σ)
    (h : run P labels limit s0 = .ok r) : r.history.length = r.rounds := by
  exact (run_spec P labels h).len

theorem returns_last_round (limit : Nat) (hl : 1 ≤ limit) (s0 : σ) (r : Outcome σ)
    (h : run P labels limit s0 = .ok r) : r.history.getLast? = some r.final := by
  have S := run_spec P labels h
  have h1 := S.lo' hl
  rw [List.getLast?_eq_getElem?, S.len]
  exact S.last h1

/-- every round is `round j` applied to the output of the previous round (round 0 to the
initial state): the returned state is `relabel (opt (stats (…)))` of the *same* round. -/
theorem history_chain (limit : Nat) (s0 : σ) (r : Outcome σ)
    (h : run P labels limit s0 = .ok r) (j : Nat) (hj : j < r.rounds) :
    ∃ sPrev sj, (if j = 0 then some s0 else r.history[j - 1]?) = some sPrev ∧
      r.history[j]? = some sj ∧ round P j sPrev = .ok sj := by
  exact (run_spec P labels h).chain j (Nat.zero_le _) hj

/-- it stops before the limit only when the last two rounds produced identical labellings
(so at least two rounds ran: the initial labelling is never compared). -/
theorem early_stop_only_at_repeat (limit : Nat) (s0 : σ) (r : Outcome σ)
    (h : run P labels limit s0 = .ok r) (hlt : r.rounds < limit) :
    2 ≤ r.rounds ∧ ∃ a b, r.history[r.rounds - 2]? = some a ∧ r.history[r.rounds - 1]? = some b ∧
      labels a = labels b := by
  exact (run_spec P labels h).early (by omega)

/-- … and it does stop at the first such repeat: no earlier pair of consecutive rounds agreed. -/
theorem stops_at_first_repeat (limit : Nat) (s0 : σ) (r : Outcome σ)
    (h : run P labels limit s0 = .ok r) (j : Nat) (hj1 : 1 ≤ j) (hj : j + 1 < r.rounds) :
    ∀ a b, r.history[j - 1]? = some a → r.history[j]? = some b → labels a ≠ labels b := by
  exact (run_spec P labels h).first j (Nat.zero_le _) hj1 hj

/-- with a limit of at least 2 the loop never stops after the first round. -/
theorem first_round_never_compared (limit : Nat) (hl : 2 ≤ limit) (s0 : σ) (r : Outcome σ)
    (h : run P labels limit s0 = .ok r) : 2 ≤ r.rounds := by
  exact (run_spec P labels h).two rfl hl

/-- on early stop the returned labelling is a fixed point of fit-then-relabel: the last round,
applied to the previous round's state, reproduced that state's labelling. -/
theorem fixed_point_on_early_stop (limit : Nat) (s0 : σ) (r : Outcome σ)
    (h : run P labels limit s0 = .ok r) (hlt : r.rounds < limit) :
    ∃ sPrev, r.history[r.rounds - 2]? = some sPrev ∧
      round P (r.rounds - 1) sPrev = .ok r.final ∧ labels r.final = labels sPrev := by
  have S := run_spec P labels h
  obtain ⟨h2, a, b, ha, hb, hab⟩ := S.early (by omega)
  have hlast := S.last (by omega)
  rw [hlast] at hb
  cases hb
  obtain ⟨sPrev, sj, e1, e2, e3⟩ := S.chain (r.rounds - 1) (Nat.zero_le _) (by omega)
  have hne : r.rounds - 1 ≠ 0 := by omega
  have hidx : r.rounds - 1 - 1 = r.rounds - 2 := by omega
  simp only [hne, if_false, hidx] at e1
  rw [ha] at e1
  rw [hlast] at e2
  cases e1; cases e2
  exact ⟨a, ha, e3, hab.symm⟩

/-- non-vacuity: a scripted run over `Nat` states that converges in round 3 of at most 5. -/
example :
    let P : Phases Nat Unit := ⟨fun s => pure s, fun s => pure s, fun s => pure s,
                                 fun s => pure (min (s + 1) 2)⟩
    (run P (fun s => s) 5 0).toOption.map (fun r => (r.final, r.rounds, r.history))
      = some (2, 3, [1, 2, 2]) := by
  decide

end FastTicc.MainLoop

/-
Property C18 — equivalent parameter forms give identical results (exact-arithmetic skeleton;
bitwise equality across forms is observed by the correspondence).
Property theorems only; helper lemmas live in `FastTicc/Proofs/Admm.lean`.
-/
import FastTicc.Model.Numeric
import FastTicc.Model.Viterbi
import FastTicc.Proofs.Admm
import Mathlib.Algebra.Order.Field.Basic

namespace FastTicc.Numeric
open FastTicc.Index

variable {α : Type} [Field α] [LinearOrder α] [IsStrictOrderedRing α]

/-- scalar weight × occurrences = sum of the constant matrix over the class positions. -/
theorem lambdaSum_scalar_eq_const_matrix (v : α) (b r c N W : Nat) :
    lambdaSum (.scalar v) b r c N W = lambdaSum (.matrix (fun _ _ => v)) b r c N W := by
  show lambdaSumScalar v b W = lambdaSumMatrix (fun _ _ => v) b r c N W
  unfold lambdaSumScalar lambdaSumMatrix
  rw [Aux.sumOver_const, class_size]

/-- hence the whole Z-update (and so every ADMM iterate) is the same for the two forms. -/
theorem zUpdate_scalar_eq_const_matrix (rho v : α) (N W : Nat) (u x : List α) :
    zUpdate rho (.scalar v) N W u x = zUpdate rho (.matrix (fun _ _ => v)) N W u x := by
  unfold zUpdate classValue
  simp only [lambdaSum_scalar_eq_const_matrix]

/-- the tags of scalar hyper-parameter types the dispatch glue may see. -/
inductive PyNum where
  | pyInt | pyFloat | npFloat64 | npFloat32 | npFloat16 | npInt64 | npInt32 | ndarray | other
  deriving DecidableEq, Repr

inductive Branch where
  | scalar | matrix | valueError
  deriving DecidableEq, Repr

/-- pinned `compute_lambda_sum`: `isinstance(x, float)` (np.float64 subclasses float). -/
def dispatchPinned : PyNum → Branch
  | .pyFloat | .npFloat64 => .scalar
  | .ndarray => .matrix
  | _ => .valueError

/-- repaired: any real scalar (`int`, `float`, NumPy integer / floating). -/
def dispatchRepaired : PyNum → Branch
  | .pyInt | .pyFloat | .npFloat64 | .npFloat32 | .npFloat16 | .npInt64 | .npInt32 => .scalar
  | .ndarray => .matrix
  | .other => .valueError

def isRealScalar : PyNum → Bool
  | .ndarray | .other => false
  | _ => true

theorem dispatch_total_on_reals (t : PyNum) (h : isRealScalar t = true) :
    dispatchRepaired t = .scalar := by
  cases t <;> first | rfl | exact absurd h (by decide)

theorem dispatch_pinned_rejects :
    dispatchPinned .pyInt = .valueError ∧ dispatchPinned .npFloat32 = .valueError ∧
    dispatchPinned .npInt64 = .valueError := by
  exact ⟨rfl, rfl, rfl⟩

end FastTicc.Numeric

/-
The primitive `Py.whileRet` - the translator's reading of a Python `while cond: body` whose body may `return` - against a
relational (big-step) semantics of such a loop: whatever `whileRet` computes with any amount of fuel is what the loop does
(soundness), whatever the loop does is computed with enough fuel (completeness), the loop does at most one thing
(determinism), and more fuel never changes an answer already given.  The fuel named in a translator spec therefore only
decides WHETHER an answer is produced, never WHICH - and each equivalence theorem shows its bound is never hit.
-/
import FastTicc.Model.Py
open FastTicc

namespace FastTicc.PyWhile
section
variable {σ ρ : Type}

/-- big-step semantics of `while cond(s): s = body(s)` where the body may `return r` (`Sum.inl r`) -/
inductive Runs (cond : σ → Bool) (body : σ → Sum ρ σ) : σ → Sum ρ σ → Prop
  | exit (s : σ) : cond s = false → Runs cond body s (Sum.inr s)
  | ret (s : σ) (r : ρ) : cond s = true → body s = Sum.inl r → Runs cond body s (Sum.inl r)
  | step (s s' : σ) (out : Sum ρ σ) : cond s = true → body s = Sum.inr s' → Runs cond body s' out → Runs cond body s out

/-- soundness: an answer of `whileRet` is an execution of the loop -/
theorem whileRet_sound (cond : σ → Bool) (body : σ → Sum ρ σ) :
    ∀ (fuel : Nat) (s : σ) (out : Sum ρ σ), Py.whileRet fuel cond body s = some out → Runs cond body s out := by
  intro fuel
  induction fuel with
  | zero => intro s out h; simp [Py.whileRet] at h
  | succ n ih =>
    intro s out h
    unfold Py.whileRet at h
    by_cases hc : cond s = true
    · rw [if_pos hc] at h
      cases hb : body s with
      | inl r =>
        rw [hb] at h
        simp only [Option.some.injEq] at h
        rw [← h]
        exact Runs.ret s r hc hb
      | inr s' =>
        rw [hb] at h
        exact Runs.step s s' out hc hb (ih s' out h)
    · rw [if_neg hc] at h
      simp only [Option.some.injEq] at h
      rw [← h]
      exact Runs.exit s (by simpa using hc)

/-- more fuel never changes an answer -/
theorem whileRet_mono (cond : σ → Bool) (body : σ → Sum ρ σ) :
    ∀ (fuel : Nat) (s : σ) (out : Sum ρ σ), Py.whileRet fuel cond body s = some out →
      ∀ extra, Py.whileRet (fuel + extra) cond body s = some out := by
  intro fuel
  induction fuel with
  | zero => intro s out h; simp [Py.whileRet] at h
  | succ n ih =>
    intro s out h extra
    have hf : n + 1 + extra = (n + extra) + 1 := by omega
    rw [hf]
    unfold Py.whileRet at h ⊢
    by_cases hc : cond s = true
    · rw [if_pos hc] at h ⊢
      cases hb : body s with
      | inl r => rw [hb] at h; simpa using h
      | inr s' => rw [hb] at h; simpa using ih s' out h extra
    · rw [if_neg hc] at h ⊢
      exact h

/-- completeness: every execution of the loop is found with enough fuel -/
theorem whileRet_complete (cond : σ → Bool) (body : σ → Sum ρ σ) (s : σ) (out : Sum ρ σ)
    (h : Runs cond body s out) : ∃ fuel, Py.whileRet fuel cond body s = some out := by
  induction h with
  | exit s hc => exact ⟨1, by simp [Py.whileRet, hc]⟩
  | ret s r hc hb => exact ⟨1, by simp [Py.whileRet, hc, hb]⟩
  | step s s' out hc hb _ ih =>
    obtain ⟨f, hf⟩ := ih
    exact ⟨f + 1, by simp [Py.whileRet, hc, hb, hf]⟩

/-- determinism: the loop does at most one thing -/
theorem runs_deterministic (cond : σ → Bool) (body : σ → Sum ρ σ) (s : σ) (o1 o2 : Sum ρ σ)
    (h1 : Runs cond body s o1) (h2 : Runs cond body s o2) : o1 = o2 := by
  obtain ⟨f1, e1⟩ := whileRet_complete cond body s o1 h1
  obtain ⟨f2, e2⟩ := whileRet_complete cond body s o2 h2
  have a := whileRet_mono cond body f1 s o1 e1 f2
  have b := whileRet_mono cond body f2 s o2 e2 f1
  rw [Nat.add_comm] at b
  rw [a] at b
  exact Option.some.inj b

/-- `whileRet` decides the loop: an answer with some fuel is THE execution; no answer with any fuel means the loop diverges -/
theorem whileRet_iff (cond : σ → Bool) (body : σ → Sum ρ σ) (s : σ) (out : Sum ρ σ) :
    Runs cond body s out ↔ ∃ fuel, Py.whileRet fuel cond body s = some out :=
  ⟨whileRet_complete cond body s out, fun ⟨f, h⟩ => whileRet_sound cond body f s out h⟩
end
end FastTicc.PyWhile

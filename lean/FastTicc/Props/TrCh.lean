/-
TRANSLATED CODE = MODEL (calinski_harabasz_index of cluster_metrics.py, property C17).  `Generated/Kernels.lean` is rewritten
from the Python AST of `$REPO/src/fast_ticc` by `harness/py2lean.py` on every run; the theorems below are about that
generated definition.  `model` is the record of what the function reads of a model state (per cluster: its size and its
member list); the int accumulators `numerator = 0`, `denominator = 0` that receive matrices are promoted the way NumPy
broadcasts them; `np.mean`, `M[list, :]`, `.reshape(-1, 1)`, `@`, `np.trace` are primitives of `Model/Py.lean`; `if … : continue`
guards the rest of the loop body; the final `int / int` factor is an exact rational cast into the scalar type.
-/
import FastTicc.Generated.Kernels
import FastTicc.Proofs.Translated
import FastTicc.Model.Numeric
import FastTicc.Proofs.Stats
import FastTicc.Props.C17
import Mathlib.Algebra.Order.Field.Basic
import Mathlib.Algebra.BigOperators.Group.Finset.Basic
open FastTicc FastTicc.PyLemmas

namespace FastTicc.Translated
section
variable {α : Type} [Field α] [LinearOrder α]

/-- the model state as `calinski_harabasz_index` reads it: cluster `k` has the member list `members k` -/
def chModelOf (K : Nat) (members : Nat → List Nat) : Py.ChModel :=
  ⟨(List.range K).map (fun k => ⟨((members k).length : Nat), (members k).map (fun (i : Nat) => (i : Int))⟩)⟩

/-- the mean window of cluster `k` as the code computes it: `np.mean(data[member_points, :], axis=0)` -/
def chMean (data : Py.Arr2 α) (members : Nat → List Nat) (k j : Nat) : α :=
  (Py.Arr2.meanAxis0 (Py.Arr2.takeRows data ((members k).map (fun (i : Nat) => (i : Int))))).get j

omit [LinearOrder α] in
theorem py_sumTo_eqN (n : Nat) (f : Nat → α) : Py.sumTo n f = Numeric.sumTo n f := rfl

omit [LinearOrder α] in
theorem sumTo_one (f : Nat → α) : Numeric.sumTo 1 f = f 0 := by
  simp [Numeric.sumTo]

/-- entry `(r, c)` of the matrix the inner loop adds for one window: `(x_i - m)(x_i - m)ᵀ` -/
def wTerm (data : Py.Arr2 α) (m : Nat → α) (i r c : Nat) : α := (data.get i r - m r) * (data.get i c - m c)

omit [LinearOrder α] in
/-- the inner loop over the member windows of one cluster -/
theorem ch_inner (data : Py.Arr2 α) (mean : Py.Arr1 α) (mem : List Nat)
    (hmem : ∀ i ∈ mem, i < data.rows) (den : Py.Arr2 α) :
    let res := (mem.map (fun (i : Nat) => (i : Int))).foldl (fun (den : Py.Arr2 α) (point_id : Int) =>
      Py.Arr2.addB den (Py.matMul (Py.colOf (Py.Arr1.sub (Py.Arr2.row data point_id) mean))
        (Py.Arr2.transpose (Py.colOf (Py.Arr1.sub (Py.Arr2.row data point_id) mean))))) den
    (∀ r c, res.get r c = den.get r c + (mem.map (fun i => wTerm data mean.get i r c)).sum) ∧
    res.rows = (if mem = [] then den.rows else max den.rows data.cols) ∧
    res.cols = (if mem = [] then den.cols else max den.cols data.cols) := by
  induction mem generalizing den with
  | nil => simp
  | cons i t ih =>
    simp only [List.map_cons, List.foldl_cons]
    have hi : i < data.rows := hmem i (by simp)
    obtain ⟨h1, h2, h3⟩ := ih (fun x hx => hmem x (by simp [hx]))
      (Py.Arr2.addB den (Py.matMul (Py.colOf (Py.Arr1.sub (Py.Arr2.row data (i : Int)) mean))
        (Py.Arr2.transpose (Py.colOf (Py.Arr1.sub (Py.Arr2.row data (i : Int)) mean)))))
    refine ⟨?_, ?_, ?_⟩
    · intro r c
      rw [h1 r c]
      simp only [Py.Arr2.addB, Py.matMul, Py.colOf, Py.Arr2.transpose, Py.Arr1.sub, Py.Arr2.row, idx_nat, py_sumTo_eqN,
        sumTo_one, List.sum_cons, wTerm]
      ring
    · rw [h2]
      simp only [Py.Arr2.addB, Py.matMul, Py.colOf, Py.Arr2.transpose, Py.Arr1.sub, Py.Arr2.row]
      by_cases ht : t = [] <;> simp [ht]
    · rw [h3]
      simp only [Py.Arr2.addB, Py.matMul, Py.colOf, Py.Arr2.transpose, Py.Arr1.sub, Py.Arr2.row]
      by_cases ht : t = [] <;> simp [ht]


/-- entry `(r, c)` of the matrix the outer loop adds for one non-empty cluster: `n_k (m_k - g)(m_k - g)ᵀ` -/
def bTerm (n : Nat) (m : Nat → α) (g : α) (r c : Nat) : α := (n : α) * ((m r - g) * (m c - g))

/-- the body of the loop over the clusters -/
def chBody (data : Py.Arr2 α) (g : α) (cluster : Py.ChCluster) (s : Py.Arr2 α × Py.Arr2 α) : Py.Arr2 α × Py.Arr2 α :=
  if decide (cluster.size = 0) then (s.1, s.2)
  else
    let cluster_mean := Py.Arr2.meanAxis0 (Py.Arr2.takeRows data cluster.member_points)
    let rdm := Py.colOf (Py.Arr1.subScalar cluster_mean g)
    (Py.Arr2.addB s.1 (Py.Arr2.scaleInt cluster.size (Py.matMul rdm (Py.Arr2.transpose rdm))),
     Py.forEach cluster.member_points s.2 (fun point_id den =>
       Py.Arr2.addB den (Py.matMul (Py.colOf (Py.Arr1.sub (Py.Arr2.row data point_id) cluster_mean))
         (Py.Arr2.transpose (Py.colOf (Py.Arr1.sub (Py.Arr2.row data point_id) cluster_mean))))))

omit [LinearOrder α] in
/-- the generated function with its loop body named (`rfl`) -/
theorem gen_ch_structured (data : Py.Arr2 α) (model : Py.ChModel) :
    Gen.calinski_harabasz_index data model =
      (let g := Py.Arr2.meanAll data
       let r := Py.forEach model.clusters ((Py.Arr2.ofInt 0 : Py.Arr2 α), (Py.Arr2.ofInt 0 : Py.Arr2 α)) (chBody data g)
       (Py.Arr2.trace r.1 / Py.Arr2.trace r.2) *
         Py.ratCast (Py.trueDiv (Py.Arr2.shape0 data - Py.len model.clusters) (Py.len model.clusters - 1))) := rfl

omit [LinearOrder α] in
/-- the loop over the clusters: after the first `m` of them -/
theorem ch_outer (data : Py.Arr2 α) (g : α) (members : Nat → List Nat) (K : Nat)
    (hmem : ∀ k < K, ∀ i ∈ members k, i < data.rows) (m : Nat) (hm : m ≤ K) :
    let res := ((List.range m).map (fun k => (⟨((members k).length : Nat), (members k).map (fun (i : Nat) => (i : Int))⟩ : Py.ChCluster))).foldl
      (fun s cl => chBody data g cl s) ((Py.Arr2.ofInt 0 : Py.Arr2 α), (Py.Arr2.ofInt 0 : Py.Arr2 α))
    (∀ r c, res.1.get r c = ((List.range m).map (fun k => bTerm (members k).length (chMean data members k) g r c)).sum) ∧
    (∀ r c, res.2.get r c = ((List.range m).map (fun k => ((members k).map (fun i => wTerm data (chMean data members k) i r c)).sum)).sum) ∧
    res.1.rows = (if ∀ k < m, members k = [] then 0 else data.cols) ∧
    res.1.cols = (if ∀ k < m, members k = [] then 0 else data.cols) ∧
    res.2.rows = (if ∀ k < m, members k = [] then 0 else data.cols) ∧
    res.2.cols = (if ∀ k < m, members k = [] then 0 else data.cols) := by
  induction m with
  | zero => simp [Py.Arr2.ofInt]
  | succ j ih =>
    obtain ⟨h1, h2, h3, h4, h5, h6⟩ := ih (by omega)
    simp only [List.range_succ, List.map_append, List.map_cons, List.map_nil, List.foldl_append, List.foldl_cons,
      List.foldl_nil, List.sum_append, List.sum_cons, List.sum_nil, add_zero]
    generalize ((List.range j).map (fun k => (⟨((members k).length : Nat), (members k).map (fun (i : Nat) => (i : Int))⟩ : Py.ChCluster))).foldl
      (fun s cl => chBody data g cl s) ((Py.Arr2.ofInt 0 : Py.Arr2 α), (Py.Arr2.ofInt 0 : Py.Arr2 α)) = st at h1 h2 h3 h4 h5 h6 ⊢
    have hall : (∀ k < j + 1, members k = []) ↔ ((∀ k < j, members k = []) ∧ members j = []) := by
      constructor
      · intro h; exact ⟨fun k hk => h k (by omega), h j (by omega)⟩
      · rintro ⟨ha, hb⟩ k hk
        by_cases hkj : k = j
        · subst hkj; exact hb
        · exact ha k (by omega)
    by_cases hj : members j = []
    · -- an empty cluster: skipped
      have hsz : ((((members j).length : Nat) : Int) = 0) := by simp [hj]
      simp only [chBody, hsz, decide_true, if_true]
      refine ⟨?_, ?_, ?_, ?_, ?_, ?_⟩
      · intro r c; rw [h1]; simp [bTerm, hj]
      · intro r c; rw [h2]; simp [hj]
      all_goals simp only [hall, hj, and_true]; assumption
    · have hsz : ¬ ((((members j).length : Nat) : Int) = 0) := by
        simp; exact hj
      simp only [chBody, hsz, decide_false, Bool.false_eq_true, if_false]
      obtain ⟨g1, g2, g3⟩ := ch_inner data (Py.Arr2.meanAxis0 (Py.Arr2.takeRows data ((members j).map (fun (i : Nat) => (i : Int)))))
        (members j) (hmem j (by omega)) st.2
      unfold Py.forEach
      have hnall : ¬ ((∀ k < j, members k = []) ∧ members j = []) := by tauto
      refine ⟨?_, ?_, ?_, ?_, ?_, ?_⟩
      · intro r c
        simp only [Py.Arr2.addB, Py.Arr2.scaleInt, Py.matMul, Py.colOf, Py.Arr2.transpose, Py.Arr1.subScalar, py_sumTo_eqN,
          sumTo_one, h1, bTerm, chMean]
        simp
      · intro r c
        rw [g1 r c, h2]
        rfl
      · simp only [Py.Arr2.addB, Py.Arr2.scaleInt, Py.matMul, Py.colOf, Py.Arr2.transpose, Py.Arr1.subScalar,
          Py.Arr2.meanAxis0, Py.Arr2.takeRows, h3, hall, hnall, if_false]
        split_ifs <;> simp
      · simp only [Py.Arr2.addB, Py.Arr2.scaleInt, Py.matMul, Py.colOf, Py.Arr2.transpose, Py.Arr1.subScalar,
          Py.Arr2.meanAxis0, Py.Arr2.takeRows, h4, hall, hnall, if_false]
        split_ifs <;> simp
      · rw [g2, if_neg hj, h5]
        simp only [hall, hnall, if_false, Py.Arr2.meanAxis0, Py.Arr2.takeRows]
        split_ifs <;> simp
      · rw [g3, if_neg hj, h6]
        simp only [hall, hnall, if_false, Py.Arr2.meanAxis0, Py.Arr2.takeRows]
        split_ifs <;> simp


omit [LinearOrder α] in
theorem list_range_sum (n : Nat) (f : Nat → α) : ((List.range n).map f).sum = ∑ i ∈ Finset.range n, f i := by
  induction n with
  | zero => simp
  | succ k ih => rw [List.range_succ, List.map_append, List.sum_append, ih, Finset.sum_range_succ]; simp

omit [LinearOrder α] in
theorem sum_list_comm (d : Nat) (l : List Nat) (f : Nat → Nat → α) :
    ∑ j ∈ Finset.range d, (l.map (fun i => f j i)).sum = (l.map (fun i => ∑ j ∈ Finset.range d, f j i)).sum := by
  induction l with
  | nil => simp
  | cons a t ih => simp only [List.map_cons, List.sum_cons, Finset.sum_add_distrib, ih]

end

section
variable {α : Type} [Field α] [LinearOrder α] [IsStrictOrderedRing α]

omit [LinearOrder α] [IsStrictOrderedRing α] in
theorem ratCast_trueDiv [CharZero α] (a b : Int) : (Py.ratCast (Py.trueDiv a b) : α) = (a : α) / (b : α) := by
  unfold Py.ratCast Py.trueDiv
  have h := Rat.cast_def (K := α) ((a : Rat) / (b : Rat))
  simp only [Int.cast_natCast]
  rw [← h, Rat.cast_div, Rat.cast_intCast, Rat.cast_intCast]

/-- **the translated Calinski-Harabasz index is the model of the code** (`chPinned`: centred on the scalar mean of all
entries, the known finding K2 - its exact deviation from the definition is `chPinned_eq_chSpec_plus`), for every data
matrix, every `K` and every family of member lists with at least one non-empty cluster; the cluster means are those of the
windows the clusters hold (`chMean`). -/
theorem calinski_harabasz_index_eq (data : Py.Arr2 α) (K : Nat) (members : Nat → List Nat)
    (hmem : ∀ k < K, ∀ i ∈ members k, i < data.rows) (hne : ¬ ∀ k < K, members k = []) :
    Gen.calinski_harabasz_index data (chModelOf K members)
      = Numeric.chPinned data.rows K data.cols members (chMean data members) data.get := by
  rw [gen_ch_structured]
  simp only [chModelOf]
  unfold Py.forEach
  obtain ⟨h1, h2, h3, h4, h5, h6⟩ := ch_outer data (Py.Arr2.meanAll data) members K hmem K (le_refl _)
  generalize ((List.range K).map (fun k => (⟨((members k).length : Nat), (members k).map (fun (i : Nat) => (i : Int))⟩ : Py.ChCluster))).foldl
      (fun s cl => chBody data (Py.Arr2.meanAll data) cl s) ((Py.Arr2.ofInt 0 : Py.Arr2 α), (Py.Arr2.ofInt 0 : Py.Arr2 α)) = st
      at h1 h2 h3 h4 h5 h6 ⊢
  rw [if_neg hne] at h3 h4 h5 h6
  have hg : Py.Arr2.meanAll data = Numeric.scalarMean data.rows data.cols data.get := by
    unfold Py.Arr2.meanAll Numeric.scalarMean
    simp only [py_sumTo_eqN, Int.cast_natCast]
  have hB : Py.Arr2.trace st.1
      = Numeric.between K data.cols (fun k => (members k).length) (chMean data members)
          (fun _ => Numeric.scalarMean data.rows data.cols data.get) := by
    unfold Py.Arr2.trace Numeric.between Numeric.sqDist
    rw [h3, h4, Nat.min_self, py_sumTo_eqN]
    simp only [h1, hg, bTerm, Numeric.sumTo_eq_sum, list_range_sum]
    rw [Finset.sum_comm]
    apply Finset.sum_congr rfl
    intro k _
    rw [Finset.mul_sum]
  have hW : Py.Arr2.trace st.2 = Numeric.within K data.cols members (chMean data members) data.get := by
    unfold Py.Arr2.trace Numeric.within Numeric.sqDist
    rw [h5, h6, Nat.min_self, py_sumTo_eqN]
    simp only [h2, wTerm, Numeric.sumTo_eq_sum, list_range_sum, Numeric.sumOver_eq_sum]
    rw [Finset.sum_comm]
    apply Finset.sum_congr rfl
    intro k _
    exact sum_list_comm data.cols (members k) (fun j i => (data.get i j - chMean data members k j) * (data.get i j - chMean data members k j))
  rw [hB, hW, ratCast_trueDiv]
  unfold Numeric.chPinned Numeric.chIndex
  simp [Py.Arr2.shape0, Py.len]

end
end FastTicc.Translated

/-
Property C14 — results are independent of process scheduling (scheduling skeleton).
Property theorems only; helper lemmas live in `FastTicc/Proofs/MainLoop.lean`.
Bitwise reproducibility of the numerics is observed by the correspondence, not proved.
-/
import FastTicc.Model.MainLoop
import FastTicc.Proofs.MainLoop

namespace FastTicc.MainLoop

/-- whatever order the K tasks complete in (every task at least once, e.g. any permutation),
what is gathered in cluster order is `f 0, …, f (K-1)`. -/
theorem gather_schedule_independent {β : Type} (f : Nat → β) (K : Nat) (sched : List Nat)
    (hall : ∀ k, k < K → k ∈ sched) (hin : ∀ k ∈ sched, k < K) :
    complete f K sched = (List.range K).map (fun k => some (f k)) := by
  -- `hin` is not needed: an out-of-range write is a no-op of `List.set`.
  have _ := hin
  exact complete_all f K sched hall

/-- two schedules give the same gathered results. -/
theorem gather_any_two_schedules {β : Type} (f : Nat → β) (K : Nat) (s₁ s₂ : List Nat)
    (h₁ : s₁.Perm (List.range K)) (h₂ : s₂.Perm (List.range K)) :
    complete f K s₁ = complete f K s₂ := by
  have m₁ : ∀ k, k < K → k ∈ s₁ := fun k hk => h₁.mem_iff.2 (List.mem_range.2 hk)
  have m₂ : ∀ k, k < K → k ∈ s₂ := fun k hk => h₂.mem_iff.2 (List.mem_range.2 hk)
  rw [complete_all f K s₁ m₁, complete_all f K s₂ m₂]

/-- a memo table all of whose entries are correct. -/
def TableOk {κ β : Type} (f : κ → β) (table : List (κ × β)) : Prop := ∀ p ∈ table, p.2 = f p.1

/-- `functools.cache` is transparent: lookup-or-insert returns `f x` and keeps the table correct … -/
theorem cache_transparent {κ β : Type} [DecidableEq κ] (f : κ → β) (table : List (κ × β)) (x : κ)
    (h : TableOk f table) : (cached f table x).1 = f x ∧ TableOk f (cached f table x).2 := by
  unfold cached
  cases hl : table.lookup x with
  | some v =>
    exact ⟨h (x, v) (lookup_some_mem x v table hl), h⟩
  | none =>
    refine ⟨rfl, ?_⟩
    intro p hp
    rcases List.mem_cons.1 hp with hp | hp
    · rw [hp]
    · exact h p hp

/-- … so after any history of earlier calls (other shapes), every call returns what the
un-memoised function returns. -/
theorem cache_history_transparent {κ β : Type} [DecidableEq κ] (f : κ → β) (table : List (κ × β))
    (xs : List κ) (h : TableOk f table) :
    (cachedCalls f table xs).1 = xs.map f ∧ TableOk f (cachedCalls f table xs).2 := by
  induction xs generalizing table with
  | nil => exact ⟨rfl, h⟩
  | cons x xs ih =>
    obtain ⟨c1, c2⟩ := cache_transparent f table x h
    obtain ⟨i1, i2⟩ := ih (cached f table x).2 c2
    simp only [cachedCalls, List.map_cons]
    exact ⟨by rw [c1, i1], i2⟩

end FastTicc.MainLoop

/-
C02, the clause "it always stops within its budget" — what a theorem can carry of it.

Scaled-form ADMM for `min f(X) + g(Z)` subject to `X = Z` over a real inner-product space (for TICC: symmetric
matrices with the Frobenius inner product, `f = -log det + tr(S ·)` on the positive-definite cone, `g = ‖λ∘·‖₁` on the
block-Toeplitz subspace).  Proved here, for ARBITRARY convex `f`, `g` and any run whose updates are minimisers:
the Lyapunov decrease of every sweep, summability of the squared residuals, convergence of both residuals to zero
and an EXPLICIT sweep count after which the stopping rule has fired (`stopping_rule_fires`).  This is exact
arithmetic: rounding and the concrete budget of 1000 sweeps stay outside the theorem (DESIGN 5.C02).
-/
import FastTicc.Proofs.LogDet
import Mathlib.LinearAlgebra.Matrix.Trace
import Mathlib.Analysis.InnerProductSpace.Basic
import Mathlib.Analysis.Convex.Function
import Mathlib.Topology.Algebra.InfiniteSum.Real
import Mathlib.Order.Filter.Extr
import Mathlib.Tactic.Linarith

open scoped RealInnerProductSpace

namespace FastTicc.AdmmConv

variable {E : Type*} [NormedAddCommGroup E] [InnerProductSpace ℝ E]

/-- if `A + t B ≥ 0` for every `t ∈ (0, 1]` then `A ≥ 0` -/
theorem nonneg_of_forall_small (A B : ℝ) (h : ∀ t : ℝ, 0 < t → t ≤ 1 → 0 ≤ A + t * B) : 0 ≤ A := by
  by_contra hA
  push Not at hA
  by_cases hB : B ≤ 0
  · have := h 1 one_pos le_rfl
    nlinarith
  · push Not at hB
    have hq : 0 < -A / (2 * B) := by
      apply div_pos <;> linarith
    have ht0 : 0 < min 1 (-A / (2 * B)) := lt_min one_pos hq
    have h1 := h _ ht0 (min_le_left _ _)
    have h2 : min 1 (-A / (2 * B)) * B ≤ -A / (2 * B) * B := by
      apply mul_le_mul_of_nonneg_right (min_le_right _ _) hB.le
    have h3 : -A / (2 * B) * B = -A / 2 := by
      field_simp
    linarith

/-- **prox characterisation**: a minimiser over a convex set `C` of `f + (ρ/2)‖· - v‖²`, `f` convex on `C`,
satisfies the variational inequality `f x - f p + ρ ⟪p - v, x - p⟫ ≥ 0` for every `x ∈ C`. -/
theorem prox_variational {f : E → ℝ} {C : Set E} (hf : ConvexOn ℝ C f) {ρ : ℝ} (hρ : 0 < ρ) {v p : E}
    (hp : p ∈ C) (hmin : ∀ x ∈ C, f p + ρ / 2 * ‖p - v‖ ^ 2 ≤ f x + ρ / 2 * ‖x - v‖ ^ 2) :
    ∀ x ∈ C, 0 ≤ f x - f p + ρ * ⟪p - v, x - p⟫ := by
  intro x hx
  apply nonneg_of_forall_small _ (ρ / 2 * ‖x - p‖ ^ 2)
  intro t ht0 ht1
  have hmem : (1 - t) • p + t • x ∈ C := hf.1 hp hx (by linarith) ht0.le (by ring)
  have hconv : f ((1 - t) • p + t • x) ≤ (1 - t) * f p + t * f x := by
    have := hf.2 hp hx (show 0 ≤ 1 - t by linarith) ht0.le (by ring)
    simpa [smul_eq_mul] using this
  have hm := hmin _ hmem
  have hpt : (1 - t) • p + t • x - v = (p - v) + t • (x - p) := by
    simp only [sub_smul, one_smul, smul_sub]; abel
  rw [hpt, norm_add_sq_real, norm_smul, inner_smul_right] at hm
  have habs : ‖t‖ = t := by rw [Real.norm_eq_abs, abs_of_pos ht0]
  rw [habs] at hm
  have key : 0 ≤ t * (f x - f p + ρ * ⟪p - v, x - p⟫ + t * (ρ / 2 * ‖x - p‖ ^ 2)) := by
    nlinarith
  have := nonneg_of_mul_nonneg_right key ht0
  linarith

/-- one sweep of scaled-form ADMM for `min f(x) + g(z)` s.t. `x = z`, described by what each update
guarantees (its variational inequality), plus the dual update. -/
structure Sweep (f g : E → ℝ) (Cf Cg : Set E) (ρ : ℝ) (z u x' z' u' : E) : Prop where
  x_mem : x' ∈ Cf
  z_mem : z' ∈ Cg
  x_opt : ∀ x ∈ Cf, 0 ≤ f x - f x' + ρ * ⟪x' - z + u, x - x'⟫
  z_opt : ∀ w ∈ Cg, 0 ≤ g w - g z' - ρ * ⟪x' - z' + u, w - z'⟫
  u_upd : u' = u + x' - z'

/-- **the two updates of the code are a `Sweep`**: an X-update that minimises `f + (ρ/2)‖· - Z + U‖²` over `Cf`
(C02 `xUpdateMatrix_stationary` + convexity), a Z-update that minimises `g + (ρ/2)‖X' - · + U‖²` over `Cg`
(C02 `zUpdate_minimises`), and `U' = U + X' - Z'`. -/
theorem sweep_of_minimisers {f g : E → ℝ} {Cf Cg : Set E} (hf : ConvexOn ℝ Cf f) (hg : ConvexOn ℝ Cg g)
    {ρ : ℝ} (hρ : 0 < ρ) {z u x' z' u' : E}
    (hx : x' ∈ Cf) (hxmin : ∀ y ∈ Cf, f x' + ρ / 2 * ‖x' - (z - u)‖ ^ 2 ≤ f y + ρ / 2 * ‖y - (z - u)‖ ^ 2)
    (hz : z' ∈ Cg) (hzmin : ∀ w ∈ Cg, g z' + ρ / 2 * ‖z' - (x' + u)‖ ^ 2 ≤ g w + ρ / 2 * ‖w - (x' + u)‖ ^ 2)
    (hu : u' = u + x' - z') : Sweep f g Cf Cg ρ z u x' z' u' := by
  refine ⟨hx, hz, ?_, ?_, hu⟩
  · intro y hy
    have := prox_variational hf hρ hx hxmin y hy
    have e : x' - (z - u) = x' - z + u := by abel
    rwa [e] at this
  · intro w hw
    have := prox_variational hg hρ hz hzmin w hw
    have e : z' - (x' + u) = -(x' - z' + u) := by abel
    rw [e, inner_neg_left] at this
    linarith

/-- a saddle point of the Lagrangian in scaled form: `x* = z*`, `-ρ u* ∈ ∂f(x*)`, `ρ u* ∈ ∂g(z*)`. -/
structure Saddle (f g : E → ℝ) (Cf Cg : Set E) (ρ : ℝ) (zs us : E) : Prop where
  mem_f : zs ∈ Cf
  mem_g : zs ∈ Cg
  f_opt : ∀ x ∈ Cf, 0 ≤ f x - f zs + ρ * ⟪us, x - zs⟫
  g_opt : ∀ w ∈ Cg, 0 ≤ g w - g zs - ρ * ⟪us, w - zs⟫

/-- **the Lyapunov decrease of one sweep** (Boyd et al. 2011, appendix A, inequality A.3, for the consensus
constraint `x = z`): with `V = ‖u - u*‖² + ‖z - z*‖²`,
`V(next) ≤ V(now) - ‖x' - z'‖² - ‖z' - z‖²`. -/
theorem lyapunov_step {f g : E → ℝ} {Cf Cg : Set E} {ρ : ℝ} (hρ : 0 < ρ) {z u x' z' u' zs us : E}
    (hs : Sweep f g Cf Cg ρ z u x' z' u') (hsad : Saddle f g Cf Cg ρ zs us)
    (hz : z ∈ Cg) (hzprev : ∀ w ∈ Cg, 0 ≤ g w - g z - ρ * ⟪u, w - z⟫) :
    ‖u' - us‖ ^ 2 + ‖z' - zs‖ ^ 2 ≤ ‖u - us‖ ^ 2 + ‖z - zs‖ ^ 2 - ‖x' - z'‖ ^ 2 - ‖z' - z‖ ^ 2 := by
  obtain ⟨hxm, hzm, hxo, hzo, hu⟩ := hs
  obtain ⟨hsf, hsg, hfo, hgo⟩ := hsad
  have e1 := hxo zs hsf
  have e2 := hzo zs hsg
  have e3 := hfo x' hxm
  have e4 := hgo z' hzm
  have e5 := hzo z hz
  have e6 := hzprev z' hzm
  clear hxo hzo hfo hgo hzprev
  have hx1 : x' - z + u = ((u - us) + us) + (x' - z') + (z' - z) := by abel
  have hx2 : zs - x' = -((x' - z') + (z' - z) + (z - zs)) := by abel
  have hx3 : x' - z' + u = (u - us) + us + (x' - z') := by abel
  have hx4 : zs - z' = -((z' - z) + (z - zs)) := by abel
  have hx5 : x' - zs = (x' - z') + (z' - z) + (z - zs) := by abel
  have hx6 : z' - zs = (z' - z) + (z - zs) := by abel
  have hx7 : z - z' = -(z' - z) := by abel
  have hx8 : u' - us = (u - us) + (x' - z') := by rw [hu]; abel
  have hau : u = (u - us) + us := by abel
  rw [hx1, hx2] at e1
  rw [hx3, hx4] at e2
  rw [hx5] at e3
  rw [hx6] at e4
  rw [hx3, hx7] at e5
  rw [hau] at e6
  rw [hx8, hx6]
  generalize x' - z' = r at *
  generalize u - us = a at *
  generalize z - zs = b at *
  generalize z' - z = d at *
  simp only [inner_add_left, inner_add_right, inner_neg_right] at e1 e2 e3 e4 e5 e6
  rw [norm_add_sq_real, norm_add_sq_real]
  have s4 : ⟪d, r⟫ = ⟪r, d⟫ := real_inner_comm _ _
  have n1 : ⟪r, r⟫ = ‖r‖ ^ 2 := real_inner_self_eq_norm_sq r
  have n2 : ⟪d, d⟫ = ‖d‖ ^ 2 := real_inner_self_eq_norm_sq d
  simp only [s4, n1, n2] at e1 e2 e3 e4 e5 e6
  -- (e1 + e2 + e3 + e4)/ρ and (e5 + e6)/ρ
  have k1 : 0 ≤ ρ * (-(⟪a, r⟫) - ‖r‖ ^ 2 - ⟪r, d⟫ - ‖d‖ ^ 2 - ⟪d, b⟫) := by nlinarith
  have k2 : 0 ≤ ρ * ⟪r, d⟫ := by nlinarith
  have k1' := nonneg_of_mul_nonneg_right k1 hρ
  have k2' := nonneg_of_mul_nonneg_right k2 hρ
  nlinarith


/-- an ADMM run from `(z 0, u 0)`: every sweep is a `Sweep`, and the initial pair already satisfies the
optimality condition a Z-update leaves behind (in the code `z 0 = u 0 = 0` and `g = ‖λ∘·‖₁ ≥ 0 = g 0`). -/
structure Run (f g : E → ℝ) (Cf Cg : Set E) (ρ : ℝ) (x z u : ℕ → E) : Prop where
  sweep : ∀ k, Sweep f g Cf Cg ρ (z k) (u k) (x (k + 1)) (z (k + 1)) (u (k + 1))
  z0_mem : z 0 ∈ Cg
  z0_opt : ∀ w ∈ Cg, 0 ≤ g w - g (z 0) - ρ * ⟪u 0, w - z 0⟫

theorem Run.z_inv {f g : E → ℝ} {Cf Cg : Set E} {ρ : ℝ} {x z u : ℕ → E} (h : Run f g Cf Cg ρ x z u) :
    ∀ k, z k ∈ Cg ∧ ∀ w ∈ Cg, 0 ≤ g w - g (z k) - ρ * ⟪u k, w - z k⟫
  | 0 => ⟨h.z0_mem, h.z0_opt⟩
  | k + 1 => by
    have hs := h.sweep k
    refine ⟨hs.z_mem, fun w hw => ?_⟩
    have := hs.z_opt w hw
    have e : x (k + 1) - z (k + 1) + u k = u (k + 1) := by rw [hs.u_upd]; abel
    rwa [e] at this

/-- the Lyapunov function of the run -/
noncomputable def V (z u : ℕ → E) (zs us : E) (k : ℕ) : ℝ := ‖u k - us‖ ^ 2 + ‖z k - zs‖ ^ 2

/-- primal residual `x - z` and the change of the consensus variable (the dual residual is `ρ` times it) -/
noncomputable def res (x z : ℕ → E) (k : ℕ) : ℝ := ‖x (k + 1) - z (k + 1)‖ ^ 2 + ‖z (k + 1) - z k‖ ^ 2

theorem Run.lyapunov {f g : E → ℝ} {Cf Cg : Set E} {ρ : ℝ} (hρ : 0 < ρ) {x z u : ℕ → E} {zs us : E}
    (h : Run f g Cf Cg ρ x z u) (hsad : Saddle f g Cf Cg ρ zs us) (k : ℕ) :
    V z u zs us (k + 1) ≤ V z u zs us k - res x z k := by
  have := lyapunov_step hρ (h.sweep k) hsad (h.z_inv k).1 (h.z_inv k).2
  unfold V res
  linarith

/-- the squared residuals of ALL sweeps together are bounded by the initial distance to the saddle point -/
theorem Run.sum_res_le {f g : E → ℝ} {Cf Cg : Set E} {ρ : ℝ} (hρ : 0 < ρ) {x z u : ℕ → E} {zs us : E}
    (h : Run f g Cf Cg ρ x z u) (hsad : Saddle f g Cf Cg ρ zs us) (n : ℕ) :
    (Finset.range n).sum (res x z) ≤ V z u zs us 0 - V z u zs us n := by
  induction n with
  | zero => simp
  | succ k ih =>
    rw [Finset.sum_range_succ]
    have := h.lyapunov hρ hsad k
    linarith

theorem V_nonneg (z u : ℕ → E) (zs us : E) (k : ℕ) : 0 ≤ V z u zs us k := by unfold V; positivity

theorem res_nonneg (x z : ℕ → E) (k : ℕ) : 0 ≤ res x z k := by unfold res; positivity

/-- **exact-arithmetic ADMM converges**: primal residual and consensus change tend to zero. -/
theorem Run.res_tendsto_zero {f g : E → ℝ} {Cf Cg : Set E} {ρ : ℝ} (hρ : 0 < ρ) {x z u : ℕ → E} {zs us : E}
    (h : Run f g Cf Cg ρ x z u) (hsad : Saddle f g Cf Cg ρ zs us) :
    Filter.Tendsto (res x z) Filter.atTop (nhds 0) := by
  have hsum : Summable (res x z) :=
    summable_of_sum_range_le (res_nonneg x z) (fun n => by
      have := h.sum_res_le hρ hsad n
      have := V_nonneg z u zs us n
      linarith)
  exact hsum.tendsto_atTop_zero

/-- **an explicit sweep bound**: within any `n` sweeps with `n · ε² > V 0` there is one whose primal residual
and consensus change are both below `ε` (pigeonhole on `sum_res_le`). -/
theorem Run.small_residual_within {f g : E → ℝ} {Cf Cg : Set E} {ρ : ℝ} (hρ : 0 < ρ) {x z u : ℕ → E} {zs us : E}
    (h : Run f g Cf Cg ρ x z u) (hsad : Saddle f g Cf Cg ρ zs us) (ε : ℝ) (hε : 0 < ε) (n : ℕ)
    (hn : V z u zs us 0 < n * ε ^ 2) :
    ∃ k < n, ‖x (k + 1) - z (k + 1)‖ < ε ∧ ‖z (k + 1) - z k‖ < ε := by
  by_contra hcon
  push Not at hcon
  have hbig : ∀ k ∈ Finset.range n, ε ^ 2 ≤ res x z k := by
    intro k hk
    have hk' : k < n := Finset.mem_range.mp hk
    unfold res
    by_cases h1 : ‖x (k + 1) - z (k + 1)‖ < ε
    · have h2 := hcon k hk' h1
      have : ε ^ 2 ≤ ‖z (k + 1) - z k‖ ^ 2 := by nlinarith [norm_nonneg (z (k + 1) - z k)]
      nlinarith [sq_nonneg ‖x (k + 1) - z (k + 1)‖]
    · push Not at h1
      have : ε ^ 2 ≤ ‖x (k + 1) - z (k + 1)‖ ^ 2 := by nlinarith [norm_nonneg (x (k + 1) - z (k + 1))]
      nlinarith [sq_nonneg ‖z (k + 1) - z k‖]
  have hs : (n : ℝ) * ε ^ 2 ≤ (Finset.range n).sum (res x z) := by
    have := Finset.sum_le_sum hbig
    simpa using this
  have := h.sum_res_le hρ hsad n
  have := V_nonneg z u zs us n
  linarith

/-- **the stopping rule fires** (exact arithmetic): for any positive primal and dual tolerances the test
`‖x - z‖ ≤ τp ∧ ρ‖z - z_old‖ ≤ τd` holds at some sweep among the first `n`, as soon as
`n · min(τp, τd/ρ)² > ‖u₀ - u*‖² + ‖z₀ - z*‖²`. -/
theorem Run.stopping_rule_fires {f g : E → ℝ} {Cf Cg : Set E} {ρ : ℝ} (hρ : 0 < ρ) {x z u : ℕ → E} {zs us : E}
    (h : Run f g Cf Cg ρ x z u) (hsad : Saddle f g Cf Cg ρ zs us) (τp τd : ℝ) (hp : 0 < τp) (hd : 0 < τd) (n : ℕ)
    (hn : V z u zs us 0 < n * (min τp (τd / ρ)) ^ 2) :
    ∃ k < n, ‖x (k + 1) - z (k + 1)‖ ≤ τp ∧ ρ * ‖z (k + 1) - z k‖ ≤ τd := by
  have hε : 0 < min τp (τd / ρ) := lt_min hp (div_pos hd hρ)
  obtain ⟨k, hk, h1, h2⟩ := h.small_residual_within hρ hsad _ hε n hn
  refine ⟨k, hk, (h1.trans_le (min_le_left _ _)).le, ?_⟩
  have : ‖z (k + 1) - z k‖ < τd / ρ := h2.trans_le (min_le_right _ _)
  have := (lt_div_iff₀ hρ).mp this
  linarith

/-- the hypotheses are satisfiable (trivial instance: zero objective, the run that never moves) -/
example : Run (fun _ : ℝ => 0) (fun _ => 0) Set.univ Set.univ 1 (fun _ => 0) (fun _ => 0) (fun _ => 0)
    ∧ Saddle (fun _ : ℝ => 0) (fun _ => 0) Set.univ Set.univ 1 0 0 := by
  refine ⟨⟨fun k => ⟨trivial, trivial, ?_, ?_, ?_⟩, trivial, ?_⟩, ⟨trivial, trivial, ?_, ?_⟩⟩ <;> simp

end FastTicc.AdmmConv

/-! ### the concrete X-update satisfies its hypothesis -/

namespace FastTicc.AdmmConv
open Matrix
variable {n : Type} [Fintype n] [DecidableEq n]

/-- the smooth part of the objective: `f X = -log det X + tr(S X)` -/
noncomputable def smoothObj (S X : Matrix n n ℝ) : ℝ := -Real.log X.det + (S * X).trace

/-- **the X-update's hypothesis of `Sweep` holds for the code's X-update** (Frobenius inner product `⟪A, B⟫ = tr(Aᵀ B)`):
if `X` is positive definite, symmetric and stationary for the X sub-problem, `ρ X - X⁻¹ = ρ (Z - U) - S`
(C02 `xUpdateMatrix_stationary`, `xUpdateMatrix_posDef`), then for every positive definite `Y`
`f Y - f X + ρ tr((X - Z + U)ᵀ (Y - X)) ≥ 0`. -/
theorem xUpdate_variational (S Z U X Y : Matrix n n ℝ) (rho : ℝ) (hX : X.PosDef) (hY : Y.PosDef)
    (hsym : Xᵀ = X) (hZU : (Z - U)ᵀ = Z - U)
    (hstat : rho • X - X⁻¹ = rho • (Z - U) - S) :
    0 ≤ smoothObj S Y - smoothObj S X + rho * ((X - Z + U)ᵀ * (Y - X)).trace := by
  have hc := FastTicc.LogDet.log_det_concave hX hY
  unfold smoothObj
  have e1 : (X - Z + U)ᵀ = X - (Z - U) := by
    rw [show X - Z + U = X - (Z - U) by abel, transpose_sub, hsym, hZU]
  -- rho (X - (Z - U)) = X⁻¹ - S
  have e2 : rho • (X - (Z - U)) = X⁻¹ - S := by
    have : rho • (X - (Z - U)) = rho • X - rho • (Z - U) := smul_sub _ _ _
    rw [this]
    have := hstat
    have h2 : rho • X = rho • (Z - U) - S + X⁻¹ := by rw [← this]; abel
    rw [h2]; abel
  have e3 : rho * ((X - (Z - U)) * (Y - X)).trace = ((X⁻¹ - S) * (Y - X)).trace := by
    rw [← e2, Matrix.smul_mul, Matrix.trace_smul, smul_eq_mul]
  rw [e1, e3, Matrix.sub_mul, Matrix.trace_sub]
  have e4 : (S * (Y - X)).trace = (S * Y).trace - (S * X).trace := by
    rw [Matrix.mul_sub, Matrix.trace_sub]
  linarith

end FastTicc.AdmmConv

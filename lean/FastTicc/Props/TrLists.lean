/-
TRANSLATED CODE = MODEL (`_compute_log_likelihood_by_cluster` of main_loop.py, property C06).  `Generated/Kernels.lean` is
rewritten from the Python AST of `$REPO/src/fast_ticc` by `harness/py2lean.py` on every run; the theorem below is about that
generated definition.  `model` is the record of what the function reads of the final model state (cluster count, window
size, labels); `likelihood.point_log_likelihood(window, model.clusters[k], W, N)` is a function parameter (`pointLL`, the
cluster represented by its index); the list of per-cluster lists is a `List (List α)` updated by `xs[k].append(v)`.
-/
import FastTicc.Generated.Kernels
import FastTicc.Proofs.Translated
import FastTicc.Model.Result
open FastTicc FastTicc.PyLemmas

namespace FastTicc.Translated
section
variable {α : Type}

/-- `xs[l].append(v)` on a list built cluster by cluster -/
theorem setItem_append_map (K : Nat) (g : Nat → List α) (l : Nat) (hl : l < K) (v : α) :
    Py.setItem ((List.range K).map g) (l : Int) (Py.append (Py.getItem ((List.range K).map g) (l : Int)) v)
      = (List.range K).map (fun (k : Nat) => if k = l then g k ++ [v] else g k) := by
  unfold Py.setItem Py.getItem Py.append
  simp only [List.length_map, List.length_range, idx_nat]
  apply List.ext_getElem
  · simp
  · intro i h1 h2
    simp only [List.length_set, List.length_map, List.length_range] at h1
    by_cases hil : i = l
    · subst hil
      simp [List.getD_eq_getElem?_getD, hl]
    · have : ¬ l = i := fun h => hil h.symm
      simp [this, hil]

/-- one window: skipped when its label is `-1`, otherwise appended to its cluster's list -/
def listsBody (f : Int × Int → α) (it : Int × Int) (st : List (List α)) : List (List α) :=
  if decide (it.2 = (-1 : Int)) = true then st
  else Py.setItem st it.2 (Py.append (Py.getItem st it.2) (f it))

/-- the loop invariant: after any prefix of the windows, list `k` holds the values of the windows of the prefix that
carry label `k`, in window order -/
theorem lists_loop (K : Nat) (f : Int × Int → α) :
    ∀ (pts : List (Int × Int)), (∀ p ∈ pts, -1 ≤ p.2 ∧ p.2 < (K : Int)) →
    ∀ (g : Nat → List α),
      pts.foldl (fun st it => listsBody f it st) ((List.range K).map g)
        = (List.range K).map (fun (k : Nat) => g k ++ (pts.filter (fun (p : Int × Int) => p.2 == (k : Int))).map f) := by
  intro pts
  induction pts with
  | nil => intro _ g; simp
  | cons p t ih =>
    intro h g
    have hp := h p (by simp)
    have ht : ∀ q ∈ t, -1 ≤ q.2 ∧ q.2 < (K : Int) := fun q hq => h q (by simp [hq])
    rw [List.foldl_cons]
    by_cases hm : p.2 = -1
    · have hstep : listsBody f p ((List.range K).map g) = (List.range K).map g := by
        unfold listsBody; simp [hm]
      rw [hstep, ih ht g]
      apply List.map_congr_left
      intro k _
      have : ¬ ((-1 : Int) = (k : Int)) := by omega
      simp [hm, this]
    · obtain ⟨l, hl⟩ : ∃ l : Nat, p.2 = (l : Int) := ⟨p.2.toNat, by omega⟩
      have hlK : l < K := by omega
      have hstep : listsBody f p ((List.range K).map g)
          = (List.range K).map (fun (k : Nat) => if k = l then g k ++ [f p] else g k) := by
        unfold listsBody
        simp only [hm, decide_false, Bool.false_eq_true, if_false]
        rw [hl]
        exact setItem_append_map K g l hlK (f p)
      rw [hstep, ih ht]
      apply List.map_congr_left
      intro k _
      by_cases hk : k = l
      · subst hk
        simp [hl]
      · have : ¬ ((l : Int) = (k : Int)) := by omega
        simp [hl, hk, this]

theorem zip_map_same {β γ δ : Type} (l : List β) (a : β → γ) (b : β → δ) :
    (l.map a).zip (l.map b) = l.map (fun x => (a x, b x)) := by
  induction l with
  | nil => rfl
  | cons x t ih => simp [ih]

theorem foldl_body_ext {β σ : Type} {g h : σ → β → σ} (hgh : ∀ s x, g s x = h s x) (l : List β) (init : σ) :
    l.foldl g init = l.foldl h init := by
  have : g = h := by funext s x; exact hgh s x
  rw [this]

/-- `enumerate(labels)` pairs every label with its position -/
theorem enumerate_map_snd (labels : List Int) : (Py.enumerate labels).map (fun (p : Int × Int) => p.2) = labels := by
  unfold Py.enumerate
  simp [List.map_map, Function.comp_def]

/-- **the translated `_compute_log_likelihood_by_cluster` is `Result.clusterLists`**: for every cluster count, every labelling
with labels in `[-1, K)` and every per-point likelihood function, the translated function returns, for each cluster, the
log-likelihoods of exactly the windows carrying its label, in window order (`-1`, "not clustered", is skipped); `ll[i]` is
`pointLL(window i, cluster labels[i], W, N)` with `N = shape[1] / W`. -/
theorem compute_log_likelihood_by_cluster_eq (pointLL : Py.Arr1 α → Int → Int → Rat → α) (data : Py.Arr2 α)
    (K : Nat) (W : Int) (labels : List Int) (hl : ∀ l ∈ labels, -1 ≤ l ∧ l < (K : Int)) :
    Gen._compute_log_likelihood_by_cluster pointLL data ⟨(K : Int), W, labels⟩
      = Result.clusterLists K labels
          ((Py.enumerate labels).map (fun (it : Int × Int) =>
            pointLL (Py.Arr2.row data it.1) it.2 W (Py.trueDiv (Py.Arr2.shape1 data) W))) := by
  unfold Gen._compute_log_likelihood_by_cluster
  simp only []
  have hinit : List.map (fun (_ : Int) => ([] : List α)) (Py.range 0 (K : Int) 1) = (List.range K).map (fun _ => []) := by
    rw [range_zero_one, List.map_map]; rfl
  rw [hinit]
  unfold Py.forEach
  set f : Int × Int → α := fun it => pointLL (Py.Arr2.row data it.1) it.2 W (Py.trueDiv (Py.Arr2.shape1 data) W) with hf
  -- the loop body, whichever way the source spells the guard (`if c: continue` / `if not c:`), is `listsBody`
  rw [foldl_body_ext (h := fun st it => listsBody f it st)]
  swap
  · intro s x
    show _ = listsBody f x s
    unfold listsBody
    by_cases hx : x.2 = -1 <;> simp [hx, hf]
  have hpts : ∀ p ∈ Py.enumerate labels, -1 ≤ p.2 ∧ p.2 < (K : Int) := by
    intro p hp
    have : p.2 ∈ (Py.enumerate labels).map (fun (q : Int × Int) => q.2) := List.mem_map_of_mem hp
    rw [enumerate_map_snd] at this
    exact hl _ this
  rw [lists_loop K f _ hpts]
  unfold Result.clusterLists
  apply List.map_congr_left
  intro k _
  simp only [List.nil_append]
  have hz : labels.zip ((Py.enumerate labels).map f) = (Py.enumerate labels).map (fun it => (it.2, f it)) := by
    have h1 := zip_map_same (Py.enumerate labels) (fun (p : Int × Int) => p.2) f
    rw [enumerate_map_snd] at h1
    exact h1
  rw [hz, List.filter_map, List.map_map]
  rfl
end
end FastTicc.Translated

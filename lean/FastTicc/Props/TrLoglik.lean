/-
TRANSLATED CODE = MODEL (the likelihood kernels of likelihood.py, properties C05 / C15).  `Generated/Kernels.lean` is
rewritten from the Python AST of `$REPO/src/fast_ticc` by `harness/py2lean.py` on every run; the theorems below are about
those generated definitions.  The constant `np.log(2 * math.pi)` of the source is the parameter `log2pi`; `x.T @ Θ @ x`
is `Py.dot (Py.vecMat x Θ) x` (sums accumulated from 0 in index order; BLAS summation order is not modelled).
-/
import FastTicc.Generated.Kernels
import FastTicc.Proofs.Translated
import FastTicc.Model.Numeric
import FastTicc.Props.C05
import Mathlib.Algebra.Order.Field.Basic
import Mathlib.Tactic.FieldSimp
open FastTicc FastTicc.PyLemmas

namespace FastTicc.Translated
section
variable {α : Type} [Field α] [LinearOrder α]

theorem py_sumTo_eq (n : Nat) (f : Nat → α) : Py.sumTo n f = Numeric.sumTo n f := rfl

/-- **the translated per-point kernel is the model's log-likelihood formula**: for a window `x`, a mean and a precision
matrix of the same dimension `n = W·N`, with `log2pi` standing for the constant `np.log(2π)`. -/
theorem point_log_likelihood_fast_eq (log2pi : α) (x mu : Py.Arr1 α) (theta : Py.Arr2 α) (logdet : α) (W N : Nat)
    (hcols : theta.cols = x.n) :
    Gen.point_log_likelihood_fast log2pi x mu theta logdet (W : Int) (N : Int)
      = Numeric.logLik x.n (1 / 2) logdet (((W * N : Nat) : α) * log2pi) theta.get mu.get x.get := by
  unfold Gen.point_log_likelihood_fast Numeric.logLik Numeric.quadForm Py.dot Py.vecMat Py.Arr1.sub
  simp only [py_sumTo_eq, hcols, Int.cast_one, Int.cast_ofNat, Int.cast_mul, Int.cast_natCast, Nat.cast_mul]


/-- filling one row, cell by cell -/
theorem fill_row {β : Type} (T K p : Nat) (F : Nat → β) (init : Py.Arr2 β) (hr : init.rows = T) (hc : init.cols = K) :
    ∀ m, ((List.range m).foldl (fun s (k : Nat) => Py.Arr2.set s (p : Int) (k : Int) (F k)) init).rows = T ∧
      ((List.range m).foldl (fun s (k : Nat) => Py.Arr2.set s (p : Int) (k : Int) (F k)) init).cols = K ∧
      ∀ r c, ((List.range m).foldl (fun s (k : Nat) => Py.Arr2.set s (p : Int) (k : Int) (F k)) init).get r c
        = if r = p ∧ c < m then F c else init.get r c := by
  intro m
  induction m with
  | zero => simp [hr, hc]
  | succ k ih =>
    rw [List.range_succ, List.foldl_append]
    generalize (List.range k).foldl (fun s (k : Nat) => Py.Arr2.set s (p : Int) (k : Int) (F k)) init = s at ih
    obtain ⟨h1, h2, h3⟩ := ih
    simp only [List.foldl_cons, List.foldl_nil, Py.Arr2.set, h1, h2, idx_nat, true_and]
    intro r c
    by_cases hrp : r = p <;> by_cases hck : c = k
    · subst hrp; subst hck; simp
    · subst hrp; rw [if_neg (by tauto), h3]
      have : (c < k + 1) = (c < k) := by apply propext; omega
      simp [this]
    · rw [if_neg (by tauto), h3]; simp [hrp]
    · rw [if_neg (by tauto), h3]; simp [hrp]

/-- filling a table row by row, cell by cell (the double loop `for p in range(T): for k in range(K): t[p, k] = F p k`) -/
theorem fill_table {β : Type} (T K : Nat) (F : Nat → Nat → β) (init : Py.Arr2 β) (hr : init.rows = T) (hc : init.cols = K) :
    ∀ m, ((List.range m).foldl (fun s (p : Nat) =>
            (List.range K).foldl (fun s (k : Nat) => Py.Arr2.set s (p : Int) (k : Int) (F p k)) s) init).rows = T ∧
      ((List.range m).foldl (fun s (p : Nat) =>
            (List.range K).foldl (fun s (k : Nat) => Py.Arr2.set s (p : Int) (k : Int) (F p k)) s) init).cols = K ∧
      ∀ r c, ((List.range m).foldl (fun s (p : Nat) =>
            (List.range K).foldl (fun s (k : Nat) => Py.Arr2.set s (p : Int) (k : Int) (F p k)) s) init).get r c
        = if r < m ∧ c < K then F r c else init.get r c := by
  intro m
  induction m with
  | zero => simp [hr, hc]
  | succ j ih =>
    rw [List.range_succ, List.foldl_append]
    generalize (List.range j).foldl (fun s (p : Nat) =>
            (List.range K).foldl (fun s (k : Nat) => Py.Arr2.set s (p : Int) (k : Int) (F p k)) s) init = s at ih
    obtain ⟨h1, h2, h3⟩ := ih
    simp only [List.foldl_cons, List.foldl_nil]
    obtain ⟨g1, g2, g3⟩ := fill_row T K j (F j) s h1 h2 K
    refine ⟨g1, g2, ?_⟩
    intro r c
    rw [g3, h3]
    by_cases hrj : r = j
    · subst hrj
      by_cases hcK : c < K
      · rw [if_pos ⟨rfl, hcK⟩, if_pos ⟨by omega, hcK⟩]
      · rw [if_neg (by tauto), if_neg (by omega), if_neg (by tauto)]
    · rw [if_neg (by tauto)]
      by_cases hlt : r < j
      · by_cases hcK : c < K
        · rw [if_pos ⟨hlt, hcK⟩, if_pos ⟨by omega, hcK⟩]
        · rw [if_neg (by tauto), if_neg (by tauto)]
      · rw [if_neg (by tauto), if_neg (by omega)]

theorem trueDiv_mul_cancel (N W : Nat) (hW : 0 < W) :
    Py.intOfRat (Py.trueDiv (((N * W : Nat) : Nat) : Int) (W : Int)) = (N : Int) := by
  unfold Py.trueDiv
  have hW' : ((W : Int) : Rat) ≠ 0 := by exact_mod_cast hW.ne'
  have : (((N * W : Nat) : Int) : Rat) / ((W : Int) : Rat) = ((N : Int) : Rat) := by
    push_cast; field_simp
  rw [this, intOfRat_intCast]

/-- **the translated likelihood table is the model's table**: `T` windows of dimension `N·W`, `K` clusters; cell
`(p, k)` is the log-likelihood formula at (window `p`, mean `k`, precision matrix `k`, log-determinant `k`). -/
theorem all_points_all_clusters_log_likelihood_fast_eq (log2pi : α) (W N K : Nat) (hW : 0 < W)
    (mus : Py.Arr2 α) (thetas : List (Py.Arr2 α)) (logdets : Py.Arr1 α) (data : Py.Arr2 α)
    (hdata : data.cols = N * W) (hmus : mus.rows = K ∧ mus.cols = N * W) (hth : thetas.length = K)
    (hthc : ∀ th ∈ thetas, th.cols = N * W) (hld : logdets.n = K) :
    (Gen.all_points_all_clusters_log_likelihood_fast log2pi (W : Int) (K : Int) mus thetas logdets data).rows = data.rows ∧
    (Gen.all_points_all_clusters_log_likelihood_fast log2pi (W : Int) (K : Int) mus thetas logdets data).cols = K ∧
    ∀ p k, p < data.rows → k < K →
      (Gen.all_points_all_clusters_log_likelihood_fast log2pi (W : Int) (K : Int) mus thetas logdets data).get p k
        = Numeric.logLikTable (N * W) (1 / 2) (((W * N : Nat) : α) * log2pi) logdets.get
            (fun k => (thetas.getD k default).get) mus.get data.get p k := by
  unfold Gen.all_points_all_clusters_log_likelihood_fast
  simp only [Py.Arr2.shape0, Py.Arr2.shape1, hdata, trueDiv_mul_cancel N W hW]
  rw [forEach_range]
  simp only [forEach_range]
  -- the cell function does not depend on the table being filled
  have hfill := fill_table data.rows K
    (fun p k => Gen.point_log_likelihood_fast log2pi (Py.Arr2.row data (p : Int)) (Py.Arr2.row mus (k : Int))
      (Py.getItem thetas (k : Int)) (Py.Arr1.get1 logdets (k : Int)) (W : Int) (N : Int))
    (Py.Arr2.const (data.rows : Int) (K : Int) (0 : α)) (by simp [Py.Arr2.const]) (by simp [Py.Arr2.const]) data.rows
  obtain ⟨g1, g2, g3⟩ := hfill
  refine ⟨g1, g2, ?_⟩
  intro p k hp hk
  rw [g3, if_pos ⟨hp, hk⟩]
  have hth_k : Py.getItem thetas (k : Int) = thetas.getD k default := by
    unfold Py.getItem; rw [idx_nat]
  have hmem : thetas.getD k default ∈ thetas := by
    rw [List.getD_eq_getElem?_getD, List.getElem?_eq_getElem (by omega)]
    simp
  rw [hth_k, point_log_likelihood_fast_eq]
  · unfold Numeric.logLikTable
    simp only [Py.Arr2.row, Py.Arr1.get1, idx_nat, hdata, hmus.1, hld]
  · simp only [Py.Arr2.row, hdata]
    exact hthc _ hmem

end

/-- **C05 about the translated kernel**: with `log2pi = log(2π)` and `log_det_theta = log det Θ` (det Θ > 0) the value the
translated `point_log_likelihood_fast` returns is the logarithm of the Gaussian density
`(2π)^{-n/2} (det Θ)^{1/2} exp(-½ (x-μ)ᵀ Θ (x-μ))`, `n = W·N`, for every window, mean and precision matrix. -/
theorem translated_loglik_is_log_gaussian_density (x mu : Py.Arr1 ℝ) (theta : Py.Arr2 ℝ) (detTheta : ℝ) (W N : Nat)
    (hn : x.n = W * N) (hcols : theta.cols = x.n) (hdet : 0 < detTheta) :
    Gen.point_log_likelihood_fast (Real.log (2 * Real.pi)) x mu theta (Real.log detTheta) (W : Int) (N : Int)
      = Real.log ((2 * Real.pi) ^ (-((W * N : Nat) : ℝ) / 2) * Real.sqrt detTheta *
          Real.exp (-(1 / 2) * Numeric.quadForm (W * N) theta.get (fun i => x.get i - mu.get i))) := by
  rw [point_log_likelihood_fast_eq _ _ _ _ _ _ _ hcols, hn]
  exact Numeric.ll_is_log_gaussian_density (W * N) (2 * Real.pi) detTheta (by positivity) hdet theta.get mu.get x.get

end FastTicc.Translated

/-
TRANSLATED CODE = MODEL (`run_admm_optimization` and `admm_update_u` of admm/solver.py, properties C02 / C03).
`Generated/Kernels.lean` is rewritten from the Python AST of `$REPO/src/fast_ticc` by `harness/py2lean.py` on every run; the
theorems below are about those generated definitions.  The X update (an eigendecomposition) and the convergence check (norms
and a square root) are function parameters (`xUpdate`, `checkConv`); the Z update is the translated `admm_update_z` (itself
proved equal to `Numeric.zUpdate` in `Props/TrZUpdate.lean`); the `for … break` loop is a monadic fold over the loop-carried
variables `(z_old, x, z, u, args)` plus a flag that turns the iterations after a `break` into no-ops; `args.rho = new_rho`
is a record update; the `LOGGER.debug` calls (pure arguments) have no effect on values.
-/
import FastTicc.Generated.Kernels
import FastTicc.Proofs.Translated
import FastTicc.Model.MainLoop
open FastTicc FastTicc.PyLemmas

namespace FastTicc.Translated
section
variable {α : Type} [Zero α] [Add α] [Sub α] [Mul α] [Div α] [LT α] [DecidableLT α] [IntCast α]

omit [Zero α] [Mul α] [Div α] [LT α] [DecidableLT α] [IntCast α] in
/-- the translated U update is `u + x - z`, entry by entry -/
theorem admm_update_u_eq (u x z : Py.Arr1 α) :
    Gen.admm_update_u u x z = Py.Arr1.sub (Py.Arr1.add u x) z := rfl

/-- one sweep of the solver in source order: X from `(u, z)`, Z from `(u, new x)`, U from `(u, new x, new z)` -/
def sweepOf (xUpdate : Py.ADMMArgs α → Py.Arr1 α → Py.Arr1 α → Py.Arr2 α → Py.Arr1 α)
    (zf : Py.Arr1 α → Py.Arr1 α → Py.Arr1 α) (args : Py.ADMMArgs α) (S : Py.Arr2 α)
    (s : MainLoop.Admm (Py.Arr1 α)) : MainLoop.Admm (Py.Arr1 α) :=
  let x' := xUpdate args s.u s.z S
  let z' := zf s.u x'
  ⟨x', z', Gen.admm_update_u s.u x' z'⟩

/-- the stopping rule: the first component of `check_convergence(args, u, x, z, z_old)` -/
def stopOf (checkConv : Py.ADMMArgs α → Py.Arr1 α → Py.Arr1 α → Py.Arr1 α → Py.Arr1 α → Bool × α × α × α × α)
    (args : Py.ADMMArgs α) (s' : MainLoop.Admm (Py.Arr1 α)) (zOld : Py.Arr1 α) : Bool :=
  (checkConv args s'.u s'.x s'.z zOld).1

/-- the body of the loop, as the translation leaves it (without a step-parameter hook) -/
def loopBody (xUpdate : Py.ADMMArgs α → Py.Arr1 α → Py.Arr1 α → Py.Arr2 α → Py.Arr1 α)
    (checkConv : Py.ADMMArgs α → Py.Arr1 α → Py.Arr1 α → Py.Arr1 α → Py.Arr1 α → Bool × α × α × α × α)
    (zf : Py.Arr1 α → Py.Arr1 α → Py.Arr1 α) (S : Py.Arr2 α) (iteration : Int)
    (st : Py.Arr1 α × Py.Arr1 α × Py.Arr1 α × Py.Arr1 α × Py.ADMMArgs α × Bool) :
    Py.Arr1 α × Py.Arr1 α × Py.Arr1 α × Py.Arr1 α × Py.ADMMArgs α × Bool :=
  if st.2.2.2.2.2 then st
  else
    let s' := sweepOf xUpdate zf st.2.2.2.2.1 S ⟨st.2.1, st.2.2.1, st.2.2.2.1⟩
    (st.2.2.1, s'.x, s'.z, s'.u, st.2.2.2.2.1,
      decide (iteration > 0) && stopOf checkConv st.2.2.2.2.1 s' st.2.2.1)

omit [Zero α] [Mul α] [Div α] [LT α] [DecidableLT α] [IntCast α] in
/-- the fold of the loop body over the sweeps `it, it+1, …` is `MainLoop.admmLoop` -/
theorem fold_loopBody (xUpdate : Py.ADMMArgs α → Py.Arr1 α → Py.Arr1 α → Py.Arr2 α → Py.Arr1 α)
    (checkConv : Py.ADMMArgs α → Py.Arr1 α → Py.Arr1 α → Py.Arr1 α → Py.Arr1 α → Bool × α × α × α × α)
    (zf : Py.Arr1 α → Py.Arr1 α → Py.Arr1 α) (args : Py.ADMMArgs α) (S : Py.Arr2 α) :
    ∀ (fuel it : Nat) (zOld : Py.Arr1 α) (s : MainLoop.Admm (Py.Arr1 α)),
      (((List.range' it fuel).map (fun (k : Nat) => (k : Int))).foldl
          (fun st k => loopBody xUpdate checkConv zf S k st) (zOld, s.x, s.z, s.u, args, false)).2.1
        = (MainLoop.admmLoop (sweepOf xUpdate zf args S) (stopOf checkConv args) (fun s _ => s) fuel it s).1 := by
  intro fuel
  induction fuel with
  | zero => intro it zOld s; simp [MainLoop.admmLoop]
  | succ f ih =>
    intro it zOld s
    have hfrozen : ∀ (l : List Int) (st : Py.Arr1 α × Py.Arr1 α × Py.Arr1 α × Py.Arr1 α × Py.ADMMArgs α × Bool),
        st.2.2.2.2.2 = true → l.foldl (fun st k => loopBody xUpdate checkConv zf S k st) st = st := by
      intro l
      induction l with
      | nil => intro st _; rfl
      | cons k t iht =>
        intro st hst
        have : loopBody xUpdate checkConv zf S k st = st := by unfold loopBody; simp [hst]
        rw [List.foldl_cons, this]
        exact iht st hst
    rw [List.range'_succ, List.map_cons, List.foldl_cons, MainLoop.admmLoop]
    have hstep : loopBody xUpdate checkConv zf S (it : Int) (zOld, s.x, s.z, s.u, args, false)
        = (s.z, (sweepOf xUpdate zf args S s).x, (sweepOf xUpdate zf args S s).z, (sweepOf xUpdate zf args S s).u, args,
            decide ((it : Int) > 0) && stopOf checkConv args (sweepOf xUpdate zf args S s) s.z) := by
      unfold loopBody
      simp
    rw [hstep]
    by_cases hstop : 0 < it ∧ stopOf checkConv args (sweepOf xUpdate zf args S s) s.z = true
    · have hflag : (decide ((it : Int) > 0) && stopOf checkConv args (sweepOf xUpdate zf args S s) s.z) = true := by
        simp [hstop.2]; omega
      rw [hflag, hfrozen _ _ rfl]
      simp [hstop]
    · have hflag : (decide ((it : Int) > 0) && stopOf checkConv args (sweepOf xUpdate zf args S s) s.z) = false := by
        rcases Nat.eq_zero_or_pos it with h0 | hpos
        · simp [h0]
        · have : stopOf checkConv args (sweepOf xUpdate zf args S s) s.z = false := by
            cases hb : stopOf checkConv args (sweepOf xUpdate zf args S s) s.z
            · rfl
            · exact absurd ⟨hpos, hb⟩ hstop
          simp [this]
      rw [hflag, if_neg hstop]
      have := ih (it + 1) s.z (sweepOf xUpdate zf args S s)
      simpa using this

omit [Zero α] [Add α] [Sub α] [Mul α] [Div α] [LT α] [DecidableLT α] [IntCast α] in
/-- a monadic fold whose steps all succeed (on the states an invariant describes) is the plain fold -/
theorem foldlM_eq_ok {β σ : Type} (g : σ → β → Except String σ) (f : σ → β → σ) (P : σ → Prop)
    (hP : ∀ s b, P s → P (f s b)) (hstep : ∀ s b, P s → g s b = .ok (f s b)) :
    ∀ (xs : List β) (s0 : σ), P s0 → xs.foldlM g s0 = .ok (xs.foldl f s0) := by
  intro xs
  induction xs with
  | nil => intro s0 _; rfl
  | cons b t ih =>
    intro s0 h0
    rw [List.foldlM_cons, hstep s0 b h0]
    exact ih (f s0 b) (hP s0 b h0)

/-- **the translated `run_admm_optimization` is `MainLoop.admmRun`** (the library's own use: no step-parameter hook): for every
X update, convergence check, argument bundle, covariance and iteration budget - the translated function raises nothing and
returns the X iterate `admmLoop` returns: sweeps in source order from the zero state, the rule consulted only after the first
sweep, the loop left at the first sweep whose check passes, the LAST X (not Z) handed back. -/
theorem run_admm_optimization_eq
    (xUpdate : Py.ADMMArgs α → Py.Arr1 α → Py.Arr1 α → Py.Arr2 α → Py.Arr1 α)
    (checkConv : Py.ADMMArgs α → Py.Arr1 α → Py.Arr1 α → Py.Arr1 α → Py.Arr1 α → Bool × α × α × α × α)
    (args : Py.ADMMArgs α) (S : Py.Arr2 α) (maxIter : Nat) (hmax : args.max_iterations = (maxIter : Int))
    (hcb : args.rho_update = none)
    (zf : Py.Arr1 α → Py.Arr1 α → Py.Arr1 α) (hz : ∀ u x, Gen.admm_update_z args u x = .ok (zf u x)) :
    Gen.run_admm_optimization xUpdate checkConv args S
      = .ok (MainLoop.admmRun (sweepOf xUpdate zf args S) (stopOf checkConv args) (fun s _ => s) maxIter
          (Py.Arr1.const (Py.intOfRat (Py.trueDiv ((args.window_size * args.num_data_series)
            * (args.window_size * args.num_data_series + 1)) 2)) (0 : α))).1 := by
  unfold Gen.run_admm_optimization MainLoop.admmRun
  simp only [hmax, range_zero_one, Py.forEachE]
  rw [foldlM_eq_ok _ (fun st k => loopBody xUpdate checkConv zf S k st) (fun st => st.2.2.2.2.1 = args)]
  · have h := fold_loopBody xUpdate checkConv zf args S maxIter 0
      (Py.Arr1.const 0 (0 : α))
      ⟨Py.Arr1.const (Py.intOfRat (Py.trueDiv ((args.window_size * args.num_data_series)
          * (args.window_size * args.num_data_series + 1)) 2)) (0 : α),
       Py.Arr1.const (Py.intOfRat (Py.trueDiv ((args.window_size * args.num_data_series)
          * (args.window_size * args.num_data_series + 1)) 2)) (0 : α),
       Py.Arr1.const (Py.intOfRat (Py.trueDiv ((args.window_size * args.num_data_series)
          * (args.window_size * args.num_data_series + 1)) 2)) (0 : α)⟩
    rw [← List.range_eq_range'] at h
    simp only [] at h
    rw [← h]
    rfl
  · intro st k hst
    unfold loopBody
    split <;> simp_all
  · intro st k hst
    obtain ⟨zOld, x, z, u, a, brk⟩ := st
    simp only [] at hst
    subst hst
    unfold loopBody sweepOf stopOf
    cases brk
    · simp only [hz, hcb]
      by_cases hk : k > 0
      · cases hc : (checkConv a (Gen.admm_update_u u (xUpdate a u z S) (zf u (xUpdate a u z S))) (xUpdate a u z S)
            (zf u (xUpdate a u z S)) z).1 <;> simp [hk, hc, bind, Except.bind, pure, Except.pure]
      · simp [hk, bind, Except.bind, pure, Except.pure]
    · simp [pure, Except.pure]
  · rfl
end
end FastTicc.Translated

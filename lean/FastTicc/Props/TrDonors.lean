/-
TRANSLATED CODE = MODEL (`_find_ranked_donor_cluster_ids` of cluster_maintenance.py, property C08).  `Generated/Kernels.lean`
is rewritten from the Python AST of `$REPO/src/fast_ticc` by `harness/py2lean.py` on every run; the theorem below is about
that generated definition.  `model` is the record of what the function reads of a model state (minimum cluster size, and of
every cluster its size and computed covariance); `np.linalg.norm` is a function parameter (`normOf`); the local key function
is inlined; `sorted(ids, key=..., reverse=True)` is the primitive `Py.sortedDescBy` (decreasing keys, equal keys in their
original order - Python's sort is stable and `reverse=True` keeps it so).
-/
import FastTicc.Generated.Kernels
import FastTicc.Proofs.Translated
import FastTicc.Model.Repop
open FastTicc FastTicc.PyLemmas

namespace FastTicc.Translated
section
variable {α : Type} [Zero α] [Add α] [Sub α] [Mul α] [Div α] [LT α] [DecidableLT α] [IntCast α]

omit [Zero α] [Add α] [Sub α] [Mul α] [Div α] [IntCast α] in
theorem mem_insertDesc (spread : Nat → α) (x y : Nat) (l : List Nat) :
    y ∈ Repop.insertDesc spread x l ↔ y = x ∨ y ∈ l := by
  induction l with
  | nil => simp [Repop.insertDesc]
  | cons z t ih =>
    unfold Repop.insertDesc
    split
    · simp only [List.mem_cons, ih]; tauto
    · simp only [List.mem_cons]

omit [Zero α] [Add α] [Sub α] [Mul α] [Div α] [IntCast α] in
/-- inserting into a list of ids by a key that reads a table = the model's insertion by spread -/
theorem insertDescBy_cast (K : Nat) (spread : Nat → α) (key : Int → α) (hkey : ∀ k, k < K → key (k : Int) = spread k)
    (x : Nat) (hx : x < K) : ∀ (l : List Nat), (∀ y ∈ l, y < K) →
      Py.insertDescBy key (x : Int) (l.map (fun (k : Nat) => (k : Int)))
        = (Repop.insertDesc spread x l).map (fun (k : Nat) => (k : Int)) := by
  intro l
  induction l with
  | nil => intro _; simp [Py.insertDescBy, Repop.insertDesc]
  | cons y t ih =>
    intro h
    have hy : y < K := h y (by simp)
    have ht : ∀ z ∈ t, z < K := fun z hz => h z (by simp [hz])
    simp only [List.map_cons, Py.insertDescBy, Repop.insertDesc, hkey x hx, hkey y hy]
    split
    · simp [ih ht]
    · simp

omit [Zero α] [Add α] [Sub α] [Mul α] [Div α] [IntCast α] in
theorem sortedDescBy_cast (K : Nat) (spread : Nat → α) (key : Int → α) (hkey : ∀ k, k < K → key (k : Int) = spread k) :
    ∀ (ids : List Nat), (∀ y ∈ ids, y < K) →
      Py.sortedDescBy key (ids.map (fun (k : Nat) => (k : Int)))
        = (ids.foldr (Repop.insertDesc spread) []).map (fun (k : Nat) => (k : Int))
      ∧ ∀ y ∈ ids.foldr (Repop.insertDesc spread) [], y < K := by
  intro ids
  induction ids with
  | nil => intro _; simp [Py.sortedDescBy]
  | cons x t ih =>
    intro h
    have hx : x < K := h x (by simp)
    have ht : ∀ z ∈ t, z < K := fun z hz => h z (by simp [hz])
    obtain ⟨ih1, ih2⟩ := ih ht
    constructor
    · unfold Py.sortedDescBy at ih1 ⊢
      simp only [List.map_cons, List.foldr_cons]
      rw [ih1]
      exact insertDescBy_cast K spread key hkey x hx _ ih2
    · intro y hy
      simp only [List.foldr_cons] at hy
      rcases (mem_insertDesc spread x y _).mp hy with h1 | h1
      · subst h1; exact hx
      · exact ih2 y h1

omit [Add α] [Sub α] [Mul α] [Div α] [IntCast α] in
/-- **the translated `_find_ranked_donor_cluster_ids` is `Repop.rankedDonors`**: for every cluster count, minimum size,
labelling and family of covariances, on the model state whose cluster `k` has the size `labels` gives it and the covariance
`cov k`, the translated function returns the clusters with at least `2 m` points by decreasing spread `normOf (cov k)`, ties
in index order - the ranking every theorem of `Props/C08` is about. -/
theorem find_ranked_donor_cluster_ids_eq (normOf : Py.Arr2 α → α) (K m : Nat) (labels : List Nat) (cov : Nat → Py.Arr2 α) :
    Gen._find_ranked_donor_cluster_ids normOf
        ⟨(m : Int), (List.range K).map (fun (k : Nat) => ⟨((Repop.size labels k : Nat) : Int), cov k⟩)⟩
      = (Repop.rankedDonors (fun k => normOf (cov k)) K m labels).map (fun (k : Nat) => (k : Int)) := by
  unfold Gen._find_ranked_donor_cluster_ids Repop.rankedDonors
  simp only [List.map_id']
  have hlen : Py.len ((List.range K).map (fun (k : Nat) => (⟨((Repop.size labels k : Nat) : Int), cov k⟩ : Py.DonorCluster α))) = (K : Int) := by
    simp [Py.len]
  rw [hlen, range_zero_one, List.filter_map]
  have hget : ∀ k, k < K → Py.getItem ((List.range K).map (fun (k : Nat) => (⟨((Repop.size labels k : Nat) : Int), cov k⟩ : Py.DonorCluster α))) (k : Int)
      = ⟨((Repop.size labels k : Nat) : Int), cov k⟩ := by
    intro k hk
    unfold Py.getItem
    simp [idx_nat, List.getD_eq_getElem?_getD, hk]
  have hfilter : (List.range K).filter ((fun (i : Int) => decide ((Py.getItem ((List.range K).map (fun (k : Nat) => (⟨((Repop.size labels k : Nat) : Int), cov k⟩ : Py.DonorCluster α))) i).size ≥ (2 : Int) * (m : Int))) ∘ fun (k : Nat) => (k : Int))
      = (List.range K).filter (fun i => decide (Constants.donorFactor * m ≤ Repop.size labels i)) := by
    apply List.filter_congr
    intro k hk
    have hk' : k < K := List.mem_range.mp hk
    simp only [Function.comp, hget k hk']
    have : Constants.donorFactor = 2 := rfl
    rw [this]
    apply decide_eq_decide.mpr
    constructor <;> intro h <;> omega
  rw [hfilter]
  have hkey : ∀ k, k < K → (fun (i : Int) => Py.getItemZ (((List.range K).map (fun (k : Nat) => (⟨((Repop.size labels k : Nat) : Int), cov k⟩ : Py.DonorCluster α))).map (fun cluster => normOf cluster.computed_covariance)) i) (k : Int)
      = (fun k => normOf (cov k)) k := by
    intro k hk
    unfold Py.getItemZ
    simp [idx_nat, List.getD_eq_getElem?_getD, hk]
  have hmem : ∀ y ∈ (List.range K).filter (fun i => decide (Constants.donorFactor * m ≤ Repop.size labels i)), y < K := by
    intro y hy
    exact List.mem_range.mp (List.mem_filter.mp hy).1
  simpa [List.map_map] using (sortedDescBy_cast K (fun k => normOf (cov k)) _ hkey _ hmem).1
end
end FastTicc.Translated

/-
Property C08 (continued) — "raises a clear error because no cluster holds at least 2m points":
for `m ≥ 2`, at the moment repopulation raises, no cluster of the working labelling holds `2m`
points or more.  (For `m = 1` a refilled singleton reaches `2 = 2m`; see DESIGN 0.2(3).)
-/
import FastTicc.Props.C08

namespace FastTicc.Repop

section
variable {α : Type} [LT α] [DecidableLT α]
variable (K m : Nat) (spread : Nat → α) (pick : Nat → Nat → List Nat) (order labels : List Nat)

/-- `refillTrace` is `refill` plus the working labelling at the stop. -/
theorem refillTrace_agrees (rem : List Nat) (s : Nat) :
    ((refillTrace m pick order rem labels s).2 = true →
        refill m pick order rem labels s = some (refillTrace m pick order rem labels s).1) ∧
    ((refillTrace m pick order rem labels s).2 = false → refill m pick order rem labels s = none) := by
  exact refillTrace_agrees_aux m pick order rem labels s

-- `hK` is kept as stated; the proof does not need it
set_option linter.unusedVariables false in
/-- for `m ≥ 2`: when the error is raised, every cluster of the working labelling has fewer than
`2m` points — the error message ("unable to find a donor cluster with at least 2m points") is true
of the state it is raised in. -/
theorem repop_error_no_donor_left (hm : 2 ≤ m) (hK : AllBelow K labels) (hp : ValidPick m pick)
    (ho : order.Perm (needy K labels))
    (herr : (refillTrace m pick order (rankedDonors spread K m labels) labels 0).2 = false) :
    ∀ k, k < K →
      size (refillTrace m pick order (rankedDonors spread K m labels) labels 0).1 k < 2 * m := by
  have hm1 : 1 ≤ m := by omega
  refine refillTrace_no_donor_left hm hp order _ _ _ (inv_init spread hm1 ho) ?_ ?_ herr
  · intro e he
    exact ((mem_needy K labels e).mp (ho.mem_iff.mp he)).2
  · intro k hk hkr
    apply Nat.lt_of_not_le
    intro hle
    exact hkr ((mem_rankedDonors spread K m labels k).mpr ⟨hk, hle⟩)

/-- the `m = 1` exception, concretely: the error is raised although a (refilled) cluster holds `2m`. -/
theorem repop_error_m1_exception :
    ∃ (K : Nat) (labels order : List Nat) (pick : Nat → Nat → List Nat),
      order.Perm (needy K labels) ∧ ValidPick 1 pick ∧
      (refillTrace 1 pick order (rankedDonors (fun _ => (0 : Int)) K 1 labels) labels 0).2 = false ∧
      ∃ k, k < K ∧ 2 * 1 ≤ size (refillTrace 1 pick order (rankedDonors (fun _ => (0 : Int)) K 1 labels) labels 0).1 k := by
  -- sizes [1, 0, 2]: cluster 2 is the only donor (capacity 1); after cluster 0 is refilled to
  -- 2 = 2m points the donor is retired and cluster 1 finds nobody.
  refine ⟨3, [0, 2, 2], [0, 1], fun _ _ => [0], by decide, ?_, ?_⟩
  · intro s n hn
    refine ⟨rfl, List.pairwise_singleton _ _, ?_⟩
    intro x hx
    rw [List.mem_singleton] at hx
    omega
  · have h2 : rankedDonors (fun _ => (0 : Int)) 3 1 [0, 2, 2] = [2] := by decide
    have f1 : findDonor (size [0, 2, 2]) 1 [2] = some (2, []) := by
      rw [findDonor_cons_of_le _ _ _ _ (by decide)]; decide
    have e1 : movePoints [0, 2, 2] 2 0 [0] = [0, 0, 2] := by decide
    have ht : refillTrace 1 (fun _ _ => [0]) [0, 1] [2] [0, 2, 2] 0 = ([0, 0, 2], false) := by
      rw [refillTrace, f1]
      simp only [e1]
      rw [refillTrace, findDonor_nil]
    rw [h2, ht]
    exact ⟨rfl, 0, by decide, by decide⟩
end

end FastTicc.Repop

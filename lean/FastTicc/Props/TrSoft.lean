/-
TRANSLATED CODE = MODEL (soft_threshold_prox of admm/solver.py, property C02).  `Generated/Kernels.lean` is rewritten
from the Python AST of `$REPO/src/fast_ticc` by `harness/py2lean.py` on every run; the theorems below are about that
generated definition.  They only keep checking while the source still says what the model says.
-/
import FastTicc.Generated.Kernels
import FastTicc.Model.Numeric
import FastTicc.Props.C02
import Mathlib.Algebra.Order.Field.Basic
open FastTicc

namespace FastTicc.Translated
variable {α : Type} [Field α] [LinearOrder α] [IsStrictOrderedRing α]

omit [IsStrictOrderedRing α] in
/-- the function translated from `soft_threshold_prox` is the model's `softThreshold`, for every argument (the int
constants `0` and `-1` of the source are promoted to the scalar type, as Python does) -/
theorem soft_threshold_prox_eq (s lam rr : α) :
    Gen.soft_threshold_prox s lam rr = Numeric.softThreshold s lam rr := by
  unfold Gen.soft_threshold_prox Numeric.softThreshold Py.max2 Py.min2 Numeric.pyMax Numeric.pyMin
  simp only [Int.cast_zero, Int.cast_neg, Int.cast_one, neg_one_mul, gt_iff_lt, decide_eq_true_eq]

/-- **C02's Z-update clause about the translated code**: called the way `admm_update_z` calls it, the translated
`soft_threshold_prox` returns the exact minimiser of `Λ|z| + (ρ/2) Σ_l (z − s_l)²` over all `z`. -/
theorem translated_soft_threshold_minimises (lam rho : α) (ss : List α) (hl : 0 ≤ lam) (hrho : 0 < rho)
    (hne : ss ≠ []) (z : α) :
    Numeric.classObjective lam rho ss (Gen.soft_threshold_prox (rho * ss.sum) lam (rho * (ss.length : α)))
      ≤ Numeric.classObjective lam rho ss z := by
  rw [soft_threshold_prox_eq]
  exact Numeric.soft_threshold_minimises lam rho ss hl hrho hne z

end FastTicc.Translated

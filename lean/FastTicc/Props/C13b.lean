/-
Property C13 (continued) — the `Fitted` hypothesis of `deepCopy_same_view` is established by the
algorithm: after the statistics and optimisation phases every cluster of the handed-on state has
its mean, empirical covariance, MRF and computed covariance.
-/
import FastTicc.Props.C13

namespace FastTicc.Heap

theorem stats_then_opt_fitted (h : Heap) (ho : Owned h) (s : Nat) (hi : Inv h s) :
    let (s2, h2) := statsPhase h s
    let (s3, h3) := optPhase h2 s2
    Fitted h3 s3 := by
  obtain ⟨o2, i2, -, -⟩ := stats_phase_P ((owned_iff h).mp ho) hi
  have hh := stats_half ((owned_iff h).mp ho) hi
  generalize statsPhase h s = p2 at *
  obtain ⟨s2, h2⟩ := p2
  exact opt_fitted o2 i2 hh

theorem round_establishes_fitted (h : Heap) (ho : Owned h) (s : Nat) (hi : Inv h s)
    (moves : List (List Nat)) (newLabels : List Nat) (cost : Nat) :
    let (s1, h1) := repopPhase h s moves
    let (s2, h2) := statsPhase h1 s1
    let (s3, h3) := optPhase h2 s2
    let (s4, h4) := relabelPhase h3 s3 newLabels cost
    Fitted h4 s4 ∧ Fitted h4 s3 := by
  obtain ⟨o1, i1, -⟩ := repop_phase_P ((owned_iff h).mp ho) hi moves
  generalize repopPhase h s moves = p1 at *
  obtain ⟨s1, h1⟩ := p1
  simp only at o1 i1 ⊢
  obtain ⟨o2, i2, -, -⟩ := stats_phase_P o1 i1
  have hh := stats_half o1 i1
  generalize statsPhase h1 s1 = p2 at *
  obtain ⟨s2, h2⟩ := p2
  simp only at o2 i2 hh ⊢
  obtain ⟨o3, i3, sc3, -, -⟩ := opt_phase_P o2 i2
  have hf3 := opt_fitted o2 i2 hh
  generalize optPhase h2 s2 = p3 at *
  obtain ⟨s3, h3⟩ := p3
  simp only at o3 i3 sc3 hf3 ⊢
  obtain ⟨-, -, -, f4⟩ := relabel_phase_P o3 i3 sc3 newLabels cost
  have hf4 := relabel_fitted_new o3 i3 newLabels cost
  generalize relabelPhase h3 s3 newLabels cost = p4 at *
  obtain ⟨s4, h4⟩ := p4
  simp only at f4 hf4 ⊢
  have b3 : s3 < h3.states.length := by
    obtain ⟨st, e⟩ := exists_of_InvB i3; exact (List.getElem?_eq_some_iff.mp e).1
  exact ⟨hf4, FittedP_of_view (f4 s3 b3).1 hf3⟩

end FastTicc.Heap

/-
Property C04 — one label per input row; the unlabeled margin is exactly W−1 points.
Property theorems only; helper lemmas live in `FastTicc/Proofs/Stack.lean`.
(The "labels in [0,K)" clause composes with C01 `viterbi_labels_in_range`; the
"K fields of size NW×NW" clause composes with C11 `fullSize_tri`.)
-/
import FastTicc.Model.Stack
import FastTicc.Proofs.Stack

namespace FastTicc.Stack

/-- `W - 1` markers are added. -/
theorem pad_length (l : List Int) (W : Nat) (hW : 1 ≤ W) :
    (padMissing l W).length = l.length + W - 1 := by
  rw [padMissing_length]; omega

/-- the front/back split is `⌊(W-1)/2⌋` and the rest. -/
theorem front_back_sum (W : Nat) : frontLen W + backLen W = W - 1 := by
  have := front_le W
  unfold backLen; omega

theorem frontLen_eq (W : Nat) : frontLen W = (W - 1) / 2 := by
  rfl

/-- exactly the first `⌊(W-1)/2⌋` entries are markers … -/
theorem pad_front (l : List Int) (W i : Nat) (hi : i < frontLen W) :
    (padMissing l W)[i]? = some (-1) := by
  unfold padMissing
  rw [List.append_assoc, List.getElem?_append_left (by simpa using hi)]
  simp [hi]

/-- … the middle is the input, untouched and in order … -/
theorem pad_middle (l : List Int) (W i : Nat) (hi : i < l.length) :
    (padMissing l W)[frontLen W + i]? = l[i]? := by
  unfold padMissing
  rw [List.getElem?_append_left (by simp; omega), List.getElem?_append_right (by simp)]
  simp

/-- … and exactly the last `(W-1) - ⌊(W-1)/2⌋` entries are markers. -/
theorem pad_back (l : List Int) (W i : Nat) (hi : i < backLen W) :
    (padMissing l W)[frontLen W + l.length + i]? = some (-1) := by
  unfold padMissing
  rw [List.getElem?_append_right (by simp)]
  simp [hi]

/-- when the input labels are real labels (`≥ 0`), exactly `W - 1` entries are `-1`. -/
theorem pad_marker_count (l : List Int) (W : Nat) (hl : ∀ x ∈ l, 0 ≤ x) :
    (padMissing l W).count (-1) = W - 1 := by
  have h0 : l.count (-1) = 0 := by
    rw [List.count_eq_zero]
    intro hmem
    have := hl _ hmem
    omega
  have := front_le W
  simp [padMissing, List.count_append, h0, backLen]
  omega

/-- single-series front end: `T` labels come back for `T` input rows. -/
theorem single_result_length (labels : List Int) (T W : Nat) (hW : 1 ≤ W) (hT : W ≤ T)
    (hl : labels.length = stackedLen T W) : (padMissing labels W).length = T := by
  rw [padMissing_length, hl]; unfold stackedLen; omega

/-- joint front end: one list per series, in input order … -/
theorem joint_result_count (joint : List Int) (lens : List Nat) (W : Nat) :
    (splitAndPad joint lens W).length = lens.length := by
  simp [splitAndPad, splitJoint_length]

/-- … whose unpadded middles, concatenated in order, are exactly the joint labelling. -/
theorem joint_result_parts (joint : List Int) (lens : List Nat) (W : Nat)
    (hlen : joint.length = lens.sum) :
    (splitJoint joint lens).flatten = joint ∧
    (splitJoint joint lens).map List.length = lens ∧
    splitAndPad joint lens W = (splitJoint joint lens).map (fun l => padMissing l W) := by
  exact ⟨splitJoint_flatten joint lens hlen, splitJoint_lengths joint lens hlen, rfl⟩

/-- each list is as long as its own series, even when series lengths differ
(restated from C10 for the result shape). -/
theorem joint_result_lengths (joint : List Int) (Ts : List Nat) (W : Nat)
    (hW : 1 ≤ W) (hTs : ∀ T ∈ Ts, W ≤ T)
    (hlen : joint.length = (Ts.map (fun T => stackedLen T W)).sum) :
    (splitAndPad joint (Ts.map (fun T => stackedLen T W)) W).map List.length = Ts := by
  exact splitAndPad_lengths joint Ts W hW hTs hlen

/-- `W//2 - 1` or `W//2` would be wrong formulas for the front margin: they differ from
`(W-1)//2` for some `W` (though not for the pinned `W = 10`, resp. odd `W`). -/
theorem front_formula_alternatives_differ :
    (∃ W, 1 ≤ W ∧ W / 2 - 1 ≠ frontLen W) ∧ (∃ W, 1 ≤ W ∧ W / 2 ≠ frontLen W) ∧
    (10 / 2 - 1 = frontLen 10) := by
  exact ⟨⟨3, by decide⟩, ⟨2, by decide⟩, by decide⟩

/-- non-vacuity. -/
example : padMissing [0, 1, 1] 4 = [-1, 0, 1, 1, -1, -1] ∧
    splitAndPad [0,0,1,2,2] [3,2] 3 = [[-1,0,0,1,-1],[-1,2,2,-1]] := by
  decide

end FastTicc.Stack

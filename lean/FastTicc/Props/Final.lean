/-
Whole-result theorems: what `fit_stacked_data` returns (`Final.report` of the outcome of `Run.run`)
is internally consistent — for every input, every oracle (ADMM outputs, random draws, needy-set
orders) and every iteration limit.  These compose C01 (optimal labelling, reported cost = cost of the
path), C06 (likelihood accounting), C09 (the returned state is the last round's), C12 (means of
exactly the member windows), C16 (run counting) and C17 (exact deviation of the scalar-centred
index) on ONE object, the report of a run, instead of on separately supplied pieces.
Helper lemmas live in `FastTicc/Proofs/Final.lean`.
-/
import FastTicc.Props.Run
import FastTicc.Props.C06
import FastTicc.Props.C16
import FastTicc.Props.C17b
import FastTicc.Proofs.Final

namespace FastTicc.Final
open FastTicc FastTicc.Run FastTicc.Viterbi

variable {α : Type} [Field α] [LinearOrder α] [IsStrictOrderedRing α]

/-- the returned labelling labels each of the `T` windows with a cluster index. -/
theorem report_labels_valid (inp : Input α) (orc : Oracles α) (logT thr : α) (biased : Bool)
    (hK : 0 < inp.K) (hT : 0 < inp.T) (limit : Nat) (hl : 1 ≤ limit) (init : List Nat)
    (rep : Report α) (h : fit inp orc logT thr biased limit init = .ok rep) :
    rep.labels.length = inp.T ∧ ∀ l ∈ rep.labels, l < inp.K := by
  unfold fit at h
  cases hr : run inp orc limit init with
  | error e => rw [hr] at h; cases h
  | ok o =>
    rw [hr] at h
    cases h
    obtain ⟨s1, hs⟩ := final_is_relab inp orc hl hr
    show o.final.labels.length = inp.T ∧ ∀ l ∈ o.final.labels, l < inp.K
    rw [hs]
    exact relab_labels_valid inp orc _ hK hT

/-- the model the result is scored with is the one fitted in the last round: the stored means are
the means of exactly the windows of the labelling that round's statistics phase saw
(`final.fitted`), and the MRFs are that round's (`fitRound = rounds − 1`). -/
theorem report_scoring_model (inp : Input α) (orc : Oracles α) (limit : Nat) (hl : 1 ≤ limit)
    (init : List Nat) (o : MainLoop.Outcome (St α)) (h : run inp orc limit init = .ok o) :
    o.final.means = meanTable inp o.final.fitted ∧ fitRound o.final = o.rounds - 1 := by
  obtain ⟨s1, hs⟩ := final_is_relab inp orc hl h
  refine ⟨by rw [hs]; rfl, ?_⟩
  have S := run_spec' inp orc h
  have h1 := S.lo' hl
  obtain ⟨s, e1, e2⟩ := history_round inp orc h (o.rounds - 1) (by omega)
  rw [S.last (by omega)] at e1
  cases e1
  unfold fitRound
  omega

/-- COST IDENTITY on the report of a run: the reported assignment cost is minus the sum of the
reported per-point log-likelihoods plus the switching cost of every consecutive pair of windows
that carries different labels, each priced by its own `beta`. -/
theorem report_cost_identity (inp : Input α) (orc : Oracles α) (logT thr : α) (biased : Bool)
    (hK : 0 < inp.K) (hT : 0 < inp.T) (hb : ∀ b ∈ inp.betas, 0 ≤ b) (limit : Nat) (hl : 1 ≤ limit)
    (init : List Nat) (rep : Report α) (h : fit inp orc logT thr biased limit init = .ok rep) :
    rep.cost = - (Result.sum rep.agg.all) + switchSum (fun i => inp.betas.getD i 0) rep.labels := by
  unfold fit at h
  cases hr : run inp orc limit init with
  | error e => rw [hr] at h; cases h
  | ok o =>
    rw [hr] at h
    cases h
    obtain ⟨s1, hs⟩ := final_is_relab inp orc hl hr
    set sF := Run.fit inp s1 with hsF
    have hne := costPoints_ne_nil inp orc sF hT
    have hbn := costPoints_betaNonneg inp orc sF hb
    have hval := relab_labels_valid inp orc sF hK hT
    rw [← hs] at hval
    -- cost = totalCost of the returned path under the round's table
    have hcost : o.final.cost = totalCost (costPoints inp orc sF) o.final.labels := by
      rw [hs]
      show (viterbiFast inp.K (costPoints inp orc sF)).2 =
        totalCost (costPoints inp orc sF) (viterbiFast inp.K (costPoints inp orc sF)).1
      rw [viterbiFast_eq inp.K hK]
      exact viterbi_cost_is_cost_of_path inp.K hK _ hne hbn
    -- the aggregate list is a permutation of the per-point values
    have hall : Result.sum (report inp orc logT thr biased o).agg.all
        = (pointLLs inp orc o.final).sum := by
      have hp := allLL_perm_valid inp.K o.final.labels (pointLLs inp orc o.final) hval.2
        (by simp [pointLLs, hval.1])
      show Result.sum (Result.allLL _ _ _) = _
      rw [Result.sum_perm _ _ hp]
      unfold Result.sum
      rw [Result.foldl_add_eq_sum]
    show o.final.cost = - Result.sum (report inp orc logT thr biased o).agg.all
      + switchSum (fun i => inp.betas.getD i 0) o.final.labels
    rw [hcost, hall, totalCost]
    congr 1
    · -- assignment part
      have hcp : costPoints inp orc sF = (List.range o.final.labels.length).map
          (fun p => ((costPoints inp orc sF).getD p (fun _ => 0, 0))) := by
        apply List.ext_getElem
        · simp [costPoints_length, hval.1]
        · intro i h1 h2
          simp [List.getD_eq_getElem?_getD, List.getElem?_eq_getElem h1]
      rw [hcp, assignCost_map, zipWith_range_getD, hval.1]
      unfold pointLLs
      rw [List.sum_neg, List.map_map]  -- - Σ ll = Σ -ll
      apply congrArg
      apply List.map_congr_left
      intro p hp
      have hp' : p < inp.T := List.mem_range.mp hp
      have hlab : o.final.labels.getD p 0 < inp.K := by
        rw [List.getD_eq_getElem?_getD, List.getElem?_eq_getElem (by rw [hval.1]; exact hp')]
        exact hval.2 _ (List.getElem_mem _)
      simp only [Function.comp]
      rw [pointLL_eq_neg_cost inp orc o.final p hp' hlab, neg_neg, hs, costPoints_scoring]
    · -- switching part
      have hcp : costPoints inp orc sF = (List.range o.final.labels.length).map
          (fun p => (((costPoints inp orc sF).getD p (fun _ => 0, 0)).1, inp.betas.getD p 0)) := by
        rw [hval.1]
        show (List.range inp.T).map _ = _
        apply List.map_congr_left
        intro a ha
        simp [costPoints, List.getD_eq_getElem?_getD, List.getElem?_range (List.mem_range.mp ha)]
      rw [hcp]
      exact switchCost_map_range _ _ _

/-- LIKELIHOOD ACCOUNTING on the report of a run: the per-point list has one entry per window and is
a rearrangement (grouped by cluster) of the windows' log-likelihoods under the returned model; the
overall sum, mean and median are those of exactly these `T` values. -/
theorem report_likelihood_accounting (inp : Input α) (orc : Oracles α) (logT thr : α) (biased : Bool)
    (hK : 0 < inp.K) (hT : 0 < inp.T) (limit : Nat) (hl : 1 ≤ limit)
    (init : List Nat) (o : MainLoop.Outcome (St α)) (h : run inp orc limit init = .ok o) :
    let rep := report inp orc logT thr biased o
    rep.agg.all.Perm (pointLLs inp orc o.final) ∧ rep.agg.all.length = inp.T ∧
      rep.agg.total = Result.sum (pointLLs inp orc o.final) ∧
      rep.agg.mean = Result.mean (pointLLs inp orc o.final) ∧
      rep.agg.median = Result.median (pointLLs inp orc o.final) := by
  intro rep
  obtain ⟨s1, hs⟩ := final_is_relab inp orc hl h
  have hval := relab_labels_valid inp orc (Run.fit inp s1) hK hT
  rw [← hs] at hval
  have hp := allLL_perm_valid inp.K o.final.labels (pointLLs inp orc o.final) hval.2
    (by simp [pointLLs, hval.1])
  have hp' : rep.agg.all.Perm (pointLLs inp orc o.final) := hp
  refine ⟨hp', ?_, Result.sum_perm _ _ hp', Result.mean_perm _ _ hp', Result.median_perm _ _ hp'⟩
  rw [hp'.length_eq]
  simp [pointLLs]

omit [LinearOrder α] [IsStrictOrderedRing α] in
/-- PARAMETER COUNT on the report of a run: one term per maximal run of equal consecutive labels of
the returned labelling — the number of entries of that cluster's returned MRF above the threshold. -/
theorem report_params_runs [LT α] [DecidableLT α] (inp : Input α) (orc : Oracles α) (thr : α) (s : St α) :
    bicParams inp orc thr s =
      ((Result.runHeads s.labels).map (fun k => Result.nnz thr (thetaRows inp orc s k))).sum :=
  Result.runsParams_eq_sum_over_maximal_runs _ _

/-- CALINSKI-HARABASZ on the report of a run: the reported (scalar-centred) value is the definition
evaluated on the returned labelling and the means of its member windows, plus the exact deviation
`T‖c − g𝟙‖²/Wd · (T−K)/(K−1)` — whenever every cluster of the returned labelling is non-empty. -/
theorem report_ch_deviation (inp : Input α) (orc : Oracles α) (logT thr : α) (biased : Bool)
    (hK : 0 < inp.K) (hT : 0 < inp.T) (limit : Nat) (hl : 1 ≤ limit)
    (init : List Nat) (o : MainLoop.Outcome (St α)) (h : run inp orc limit init = .ok o)
    (hne : ∀ k, k < inp.K → Repop.members o.final.labels k ≠ []) :
    (report inp orc logT thr biased o).ch =
      Numeric.chSpec inp.T inp.K inp.d (finalMembers o.final) (finalMeans inp o.final) inp.data +
        ((inp.T : α) * Numeric.sqDist inp.d (Numeric.centroid inp.T inp.data)
            (fun _ => Numeric.scalarMean inp.T inp.d inp.data)
          / Numeric.within inp.K inp.d (finalMembers o.final) (finalMeans inp o.final) inp.data)
        * (((inp.T : α) - (inp.K : α)) / ((inp.K : α) - 1)) := by
  obtain ⟨s1, hs⟩ := final_is_relab inp orc hl h
  have hval := relab_labels_valid inp orc (Run.fit inp s1) hK hT
  rw [← hs] at hval
  have := Numeric.chPinned_deviation_of_labels o.final.labels inp.K inp.d inp.data
    (by rw [hval.1]; exact hT) hval.2 hne
  simp only [hval.1] at this
  exact this

/-- non-vacuity: a concrete two-round run over ℚ whose report has a non-trivial labelling. -/
example :
    let inp : Input Rat := ⟨4, 1, 2, 1, fun p _ => [0, 1, 10, 11].getD p 0, [1, 1, 1, 1], 1/2, 0⟩
    let orc : Oracles Rat := ⟨fun _ _ _ _ => 1, fun _ _ => 0, fun _ _ => 0, fun _ => [], fun _ _ _ => []⟩
    (fit inp orc 1 0 false 5 [0, 0, 1, 1]).toOption.map (fun r => (r.labels, r.rounds, r.agg.all.length))
      = some ([0, 0, 1, 1], 2, 4) := by
  decide +kernel

end FastTicc.Final

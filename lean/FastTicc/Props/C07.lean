/-
Property C07 (kernel half) — jointly labelled series are independent across series boundaries:
with the masked switching cost `β × mask` the labelling step minimises, and reports, assignment
cost plus switching cost over WITHIN-series consecutive pairs only.
Composition of C01 (`viterbi_optimal`, `viterbi_cost_is_cost_of_path`), C06 (`switch_cost_masked`)
and C07mask (`mask_zero_iff_boundary`).  Helper lemmas live in `FastTicc/Proofs/Joint.lean`.
-/
import FastTicc.Props.C01
import FastTicc.Props.C06
import FastTicc.Props.C07mask
import FastTicc.Proofs.Joint

namespace FastTicc.Joint
open FastTicc.Viterbi FastTicc.Stack

variable {α : Type} [Field α] [LinearOrder α] [IsStrictOrderedRing α]

/-- the per-pair switching cost the joint front end is meant to hand the kernel. -/
def jointBeta (beta : α) (lens : List Nat) : List α :=
  (maskTemplate lens).map (fun (x : Nat) => beta * (x : α))

/-- number of consecutive pairs `(i, i+1)` that lie inside one series and carry different labels. -/
def withinSwitches (lens : List Nat) (ls : List Nat) : Nat :=
  ((List.range (ls.length - 1)).filter
    (fun i => seriesOf lens i == seriesOf lens (i + 1) && ls.getD i 0 != ls.getD (i + 1) 0)).length

/-- the objective of the property: assignment cost + β for every within-series switch. -/
def withinObjective (rows : List (Nat → α)) (beta : α) (lens : List Nat) (ls : List Nat) : α :=
  assignCost (withVectorBeta rows (jointBeta beta lens)) ls + beta * (withinSwitches lens ls : α)

/-- for every tuple of positive stacked lengths and every labelling of the concatenation, the
kernel's cost model with the masked beta IS the within-series objective … -/
theorem totalCost_masked_eq_within (rows : List (Nat → α)) (beta : α) (lens : List Nat)
    (hpos : ∀ n ∈ lens, 0 < n) (hlen : lens.sum = rows.length) (ls : List Nat)
    (hl : ls.length = rows.length) :
    totalCost (withVectorBeta rows (jointBeta beta lens)) ls = withinObjective rows beta lens ls := by
  unfold totalCost withinObjective
  congr 1
  unfold jointBeta withinSwitches
  rw [Result.switch_cost_masked rows beta (maskTemplate lens) ls (maskTemplate_binary lens)
    (by rw [maskTemplate_length, hlen]) hl]
  have hf : (List.range (ls.length - 1)).filter
        (fun i => (maskTemplate lens).getD i 0 == 1 && ls.getD i 0 != ls.getD (i + 1) 0) =
      (List.range (ls.length - 1)).filter
        (fun i => seriesOf lens i == seriesOf lens (i + 1) && ls.getD i 0 != ls.getD (i + 1) 0) := by
    apply List.filter_congr
    intro i hi
    rw [List.mem_range] at hi
    rw [mask_getD_eq_one lens hpos i (by omega)]
  rw [hf]

/-- … hence the labelling step returns a labelling that minimises it over all `K^T` labellings and
reports exactly its value: a different label at the last point of one series and the first point of
the next costs nothing. -/
theorem joint_optimal_within (K : Nat) (hK : 0 < K) (rows : List (Nat → α)) (hne : rows ≠ [])
    (beta : α) (hb : 0 ≤ beta) (lens : List Nat) (hpos : ∀ n ∈ lens, 0 < n)
    (hlen : lens.sum = rows.length) :
    let r := viterbi K (withVectorBeta rows (jointBeta beta lens))
    ValidLabels K rows.length r.1 ∧
    r.2 = withinObjective rows beta lens r.1 ∧
    ∀ q, ValidLabels K rows.length q → r.2 ≤ withinObjective rows beta lens q := by
  intro r
  have hplen : (withVectorBeta rows (jointBeta beta lens)).length = rows.length := by
    simp [withVectorBeta, jointBeta, maskTemplate_length, hlen]
  have hpne : withVectorBeta rows (jointBeta beta lens) ≠ [] := by
    intro h
    rw [h] at hplen
    exact hne (List.length_eq_zero_iff.mp hplen.symm)
  have hbn : BetaNonneg (withVectorBeta rows (jointBeta beta lens)) :=
    Result.zip_snd_nonneg rows _ (masked_beta_nonneg beta hb (maskTemplate lens))
  have hmin := viterbi_returns_minimiser K hK _ hpne hbn
  rw [hplen] at hmin
  have hcost := viterbi_cost_is_cost_of_path K hK _ hpne hbn
  refine ⟨hmin.1, ?_, fun q hq => ?_⟩
  · show (viterbi K _).2 = _
    rw [hcost]
    exact totalCost_masked_eq_within rows beta lens hpos hlen _ hmin.1.1
  · show (viterbi K _).2 ≤ _
    rw [← totalCost_masked_eq_within rows beta lens hpos hlen q hq.1]
    exact viterbi_optimal K hK _ hbn q (by rw [hplen]; exact hq)

/-- joint labelling of a single series hands the kernel the same input as the single-series front
end (scalar beta), so it returns the same labels and cost. -/
theorem joint_single_eq_single (K : Nat) (rows : List (Nat → α)) (beta : α) :
    viterbi K (withVectorBeta rows (jointBeta beta [rows.length])) = viterbi K (withScalarBeta rows beta) := by
  rw [viterbi_scalar_beta]
  simp [jointBeta, mask_single]

/-- the pinned front end hands the kernel the scalar: what is minimised and reported then prices
EVERY consecutive pair, including the series-boundary pairs (known finding K1). -/
theorem joint_pinned_prices_boundaries :
    ∃ (rows : List (Nat → ℚ)) (beta : ℚ) (lens : List Nat) (ls : List Nat),
      (∀ n ∈ lens, 0 < n) ∧ lens.sum = rows.length ∧ ls.length = rows.length ∧
      totalCost (withScalarBeta rows beta) ls ≠ withinObjective rows beta lens ls :=
  ⟨[fun _ => 0, fun _ => 0], 1, [1, 1], [0, 1], by decide, rfl, rfl, by decide +kernel⟩

end FastTicc.Joint

/-
TRANSLATED CODE = MODEL (index maps of admm/unique_values.py, property C11).  `Generated/Kernels.lean` is rewritten from the Python AST of
`$REPO/src/fast_ticc` by `harness/py2lean.py` on every run; the theorems below are about those generated
definitions and prove, for ALL inputs, that they compute what the hand-written model computes - the model the
property theorems are about.  They only keep checking while the source still says what the model says.
-/
import FastTicc.Generated.Kernels
import FastTicc.Proofs.Translated
open FastTicc FastTicc.PyLemmas

namespace FastTicc.Translated

theorem size_including_this_row_eq (r n : Int) :
    Gen._size_including_this_row r n = ((n * (r + 1) - r * (r + 1) / 2 : Int) : Rat) := by
  unfold Gen._size_including_this_row
  rw [trueDiv_even _ (mul_succ_even r)]
  push_cast
  ring

theorem compressed_index_eq (r c n : Nat) (hrc : r ≤ c) (hcn : c < n) :
    Gen._compressed_index (r : Int) (c : Int) (n : Int) = .ok ((Index.compressedIndex r c n : Nat) : Int) := by
  unfold Gen._compressed_index
  have h : ¬ ((c : Int) < (r : Int)) := by omega
  simp only [h, decide_false, Bool.false_eq_true, if_false]
  rw [size_including_this_row_eq]
  unfold Gen._elements_in_row_after_target
  rw [← Int.cast_sub, intOfRat_intCast]
  unfold Index.compressedIndex Index.sizeIncludingRow Index.elementsAfter
  have e1 : (n : Int) * ((r : Int) + 1) = ((n * (r + 1) : Nat) : Int) := by push_cast; ring
  have e2 : (r : Int) * ((r : Int) + 1) = ((r * (r + 1) : Nat) : Int) := by push_cast; ring
  have h2 : r * (r + 1) ≤ c * (r + 1) := Nat.mul_le_mul_right _ hrc
  have h3 : c * (r + 1) + (r + 1) ≤ n * (r + 1) := by
    have : (c + 1) * (r + 1) ≤ n * (r + 1) := Nat.mul_le_mul_right _ hcn
    linarith
  have h4 : c * (r + 1) + (n - c) ≤ n * (r + 1) := by
    have e : n * (r + 1) = c * (r + 1) + (n - c) * (r + 1) := by
      rw [← Nat.add_mul]; congr 1; omega
    have : n - c ≤ (n - c) * (r + 1) := Nat.le_mul_of_pos_right _ (by omega)
    omega
  simp only [pure, Except.pure]
  congr 1
  rw [e1, e2]
  generalize r * (r + 1) = P at *
  generalize n * (r + 1) = Q at *
  generalize c * (r + 1) = R at *
  omega


theorem block_start_coordinates_eq (b N W : Nat) (hb : b < W) (hN : 0 < N) :
    Gen._block_start_coordinates (b : Int) (N : Int) (W : Int)
      = .ok ((Index.blockStarts b N W).map (fun p => ((p.1 : Int), (p.2 : Int)))) := by
  unfold Gen._block_start_coordinates
  have g1 : ¬ ((b : Int) < 0) := by omega
  have g2 : ¬ ((b : Int) ≥ (W : Int)) := by omega
  have g3 : ¬ ((N : Int) ≤ 0) := by omega
  have g4 : ¬ ((W : Int) ≤ 0) := by omega
  simp only [g1, g2, g3, g4, decide_false, Bool.or_false, Bool.false_eq_true, if_false]
  have hn : (W : Int) - (b : Int) = ((W - b : Nat) : Int) := by omega
  rw [hn, forEach_range]
  -- loop invariant
  have inv : ∀ m, m ≤ W - b →
      (List.range m).foldl (fun (s : List (Int × Int) × Bool) (k : Nat) =>
        (Py.append s.1 ((0 : Int) + (k : Int) * (N : Int), (b : Int) * (N : Int) + (k : Int) * (N : Int)),
          (((s.2 && decide ((Py.getItem (Py.append s.1 ((0 : Int) + (k : Int) * (N : Int), (b : Int) * (N : Int) + (k : Int) * (N : Int))) (-1)).1 ≥ 0))
            && decide ((Py.getItem (Py.append s.1 ((0 : Int) + (k : Int) * (N : Int), (b : Int) * (N : Int) + (k : Int) * (N : Int))) (-1)).1 < (W : Int) * (N : Int)))
            && decide ((Py.getItem (Py.append s.1 ((0 : Int) + (k : Int) * (N : Int), (b : Int) * (N : Int) + (k : Int) * (N : Int))) (-1)).2 ≥ 0))
            && decide ((Py.getItem (Py.append s.1 ((0 : Int) + (k : Int) * (N : Int), (b : Int) * (N : Int) + (k : Int) * (N : Int))) (-1)).2 < (W : Int) * (N : Int))))
        (([] : List (Int × Int)), true)
      = ((List.range m).map (fun (i : Nat) => (((0 + i * N : Nat) : Int), ((b * N + i * N : Nat) : Int))), true) := by
    intro m
    induction m with
    | zero => intro _; rfl
    | succ k ih =>
      intro hk
      rw [List.range_succ, List.foldl_append, ih (by omega)]
      simp only [List.foldl_cons, List.foldl_nil, getItem_append_last, List.map_append, List.map_cons, List.map_nil]
      have hk1 : (k + 1) * N ≤ W * N := Nat.mul_le_mul_right _ (by omega)
      have hk2 : (b + k + 1) * N ≤ W * N := Nat.mul_le_mul_right _ (by omega)
      have c1 : (0 : Int) + (k : Int) * (N : Int) ≥ 0 := by positivity
      have c2 : (0 : Int) + (k : Int) * (N : Int) < (W : Int) * (N : Int) := by
        have : ((k * N + N : Nat) : Int) ≤ ((W * N : Nat) : Int) := by
          have : k * N + N ≤ W * N := by nlinarith
          exact_mod_cast this
        push_cast at this; linarith
      have c3 : (b : Int) * (N : Int) + (k : Int) * (N : Int) ≥ 0 := by positivity
      have c4 : (b : Int) * (N : Int) + (k : Int) * (N : Int) < (W : Int) * (N : Int) := by
        have : ((b * N + k * N + N : Nat) : Int) ≤ ((W * N : Nat) : Int) := by
          have : b * N + k * N + N ≤ W * N := by nlinarith
          exact_mod_cast this
        push_cast at this; linarith
      simp only [c1, c2, c3, c4, decide_true, Bool.and_true, Py.append]
      congr 2
  have := inv (W - b) (le_refl _)
  rw [this]
  simp only [Bool.not_true, Bool.false_eq_true, if_false, pure, Except.pure, bind, Except.bind, Index.blockStarts,
    List.map_map]
  rfl

theorem unique_variable_locations_eq (b r c N W : Nat) (hb : b < W) (hN : 0 < N) :
    Gen._unique_variable_locations (b : Int) (r : Int) (c : Int) (N : Int) (W : Int)
      = .ok ((Index.positions b r c N W).map (fun p => ((p.1 : Int), (p.2 : Int)))) := by
  unfold Gen._unique_variable_locations
  rw [block_start_coordinates_eq b N W hb hN]
  simp only [bind, Except.bind, pure, Except.pure, Index.positions, List.map_map]
  congr 1

theorem locations_index_slices_eq (b r c N W : Nat) (hb : b < W) (hN : 0 < N) :
    Gen.locations_index_slices (b : Int) (r : Int) (c : Int) (N : Int) (W : Int)
      = .ok (((Index.locSlices b r c N W).1.map (fun (x : Nat) => (x : Int))),
             ((Index.locSlices b r c N W).2.map (fun (x : Nat) => (x : Int)))) := by
  unfold Gen.locations_index_slices
  rw [unique_variable_locations_eq b r c N W hb hN]
  simp only [bind, Except.bind, pure, Except.pure, Index.locSlices, List.map_map]
  rfl

theorem mapM_ok {α β} (f : α → Except String β) (g : α → β) (l : List α) (h : ∀ a ∈ l, f a = .ok (g a)) :
    l.mapM f = .ok (l.map g) := by
  induction l with
  | nil => rfl
  | cons a t ih =>
    rw [List.mapM_cons, h a (by simp), ih (fun x hx => h x (by simp [hx]))]
    rfl

/-- the class `(b, r, c)` is one the Z-update iterates over: `r, c < N` and `r ≤ c` on the diagonal block. -/
theorem locations_compressed_eq (b r c N W : Nat) (hb : b < W) (hr : r < N) (hc : c < N) (hrc : b = 0 → r ≤ c) :
    Gen.locations_compressed (b : Int) (r : Int) (c : Int) (N : Int) (W : Int)
      = .ok ((Index.locCompressed b r c N W).map (fun (x : Nat) => (x : Int))) := by
  unfold Gen.locations_compressed
  rw [unique_variable_locations_eq b r c N W hb (by omega)]
  simp only [bind, Except.bind, pure, Except.pure]
  rw [mapM_ok _ (fun p => ((Index.compressedIndex p.1.toNat p.2.toNat (N * W) : Nat) : Int))]
  · simp only [Index.locCompressed, List.map_map]
    congr 1
  · intro p hp
    simp only [List.mem_map, Index.positions, Index.blockStarts, List.mem_range] at hp
    obtain ⟨q, ⟨s, ⟨i, hi, rfl⟩, rfl⟩, rfl⟩ := hp
    simp only
    have e : (N : Int) * (W : Int) = ((N * W : Nat) : Int) := by push_cast; rfl
    rw [e]
    have hle : 0 + i * N + r ≤ b * N + i * N + c := by
      rcases Nat.eq_zero_or_pos b with h0 | h0
      · have := hrc h0; subst h0; omega
      · have : N ≤ b * N := Nat.le_mul_of_pos_left _ h0
        omega
    have hlt : b * N + i * N + c < N * W := by
      have : (b + i + 1) * N ≤ W * N := Nat.mul_le_mul_right _ (by omega)
      nlinarith
    have := compressed_index_eq (0 + i * N + r) (b * N + i * N + c) (N * W) hle hlt
    have t1 : ((i : Int) * (N : Int) + (r : Int)).toNat = i * N + r := by
      have : (i : Int) * (N : Int) + (r : Int) = ((i * N + r : Nat) : Int) := by push_cast; ring
      rw [this, Int.toNat_natCast]
    have t2 : ((b : Int) * (N : Int) + (i : Int) * (N : Int) + (c : Int)).toNat = b * N + i * N + c := by
      have : (b : Int) * (N : Int) + (i : Int) * (N : Int) + (c : Int) = ((b * N + i * N + c : Nat) : Int) := by
        push_cast; ring
      rw [this, Int.toNat_natCast]
    simp only [Nat.cast_add, Nat.cast_mul, Nat.cast_zero, zero_add] at this ⊢
    rw [t1, t2]
    simpa using this

end FastTicc.Translated

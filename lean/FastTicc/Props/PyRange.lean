/-
The primitive `Py.range` - the translator's reading of Python's `range(a, b, s)` - for a positive step: its elements are exactly
the terms `a + s*k` (k = 0, 1, ...) that lie below the stop, in that order; the closed-form length `rangeLen` is the number of
such terms.  (Negative steps are used by one translated function, the labelling kernel's backward pass; `forEach_range_down`
in `Proofs/Translated.lean` covers the form used there.)
-/
import FastTicc.Model.Py
import Mathlib.Algebra.Order.Ring.Int
import Mathlib.Tactic.Linarith
open FastTicc

namespace FastTicc.PyRange

/-- for a positive step: `k` is below the length of `range(a, b, s)` iff the `k`-th term is still below the stop -/
theorem lt_rangeLen_pos (a b s : Int) (hs : 0 < s) (k : Nat) :
    k < Py.rangeLen a b s ↔ a + s * (k : Int) < b := by
  unfold Py.rangeLen
  simp only [hs, if_true]
  constructor
  · intro h
    have h1 : (k : Int) < (b - a + s - 1) / s := by
      by_contra hc
      have hc := not_lt.mp hc
      have : ((b - a + s - 1) / s).toNat ≤ k := by
        rcases Int.le_total 0 ((b - a + s - 1) / s) with h0 | h0
        · have := Int.toNat_of_nonneg h0; omega
        · have : ((b - a + s - 1) / s).toNat = 0 := Int.toNat_eq_zero.mpr h0; omega
      omega
    have h2 : ((k : Int) + 1) * s ≤ b - a + s - 1 := by
      have := (Int.le_ediv_iff_mul_le hs).mp (show (k : Int) + 1 ≤ (b - a + s - 1) / s by omega)
      linarith
    nlinarith
  · intro h
    have h2 : ((k : Int) + 1) * s ≤ b - a + s - 1 := by nlinarith
    have h1 : (k : Int) + 1 ≤ (b - a + s - 1) / s := (Int.le_ediv_iff_mul_le hs).mpr h2
    have h0 : 0 ≤ (b - a + s - 1) / s := by omega
    have := Int.toNat_of_nonneg h0
    omega

/-- **`Py.range` is Python's `range` for a positive step**: exactly the terms `a, a+s, a+2s, …` below the stop, in that order -/
theorem mem_range_pos (a b s : Int) (hs : 0 < s) (x : Int) :
    x ∈ Py.range a b s ↔ ∃ k : Nat, x = a + s * (k : Int) ∧ x < b := by
  unfold Py.range
  simp only [List.mem_map, List.mem_range]
  constructor
  · rintro ⟨k, hk, rfl⟩
    exact ⟨k, rfl, (lt_rangeLen_pos a b s hs k).mp hk⟩
  · rintro ⟨k, rfl, hlt⟩
    exact ⟨k, (lt_rangeLen_pos a b s hs k).mpr hlt, rfl⟩

/-- the terms come in increasing order of `k` -/
theorem range_getElem (a b s : Int) (k : Nat) (hk : k < (Py.range a b s).length) :
    (Py.range a b s)[k] = a + s * (k : Int) := by
  simp [Py.range]

example : Py.range 2 11 3 = [2, 5, 8] := by decide
example : Py.range 5 5 1 = [] := by decide
example : Py.range 7 (-1) (-3) = [7, 4, 1] := by decide
end FastTicc.PyRange

/-
Property C07 (mask half) — the helper that builds the per-pair switching-cost mask puts
its zeros on exactly the pairs that straddle two series.
Property theorems only; helper lemmas live in `FastTicc/Proofs/Stack.lean`.
-/
import FastTicc.Model.Stack
import FastTicc.Proofs.Stack

namespace FastTicc.Stack

/-- one entry per stacked point. -/
theorem maskTemplate_length (lens : List Nat) : (maskTemplate lens).length = lens.sum := by
  simp [maskTemplate]

/-- entries are 0 or 1. -/
theorem maskTemplate_binary (lens : List Nat) : ∀ x ∈ maskTemplate lens, x = 0 ∨ x = 1 := by
  intro x hx
  simp only [maskTemplate, List.mem_map] at hx
  obtain ⟨i, _, rfl⟩ := hx
  split <;> simp

/-- for all tuples of positive stacked lengths: entry `i` (which prices the pair
`(i, i+1)`) is zero iff the two points belong to different series. -/
theorem mask_zero_iff_boundary (lens : List Nat) (hpos : ∀ n ∈ lens, 0 < n) (i : Nat)
    (hi : i + 1 < lens.sum) :
    (maskTemplate lens)[i]? = some 0 ↔ seriesOf lens i ≠ seriesOf lens (i + 1) := by
  exact mask_zero_iff lens hpos i hi

/-- the last entry prices no pair; it stays 1. -/
theorem mask_last_one (lens : List Nat) (hpos : ∀ n ∈ lens, 0 < n) (h : 0 < lens.sum) :
    (maskTemplate lens)[lens.sum - 1]? = some 1 := by
  exact mask_last lens hpos h

/-- number of zeros = number of series boundaries. -/
theorem mask_zero_count (lens : List Nat) (hpos : ∀ n ∈ lens, 0 < n) :
    (maskTemplate lens).count 0 = lens.length - 1 := by
  exact mask_count lens hpos

/-- a single series gives the all-ones mask (so joint labelling of one series hands the
kernel the same switching cost as the single-series front end). -/
theorem mask_single (n : Nat) : maskTemplate [n] = List.replicate n 1 := by
  exact maskTemplate_single n

/-- the pinned helper (zeros *at* the cumulative lengths) is shifted by one position:
it zeroes a within-series pair and leaves a boundary pair priced. -/
theorem mask_pinned_shifted :
    let lens := [3, 2, 4]
    (maskTemplatePinned lens)[3]? = some 0 ∧ seriesOf lens 3 = seriesOf lens 4 ∧
    (maskTemplatePinned lens)[2]? = some 1 ∧ seriesOf lens 2 ≠ seriesOf lens 3 ∧
    maskTemplate lens = [1, 1, 0, 1, 0, 1, 1, 1, 1] := by
  decide

end FastTicc.Stack

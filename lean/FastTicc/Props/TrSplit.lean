/-
TRANSLATED CODE = MODEL (split_joint_labels, properties C04 / C10).  `Generated/Kernels.lean` is rewritten from the Python AST of
`$REPO/src/fast_ticc` by `harness/py2lean.py` on every run; the theorems below are about those generated
definitions and prove, for ALL inputs, that they compute what the hand-written model computes - the model the
property theorems are about.  They only keep checking while the source still says what the model says.
-/
import FastTicc.Generated.Kernels
import FastTicc.Proofs.Translated
open FastTicc FastTicc.PyLemmas

namespace FastTicc.Translated

theorem split_joint_labels_eq (joint : List Int) (lens : List Nat) :
    Gen.split_joint_labels joint (lens.map (fun (x : Nat) => (x : Int)))
      = if joint.length = lens.sum then .ok (Stack.splitJoint joint lens) else .error "AssertionError" := by
  unfold Gen.split_joint_labels
  rw [sum_natCast]
  by_cases h : joint.length = lens.sum
  · have hc : Py.len joint = ((lens.sum : Nat) : Int) := by simp [Py.len, h]
    simp only [hc, h, decide_true, Bool.not_true, Bool.false_eq_true, if_false, if_true]
    have hl : Py.len (lens.map (fun (x : Nat) => (x : Int))) = ((lens.length : Nat) : Int) := by simp [Py.len]
    rw [hl, forEach_range, accumulate_natCast]
    simp only [pure, Except.pure, bind, Except.bind]
    congr 1
    rw [splitJoint_eq_map]
    -- the loop body, with the loop index a natural number below `lens.length`
    have body : ∀ (acc : List (List Int)) (i : Nat), i ∈ List.range lens.length →
        (Py.append acc (Py.slice joint
            (if decide ((i : Int) = 0) = true then (0 : Int)
              else Py.getItem ((List.range lens.length).map (fun i => ((pref lens (i + 1) : Nat) : Int))) ((i : Int) - 1))
            (Py.getItem ((List.range lens.length).map (fun i => ((pref lens (i + 1) : Nat) : Int))) (i : Int))))
        = acc ++ [(joint.drop (pref lens i)).take (lens.getD i 0)] := by
      intro acc i hi
      have hi' : i < lens.length := List.mem_range.mp hi
      rw [getItem_natCast_map _ _ _ hi']
      have hstart : (if decide ((i : Int) = 0) = true then (0 : Int)
              else Py.getItem ((List.range lens.length).map (fun i => ((pref lens (i + 1) : Nat) : Int))) ((i : Int) - 1))
          = ((pref lens i : Nat) : Int) := by
        rcases Nat.eq_zero_or_pos i with h0 | h0
        · subst h0; simp [pref]
        · have : ¬ ((i : Int) = 0) := by omega
          simp only [this, decide_false, Bool.false_eq_true, if_false]
          have e : (i : Int) - 1 = ((i - 1 : Nat) : Int) := by omega
          rw [e, getItem_natCast_map _ _ _ (by omega)]
          congr 2; omega
      rw [hstart, pref_succ lens i hi']
      rw [slice_natCast joint _ _ (by omega) (by have := pref_le_sum lens (i + 1); rw [pref_succ lens i hi'] at this; omega)]
      unfold Py.append
      have hg : lens.getD i 0 = lens[i] := by simp [List.getD_eq_getElem?_getD, hi']
      rw [hg]
      congr 3
      omega
    refine Eq.trans (foldl_congr_mem _ _
      (fun (s : List (List Int)) (k : Nat) => s ++ [(joint.drop (pref lens k)).take (lens.getD k 0)]) _ body) ?_
    rw [foldl_append_map]
    simp
  · have hc : ¬ (Py.len joint = ((lens.sum : Nat) : Int)) := by simp [Py.len]; omega
    simp only [hc, h, decide_false, Bool.not_false, if_true, if_false]
    rfl


end FastTicc.Translated

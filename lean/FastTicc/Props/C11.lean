/-
Property C11 — compressed-matrix and Toeplitz-class index maps are exact bijections.
Property theorems only; helper lemmas live in `FastTicc/Proofs/Index.lean`.
-/
import FastTicc.Model.Index
import FastTicc.Proofs.Index
import Mathlib.Algebra.Group.Defs

namespace FastTicc.Index

/-- number of entries in the compressed form. -/
theorem triuIdx_length (n : Nat) : (triuIdx n).length = n * (n + 1) / 2 := by
  exact Aux.triuIdx_length n

/-- the closed-form compressed index of `(r,c)` is its row-major rank in the upper triangle. -/
theorem compressedIndex_eq_rank (n r c : Nat) (hrc : r ≤ c) (hc : c < n) :
    (triuIdx n)[compressedIndex r c n]? = some (r, c) := by
  exact Aux.compressedIndex_eq_rank n r c hrc hc

/-- … and it is the position `square[triu_indices] = v` writes to. -/
theorem posOf_eq_compressedIndex (n r c : Nat) (hrc : r ≤ c) (hc : c < n) :
    posOf n r c = some (compressedIndex r c n) := by
  exact Aux.posOf_eq_compressedIndex n r c hrc hc

/-- positions outside the upper triangle are never written. -/
theorem posOf_none (n r c : Nat) (h : c < r ∨ n ≤ c) : posOf n r c = none := by
  exact Aux.posOf_none n r c h

/-- the real code rejects exactly `column < row`. -/
theorem compressedIndex?_isSome_iff (r c n : Nat) :
    (compressedIndex? r c n).isSome ↔ r ≤ c := by
  exact Aux.compressedIndex?_isSome_iff r c n

/-- every entry of `triuIdx n` is an upper-triangle position, each exactly once. -/
theorem mem_triuIdx (n r c : Nat) : (r, c) ∈ triuIdx n ↔ r ≤ c ∧ c < n := by
  exact Aux.mem_triuIdx n r c

theorem triuIdx_nodup (n : Nat) : (triuIdx n).Nodup := by
  exact Aux.triuIdx_nodup n

/-- size inversion: `_full_matrix_size(n(n+1)/2) = n`. -/
theorem fullSize_tri (n : Nat) : fullSize (n * (n + 1) / 2) = n := by
  exact Aux.fullSize_tri n

section group
variable {α : Type} [AddCommGroup α]

/-- re-inflating any vector of length `n(n+1)/2` and compressing it returns the vector. -/
theorem compress_reinflate (n : Nat) (v : List α) (hv : v.length = n * (n + 1) / 2) :
    compress (reinflate v) n = v := by
  exact Aux.compress_reinflate n v hv

/-- compressing a symmetric matrix and re-inflating returns the matrix. -/
theorem reinflate_compress (n : Nat) (M : Nat → Nat → α)
    (hsym : ∀ r c, M r c = M c r) (r c : Nat) (hr : r < n) (hc : c < n) :
    reinflate (compress M n) r c = M r c := by
  exact Aux.reinflate_compress n M hsym r c hr hc

/-- the re-inflated matrix is symmetric (used by C03). -/
theorem reinflate_symm (v : List α) (r c : Nat) : reinflate v r c = reinflate v c r := by
  exact Aux.reinflate_symm v r c
end group

/-- each class holds exactly `W - b` positions. -/
theorem class_size (b r c N W : Nat) : (positions b r c N W).length = W - b := by
  exact Aux.class_size b r c N W

/-- all positions of a class of the Z-update lie in the upper triangle of the `NW × NW` matrix. -/
theorem positions_upper (b r c N W : Nat) (hb : b < W) (hr : r < N) (hc : c < N)
    (h0 : b = 0 → r ≤ c) : ∀ p ∈ positions b r c N W, p.1 ≤ p.2 ∧ p.2 < N * W := by
  exact Aux.positions_upper b r c N W hb hr hc h0

/-- all positions of a class are the same block-relative entry: block offset `b`,
in-block row `r`, in-block column `c` (so they are equal under block-Toeplitz structure). -/
theorem class_toeplitz_equal (b r c N W : Nat) (hr : r < N) (hc : c < N) :
    ∀ p ∈ positions b r c N W,
      p.1 % N = r ∧ p.2 % N = c ∧ p.2 / N = p.1 / N + b := by
  exact Aux.class_toeplitz_equal b r c N W hr hc

/-- membership characterisation: `(R,C)` belongs to class `(b,r,c)` iff those are its
block offset and in-block coordinates. -/
theorem mem_positions_iff (b r c N W R C : Nat) (hN : 0 < N) (hr : r < N) (hc : c < N)
    (hC : C < N * W) :
    (R, C) ∈ positions b r c N W ↔ (R % N = r ∧ C % N = c ∧ C / N = R / N + b) := by
  exact Aux.mem_positions_iff b r c N W R C hN hr hc hC

/-- cover and disjointness: every upper-triangle position lies in exactly one class. -/
theorem class_partition (N W R C : Nat) (hN : 0 < N) (hRC : R ≤ C) (hC : C < N * W) :
    ∃ k, k ∈ classes N W ∧ (R, C) ∈ positions k.1 k.2.1 k.2.2 N W ∧
      ∀ k', k' ∈ classes N W → (R, C) ∈ positions k'.1 k'.2.1 k'.2.2 N W → k' = k := by
  exact Aux.class_partition N W R C hN hRC hC

theorem classes_nodup (N W : Nat) : (classes N W).Nodup := by
  exact Aux.classes_nodup N W

theorem positions_nodup (b r c N W : Nat) (hN : 0 < N) : (positions b r c N W).Nodup := by
  exact Aux.positions_nodup b r c N W hN

/-- the compressed and (row, column) forms of each list name the same positions. -/
theorem locCompressed_eq_map (b r c N W : Nat) :
    locCompressed b r c N W
      = List.zipWith (fun R C => compressedIndex R C (N * W))
          (locSlices b r c N W).1 (locSlices b r c N W).2 := by
  exact Aux.locCompressed_eq_map b r c N W

theorem locSlices_eq_unzip (b r c N W : Nat) :
    locSlices b r c N W = (positions b r c N W).unzip := by
  exact Aux.locSlices_eq_unzip b r c N W

/-- the class sizes add up to the size of the compressed triangle. -/
theorem class_sizes_sum (N W : Nat) :
    ((classes N W).map (fun k => (positions k.1 k.2.1 k.2.2 N W).length)).sum
      = (N * W) * (N * W + 1) / 2 := by
  exact Aux.class_sizes_sum N W

/-- the real code's argument checks. -/
theorem blockStarts?_isSome_iff (b N W : Nat) :
    (blockStarts? b N W).isSome ↔ (b < W ∧ 0 < N) := by
  exact Aux.blockStarts?_isSome_iff b N W

/-- non-vacuity / sanity on a concrete shape. -/
example : classes 2 2 = [(0,0,0),(0,0,1),(0,1,1),(1,0,0),(1,0,1),(1,1,0),(1,1,1)] ∧
    positions 1 1 0 2 3 = [(1,2),(3,4)] ∧ locCompressed 1 1 0 2 3 = [7, 16] := by
  decide

end FastTicc.Index

/-
Property C10 — window stacking is exact and never crosses a series boundary.
Property theorems only; helper lemmas live in `FastTicc/Proofs/Stack.lean`.
-/
import FastTicc.Model.Stack
import FastTicc.Proofs.Stack

namespace FastTicc.Stack

variable {α : Type}

/-- exactly `T - W + 1` rows. -/
theorem stack_rows (d : List (List α)) (W : Nat) : (stack d W).length = d.length + 1 - W := by
  simp [stack]

/-- every stacked row has `N * W` columns. -/
theorem stack_cols (d : List (List α)) (N W : Nat) (hN : ∀ row ∈ d, row.length = N)
    (hW : 1 ≤ W) (hT : W ≤ d.length) : ∀ row ∈ stack d W, row.length = N * W := by
  have _ := hW
  intro row hrow
  simp only [stack, List.mem_map, List.mem_range] at hrow
  obtain ⟨i, hi, rfl⟩ := hrow
  rw [stackRow_length d N W i hN (by omega), Nat.mul_comm]

/-- columns `[jN, (j+1)N)` of row `i` are row `i + j` of the input, cell for cell. -/
theorem stack_cell (d : List (List α)) (N W i j k : Nat) (hN : ∀ row ∈ d, row.length = N)
    (hT : W ≤ d.length) (hi : i < d.length + 1 - W) (hj : j < W) (hk : k < N) :
    ((stack d W)[i]?.bind (·[j * N + k]?)) = (d[i + j]?.bind (·[k]?)) ∧
    (d[i + j]?.bind (·[k]?)).isSome := by
  have hlt : i + j < d.length := by omega
  have hrow : (d[i + j]).length = N := hN _ (List.getElem_mem hlt)
  have hpieces : ∀ j', j' < W → (d.getD (i + j') []).length = N := by
    intro j' hj'
    have hlt' : i + j' < d.length := by omega
    simp only [List.getD_eq_getElem?_getD, List.getElem?_eq_getElem hlt', Option.getD_some]
    exact hN _ (List.getElem_mem hlt')
  have hcell := getElem?_flatMap_range (fun j => d.getD (i + j) []) N W hpieces j k hj hk
  rw [stack_getElem? d W i hi, List.getElem?_eq_getElem hlt]
  simp only [Option.bind_some]
  refine ⟨?_, ?_⟩
  · show (stackRow d W i)[j * N + k]? = _
    unfold stackRow
    rw [hcell]
    simp [List.getD_eq_getElem?_getD, List.getElem?_eq_getElem hlt]
  · rw [List.getElem?_eq_getElem (by omega)]
    rfl

/-- stacking several series is the concatenation, in input order, of the individual stackings. -/
theorem stackMulti_eq_flatten (series : List (List (List α))) (W : Nat) :
    stackMulti series W = (series.map (fun d => stack d W)).flatten := by
  simp [stackMulti, List.flatMap_def]

theorem stackMulti_append (s₁ s₂ : List (List (List α))) (W : Nat) :
    stackMulti (s₁ ++ s₂) W = stackMulti s₁ W ++ stackMulti s₂ W := by
  simp [stackMulti]

theorem stackMulti_single (d : List (List α)) (W : Nat) : stackMulti [d] W = stack d W := by
  simp [stackMulti]

theorem stackMulti_length (series : List (List (List α))) (W : Nat) :
    (stackMulti series W).length = (series.map (fun d => stackedLen d.length W)).sum := by
  simp [stackMulti, List.length_flatMap, stack_length]

/-- every stacked row of the joint stacking lies inside one series: row `i` of the
concatenation is a row of the stacking of series number `seriesOf lens i`, built only
from rows of that series. -/
theorem stackMulti_row_in_one_series (series : List (List (List α))) (W i : Nat)
    (hi : i < (stackMulti series W).length) :
    let lens := series.map (fun d => stackedLen d.length W)
    ∃ d i', series[seriesOf lens i]? = some d ∧ i' < stackedLen d.length W ∧
      (stackMulti series W)[i]? = some (stackRow d W i') := by
  intro lens
  induction series generalizing i with
  | nil => simp [stackMulti] at hi
  | cons d ds ih =>
    rw [stackMulti_cons] at hi ⊢
    show ∃ d' i', (d :: ds)[seriesOf (stackedLen d.length W :: ds.map _) i]? = some d' ∧ _
    rw [seriesOf_cons]
    by_cases h : i < stackedLen d.length W
    · refine ⟨d, i, by simp [h], h, ?_⟩
      rw [List.getElem?_append_left (by rw [stack_length]; exact h)]
      exact stack_getElem? d W i h
    · have hlen : (stack d W).length ≤ i := by rw [stack_length]; omega
      rw [List.length_append, stack_length] at hi
      obtain ⟨d', i', h1, h2, h3⟩ := ih (i - stackedLen d.length W) (by omega)
      refine ⟨d', i', ?_, h2, ?_⟩
      · rw [if_neg h, List.getElem?_cons_succ]; exact h1
      · rw [List.getElem?_append_right hlen, stack_length]; exact h3

/-- splitting a concatenated label list by the part lengths restores the parts. -/
theorem split_flatten {β : Type} (parts : List (List β)) :
    splitJoint parts.flatten (parts.map List.length) = parts := by
  induction parts with
  | nil => simp [splitJoint]
  | cons p ps ih => simp [splitJoint, ih]

/-- the real code's length assertion. -/
theorem splitJoint?_isSome_iff {β : Type} (l : List β) (lens : List Nat) :
    (splitJoint? l lens).isSome ↔ l.length = lens.sum := by
  unfold splitJoint?
  split <;> simp_all

/-- splitting by the stacked lengths and padding each part restores one list per
series of the original length. -/
theorem split_pad_restores_lengths (joint : List Int) (Ts : List Nat) (W : Nat)
    (hW : 1 ≤ W) (hTs : ∀ T ∈ Ts, W ≤ T)
    (hlen : joint.length = (Ts.map (fun T => stackedLen T W)).sum) :
    (splitAndPad joint (Ts.map (fun T => stackedLen T W)) W).map List.length = Ts := by
  exact splitAndPad_lengths joint Ts W hW hTs hlen

/-- non-vacuity. -/
example : stack [[1,2],[3,4],[5,6]] 2 = [[1,2,3,4],[3,4,5,6]] ∧
    stackMulti [[[1],[2],[3]], [[7],[8]]] 2 = [[1,2],[2,3],[7,8]] := by
  decide

end FastTicc.Stack

/-
Property C16 — Bayesian information criterion matches its definition (counting and
accumulation skeleton; `log` values are parameters, floating-point range is explored).
Property theorems only; helper lemmas live in `FastTicc/Proofs/Result.lean`.
-/
import FastTicc.Model.Result
import FastTicc.Proofs.Result
import Mathlib.Algebra.Order.Field.Basic

namespace FastTicc.Result

set_option linter.unusedSectionVars false

/-- the source's threshold is `2e-5`. -/
theorem constants_tie_bic :
    Constants.bicThresholdNum = 1 ∧ Constants.bicThresholdDen = 50000 :=
  ⟨rfl, rfl⟩

/-- the label of every maximal run of equal consecutive labels, in order. -/
def runHeads (labels : List Nat) : List Nat :=
  (labels.splitBy (· == ·)).filterMap List.head?

/-- P adds, for every maximal run of equal consecutive labels, that cluster's parameter count. -/
theorem runsParams_eq_sum_over_maximal_runs (params : Nat → Nat) (labels : List Nat) :
    runsParams params labels = ((runHeads labels).map params).sum := by
  cases labels with
  | nil => rfl
  | cons a l =>
    unfold runHeads
    rw [splitBy_heads_cons]
    simp [runsParams, runsParamsAux, runsParamsAux_some]

/-- a single run counts its cluster once, however long it is. -/
theorem runs_single (params : Nat → Nat) (k n : Nat) (hn : 0 < n) :
    runsParams params (List.replicate n k) = params k := by
  obtain ⟨m, rfl⟩ : ∃ m, n = m + 1 := ⟨n - 1, by omega⟩
  simp [runsParams, List.replicate_succ, runsParamsAux, runsParamsAux_replicate]

/-- a cluster no point carries contributes nothing. -/
theorem runs_unused_cluster_ignored (params params' : Nat → Nat) (labels : List Nat)
    (h : ∀ l ∈ labels, params l = params' l) : runsParams params labels = runsParams params' labels :=
  runsParamsAux_congr params params' none labels h

/-- a label that returns after an interruption is counted again (one count per run, not per cluster). -/
theorem runs_counted_per_run (params : Nat → Nat) (a b : Nat) (hab : a ≠ b) :
    runsParams params [a, b, a] = params a + params b + params a := by
  simp [runsParams, runsParamsAux, hab, Ne.symm hab, Nat.add_assoc]

section
variable {α : Type} [Field α] [LinearOrder α] [IsStrictOrderedRing α]

/-- the entry count uses strict `|x| > threshold`. -/
theorem nnz_row (t : α) (row : List α) :
    nnz t [row] = (row.filter (fun x => decide (t < |x|))).length := by
  simp [nnz, absv_eq_abs]

theorem nnz_append (t : α) (A B : List (List α)) : nnz t (A ++ B) = nnz t A + nnz t B := by
  simp only [nnz, foldl_add_nat_eq_sum, List.map_append, List.sum_append]

/-- the value is `P·ln T − 2·Σ_k (ln det Θ_k − tr(Θ_k S_k))`. -/
theorem bic_eq (P : Nat) (logT : α) (logdets : List α) (thetas Ss : List (List (List α))) :
    bic P logT (modLle logdets thetas Ss) =
      (P : α) * logT - 2 * (((List.range logdets.length).map
        (fun k => logdets.getD k 0 - traceMul (thetas.getD k []) (Ss.getD k []))).sum) := by
  simp only [bic, modLle, foldl_add_eq_sum, Nat.cast_ofNat]

/-- `tr(ΘS) = Σ_ij Θ_ij S_ji`, so for symmetric `S` it is the entrywise inner product. -/
theorem traceMul_two (a b c d e f g h : α) :
    traceMul [[a, b], [c, d]] [[e, f], [g, h]] = a * e + b * g + (c * f + d * h) := by
  simp [traceMul, List.range_succ]
end

/-- non-vacuity. -/
example : runsParams (fun k => [10, 20, 30].getD k 0) [0,0,1,1,0,2,2] = 70 ∧
    runHeads [0,0,1,1,0,2,2] = [0,1,0,2] ∧
    nnz (1/50000 : Rat) [[1/100000, -1/10], [1/50000, 3]] = 2 := by
  refine ⟨by decide, by decide, ?_⟩
  decide +kernel

end FastTicc.Result

/-
Composition theorems that tie the per-property results into statements about a whole run
(C09 "the returned labelling is a minimum-cost labelling for the returned model", C20 "the first
failing cluster of the earliest failing round surfaces", C02 "the solver returns the X iterate of
its last sweep and only stops by its rule after the first sweep").
Helper lemmas live in `FastTicc/Proofs/Compose.lean`.
-/
import FastTicc.Props.C01
import FastTicc.Props.C09
import FastTicc.Props.C20
import FastTicc.Proofs.Compose

namespace FastTicc.MainLoop
open FastTicc.Viterbi

section returned
variable {α : Type} [AddCommGroup α] [LinearOrder α] [IsOrderedAddMonoid α]
variable {σ ε : Type}

/-- C09 + C01: if the relabel phase is "score the given state into a cost table and run the
labelling kernel", then the labelling a run returns is a minimum-cost labelling for the model state
it was computed from — the output of the optimise phase of the SAME (last) round. -/
theorem returned_labelling_optimal (P : Phases σ ε) (labels : σ → List Nat) (K : Nat) (hK : 0 < K)
    (table : σ → List ((Nat → α) × α))
    (hne : ∀ s, table s ≠ []) (hb : ∀ s, BetaNonneg (table s))
    (hrel : ∀ s s', P.relabel s = .ok s' → labels s' = (viterbi K (table s)).1)
    (limit : Nat) (hl : 1 ≤ limit) (s0 : σ) (r : Outcome σ)
    (h : run P labels limit s0 = .ok r) :
    ∃ sFit, P.relabel sFit = .ok r.final ∧
      ValidLabels K (table sFit).length (labels r.final) ∧
      ∀ q, ValidLabels K (table sFit).length q →
        totalCost (table sFit) (labels r.final) ≤ totalCost (table sFit) q := by
  obtain ⟨sFit, hfit⟩ := run_final_relabel P labels limit hl s0 r h
  have hlab := hrel sFit r.final hfit
  obtain ⟨hv, hopt⟩ := viterbi_returns_minimiser K hK (table sFit) (hne sFit) (hb sFit)
  rw [← hlab] at hv hopt
  exact ⟨sFit, hfit, hv, hopt⟩
end returned

section tasks
variable {σ ε β : Type}

/-- C20: the optimise phase built from K per-cluster tasks fails exactly with the error of the
first failing cluster in cluster order, and otherwise stores all K results in cluster order. -/
theorem optFromTasks_error_iff (K : Nat) (task : σ → Nat → Except ε β) (store : σ → List β → σ)
    (s : σ) (e : ε) :
    optFromTasks K task store s = .error e ↔
      ∃ k, k < K ∧ task s k = .error e ∧ ∀ j, j < k → ∃ v, task s j = .ok v := by
  unfold optFromTasks
  rw [map_error_iff, gather_error_first]
  constructor
  · rintro ⟨k, hk, hall⟩
    obtain ⟨hkK, hke⟩ := (getElem?_range_map_eq K (task s) k _).1 hk
    refine ⟨k, hkK, hke, fun j hj => ?_⟩
    obtain ⟨v, hv⟩ := hall j hj
    exact ⟨v, ((getElem?_range_map_eq K (task s) j _).1 hv).2⟩
  · rintro ⟨k, hkK, hke, hall⟩
    refine ⟨k, (getElem?_range_map_eq K (task s) k _).2 ⟨hkK, hke⟩, fun j hj => ?_⟩
    obtain ⟨v, hv⟩ := hall j hj
    exact ⟨v, (getElem?_range_map_eq K (task s) j _).2 ⟨by omega, hv⟩⟩

theorem optFromTasks_ok_iff (K : Nat) (task : σ → Nat → Except ε β) (store : σ → List β → σ)
    (s s' : σ) :
    optFromTasks K task store s = .ok s' ↔
      ∃ vs : List β, (List.range K).map (task s) = vs.map Except.ok ∧ s' = store s vs := by
  unfold optFromTasks
  rw [map_ok_iff]
  constructor
  · rintro ⟨vs, hg, hs⟩
    exact ⟨vs, (gather_ok_iff _ vs).1 hg, hs⟩
  · rintro ⟨vs, hg, hs⟩
    exact ⟨vs, (gather_ok_iff _ vs).2 hg, hs⟩
end tasks

section admm
variable {ν : Type}

/-- the ADMM sweep of the source, re-extracted from the AST on every run: X, then Z, then U; the
stopping rule is consulted only for `iteration > 0`; the function returns `x`. -/
theorem constants_tie_admm : Constants.admmUpdateOrder = [1, 2, 3] ∧ Constants.admmCheckAfter = 0 ∧
    Constants.admmReturns = 1 := ⟨rfl, rfl, rfl⟩

/-- the sweep translated from the source is the sweep C02 describes (X, then Z from the new X, then U
from the new X and Z). -/
theorem sweep_translated_eq_spec (ux uz uu : Admm ν → ν) (s : Admm ν) :
    sweep ux uz uu s = sweepSpec ux uz uu s := rfl

/-- C02: at least one and at most `maxIter` sweeps. -/
theorem admm_iterations_bounds (step : Admm ν → Admm ν) (stop : Admm ν → ν → Bool)
    (rescale : Admm ν → ν → Admm ν) (maxIter : Nat) (hm : 1 ≤ maxIter) (zero : ν) :
    1 ≤ (admmRun step stop rescale maxIter zero).2 ∧ (admmRun step stop rescale maxIter zero).2 ≤ maxIter := by
  obtain ⟨_, a2, a3, _, _⟩ := admmLoop_spec step stop rescale maxIter 0 ⟨zero, zero, zero⟩
  have := a3 hm
  unfold admmRun
  omega

/-- the stopping rule is never consulted after the very first sweep: with a budget of at least two
sweeps the solver performs at least two. -/
theorem admm_first_sweep_never_stops (step : Admm ν → Admm ν) (stop : Admm ν → ν → Bool)
    (rescale : Admm ν → ν → Admm ν) (maxIter : Nat) (hm : 2 ≤ maxIter) (zero : ν) :
    2 ≤ (admmRun step stop rescale maxIter zero).2 := by
  obtain ⟨_, _, _, a4, _⟩ := admmLoop_spec step stop rescale maxIter 0 ⟨zero, zero, zero⟩
  exact a4 rfl hm

/-- what is returned is the X iterate of the last sweep performed; and if the solver stopped before
exhausting its budget, the stopping rule held for that last sweep (against the previous Z).

CHANGED: (1) the hypothesis `hres` was ADDED — the rho update must leave `x` alone (in the source it
only rescales `u`: `u = scale * u`, solver.py:121).  Without it the seeded statement is false, see
`admm_returns_last_x_needs_hres` below.  (2) the awkward `∨ maxIter = 0` was replaced by the
hypothesis `hm : 1 ≤ maxIter` (this is the stronger reading). -/
theorem admm_returns_last_x (step : Admm ν → Admm ν) (stop : Admm ν → ν → Bool)
    (rescale : Admm ν → ν → Admm ν) (hres : ∀ s z, (rescale s z).x = s.x)
    (maxIter : Nat) (hm : 1 ≤ maxIter) (zero : ν) :
    ∃ sPrev : Admm ν, (admmRun step stop rescale maxIter zero).1 = (step sPrev).x := by
  exact admmLoop_returns_x step stop rescale hres maxIter 0 ⟨zero, zero, zero⟩ hm

/-- `hres` is needed: a rho update that overwrites `x` makes the seeded form
(`∃ sPrev, … = (step sPrev).x ∨ maxIter = 0`) false.  `step` always produces `x = 0`, the rule
never fires, `rescale` sets `x := 1`, budget 2: the solver returns `(1, 2)`. -/
theorem admm_returns_last_x_needs_hres :
    ∃ (step : Admm Nat → Admm Nat) (stop : Admm Nat → Nat → Bool) (rescale : Admm Nat → Nat → Admm Nat)
      (maxIter : Nat) (z0 : Nat),
      ¬ ∃ sPrev : Admm Nat, (admmRun step stop rescale maxIter z0).1 = (step sPrev).x ∨ maxIter = 0 := by
  refine ⟨fun s => ⟨0, s.z, s.u⟩, fun _ _ => false, fun s _ => ⟨1, s.z, s.u⟩, 2, 0, ?_⟩
  rintro ⟨sPrev, h | h⟩
  · have h1 : (1 : Nat) = 0 := h
    exact absurd h1 (by decide)
  · exact absurd h (by decide)

theorem admm_early_stop_rule_held (step : Admm ν → Admm ν) (stop : Admm ν → ν → Bool)
    (rescale : Admm ν → ν → Admm ν) (maxIter : Nat) (zero : ν)
    (h : (admmRun step stop rescale maxIter zero).2 < maxIter) :
    ∃ sPrev : Admm ν, (admmRun step stop rescale maxIter zero).1 = (step sPrev).x ∧
      stop (step sPrev) sPrev.z = true := by
  obtain ⟨_, _, _, _, a5⟩ := admmLoop_spec step stop rescale maxIter 0 ⟨zero, zero, zero⟩
  exact a5 (by unfold admmRun at h; omega)
end admm

/-- non-vacuity: a scalar "solver" that halves the distance to 8 and stops when the change is < 1. -/
example :
    admmRun (fun s : Admm Nat => ⟨(s.x + 8) / 2, s.x, s.u⟩) (fun s zold => decide (s.x - zold.min s.x ≤ 1 ∧ s.z = zold))
      (fun s _ => s) 10 0 = (7, 5) := by
  decide

end FastTicc.MainLoop

/-
Property C02 / C03 — matrix-level statement of the X-update: for an orthonormal eigenbasis `Q` of
`A = ρ(Z−U) − S = Q diag(d) Qᵀ`, the update `X = Q diag(e) Qᵀ` with
`e_i = (d_i + √(d_i² + 4ρ)) / (2ρ)` is symmetric, positive definite and satisfies the stationarity
condition `ρ X − X⁻¹ = A` of `−log det X + tr(S X) + (ρ/2)‖X − Z + U‖²`.
Helper lemmas live in `FastTicc/Proofs/AdmmMatrix.lean`.
-/
import FastTicc.Props.C03
import FastTicc.Proofs.AdmmMatrix

namespace FastTicc.Numeric
open Matrix

variable {n : ℕ}

/-- the X-update as a matrix (what `x_update_prox` computes before compressing). -/
noncomputable def xUpdateMatrix (Q : Matrix (Fin n) (Fin n) ℝ) (d : Fin n → ℝ) (rho : ℝ) :
    Matrix (Fin n) (Fin n) ℝ :=
  Q * Matrix.diagonal (fun i => eigPinned Real.sqrt rho (d i)) * Qᵀ

theorem xUpdateMatrix_symm (Q : Matrix (Fin n) (Fin n) ℝ) (d : Fin n → ℝ) (rho : ℝ) :
    (xUpdateMatrix Q d rho).IsSymm := by
  exact Aux.conj_diag_symm Q _

/-- stationarity: `ρ X − X⁻¹ = Q diag(d) Qᵀ`, and the inverse is `Q diag(1/e) Qᵀ`. -/
theorem xUpdateMatrix_stationary (Q : Matrix (Fin n) (Fin n) ℝ) (hQ : Qᵀ * Q = 1)
    (d : Fin n → ℝ) (rho : ℝ) (hrho : 0 < rho) :
    (xUpdateMatrix Q d rho)⁻¹ = Q * Matrix.diagonal (fun i => (eigPinned Real.sqrt rho (d i))⁻¹) * Qᵀ ∧
    rho • xUpdateMatrix Q d rho - (xUpdateMatrix Q d rho)⁻¹ = Q * Matrix.diagonal d * Qᵀ := by
  have hinv : (xUpdateMatrix Q d rho)⁻¹
      = Q * Matrix.diagonal (fun i => (eigPinned Real.sqrt rho (d i))⁻¹) * Qᵀ :=
    Aux.conj_diag_inv Q hQ _ (fun i => ne_of_gt (eig_pos rho (d i) hrho))
  refine ⟨hinv, ?_⟩
  rw [hinv]
  unfold xUpdateMatrix
  rw [Aux.conj_diag_smul_sub]
  have hd : (fun i => rho * eigPinned Real.sqrt rho (d i) - (eigPinned Real.sqrt rho (d i))⁻¹) = d :=
    funext fun i => by
      have := eig_stationary rho (d i) hrho
      rwa [one_div] at this
  rw [hd]

/-- positive definiteness: `xᵀ X x > 0` for every non-zero `x`. -/
theorem xUpdateMatrix_posDef (Q : Matrix (Fin n) (Fin n) ℝ) (hQ : Qᵀ * Q = 1)
    (d : Fin n → ℝ) (rho : ℝ) (hrho : 0 < rho) (x : Fin n → ℝ) (hx : x ≠ 0) :
    0 < x ⬝ᵥ (xUpdateMatrix Q d rho).mulVec x := by
  exact Aux.conj_diag_posDef Q hQ _ (fun i => eig_pos rho (d i) hrho) x hx

end FastTicc.Numeric

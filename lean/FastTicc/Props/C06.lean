/-
Property C06 — result fields are mutually consistent (cost and likelihood accounting).
Property theorems only; helper lemmas live in `FastTicc/Proofs/Result.lean`.
-/
import FastTicc.Model.Result
import FastTicc.Model.Viterbi
import FastTicc.Proofs.Viterbi
import FastTicc.Proofs.Result
import FastTicc.Proofs.ResultCost
import FastTicc.Props.C01
import Mathlib.Algebra.Order.Field.Basic

namespace FastTicc.Result

set_option linter.unusedSectionVars false

section
variable {α : Type} [Field α] [LinearOrder α] [IsStrictOrderedRing α]

/-- a point is labelled when its label is a cluster index (not the `-1` marker). -/
def labelled (K : Nat) (l : Int) : Bool := decide (0 ≤ l ∧ l < (K : Int))

/-- one list per cluster. -/
theorem clusterLists_length (K : Nat) (labels : List Int) (ll : List α) :
    (clusterLists K labels ll).length = K := by
  simp [clusterLists]

/-- cluster `k`'s list holds exactly the values of the points labelled `k`, in point order. -/
theorem cluster_list_exact (K k : Nat) (hk : k < K) (labels : List Int) (ll : List α) :
    (clusterLists K labels ll)[k]? =
      some (((labels.zip ll).filter (fun p => p.1 == (k : Int))).map (·.2)) := by
  simp [clusterLists, List.getElem?_map, List.getElem?_range hk]

/-- the per-point list has exactly one entry per labelled point … -/
theorem all_ll_length (K : Nat) (labels : List Int) (ll : List α) (h : labels.length = ll.length) :
    (allLL K labels ll).length = (labels.filter (labelled K)).length := by
  have hp := (group_perm K (labels.zip ll)).length_eq
  rw [List.length_map] at hp
  exact hp.trans (filter_zip_fst_length (keyInRange K) labels ll h)

/-- … namely the labelled points' values (grouped by cluster: a permutation of them). -/
theorem all_ll_perm (K : Nat) (labels : List Int) (ll : List α) :
    (allLL K labels ll).Perm (((labels.zip ll).filter (fun p => labelled K p.1)).map (·.2)) :=
  group_perm K (labels.zip ll)

/-- sum, mean and median depend only on the multiset of entries, so the overall statistics are
those of exactly the labelled points' values, whatever the grouping order. -/
theorem sum_perm (l₁ l₂ : List α) (h : l₁.Perm l₂) : sum l₁ = sum l₂ := by
  unfold sum
  rw [foldl_add_eq_sum, foldl_add_eq_sum]
  exact h.sum_eq

theorem mean_perm (l₁ l₂ : List α) (h : l₁.Perm l₂) : mean l₁ = mean l₂ := by
  unfold mean
  rw [sum_perm l₁ l₂ h, h.length_eq]

theorem median_perm (l₁ l₂ : List α) (h : l₁.Perm l₂) : median l₁ = median l₂ := by
  unfold median
  rw [mergeSort_eq_of_perm l₁ l₂ h]

theorem overall_stats (K : Nat) (labels : List Int) (ll : List α) :
    let vals := ((labels.zip ll).filter (fun p => labelled K p.1)).map (·.2)
    (assemble K labels ll).total = sum vals ∧
    (assemble K labels ll).mean = mean vals ∧
    (assemble K labels ll).median = median vals := by
  intro vals
  have hp : (allLL K labels ll).Perm vals := all_ll_perm K labels ll
  exact ⟨sum_perm _ _ hp, mean_perm _ _ hp, median_perm _ _ hp⟩

/-- each cluster's mean and median are taken over exactly the points labelled with that
cluster, and are 0 if it has none. -/
theorem cluster_stats (K k : Nat) (hk : k < K) (labels : List Int) (ll : List α) :
    let vals := ((labels.zip ll).filter (fun p => p.1 == (k : Int))).map (·.2)
    (assemble K labels ll).clusterMean[k]? = some (if vals.isEmpty then 0 else mean vals) ∧
    (assemble K labels ll).clusterMedian[k]? = some (if vals.isEmpty then 0 else median vals) := by
  intro vals
  have hc := cluster_list_exact K k hk labels ll
  constructor
  · show (clusterMeans K labels ll)[k]? = _
    unfold clusterMeans
    rw [List.getElem?_map, hc]
    rfl
  · show (clusterMedians K labels ll)[k]? = _
    unfold clusterMedians
    rw [List.getElem?_map, hc]
    rfl

/-- the pinned behaviour (phantom `0` for an empty cluster) breaks the length clause. -/
theorem phantom_zero_breaks_length :
    ∃ (K : Nat) (labels : List Int) (ll : List Rat), labels.length = ll.length ∧
      (allLLPinned K labels ll).length ≠ (labels.filter (labelled K)).length ∧
      (allLL K labels ll).length = (labels.filter (labelled K)).length :=
  ⟨2, [0, -1], [1, 5], rfl, by decide, by decide⟩
end

section cost
open FastTicc.Viterbi
variable {α : Type} [Field α] [LinearOrder α] [IsStrictOrderedRing α]

/-- sum of each point's own log-likelihood under the label it received. -/
def ownLL (tab : List (Nat → α)) (ls : List Nat) : α :=
  (List.zipWith (fun r l => r l) tab ls).foldl (· + ·) 0

/-- cost identity: with assignment cost = −log-likelihood, the cost the labelling step reports is
minus the sum of the chosen log-likelihoods plus the switching cost of every consecutive pair
that carries different labels (priced by that pair's own beta). -/
theorem cost_identity (K : Nat) (hK : 0 < K) (tab : List (Nat → α)) (betas : List α)
    (hne : tab ≠ []) (hlen : betas.length = tab.length) (hb : ∀ b ∈ betas, 0 ≤ b) :
    let pts := withVectorBeta (tab.map (fun r c => - r c)) betas
    (viterbi K pts).2 = - ownLL tab (viterbi K pts).1 + switchCost pts (viterbi K pts).1 := by
  intro pts
  have hpts : pts ≠ [] := by
    cases tab with
    | nil => exact absurd rfl hne
    | cons r rs =>
      cases betas with
      | nil => simp at hlen
      | cons b bs => simp [pts, withVectorBeta]
  have hbn : BetaNonneg pts := zip_snd_nonneg _ betas hb
  rw [viterbi_cost_is_cost_of_path K hK pts hpts hbn, totalCost]
  congr 1
  unfold ownLL
  rw [foldl_add_eq_sum]
  exact assignCost_neg tab betas _ (le_of_eq hlen.symm)

/-- with a masked switching cost `beta * mask_i` (`mask_i ∈ {0,1}`), only pairs whose mask is 1
are priced: the switching term is `beta` times the number of unmasked consecutive pairs with
different labels.  (With C07's mask: within-series pairs only.) -/
theorem switch_cost_masked (rows : List (Nat → α)) (beta : α) (mask : List Nat) (ls : List Nat)
    (hm : ∀ x ∈ mask, x = 0 ∨ x = 1) (hlen : mask.length = rows.length) (hl : ls.length = rows.length) :
    switchCost (withVectorBeta rows (mask.map (fun (x : Nat) => beta * (x : α)))) ls =
      beta * (((List.range (ls.length - 1)).filter
        (fun i => mask.getD i 0 == 1 && ls.getD i 0 != ls.getD (i + 1) 0)).length : α) :=
  switchCost_masked rows beta mask ls hm hlen hl
end cost

/-- non-vacuity. -/
example : (assemble 3 [-1, 0, 2, 0, 2, -1] ([9, 1, 5, 3, 6, 9] : List Rat)).all = [1, 3, 5, 6] ∧
    (assemble 3 [-1, 0, 2, 0, 2, -1] ([9, 1, 5, 3, 6, 9] : List Rat)).clusterMean = [2, 0, 11/2] := by
  decide +kernel

end FastTicc.Result

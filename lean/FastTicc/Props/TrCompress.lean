/-
TRANSLATED CODE = MODEL (matrix_compression.py: compress_matrix, reinflate_matrix and their helpers, property C11).
`Generated/Kernels.lean` is rewritten from the Python AST of `$REPO/src/fast_ticc` by `harness/py2lean.py` on every run; the
theorems below are about those generated definitions.  `np.triu_indices`, fancy indexing with two index lists, `.T`,
`.diagonal()`, `np.diag` are primitives of `Model/Py.lean`; `_full_matrix_size` (a floating-point square root) is MODELLED by
the integer square root (`Py.fullMatrixSize`), not translated.
-/
import FastTicc.Generated.Kernels
import FastTicc.Proofs.Translated
import FastTicc.Model.Index
import FastTicc.Props.C11
open FastTicc FastTicc.PyLemmas FastTicc.Index

namespace FastTicc.Translated
section
variable {α : Type} [Zero α] [Add α] [Sub α] [LT α] [DecidableLT α]

/-- a vector as the translated code sees a Python list (reads past the end give 0, as the model's `getD`) -/
def vecOf (l : List α) : Py.Arr1 α := ⟨l.length, fun k => l.getD k 0⟩

omit [Zero α] [Add α] [Sub α] [LT α] [DecidableLT α] in
theorem upper_triangle_indices_eq (n : Nat) :
    Gen._upper_triangle_indices (n : Int)
      = ((triuIdx n).map (fun p => (p.1 : Int)), (triuIdx n).map (fun p => (p.2 : Int))) := by
  unfold Gen._upper_triangle_indices Py.triuIndices triuIdx rowIdx
  simp

omit [Zero α] [Add α] [Sub α] [LT α] [DecidableLT α] in
/-- **the translated `compress_matrix` is the model's `compress`** (square matrices; a non-square one raises) -/
theorem compress_matrix_eq (M : Py.Arr2 α) (n : Nat) (hr : M.rows = n) (hc : M.cols = n) :
    ∃ v, Gen.compress_matrix M = .ok v ∧ v.toList = Index.compress M.get n := by
  refine ⟨Py.Arr2.getAt2 M (Gen._upper_triangle_indices (n : Int)), ?_, ?_⟩
  · unfold Gen.compress_matrix
    simp [Py.Arr2.shape0, Py.Arr2.shape1, hr, hc]
    rfl
  · rw [upper_triangle_indices_eq]
    unfold Py.Arr2.getAt2 Py.Arr1.toList Index.compress
    simp only [List.length_map]
    apply List.ext_getElem
    · simp
    · intro k h1 h2
      simp only [List.length_map, List.length_range] at h1
      simp [List.getD_eq_getElem?_getD, h1, idx_nat]


omit [Zero α] [Add α] [Sub α] [LT α] [DecidableLT α] in
theorem findIdx_pairs (n : Nat) (ps : List (Nat × Nat)) (r c : Nat) :
    ((ps.map (fun p => (p.1 : Int))).zip (ps.map (fun p => (p.2 : Int)))).findIdx?
        (fun p => Py.idx n p.1 == r && Py.idx n p.2 == c)
      = ps.findIdx? (fun p => p.1 == r && p.2 == c) := by
  rw [List.zip_map]
  induction ps with
  | nil => rfl
  | cons p t ih =>
    simp only [List.zip_cons_cons, List.map_cons, List.findIdx?_cons, Prod.map, idx_nat]
    rw [ih]

omit [Add α] [Sub α] [LT α] [DecidableLT α] in
theorem fullMatrixSize_eq (m : Nat) : Py.fullMatrixSize (m : Int) = ((Index.fullSize m : Nat) : Int) := by
  unfold Py.fullMatrixSize Index.fullSize
  simp

omit [LT α] [DecidableLT α] in
/-- **the translated `reinflate_matrix` is the model's `reinflate`**, entry by entry, for every vector -/
theorem reinflate_matrix_eq (vs : List α) :
    (Gen.reinflate_matrix (vecOf vs)).rows = Index.fullSize vs.length ∧
    (Gen.reinflate_matrix (vecOf vs)).cols = Index.fullSize vs.length ∧
    ∀ r c, (Gen.reinflate_matrix (vecOf vs)).get r c = Index.reinflate vs r c := by
  unfold Gen.reinflate_matrix Gen._upper_to_full Gen._uncompress_upper_triangle
  have hsz : Py.Arr1.size (vecOf vs) = ((vs.length : Nat) : Int) := rfl
  simp only [hsz, fullMatrixSize_eq, upper_triangle_indices_eq]
  refine ⟨by simp [Py.Arr2.sub, Py.Arr2.add, Py.Arr2.setAt2, Py.Arr2.const],
          by simp [Py.Arr2.sub, Py.Arr2.add, Py.Arr2.setAt2, Py.Arr2.const], ?_⟩
  intro r c
  simp only [Py.Arr2.sub, Py.Arr2.add, Py.Arr2.transpose, Py.diagOf, Py.Arr2.diagonal, Py.Arr2.setAt2, Py.Arr2.const,
    Int.toNat_natCast, findIdx_pairs, Index.reinflate, Index.upperToFull, Index.uncompressUpper, Index.posOf, vecOf]
  rfl

end

section
variable {α : Type} [AddCommGroup α] [LT α] [DecidableLT α]

/-- **C11's round trip about the translated code**: re-inflating any vector of length `n(n+1)/2` with the translated
`reinflate_matrix` and compressing the result with the translated `compress_matrix` returns the vector. -/
theorem translated_compress_reinflate (n : Nat) (vs : List α) (hv : vs.length = n * (n + 1) / 2) :
    ∃ w, Gen.compress_matrix (Gen.reinflate_matrix (vecOf vs)) = .ok w ∧ w.toList = vs := by
  obtain ⟨h1, h2, h3⟩ := reinflate_matrix_eq vs
  have hn : Index.fullSize vs.length = n := by rw [hv]; exact Index.fullSize_tri n
  obtain ⟨w, hw1, hw2⟩ := compress_matrix_eq (Gen.reinflate_matrix (vecOf vs)) n (by rw [h1, hn]) (by rw [h2, hn])
  refine ⟨w, hw1, ?_⟩
  rw [hw2]
  have : (Gen.reinflate_matrix (vecOf vs)).get = Index.reinflate vs := by
    funext r c; exact h3 r c
  rw [this]
  exact Index.compress_reinflate n vs hv

/-- and the other way round: compressing a symmetric `n × n` matrix with the translated `compress_matrix` and
re-inflating the result with the translated `reinflate_matrix` returns the matrix. -/
theorem translated_reinflate_compress (M : Py.Arr2 α) (n : Nat) (hr : M.rows = n) (hc : M.cols = n)
    (hsym : ∀ r c, M.get r c = M.get c r) :
    ∃ w, Gen.compress_matrix M = .ok w ∧
      ∀ r c, r < n → c < n → (Gen.reinflate_matrix (vecOf w.toList)).get r c = M.get r c := by
  obtain ⟨w, hw1, hw2⟩ := compress_matrix_eq M n hr hc
  refine ⟨w, hw1, ?_⟩
  intro r c hrn hcn
  rw [(reinflate_matrix_eq w.toList).2.2 r c, hw2]
  exact Index.reinflate_compress n M.get hsym r c hrn hcn

end
end FastTicc.Translated

/-
Property C17 — the Calinski-Harabasz index matches its definition.
Property theorems only; helper lemmas live in `FastTicc/Proofs/Stats.lean`.
The pinned code centres on the scalar mean of all entries (`chPinned`); the definition centres
on the per-column centroid (`chSpec`).  The exact deviation is proved (`between_decomposition`).
-/
import FastTicc.Model.Numeric
import FastTicc.Proofs.Stats
import Mathlib.Algebra.Order.Field.Basic
import Mathlib.Algebra.BigOperators.Ring.Finset
import Mathlib.Algebra.BigOperators.Group.Finset.Sigma
import Mathlib.Tactic.Ring
import Mathlib.Tactic.FieldSimp
import Mathlib.Tactic.NormNum

namespace FastTicc.Numeric

variable {α : Type} [Field α] [LinearOrder α] [IsStrictOrderedRing α]

-- the order structure is part of the stated context but several identities hold in any field
set_option linter.unusedSectionVars false

/-- the matrix-accumulating code (trace of a sum of weighted outer products) equals the
sum-of-squares form: `tr(Σ_k w_k v_k v_kᵀ) = Σ_k w_k ‖v_k‖²`. -/
theorem traceOuterSum_eq (K d : ℕ) (w : ℕ → α) (v : ℕ → ℕ → α) :
    traceOuterSum K d w v = sumTo K (fun k => w k * sumTo d (fun j => v k j * v k j)) := by
  unfold traceOuterSum
  simp only [sumTo_eq_sum]
  rw [Finset.sum_comm]
  exact Finset.sum_congr rfl (fun k _ => (Finset.mul_sum _ _ _).symm)

/-- hypotheses under which cluster means and sizes describe a partition of the `T` points:
sizes add up to `T`, and the size-weighted mean of the cluster means is the centroid. -/
structure Consistent (T K d : ℕ) (sizes : ℕ → ℕ) (means : ℕ → ℕ → α) (data : ℕ → ℕ → α) : Prop where
  total : sumTo K (fun k => ((sizes k : ℕ) : α)) = (T : α)
  centroid : ∀ j, sumTo K (fun k => (sizes k : α) * means k j) = (T : α) * centroid T data j

/-- exact deviation of the pinned centre: `B_pinned = B_spec + T·‖c − g·𝟙‖²`
(because `Σ_k n_k (μ_k − c) = 0`). -/
theorem between_decomposition (T K d : ℕ) (sizes : ℕ → ℕ) (means : ℕ → ℕ → α) (data : ℕ → ℕ → α)
    (h : Consistent T K d sizes means data) (g : α) :
    between K d sizes means (fun _ => g) =
      between K d sizes means (centroid T data) + (T : α) * sqDist d (centroid T data) (fun _ => g) := by
  have hT := h.total
  have hc := h.centroid
  simp only [sumTo_eq_sum] at hT hc
  unfold between sqDist
  simp only [sumTo_eq_sum, Finset.mul_sum]
  rw [Finset.sum_comm, Finset.sum_comm (s := Finset.range K), ← Finset.sum_add_distrib]
  exact Finset.sum_congr rfl (fun j _ => column_decomposition K _ _ _ _ g hT (hc j))

/-- the definition's value does not change when a constant is added to any sensor (column). -/
theorem chSpec_translation_invariant (T K d : ℕ) (hT : 0 < T) (members : ℕ → List ℕ)
    (means : ℕ → ℕ → α) (data : ℕ → ℕ → α) (t : ℕ → α) :
    chSpec T K d members (fun k j => means k j + t j) (fun i j => data i j + t j)
      = chSpec T K d members means data := by
  have hT' : (T : α) ≠ 0 := Nat.cast_ne_zero.mpr (Nat.pos_iff_ne_zero.mp hT)
  have hcen : ∀ j, centroid T (fun i j => data i j + t j) j = centroid T data j + t j := by
    intro j
    unfold centroid
    simp only [sumTo_eq_sum, Finset.sum_add_distrib, Finset.sum_const, Finset.card_range,
      nsmul_eq_mul]
    field_simp
  unfold chSpec
  congr 1
  · unfold between sqDist
    simp only [hcen, add_sub_add_right_eq_sub]
  · unfold within sqDist
    simp only [add_sub_add_right_eq_sub]

/-- the pinned value exceeds the definition's value by exactly
`((T−K)/(K−1)) · T‖c − g𝟙‖² / Wd`. -/
theorem chPinned_eq_chSpec_plus (T K d : ℕ) (members : ℕ → List ℕ) (means : ℕ → ℕ → α)
    (data : ℕ → ℕ → α)
    (h : Consistent T K d (fun k => (members k).length) means data)
    (hW : within K d members means data ≠ 0) :
    chPinned T K d members means data =
      chSpec T K d members means data +
        ((T : α) * sqDist d (centroid T data) (fun _ => scalarMean T d data)
          / within K d members means data) * (((T : α) - (K : α)) / ((K : α) - 1)) := by
  have _ := hW -- not needed: both sides use the same `x / 0 = 0` convention
  unfold chPinned chSpec
  rw [between_decomposition T K d _ means data h]
  unfold chIndex
  rw [Nat.cast_one]
  ring

/-- the pinned value is not translation invariant (witness over ℚ). -/
theorem chPinned_not_translation_invariant :
    ∃ (T K d : ℕ) (members : ℕ → List ℕ) (means data : ℕ → ℕ → ℚ) (t : ℕ → ℚ),
      chPinned T K d members (fun k j => means k j + t j) (fun i j => data i j + t j)
        ≠ chPinned T K d members means data := by
  refine ⟨4, 2, 2, fun k => if k = 0 then [0, 1] else [2, 3],
    fun k j => if k = 0 then (if j = 0 then 0 else 1) else (if j = 0 then 4 else 7),
    fun i j => if i = 0 then (if j = 0 then 0 else 0)
      else if i = 1 then (if j = 0 then 0 else 2)
      else if i = 2 then (if j = 0 then 3 else 6)
      else (if j = 0 then 5 else 8),
    fun j => if j = 0 then 5 else 0, ?_⟩
  norm_num [chPinned, chIndex, between, within, sqDist, scalarMean, sumTo, sumOver, List.range,
    List.range.loop]

end FastTicc.Numeric

/-
TRANSLATED CODE = MODEL (bayesian_information_criterion of cluster_metrics.py, property C16).  `Generated/Kernels.lean` is
rewritten from the Python AST of `$REPO/src/fast_ticc` by `harness/py2lean.py` on every run; the theorems below are about
that generated definition.  `model` is the record of what the function reads of a model state (cluster count, MRFs,
empirical covariances, labels); `np.linalg.slogdet(·)[1]` and `np.log` are function parameters (`logdetOf`, `logOfInt`);
`np.trace(np.dot(A, B))` and `np.sum(np.abs(M) > t)` are primitives of `Model/Py.lean`; the dict is a list of (key, value)
pairs; the threshold is the exact rational value of the double the source spells `2e-5`.
-/
import FastTicc.Generated.Kernels
import FastTicc.Proofs.Translated
import FastTicc.Model.Result
import FastTicc.Props.C16
import Mathlib.Algebra.Order.Field.Basic
open FastTicc FastTicc.PyLemmas

namespace FastTicc.Translated
section
variable {α : Type} [Field α] [LinearOrder α]

/-- the sentinel the run-counting loop starts from: `-1` for "no previous label" -/
def encLast : Option Nat → Int
  | none => -1
  | some l => (l : Int)

omit [Field α] [LinearOrder α] in
/-- the run-counting loop of the BIC (`if label != last: total += params[label]; last = label`) is `Result.runsParamsAux` -/
theorem runs_loop (params : Nat → Nat) (d : Py.IntMap Int) (K : Nat)
    (hd : ∀ k, k < K → Py.IntMap.get d (k : Int) = ((params k : Nat) : Int)) :
    ∀ (labels : List Nat), (∀ l ∈ labels, l < K) → ∀ (nz : Int) (last : Option Nat),
      (labels.map (fun (l : Nat) => (l : Int))).foldl
        (fun (s : Int × Int) (point_label : Int) =>
          ((if decide (point_label ≠ s.2) = true then (s.1 + Py.IntMap.get d point_label, point_label) else (s.1, s.2)).1,
           (if decide (point_label ≠ s.2) = true then (s.1 + Py.IntMap.get d point_label, point_label) else (s.1, s.2)).2))
        (nz, encLast last)
      = (nz + ((Result.runsParamsAux params last labels : Nat) : Int),
         encLast (match labels.getLast? with | some l => some l | none => last)) := by
  intro labels
  induction labels with
  | nil => intro _ nz last; simp [Result.runsParamsAux]
  | cons l t ih =>
    intro hl nz last
    have hlK : l < K := hl l (by simp)
    have elast : ((l : Nat) : Int) = encLast (some l) := rfl
    have hlastEq : (match (l :: t).getLast? with | some x => some x | none => last)
        = (match t.getLast? with | some x => some x | none => some l) := by
      cases t with
      | nil => simp
      | cons a b =>
        rw [List.getLast?_cons_cons]
        have : ((a :: b).getLast?).isSome := by simp
        cases h : (a :: b).getLast? with
        | none => rw [h] at this; simp at this
        | some x => rfl
    simp only [List.map_cons, List.foldl_cons, Result.runsParamsAux]
    rw [hlastEq]
    by_cases hsame : last = some l
    · subst hsame
      have hnn : ¬ ((l : Int) ≠ encLast (some l)) := by simp [encLast]
      simp only [hnn, decide_false, Bool.false_eq_true, if_false]
      rw [ih (fun x hx => hl x (by simp [hx])) nz (some l)]
      simp
    · have hne : (l : Int) ≠ encLast last := by
        cases last with
        | none => simp [encLast]
        | some x =>
          simp only [encLast, ne_eq, Nat.cast_inj]
          intro h; apply hsame; rw [h]
      simp only [hne, ne_eq, not_false_eq_true, decide_true, if_true, hd l hlK]
      rw [elast, ih (fun x hx => hl x (by simp [hx])) (nz + ((params l : Nat) : Int)) (some l)]
      simp only [hsame, if_false]
      congr 1
      push_cast; ring


omit [Field α] [LinearOrder α] in
theorem intMap_get_set {β} [Inhabited β] (d : Py.IntMap β) (k j : Int) (v : β) :
    Py.IntMap.get (Py.IntMap.set d k v) j = if k = j then v else Py.IntMap.get d j := by
  unfold Py.IntMap.get Py.IntMap.set
  by_cases h : k = j
  · subst h; simp
  · simp [h]

/-- the per-cluster loop of the BIC: after `m` clusters the accumulator holds the sum of `log det Θ_k - tr(Θ_k S_k)` and the
dict holds every cluster's count of entries above the threshold -/
theorem bic_cluster_loop (logdetOf : Py.Arr2 α → α) (thetas Ss : List (Py.Arr2 α)) (thr init : α) (m : Nat) :
    let s := (List.range m).foldl (fun (s : α × Py.IntMap Int) (k : Nat) =>
        (s.1 + (logdetOf (Py.getItem thetas (k : Int)) - Py.traceDot (Py.getItem thetas (k : Int)) (Py.getItem Ss (k : Int))),
         Py.IntMap.set s.2 (k : Int) (Py.countAbove (Py.getItem thetas (k : Int)) thr))) (init, ([] : Py.IntMap Int))
    s.1 = (List.range m).foldl (fun acc (k : Nat) =>
        acc + (logdetOf (Py.getItem thetas (k : Int)) - Py.traceDot (Py.getItem thetas (k : Int)) (Py.getItem Ss (k : Int)))) init ∧
    ∀ k, k < m → Py.IntMap.get s.2 (k : Int) = Py.countAbove (Py.getItem thetas (k : Int)) thr := by
  induction m with
  | zero => simp
  | succ j ih =>
    simp only [List.range_succ, List.foldl_append, List.foldl_cons, List.foldl_nil]
    obtain ⟨h1, h2⟩ := ih
    refine ⟨by rw [h1], ?_⟩
    intro k hk
    rw [intMap_get_set]
    by_cases hkj : (j : Int) = (k : Int)
    · have : j = k := by exact_mod_cast hkj
      subst this; simp
    · rw [if_neg hkj]
      exact h2 k (by have : j ≠ k := fun h => hkj (by rw [h]); omega)

/-- the translated count `np.sum(np.abs(M) > t)` is the model's `nnz` of the matrix's rows -/
theorem countAbove_eq_nnz (M : Py.Arr2 α) (t : α) : Py.countAbove M t = ((Result.nnz t M.toLists : Nat) : Int) := by
  unfold Py.countAbove Result.nnz Py.Arr2.toLists
  congr 1
  rw [List.map_map]
  have hg : ∀ (l : List Nat) (acc : Nat),
      l.foldl (fun acc r => acc + ((List.range M.cols).filter
          (fun c => decide (t < (if M.get r c < 0 then 0 - M.get r c else M.get r c)))).length) acc
        = (l.map ((fun row => (row.filter (fun x => decide (t < Result.absv x))).length) ∘
            (fun r => (List.range M.cols).map (M.get r)))).foldl (· + ·) acc := by
    intro l
    induction l with
    | nil => intro acc; rfl
    | cons r rest ih =>
      intro acc
      simp only [List.foldl_cons, List.map_cons, Function.comp]
      rw [ih]
      congr 2
      rw [List.filter_map, List.length_map]
      congr 1
      apply List.filter_congr
      intro c _
      simp only [Result.absv, Function.comp, zero_sub]
      congr
  exact hg _ 0

/-- **the translated BIC is the model's BIC**: `P · log T − 2 · Σ_k (log det Θ_k − tr(Θ_k S_k))` with `P` counted run by
run (`Result.runsParams`) from each cluster's number of entries above the threshold the source spells `2e-5`; `log det`
and `log T` are parameters (`np.linalg.slogdet(·)[1]`, `np.log`). -/
theorem bayesian_information_criterion_eq (logdetOf : Py.Arr2 α → α) (logOfInt : Int → α) (K : Nat)
    (thetas Ss : List (Py.Arr2 α)) (labels : List Nat) (hl : ∀ l ∈ labels, l < K) :
    Gen.bayesian_information_criterion logdetOf logOfInt
        ⟨(K : Int), thetas, Ss, labels.map (fun (l : Nat) => (l : Int))⟩
      = Result.bic
          (Result.runsParams (fun (k : Nat) => (Py.countAbove (Py.getItem thetas (k : Int))
              ((((5902958103587057 : Int) : α) / ((295147905179352825856 : Int) : α)))).toNat) labels)
          (logOfInt (labels.length : Int))
          ((List.range K).foldl (fun acc (k : Nat) =>
              acc + (logdetOf (Py.getItem thetas (k : Int)) - Py.traceDot (Py.getItem thetas (k : Int)) (Py.getItem Ss (k : Int)))) 0) := by
  unfold Gen.bayesian_information_criterion
  simp only []
  rw [forEach_range]
  obtain ⟨h1, h2⟩ := bic_cluster_loop logdetOf thetas Ss
    ((((5902958103587057 : Int) : α) / ((295147905179352825856 : Int) : α))) (((0 : Int) : α)) K
  unfold Py.forEach
  have hd : ∀ k, k < K → Py.IntMap.get
      ((List.range K).foldl (fun (s : α × Py.IntMap Int) (k : Nat) =>
        (s.1 + (logdetOf (Py.getItem thetas (k : Int)) - Py.traceDot (Py.getItem thetas (k : Int)) (Py.getItem Ss (k : Int))),
         Py.IntMap.set s.2 (k : Int) (Py.countAbove (Py.getItem thetas (k : Int))
           ((((5902958103587057 : Int) : α) / ((295147905179352825856 : Int) : α)))))) (((0 : Int) : α), ([] : Py.IntMap Int))).2 (k : Int)
      = (((Py.countAbove (Py.getItem thetas (k : Int))
           ((((5902958103587057 : Int) : α) / ((295147905179352825856 : Int) : α)))).toNat : Nat) : Int) := by
    intro k hk
    rw [h2 k hk]
    unfold Py.countAbove
    simp
  have hr := runs_loop _ _ K hd labels hl 0 none
  simp only [encLast] at hr
  rw [hr, h1]
  unfold Result.bic Result.runsParams Py.len
  simp

end
end FastTicc.Translated

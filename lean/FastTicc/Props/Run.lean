/-
Whole-run theorems: the composed model (`Run.run`) inherits the main-loop theorems (C09), the
kernel's optimality (C01) and the membership / statistics definitions (C12, C13) — for every
input, every oracle (ADMM outputs, random draws, needy-set orders) and every limit.
Helper lemmas live in `FastTicc/Proofs/Run.lean`.
-/
import FastTicc.Model.Run
import FastTicc.Props.Compose
import FastTicc.Props.C08
import FastTicc.Proofs.Run
import Mathlib.Algebra.Order.Field.Basic

namespace FastTicc.Run
open FastTicc FastTicc.Viterbi

variable {α : Type} [Field α] [LinearOrder α] [IsStrictOrderedRing α]

/-- a labelling of the `T` windows with labels `< K`. -/
def ValidLabelling (inp : Input α) (ls : List Nat) : Prop := ls.length = inp.T ∧ ∀ l ∈ ls, l < inp.K

/-- every labelling a run ever holds (after every round) labels each of the `T` windows with a label
in `[0, K)` — through repopulation, refitting and relabelling. -/
theorem run_labels_valid (inp : Input α) (orc : Oracles α) (hK : 0 < inp.K) (hT : 0 < inp.T)
    (hm : 1 ≤ inp.m) (limit : Nat) (init : List Nat) (hinit : ValidLabelling inp init)
    (r : MainLoop.Outcome (St α)) (h : run inp orc limit init = .ok r) :
    ∀ s ∈ r.history, ValidLabelling inp s.labels := by
  -- `hm` and `hinit` are not needed: `history` only records states *after* a `relabel`, and the
  -- kernel always returns `T` labels `< K`.  (For the intermediate, post-repopulation labelling see
  -- `repop_phase_keeps_valid` below.)
  have _ := hm
  have _ := hinit
  intro s hs
  obtain ⟨j, hj⟩ := List.mem_iff_getElem?.mp hs
  have S := run_spec' inp orc h
  have hlt : j < r.rounds := by
    rw [← S.len]
    exact (List.getElem?_eq_some_iff.mp hj).1
  obtain ⟨_, s1, _, _, e2⟩ := history_entry inp orc h j hlt
  rw [hj] at e2
  cases e2
  exact relab_labels_valid inp orc _ hK hT

/-- ADDED (not seeded): the labelling *between* the phases.  `run_labels_valid` only speaks about the
recorded states, which are all kernel outputs; the labelling the `stats` phase fits — the output of
the repopulation — is valid as soon as the input labelling is and the recipients the needy-set
oracle names are clusters (`< K`).  Nothing is needed about `pick`, `spread` or `m`: `movePoints`
only ever writes the recipient's label, and `List.set` keeps the length. -/
theorem repop_phase_keeps_valid (inp : Input α) (orc : Oracles α) (s s' : St α)
    (hord : ∀ e ∈ orc.order s.round, e < inp.K) (hs : ValidLabelling inp s.labels)
    (h : (phases inp orc).repop s = .ok s') : ValidLabelling inp s'.labels := by
  rw [repop_eq] at h
  cases hrep : Repop.repopulate inp.K inp.m (orc.spread s.round) (orc.pick s.round)
      (orc.order s.round) s.labels with
  | none => rw [hrep] at h; cases h
  | some l =>
    rw [hrep] at h
    cases h
    obtain ⟨a, b⟩ := repopulate_valid inp.K inp.m _ _ _ _ l hord hs.2 hrep
    exact ⟨a.trans hs.1, b⟩

/-- … and `hord` cannot be dropped: a recipient `≥ K` named by the order oracle is written into the
labelling (`K = 2`, `m = 1`, labels `[0,0,0,0]`, order `[5]`, draw `[0]`: result `[5,0,0,0]`). -/
theorem repop_phase_needs_recipients_below_K :
    ∃ (inp : Input Rat) (orc : Oracles Rat) (s s' : St Rat),
      ValidLabelling inp s.labels ∧ (phases inp orc).repop s = .ok s' ∧
        ¬ ValidLabelling inp s'.labels := by
  refine ⟨⟨4, 1, 2, 1, fun _ _ => 0, [], 0, 0⟩,
    ⟨fun _ _ _ _ => 0, fun _ _ => 0, fun _ _ => 0, fun _ => [5], fun _ _ _ => [0]⟩,
    ⟨[0, 0, 0, 0], 0, 0, [], []⟩, ⟨[5, 0, 0, 0], 0, 0, [], []⟩, ?_, ?_, ?_⟩
  · exact ⟨rfl, by decide⟩
  · have : Repop.repopulate 2 1 (fun _ : Nat => (0 : Rat)) (fun _ _ => [0]) [5] [0, 0, 0, 0]
        = some [5, 0, 0, 0] := by
      have h1 : Repop.needy 2 [0, 0, 0, 0] ≠ [] := by decide
      have h2 : Repop.rankedDonors (fun _ : Nat => (0 : Rat)) 2 1 [0, 0, 0, 0] = [0] := by decide
      simp only [Repop.repopulate, h1, if_false, h2, Repop.refill]
      rw [Repop.findDonor]
      decide
    simp only [phases, this]
  · rintro ⟨_, h2⟩
    exact absurd (h2 5 (by simp)) (by decide)

/-- the round counter the oracles are indexed by is the loop's round index. -/
theorem run_round_counter (inp : Input α) (orc : Oracles α) (limit : Nat) (init : List Nat)
    (r : MainLoop.Outcome (St α)) (h : run inp orc limit init = .ok r) (j : Nat) (hj : j < r.rounds) :
    ∃ s, r.history[j]? = some s ∧ s.round = j + 1 := by
  exact history_round inp orc h j hj

omit [LinearOrder α] [IsStrictOrderedRing α] in
/-- ADDED: the stored mean table is the pointwise definition — inside the table's bounds, entry
`(k, j)` of `meanTable` is the mean of column `j` over exactly the members of cluster `k`. -/
theorem meanOf_meanTable (inp : Input α) (labels ls fl : List Nat) (r : Nat) (c : α) (k j : Nat)
    (hk : k < inp.K) (hj : j < inp.d) :
    meanOf (⟨ls, r, c, meanTable inp labels, fl⟩ : St α) k j
      = Numeric.clusterMean inp.data (Repop.members labels k) j := by
  simp [meanOf, meanTable, List.getD_eq_getElem?_getD, hk, hj]

/-- the labelling a run returns is a minimum-cost labelling of the cost table built from the model it
returns: the means of exactly the windows each cluster held when it was fitted in the last round,
and that round's MRFs (C09 + C01 + C12 composed). -/
theorem run_returned_optimal (inp : Input α) (orc : Oracles α) (hK : 0 < inp.K) (hT : 0 < inp.T)
    (hb : ∀ b ∈ inp.betas, 0 ≤ b) (limit : Nat) (hl : 1 ≤ limit) (init : List Nat)
    (r : MainLoop.Outcome (St α)) (h : run inp orc limit init = .ok r) :
    ∃ sFit : St α,
      sFit.means = meanTable inp sFit.labels ∧
      r.final.labels = (viterbi inp.K (costPoints inp orc sFit)).1 ∧
      r.final.cost = totalCost (costPoints inp orc sFit) r.final.labels ∧
      ∀ q, q.length = inp.T → (∀ l ∈ q, l < inp.K) →
        totalCost (costPoints inp orc sFit) r.final.labels ≤ totalCost (costPoints inp orc sFit) q := by
  have S := run_spec' inp orc h
  have h1 := S.lo' hl
  obtain ⟨_, s1, _, _, e2⟩ := history_entry inp orc h (r.rounds - 1) (by omega)
  rw [S.last (by omega)] at e2
  have hfin : r.final = relab inp orc (fit inp s1) := Option.some.inj e2
  have hne := costPoints_ne_nil inp orc (fit inp s1) hT
  have hbn := costPoints_betaNonneg inp orc (fit inp s1) hb
  have hlab : r.final.labels = (viterbi inp.K (costPoints inp orc (fit inp s1))).1 := by
    rw [hfin, ← viterbiFast_eq inp.K hK]
    rfl
  have hcost : r.final.cost = (viterbi inp.K (costPoints inp orc (fit inp s1))).2 := by
    rw [hfin, ← viterbiFast_eq inp.K hK]
    rfl
  obtain ⟨_, hopt⟩ := viterbi_returns_minimiser inp.K hK _ hne hbn
  refine ⟨fit inp s1, rfl, hlab, ?_, ?_⟩
  · rw [hcost, hlab]
    exact viterbi_cost_is_cost_of_path inp.K hK _ hne hbn
  · intro q hq1 hq2
    rw [hlab]
    exact hopt q ⟨by rw [costPoints_length]; exact hq1, hq2⟩

/-- a run fails only with the donor-shortage error of a repopulation or the empty-cluster assertion of
a statistics phase (the other modelled phases are total). -/
theorem run_error_kinds (inp : Input α) (orc : Oracles α) (limit : Nat) (init : List Nat) (e : String)
    (h : run inp orc limit init = .error e) : e = "no-donor" ∨ e = "empty-cluster" := by
  obtain ⟨j, sPrev, _, hr⟩ :=
    MainLoop.run_error_from_a_round (phases inp orc) (fun s => s.labels) limit _ e h
  exact round_error_kinds inp orc j sPrev e hr

/-- the first round (no repopulation) fails with the empty-cluster assertion exactly when the
labelling it starts from — the initial (mixture-model) labelling — leaves a cluster without windows. -/
theorem first_round_empty_cluster_iff (inp : Input α) (orc : Oracles α) (s : St α) :
    MainLoop.round (phases inp orc) 0 s = .error "empty-cluster" ↔ hasEmpty inp.K s.labels = true := by
  rcases round_cases inp orc 0 s with ⟨s1, _, h1, he, h2⟩ | ⟨hi, _, _⟩ | ⟨s1, h1, he, h2⟩
  · have : s1 = s := by simpa [fittedInput] using h1.symm
    subst this
    rw [h2, he]
    simp
  · omega
  · have : s1 = s := by simpa [fittedInput] using h1.symm
    subst this
    rw [h2, he]
    simp

/-- after a successful repopulation no cluster is empty (`m ≥ 1`, admissible draws, the needy clusters
visited in some order): recipients gained `m`, donors keep at least `m`, the others keep what they had. -/
theorem repop_leaves_no_empty_cluster {β : Type} [LT β] [DecidableLT β] (K m : Nat) (spread : Nat → β)
    (pick : Nat → Nat → List Nat) (order labels labels' : List Nat) (hm : 1 ≤ m)
    (hK : Repop.AllBelow K labels) (hp : Repop.ValidPick m pick) (ho : order.Perm (Repop.needy K labels))
    (h : Repop.repopulate K m spread pick order labels = some labels') :
    hasEmpty K labels' = false := by
  unfold hasEmpty
  rw [Bool.eq_false_iff]
  intro hany
  obtain ⟨k, hk, hz⟩ := List.any_eq_true.mp hany
  have hkK : k < K := List.mem_range.mp hk
  have hz' : Repop.size labels' k = 0 := by simpa using hz
  by_cases hn : k ∈ Repop.needy K labels
  · have := Repop.repop_recipients K m spread pick order labels labels' hm hK hp ho h k hn
    omega
  · have hsz : ¬ Repop.size labels k < Constants.emptyBelow := by
      intro hlt
      exact hn (by simp [Repop.needy, hkK, hlt])
    have h2 : 2 ≤ Repop.size labels k := by
      have : Constants.emptyBelow = 2 := rfl
      omega
    have hd := Repop.repop_donors K m spread pick order labels labels' hm hK hp ho h k (by omega)
    omega

/-- hence a round that repopulates (every round but the first) never fails with the empty-cluster
assertion, provided the needy-set oracle of that round enumerates the needy clusters and the draws
are admissible: the only failure left for it is the donor shortage. -/
theorem later_round_never_empty_cluster (inp : Input α) (orc : Oracles α) (i : Nat) (hi : 0 < i) (s : St α)
    (hm : 1 ≤ inp.m) (hK : Repop.AllBelow inp.K s.labels) (hp : Repop.ValidPick inp.m (orc.pick s.round))
    (ho : (orc.order s.round).Perm (Repop.needy inp.K s.labels)) :
    MainLoop.round (phases inp orc) i s ≠ .error "empty-cluster" := by
  intro herr
  rcases round_cases inp orc i s with ⟨s1, _, _, _, h2⟩ | ⟨_, _, h2⟩ | ⟨s1, h1, he, _⟩
  · rw [h2] at herr; cases herr
  · rw [h2] at herr
    exact absurd (Except.error.inj herr) (by decide)
  · simp only [fittedInput, hi, if_true] at h1
    rw [repop_eq] at h1
    cases hrep : Repop.repopulate inp.K inp.m (orc.spread s.round) (orc.pick s.round)
        (orc.order s.round) s.labels with
    | none => rw [hrep] at h1; cases h1
    | some l =>
      rw [hrep] at h1
      cases h1
      have := repop_leaves_no_empty_cluster inp.K inp.m _ _ _ _ l hm hK hp ho hrep
      rw [this] at he
      cases he

end FastTicc.Run

/-
Whole-solve theorems: `AdmmSolve.solve` — the translated sweep, the concrete Z and U updates, the
stopping rule on recorded norms and the loop, composed — for every covariance-dependent oracle (the X
update's outputs, the norms), every sparsity weight, every (N, W) and every budget:
the number of sweeps is within the budget and at least two when the budget allows; what is returned is
the X update's output of the last sweep performed; the state of every sweep is X from the oracle, Z the
class-wise soft threshold of (X, U) — constant on every Toeplitz class —, and U = U + X − Z.
-/
import FastTicc.Model.AdmmSolve
import FastTicc.Props.Compose
import FastTicc.Props.C02

namespace FastTicc.AdmmSolve
open FastTicc FastTicc.MainLoop FastTicc.Numeric FastTicc.Index

variable {α : Type} [Field α] [LinearOrder α] [IsStrictOrderedRing α]

/-- one sweep, spelled out: X is the oracle's output for this sweep, Z is computed from the NEW X and the
old U, U from the old U, the new X and the new Z. -/
theorem step_spec (rho : α) (lam : Lambda α) (N W : Nat) (orc : Oracles α) (s : Admm (St α)) :
    let x' := orc.x s.x.it
    let z' := zUpdate rho lam N W s.x.u x'
    (step rho lam N W orc s).x = ⟨s.x.it + 1, z', uUpdate s.x.u x' z', x'⟩ ∧
    (step rho lam N W orc s).z = (step rho lam N W orc s).x ∧
    (step rho lam N W orc s).u = (step rho lam N W orc s).x := by
  intro x' z'
  refine ⟨?_, rfl, rfl⟩
  unfold step
  simp only [sweep_translated_eq_spec, sweepSpec]
  rfl

/-- the number of sweeps is between 1 and the budget, and at least 2 when the budget allows: the rule is
never consulted after the first sweep. -/
theorem solve_sweeps_bounds (rho : α) (lam : Lambda α) (N W maxIter : Nat) (sqrtN absTol relTol slack : α)
    (orc : Oracles α) (len : Nat) (hm : 1 ≤ maxIter) :
    1 ≤ (solve rho lam N W maxIter sqrtN absTol relTol slack orc len).2 ∧
    (solve rho lam N W maxIter sqrtN absTol relTol slack orc len).2 ≤ maxIter ∧
    (2 ≤ maxIter → 2 ≤ (solve rho lam N W maxIter sqrtN absTol relTol slack orc len).2) := by
  set zero : St α := ⟨0, List.replicate len 0, List.replicate len 0, List.replicate len 0⟩
  have b := admm_iterations_bounds (step rho lam N W orc) (stop sqrtN absTol relTol slack orc)
    (fun s _ => s) maxIter hm zero
  refine ⟨b.1, b.2, fun h2 => ?_⟩
  exact admm_first_sweep_never_stops (step rho lam N W orc) (stop sqrtN absTol relTol slack orc)
    (fun s _ => s) maxIter h2 zero

/-- what the solver returns is a state produced by a sweep: its X is the X update's output of that sweep
(returned as is — the solver returns X, not the sparse Z), its Z is the Z update of that X, and that Z is
constant on every Toeplitz class. -/
theorem solve_returns_sweep_state (rho : α) (lam : Lambda α) (N W maxIter : Nat) (hN : 0 < N)
    (sqrtN absTol relTol slack : α) (orc : Oracles α) (hm : 1 ≤ maxIter)
    (hx : ∀ i, (orc.x i).length = (N * W) * (N * W + 1) / 2) :
    let r := (solve rho lam N W maxIter sqrtN absTol relTol slack orc ((N * W) * (N * W + 1) / 2)).1
    ∃ uPrev : List α, ∃ i : Nat,
      r.x = orc.x i ∧ r.z = zUpdate rho lam N W uPrev (orc.x i) ∧ r.u = uUpdate uPrev (orc.x i) r.z ∧
      ∀ k ∈ classes N W, ∀ j ∈ locCompressed k.1 k.2.1 k.2.2 N W,
        r.z[j]? = some (classValue rho lam (fun t => (orc.x i).getD t 0 + uPrev.getD t 0) k.1 k.2.1 k.2.2 N W) := by
  intro r
  set zero : St α := ⟨0, List.replicate ((N * W) * (N * W + 1) / 2) 0,
    List.replicate ((N * W) * (N * W + 1) / 2) 0, List.replicate ((N * W) * (N * W + 1) / 2) 0⟩
  obtain ⟨sPrev, hs⟩ := admm_returns_last_x (step rho lam N W orc) (stop sqrtN absTol relTol slack orc)
    (fun s _ => s) (fun _ _ => rfl) maxIter hm zero
  have hr : r = (step rho lam N W orc sPrev).x := hs
  obtain ⟨h1, _, _⟩ := step_spec rho lam N W orc sPrev
  rw [h1] at hr
  refine ⟨sPrev.x.u, sPrev.x.it, by rw [hr], by rw [hr], by rw [hr], ?_⟩
  intro k hk j hj
  rw [hr]
  exact zUpdate_toeplitz rho lam N W hN sPrev.x.u (orc.x sPrev.x.it) (hx _) k hk j hj

/-- non-vacuity: a 1×1 problem (N = W = 1) whose X oracle returns 1/2 every sweep and whose rule fires at
the second sweep returns X = 1/2 after two sweeps with Z = soft-threshold((1/2 + u)·1, λ, 1). -/
example :
    let orc : Oracles Rat := ⟨fun _ => [1/2], fun _ => ⟨0, 0, 0, 0, 0⟩⟩
    (solve (1 : Rat) (.scalar (1/4)) 1 1 10 1 0 0 1 orc 1).2 = 2 ∧
    (solve (1 : Rat) (.scalar (1/4)) 1 1 10 1 0 0 1 orc 1).1.x = [1/2] := by
  decide +kernel

end FastTicc.AdmmSolve

/-
Property C13 — model state: labels and cluster membership always describe one partition.
Property theorems only; helper lemmas live in `FastTicc/Proofs/Heap.lean`.
-/
import FastTicc.Model.Heap
import FastTicc.Proofs.Heap

namespace FastTicc.Heap

/-- ownership discipline of the algorithm's states: every state has `K` distinct, allocated
cluster objects, no cluster object belongs to two states, and every state's argument bundle is
an allocated object. -/
structure Owned (h : Heap) : Prop where
  wf : ∀ (s : Nat) (st : State), h.states[s]? = some st →
    st.clusters.Nodup ∧ (∀ r ∈ st.clusters, r < h.clusters.length) ∧
    st.clusters.length = (h.argsOf st.args).K
  sep : ∀ (s t : Nat) (ss st : State), s ≠ t → h.states[s]? = some ss → h.states[t]? = some st →
    ∀ r ∈ ss.clusters, r ∉ st.clusters
  args : ∀ (s : Nat) (st : State), h.states[s]? = some st → st.args < h.args.length

/-- `Owned` is the predicate `OwnedP` the helper lemmas are stated with. -/
theorem owned_iff (h : Heap) : Owned h ↔ OwnedP h :=
  ⟨fun ⟨a, b, c⟩ => ⟨a, b, c⟩, fun ⟨a, b, c⟩ => ⟨a, b, c⟩⟩

/-- the scoring cache of a state is in step with its fitted MRFs (true after `optPhase`). -/
def Scored (h : Heap) (s : Nat) : Prop :=
  ∀ st : State, h.states[s]? = some st → ∀ r ∈ st.clusters,
    (h.cluster r).logDet = (h.cluster r).trainInv.map (·.val)

/-- every cluster of the state carries fitted statistics (true after `statsPhase` + `optPhase`):
none of the array-valued attributes the view reports is still `None`. -/
def Fitted (h : Heap) (s : Nat) : Prop :=
  ∀ st : State, h.states[s]? = some st → ∀ r ∈ st.clusters,
    (h.cluster r).mean ≠ none ∧ (h.cluster r).empCov ≠ none ∧
    (h.cluster r).trainInv ≠ none ∧ (h.cluster r).computedCov ≠ none

def Inv (h : Heap) (s : Nat) : Prop := InvB h s = true

/-- assigning a new labelling re-derives membership immediately: afterwards the state satisfies
the partition invariant (whenever the labelling differs from the current one — an equal
labelling is a no-op and keeps whatever held before). -/
theorem assign_establishes_inv (h : Heap) (ho : Owned h) (s : Nat) (st : State)
    (hs : h.states[s]? = some st) (lab : Nat × List Nat)
    (hne : st.labels.map (·.2) ≠ some lab.2 ∨ Inv h s) :
    Inv (assign h s lab) s :=
  assign_inv ((owned_iff h).mp ho) hs lab hne

/-- … and touches no other state (under the ownership discipline). -/
theorem assign_frame (h : Heap) (ho : Owned h) (s t : Nat) (hts : t ≠ s) (lab : Nat × List Nat) :
    view (assign h s lab) t = view h t :=
  (assign_frame_P ((owned_iff h).mp ho) hts lab).1

/-- assigning through a *shallow* copy is the documented hazard: it rewrites the membership of
cluster objects the source still uses, breaking the source's invariant.  (This is why the phases
deep-copy the clusters before assigning.) -/
theorem shallow_assign_hazard :
    ∃ (h : Heap) (s : Nat), Owned h ∧ Inv h s ∧
      let (n, h1) := shallowState h s
      let h2 := assign h1 n (h1.next, [0, 0])
      ¬ Inv h2 s := by
  exact ⟨hazardHeap, 0, (owned_iff _).mpr hazard_owned, hazard_inv,
    fun hc => Bool.false_ne_true (hazard_broken.symm.trans hc)⟩

/-- a deep copy shares nothing mutable with its source (repaired argument copy). -/
theorem deepCopy_disjoint (h : Heap) (ho : Owned h) (s : Nat) (st : State)
    (hs : h.states[s]? = some st)
    (hfresh : ∀ o ∈ reachable h s, ∀ i, o = .obj i → i < h.next) :
    let (n, h') := deepState true h s
    ∀ o ∈ reachable h' n, o ∉ reachable h' s :=
  deepCopy_disjoint_P ((owned_iff h).mp ho) hs hfresh

/-- … and has the same observable content, provided the source's cluster references are
allocated objects and its clusters are fitted (`np.copy(None)` is an array, not `None`). -/
theorem deepCopy_same_view (repaired : Bool) (h : Heap) (s : Nat) (st : State)
    (hs : h.states[s]? = some st) (hal : ∀ r ∈ st.clusters, r < h.clusters.length)
    (hfit : Fitted h s) :
    let (n, h') := deepState repaired h s
    view h' n = view h s ∧ view h' s = view h s :=
  deepCopy_same_view_P repaired hs hal (hfit st hs)

/-- the pinned argument copy still shares an array-valued sparsity weight with its source. -/
theorem deepCopy_pinned_shares :
    ∃ (h : Heap) (s : Nat), Owned h ∧
      let (n, h') := deepState false h s
      ∃ o, o ∈ reachable h' n ∧ o ∈ reachable h' s :=
  ⟨pinnedHeap, 0, (owned_iff _).mpr pinned_owned, .obj 0, pinned_shared⟩

/-- frame + invariant for each phase: every state that existed before the call has the same
labels, membership, mean, empirical covariance, MRF, computed covariance and log-determinant
after it, the ownership discipline is kept, and the returned state satisfies the invariant. -/
theorem repop_phase_spec (h : Heap) (ho : Owned h) (s : Nat) (hi : Inv h s) (moves : List (List Nat)) :
    let (n, h') := repopPhase h s moves
    Owned h' ∧ Inv h' n ∧ ∀ t, t < h.states.length → view h' t = view h t := by
  obtain ⟨a, b, c⟩ := repop_phase_P ((owned_iff h).mp ho) hi moves
  exact ⟨(owned_iff _).mpr a, b, fun t ht => (c t ht).1⟩

theorem stats_phase_spec (h : Heap) (ho : Owned h) (s : Nat) (hi : Inv h s) :
    let (n, h') := statsPhase h s
    Owned h' ∧ Inv h' n ∧ (view h' n).map (·.labels) = (view h s).map (·.labels) ∧
      ∀ t, t < h.states.length → view h' t = view h t := by
  obtain ⟨a, b, c, d⟩ := stats_phase_P ((owned_iff h).mp ho) hi
  exact ⟨(owned_iff _).mpr a, b, c, fun t ht => (d t ht).1⟩

theorem opt_phase_spec (h : Heap) (ho : Owned h) (s : Nat) (hi : Inv h s) :
    let (n, h') := optPhase h s
    Owned h' ∧ Inv h' n ∧ Scored h' n ∧ (view h' n).map (·.labels) = (view h s).map (·.labels) ∧
      ∀ t, t < h.states.length → view h' t = view h t := by
  obtain ⟨a, b, c, d, e⟩ := opt_phase_P ((owned_iff h).mp ho) hi
  exact ⟨(owned_iff _).mpr a, b, c, d, fun t ht => (e t ht).1⟩

theorem relabel_phase_spec (h : Heap) (ho : Owned h) (s : Nat) (hi : Inv h s) (hsc : Scored h s)
    (newLabels : List Nat) (cost : Nat) :
    let (n, h') := relabelPhase h s newLabels cost
    Owned h' ∧ Inv h' n ∧ (view h' n).bind (·.labels) = some newLabels ∧
      ∀ t, t < h.states.length → view h' t = view h t := by
  obtain ⟨a, b, c, d⟩ := relabel_phase_P ((owned_iff h).mp ho) hi hsc newLabels cost
  exact ⟨(owned_iff _).mpr a, b, c, fun t ht => (d t ht).1⟩

/-- one whole round (optional repopulation, statistics, optimisation, relabelling) keeps the
discipline, hands on a state satisfying the invariant, and leaves every earlier state as it was. -/
theorem round_spec (h : Heap) (ho : Owned h) (s : Nat) (hi : Inv h s)
    (moves : List (List Nat)) (newLabels : List Nat) (cost : Nat) :
    let (s1, h1) := repopPhase h s moves
    let (s2, h2) := statsPhase h1 s1
    let (s3, h3) := optPhase h2 s2
    let (s4, h4) := relabelPhase h3 s3 newLabels cost
    Owned h4 ∧ Inv h4 s4 ∧ Inv h4 s1 ∧ Inv h4 s2 ∧ Inv h4 s3 ∧
      ∀ t, t < h.states.length → view h4 t = view h t := by
  obtain ⟨o1, i1, f1⟩ := repop_phase_P ((owned_iff h).mp ho) hi moves
  have l1 := (repopPhase_grow h s moves).len
  generalize repopPhase h s moves = p1 at *
  obtain ⟨s1, h1⟩ := p1
  simp only at o1 i1 f1 l1 ⊢
  obtain ⟨o2, i2, -, f2⟩ := stats_phase_P o1 i1
  have l2 := (statsPhase_grow h1 s1).len
  generalize statsPhase h1 s1 = p2 at *
  obtain ⟨s2, h2⟩ := p2
  simp only at o2 i2 f2 l2 ⊢
  obtain ⟨o3, i3, sc3, -, f3⟩ := opt_phase_P o2 i2
  have l3 := (optPhase_grow h2 s2).len
  generalize optPhase h2 s2 = p3 at *
  obtain ⟨s3, h3⟩ := p3
  simp only at o3 i3 sc3 f3 l3 ⊢
  obtain ⟨o4, i4, -, f4⟩ := relabel_phase_P o3 i3 sc3 newLabels cost
  generalize relabelPhase h3 s3 newLabels cost = p4 at *
  obtain ⟨s4, h4⟩ := p4
  simp only at o4 i4 f4 ⊢
  have b1 : s1 < h1.states.length := by
    obtain ⟨st, e⟩ := exists_of_InvB i1; exact (List.getElem?_eq_some_iff.mp e).1
  have b2 : s2 < h2.states.length := by
    obtain ⟨st, e⟩ := exists_of_InvB i2; exact (List.getElem?_eq_some_iff.mp e).1
  have b3 : s3 < h3.states.length := by
    obtain ⟨st, e⟩ := exists_of_InvB i3; exact (List.getElem?_eq_some_iff.mp e).1
  refine ⟨(owned_iff _).mpr o4, i4, ?_, ?_, ?_, fun t ht => ?_⟩
  · exact ((f4 s1 (by omega)).2.trans ((f3 s1 (by omega)).2.trans (f2 s1 b1).2)).trans i1
  · exact ((f4 s2 (by omega)).2.trans (f3 s2 b2).2).trans i2
  · exact (f4 s3 b3).2.trans i3
  · exact (f4 t (by omega)).1.trans ((f3 t (by omega)).1.trans ((f2 t (by omega)).1.trans (f1 t ht).1))

/-- the initial model, once labelled, satisfies the discipline and the invariant. -/
theorem init_spec (K : Nat) (ls : List Nat) (hne : ls ≠ []) :
    let h0 : Heap := ⟨[], [⟨.scalar 0, .scalar 0, K⟩], [], 2⟩
    let (s, h1) := emptyModel h0 0 ⟨0, 0⟩
    let h2 := assign h1 s (1, ls)
    Owned h2 ∧ Inv h2 s := by
  have _ := hne  -- not needed: an empty labelling clears every member list
  obtain ⟨a, b⟩ := init_P K ls
  exact ⟨(owned_iff _).mpr a, b⟩

end FastTicc.Heap

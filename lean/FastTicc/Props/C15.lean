/-
Property C15 — the parallel likelihood loop writes disjoint cells (scheduling skeleton).
Property theorems only; helper lemmas live in `FastTicc/Proofs/MainLoop.lean`.
The kernels' reference semantics are the models of C01 and C05; Numba/LLVM is trusted base.
-/
import FastTicc.Model.MainLoop
import FastTicc.Proofs.MainLoop

namespace FastTicc.MainLoop

/-- a table filled by any interleaving of threads over the flat cell range, each cell written
(at least) once with a value that depends only on the cell, equals the sequential table. -/
theorem parallel_fill_schedule_independent {β : Type} (g : Nat → β) (init : List β) (order : List Nat)
    (hall : ∀ i, i < init.length → i ∈ order) (hin : ∀ i ∈ order, i < init.length) :
    fill g init order = (List.range init.length).map g := by
  -- `hin` is not needed: an out-of-range write is a no-op of `List.set`.
  have _ := hin
  exact fill_all g init order hall

/-- in particular the result does not depend on the thread count / chunking: any two
permutations of the cell range give the same table. -/
theorem parallel_fill_any_two_orders {β : Type} (g : Nat → β) (init : List β) (o₁ o₂ : List Nat)
    (h₁ : o₁.Perm (List.range init.length)) (h₂ : o₂.Perm (List.range init.length)) :
    fill g init o₁ = fill g init o₂ := by
  have m₁ : ∀ k, k < init.length → k ∈ o₁ := fun k hk => h₁.mem_iff.2 (List.mem_range.2 hk)
  have m₂ : ∀ k, k < init.length → k ∈ o₂ := fun k hk => h₂.mem_iff.2 (List.mem_range.2 hk)
  rw [fill_all g init o₁ m₁, fill_all g init o₂ m₂]

/-- non-vacuity. -/
example : fill (fun i => i * i) [0, 0, 0, 0] [2, 0, 3, 1] = [0, 1, 4, 9] := by
  decide

end FastTicc.MainLoop

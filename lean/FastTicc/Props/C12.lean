/-
Property C12 — each cluster is fitted to exactly its own windows, with the requested estimator.
Property theorems only; helper lemmas live in `FastTicc/Proofs/Stats.lean`.
-/
import FastTicc.Model.Numeric
import FastTicc.Model.Repop
import FastTicc.Proofs.Stats
import Mathlib.Algebra.Order.Field.Basic
import Mathlib.Tactic.Ring
import Mathlib.Tactic.Linarith
import Mathlib.Tactic.FieldSimp
import Mathlib.Tactic.NormNum

namespace FastTicc.Numeric

variable {α : Type} [Field α] [LinearOrder α] [IsStrictOrderedRing α]

-- the order structure is part of the stated context but several identities hold in any field
set_option linter.unusedSectionVars false

/-- the mean is the sum over exactly the member rows divided by their number. -/
theorem clusterMean_spec (data : ℕ → ℕ → α) (members : List ℕ) (j : ℕ) :
    clusterMean data members j = (members.map (fun i => data i j)).sum / (members.length : α) := by
  unfold clusterMean
  rw [sumOver_eq_sum]

/-- the covariance divides by `n` when the biased estimator is requested and by `n − 1` otherwise. -/
theorem cov_divisor (data : ℕ → ℕ → α) (members : List ℕ) (a b : ℕ) :
    let ma := clusterMean data members a
    let mb := clusterMean data members b
    let s := (members.map (fun i => (data i a - ma) * (data i b - mb))).sum
    clusterCov data members true a b = s / (members.length : α) ∧
    clusterCov data members false a b = s / ((members.length : α) - 1) := by
  intro ma mb s
  constructor
  · simp only [clusterCov, sumOver_eq_sum, if_true, sub_zero]
    rfl
  · simp only [clusterCov, sumOver_eq_sum, Bool.false_eq_true, if_false, Nat.cast_one]
    rfl

/-- the two estimators differ exactly by the factor `n/(n−1)` (`n ≥ 2`). -/
theorem cov_biased_unbiased (data : ℕ → ℕ → α) (members : List ℕ) (a b : ℕ)
    (hn : 2 ≤ members.length) :
    clusterCov data members false a b * ((members.length : α) - 1)
      = clusterCov data members true a b * (members.length : α) := by
  obtain ⟨ht, hf⟩ := cov_divisor data members a b
  rw [ht, hf]
  have h2 : (2 : α) ≤ (members.length : α) := by exact_mod_cast hn
  have hn0 : (members.length : α) ≠ 0 := by
    have : (0 : α) < (members.length : α) := by linarith
    exact ne_of_gt this
  have hn1 : (members.length : α) - 1 ≠ 0 := by
    have : (0 : α) < (members.length : α) - 1 := by linarith
    exact ne_of_gt this
  rw [div_mul_cancel₀ _ hn1, div_mul_cancel₀ _ hn0]

/-- statistics do not depend on the order of the member list … -/
theorem stats_perm_invariant (data : ℕ → ℕ → α) (m₁ m₂ : List ℕ) (h : m₁.Perm m₂)
    (biased : Bool) (a b : ℕ) :
    clusterMean data m₁ a = clusterMean data m₂ a ∧
    clusterCov data m₁ biased a b = clusterCov data m₂ biased a b := by
  have hm : ∀ j, clusterMean data m₁ j = clusterMean data m₂ j := by
    intro j
    unfold clusterMean
    rw [sumOver_perm h, h.length_eq]
  refine ⟨hm a, ?_⟩
  unfold clusterCov
  simp only [hm, sumOver_perm h, h.length_eq]

/-- … and use no row outside the cluster: two data sets that agree on the rows labelled `k`
give cluster `k` the same mean and covariance (no other window contributes). -/
theorem stats_only_own_rows (data data' : ℕ → ℕ → α) (labels : List ℕ) (k : ℕ)
    (h : ∀ i j, labels[i]? = some k → data i j = data' i j) (biased : Bool) (a b : ℕ) :
    clusterMean data (Repop.members labels k) a = clusterMean data' (Repop.members labels k) a ∧
    clusterCov data (Repop.members labels k) biased a b
      = clusterCov data' (Repop.members labels k) biased a b := by
  have hrow : ∀ i ∈ Repop.members labels k, ∀ j, data i j = data' i j :=
    fun i hi j => h i j ((mem_members labels k i).mp hi)
  have hm : ∀ j, clusterMean data (Repop.members labels k) j
      = clusterMean data' (Repop.members labels k) j := by
    intro j
    unfold clusterMean
    rw [sumOver_congr _ _ _ (fun i hi => hrow i hi j)]
  refine ⟨hm a, ?_⟩
  unfold clusterCov
  simp only [hm]
  rw [sumOver_congr _ _ _ (fun i hi => by rw [hrow i hi a, hrow i hi b])]

/-- none missing: the member list derived from the labels holds every point labelled `k`, once. -/
theorem members_exact (labels : List ℕ) (k i : ℕ) :
    (i ∈ Repop.members labels k ↔ labels[i]? = some k) ∧ (Repop.members labels k).Nodup := by
  exact ⟨mem_members labels k i, members_nodup labels k⟩

/-- non-vacuity. -/
example :
    let data : ℕ → ℕ → ℚ := fun i j => ([[1, 2], [3, 6], [5, 1]].getD i []).getD j 0
    clusterMean data [0, 1, 2] 0 = 3 ∧ clusterCov data [0, 1, 2] false 0 0 = 4 ∧
    clusterCov data [0, 1, 2] true 0 0 = 8 / 3 := by
  norm_num [clusterMean, clusterCov, sumOver, List.getD]

end FastTicc.Numeric

/-
Property C03 — every MRF is a finite, symmetric, positive-definite precision matrix
(exact-arithmetic skeleton; IEEE cancellation is exhibited by running the same definitions
at `Float` and by scale sweeps on the implementation).
Property theorems only; helper lemmas live in `FastTicc/Proofs/Admm.lean`.
-/
import FastTicc.Model.Numeric
import FastTicc.Proofs.Admm
import Mathlib.Analysis.Real.Sqrt

namespace FastTicc.Numeric

/-- the eigenvalues the X-update assigns are strictly positive for every real `d` and `ρ > 0`. -/
theorem eig_pos (rho d : ℝ) (hrho : 0 < rho) : 0 < eigPinned Real.sqrt rho d := by
  exact Aux.eig_pos rho d hrho

/-- the repaired (cancellation-free) form is the same real number. -/
theorem eig_forms_equal (rho d : ℝ) (hrho : 0 < rho) :
    eigRepaired Real.sqrt rho d = eigPinned Real.sqrt rho d := by
  exact Aux.eig_forms_equal rho d hrho

theorem eig_repaired_pos (rho d : ℝ) (hrho : 0 < rho) : 0 < eigRepaired Real.sqrt rho d := by
  rw [eig_forms_equal rho d hrho]
  exact eig_pos rho d hrho

/-- the denominator of the repaired form never vanishes. -/
theorem eig_repaired_denominator_pos (rho d : ℝ) (hrho : 0 < rho) (hd : d < 0) :
    0 < Real.sqrt (d * d + ((4 : ℕ) : ℝ) * rho) - d := by
  have := Aux.sqrt_sub_pos rho d hrho
  push_cast
  exact this

/-- stationarity of the scalar prox: with `e` the new eigenvalue, `ρ e − 1/e = d`
(the gradient of `−log e + (ρ/2)(e − a)²`-type terms vanishes). -/
theorem eig_stationary (rho d : ℝ) (hrho : 0 < rho) :
    rho * eigPinned Real.sqrt rho d - 1 / eigPinned Real.sqrt rho d = d := by
  rw [one_div]
  exact Aux.eig_stationary rho d hrho

section filter
variable {α : Type} [Field α] [LinearOrder α] [IsStrictOrderedRing α]

/-- covariance floor: no returned entry has magnitude strictly between 0 and eps … -/
theorem floor_filter_no_small (eps x : α) (heps : 0 ≤ eps) :
    ¬ (0 < |floorFilter eps x| ∧ |floorFilter eps x| < eps) := by
  unfold floorFilter
  split_ifs with h
  · simp
  · rintro ⟨_, h2⟩
    exact h ⟨lt_of_le_of_lt (le_abs_self x) h2, by linarith [neg_abs_le x]⟩

/-- … every entry of magnitude ≥ eps is exactly what the optimiser produced … -/
theorem floor_filter_keeps_large (eps x : α) (h : eps ≤ |x|) : floorFilter eps x = x := by
  unfold floorFilter
  rw [if_neg]
  rintro ⟨h1, h2⟩
  exact absurd (abs_lt.2 ⟨h2, h1⟩) (not_lt.2 h)

/-- … every output is either the input or zero … -/
theorem floor_filter_id_or_zero (eps x : α) : floorFilter eps x = x ∨ floorFilter eps x = 0 := by
  unfold floorFilter
  split_ifs
  · exact Or.inr rfl
  · exact Or.inl rfl

/-- … and with no floor requested (eps = 0) the filter is the identity. -/
theorem floor_filter_zero (x : α) : floorFilter 0 x = x := by
  unfold floorFilter
  rw [if_neg]
  rintro ⟨h1, h2⟩
  rw [neg_zero] at h2
  exact lt_asymm h1 h2
end filter

/-- non-vacuity. -/
example : floorFilter (1/2 : ℚ) (1/4) = 0 ∧ floorFilter (1/2 : ℚ) (-1/2) = -1/2 ∧
    floorFilter (1/2 : ℚ) (3) = 3 := by
  norm_num [floorFilter]

end FastTicc.Numeric

/-
TRANSLATED CODE = MODEL (stack_training_data, property C10).  `Generated/Kernels.lean` is rewritten from the Python
AST of `$REPO/src/fast_ticc` by `harness/py2lean.py` on every run; the theorems below are about those generated
definitions and prove, for ALL inputs, that they compute what the hand-written model computes - the model the
property theorems are about.  They only keep checking while the source still says what the model says.
-/
import FastTicc.Generated.Kernels
import FastTicc.Proofs.Translated
import FastTicc.Model.Stack
open FastTicc FastTicc.PyLemmas

namespace FastTicc.Translated
section
variable {α : Type} [Zero α] [Add α] [Sub α] [LT α] [DecidableLT α]

/-- the cell the stacking writes at `(i, c)`: row `i + c / N` of the data, column `c % N` -/
def stackCell (data : Py.Arr2 α) (i c : Nat) : α := data.get (i + c / data.cols) (c % data.cols)

/-- inner loop: after `m` window offsets, the columns `< m * N` of row `i` are filled -/
theorem stack_inner (data : Py.Arr2 α) (W i : Nat) (st : Py.Arr2 α)
    (hcols : st.cols = data.cols * W) (hrow : i < st.rows) (hdata : i + W ≤ data.rows) (m : Nat) (hm : m ≤ W) :
    let s := (List.range m).foldl (fun (s : Py.Arr2 α) (j : Nat) =>
        Py.Arr2.setRowSlice s (i : Int) ((j : Int) * (data.cols : Int)) (((j : Int) + 1) * (data.cols : Int))
          (Py.Arr2.row data ((i : Int) + (j : Int)))) st
    s.rows = st.rows ∧ s.cols = st.cols ∧
    ∀ r c, s.get r c = if r = i ∧ c < m * data.cols then stackCell data i c else st.get r c := by
  induction m with
  | zero => simp
  | succ k ih =>
    obtain ⟨h1, h2, h3⟩ := ih (by omega)
    simp only [List.range_succ, List.foldl_append, List.foldl_cons, List.foldl_nil]
    generalize (List.range k).foldl (fun (s : Py.Arr2 α) (j : Nat) =>
        Py.Arr2.setRowSlice s (i : Int) ((j : Int) * (data.cols : Int)) (((j : Int) + 1) * (data.cols : Int))
          (Py.Arr2.row data ((i : Int) + (j : Int)))) st = s at h1 h2 h3 ⊢
    have hN : (k + 1) * data.cols ≤ data.cols * W := by
      rw [Nat.mul_comm data.cols W]; exact Nat.mul_le_mul_right _ (by omega)
    have hkN : k * data.cols ≤ data.cols * W := by
      rw [Nat.mul_comm data.cols W]; exact Nat.mul_le_mul_right _ (by omega)
    have e1 : (k : Int) * (data.cols : Int) = ((k * data.cols : Nat) : Int) := by push_cast; rfl
    have e2 : ((k : Int) + 1) * (data.cols : Int) = (((k + 1) * data.cols : Nat) : Int) := by push_cast; rfl
    have e3 : (i : Int) + (k : Int) = ((i + k : Nat) : Int) := by push_cast; rfl
    have sb1 : Py.sliceBound s.cols ((k * data.cols : Nat) : Int) = k * data.cols := by
      unfold Py.sliceBound
      have : ¬ (((k * data.cols : Nat) : Int) < 0) := by omega
      rw [if_neg this, Int.toNat_natCast, Nat.min_eq_left (by rw [h2, hcols]; exact hkN)]
    have sb2 : Py.sliceBound s.cols (((k + 1) * data.cols : Nat) : Int) = (k + 1) * data.cols := by
      unfold Py.sliceBound
      have : ¬ ((((k + 1) * data.cols : Nat) : Int) < 0) := by omega
      rw [if_neg this, Int.toNat_natCast, Nat.min_eq_left (by rw [h2, hcols]; exact hN)]
    simp only [Py.Arr2.setRowSlice, e1, e2, e3, sb1, sb2, idx_nat, Py.Arr2.row]
    refine ⟨h1, h2, ?_⟩
    intro r c
    by_cases hr : r = i
    · subst hr
      by_cases hc1 : c < k * data.cols
      · have : ¬ (k * data.cols ≤ c) := by omega
        rw [if_neg (by tauto), h3, if_pos ⟨rfl, hc1⟩, if_pos ⟨rfl, by nlinarith⟩]
      · by_cases hc2 : c < (k + 1) * data.cols
        · rw [if_pos ⟨rfl, by omega, hc2⟩, if_pos ⟨rfl, hc2⟩]
          unfold stackCell
          have hpos : 0 < data.cols := by
            rcases Nat.eq_zero_or_pos data.cols with h0 | h0
            · rw [h0] at hc2; simp at hc2
            · exact h0
          have hdiv : c / data.cols = k := by
            apply Nat.div_eq_of_lt_le
            · omega
            · exact hc2
          have hmod : c % data.cols = c - k * data.cols := by
            have := Nat.div_add_mod c data.cols
            rw [hdiv] at this
            have h' : data.cols * k = k * data.cols := Nat.mul_comm _ _
            omega
          rw [hdiv, hmod]
        · rw [if_neg (by omega), h3, if_neg (by omega), if_neg (by omega)]
    · rw [if_neg (by tauto), h3, if_neg (by tauto), if_neg (by tauto)]


/-- state of the stacking after the first `m` rows -/
theorem stack_outer (data : Py.Arr2 α) (W R : Nat) (hR : R + W ≤ data.rows + 1) (m : Nat) (hm : m ≤ R) :
    let s := (List.range m).foldl (fun (s : Py.Arr2 α) (i : Nat) =>
        Py.forEach (Py.range 0 (W : Int) 1) s (fun j s =>
          Py.Arr2.setRowSlice s (i : Int) (j * (data.cols : Int)) ((j + 1) * (data.cols : Int))
            (Py.Arr2.row data ((i : Int) + j))))
        (Py.Arr2.const (R : Int) ((data.cols : Int) * (W : Int)) (0 : α))
    s.rows = R ∧ s.cols = data.cols * W ∧
    ∀ r c, s.get r c = if r < m ∧ c < W * data.cols then stackCell data r c else 0 := by
  induction m with
  | zero =>
    refine ⟨by simp [Py.Arr2.const], ?_, by simp [Py.Arr2.const]⟩
    simp only [List.range_zero, List.foldl_nil, Py.Arr2.const]
    have : (data.cols : Int) * (W : Int) = ((data.cols * W : Nat) : Int) := by push_cast; rfl
    rw [this, Int.toNat_natCast]
  | succ k ih =>
    obtain ⟨h1, h2, h3⟩ := ih (by omega)
    simp only [List.range_succ, List.foldl_append, List.foldl_cons, List.foldl_nil]
    generalize (List.range k).foldl (fun (s : Py.Arr2 α) (i : Nat) =>
        Py.forEach (Py.range 0 (W : Int) 1) s (fun j s =>
          Py.Arr2.setRowSlice s (i : Int) (j * (data.cols : Int)) ((j + 1) * (data.cols : Int))
            (Py.Arr2.row data ((i : Int) + j))))
        (Py.Arr2.const (R : Int) ((data.cols : Int) * (W : Int)) (0 : α)) = s at h1 h2 h3 ⊢
    rw [forEach_range]
    obtain ⟨g1, g2, g3⟩ := stack_inner data W k s h2 (by omega) (by omega) W (le_refl _)
    refine ⟨by rw [g1, h1], by rw [g2, h2], ?_⟩
    intro r c
    rw [g3, h3]
    by_cases hr : r = k
    · subst hr
      by_cases hc : c < W * data.cols
      · rw [if_pos ⟨rfl, hc⟩, if_pos ⟨by omega, hc⟩]
      · rw [if_neg (by tauto), if_neg (by omega), if_neg (by tauto)]
    · rw [if_neg (by tauto)]
      by_cases hrk : r < k
      · by_cases hc : c < W * data.cols
        · rw [if_pos ⟨hrk, hc⟩, if_pos ⟨by omega, hc⟩]
        · rw [if_neg (by tauto), if_neg (by tauto)]
      · rw [if_neg (by tauto), if_neg (by omega)]

/-- **the translated stacking, cell by cell**: `T - W + 1` rows of `N·W` columns, and cell `(i, c)` is
`data[i + c / N, c % N]` (which is `data[i + j, k]` for `c = j·N + k`). -/
theorem stack_training_data_cells (data : Py.Arr2 α) (W : Nat) (hW : W ≤ data.rows + 1) :
    (Gen.stack_training_data data (W : Int)).rows = data.rows + 1 - W ∧
    (Gen.stack_training_data data (W : Int)).cols = data.cols * W ∧
    ∀ i c, i < data.rows + 1 - W → c < data.cols * W →
      (Gen.stack_training_data data (W : Int)).get i c = stackCell data i c := by
  unfold Gen.stack_training_data
  simp only [Py.Arr2.shape0, Py.Arr2.shape1]
  have e : (data.rows : Int) - (W : Int) + 1 = ((data.rows + 1 - W : Nat) : Int) := by omega
  rw [e, forEach_range]
  obtain ⟨h1, h2, h3⟩ := stack_outer data W (data.rows + 1 - W) (by omega) (data.rows + 1 - W) (le_refl _)
  refine ⟨h1, h2, ?_⟩
  intro i c hi hc
  rw [h3, if_pos ⟨hi, by rw [Nat.mul_comm]; exact hc⟩]


omit [Zero α] [Add α] [Sub α] [LT α] [DecidableLT α] in
theorem range_mul_flatMap {β} (N : Nat) (f : Nat → β) : ∀ W,
    (List.range (N * W)).map f = (List.range W).flatMap (fun j => (List.range N).map (fun k => f (j * N + k)))
  | 0 => by simp
  | W + 1 => by
    rw [Nat.mul_succ, List.range_add, List.map_append, range_mul_flatMap N f W, List.range_succ,
      List.flatMap_append]
    simp [Nat.mul_comm]

/-- **the translated stacking is the stacking model**: the rows of the returned array are `Stack.stack` of the rows
of the input, for every window `W ≤ T + 1` and every cell type. -/
theorem stack_training_data_eq (data : Py.Arr2 α) (W : Nat) (hW : W ≤ data.rows + 1) :
    (Gen.stack_training_data data (W : Int)).toLists = Stack.stack data.toLists W := by
  obtain ⟨h1, h2, h3⟩ := stack_training_data_cells data W hW
  unfold Py.Arr2.toLists Stack.stack
  rw [h1, h2]
  simp only [List.length_map, List.length_range]
  apply List.map_congr_left
  intro i hi
  have hi' : i < data.rows + 1 - W := List.mem_range.mp hi
  have hrow : (List.range (data.cols * W)).map ((Gen.stack_training_data data (W : Int)).get i)
      = (List.range (data.cols * W)).map (stackCell data i) := by
    apply List.map_congr_left
    intro c hc
    exact h3 i c hi' (List.mem_range.mp hc)
  rw [hrow, range_mul_flatMap]
  unfold Stack.stackRow
  apply List.flatMap_congr
  intro j hj
  have hj' : j < W := List.mem_range.mp hj
  have hget : ((List.range data.rows).map (fun r => (List.range data.cols).map (data.get r))).getD (i + j) []
      = (List.range data.cols).map (data.get (i + j)) := by
    simp [List.getD_eq_getElem?_getD, show i + j < data.rows by omega]
  rw [hget]
  apply List.map_congr_left
  intro k hk
  have hk' : k < data.cols := List.mem_range.mp hk
  unfold stackCell
  have hpos : 0 < data.cols := by omega
  have h1 : (j * data.cols + k) / data.cols = j := by
    rw [Nat.add_comm, Nat.add_mul_div_right _ _ hpos, Nat.div_eq_of_lt hk']; simp
  have h2 : (j * data.cols + k) % data.cols = k := by
    rw [Nat.add_comm, Nat.add_mul_mod_self_right, Nat.mod_eq_of_lt hk']
  rw [h1, h2]

end
end FastTicc.Translated

/-
Property C01 — label assignment returns a globally minimum-cost label sequence.
Property theorems only; helper lemmas live in `FastTicc/Proofs/Viterbi.lean`.
-/
import FastTicc.Model.Viterbi
import FastTicc.Proofs.Viterbi
import Mathlib.Algebra.Order.Group.Int

namespace FastTicc.Viterbi

variable {α : Type} [AddCommGroup α] [LinearOrder α] [IsOrderedAddMonoid α]

/-- a candidate labelling: one label `< K` per point. -/
def ValidLabels (K T : Nat) (q : List Nat) : Prop := q.length = T ∧ ∀ l ∈ q, l < K

/-- every per-pair switching cost is non-negative. -/
def BetaNonneg (pts : List ((Nat → α) × α)) : Prop := ∀ p ∈ pts, 0 ≤ p.2

/-- one label per point. -/
theorem viterbi_length (K : Nat) (pts : List ((Nat → α) × α)) (h : pts ≠ []) :
    (viterbi K pts).1.length = pts.length := by
  cases pts with
  | nil => exact absurd rfl h
  | cons p rest =>
    simp only [viterbi, List.length_cons, follow_length, back_snd_length]
    simp

/-- every returned label is in `[0, K)`. -/
theorem viterbi_labels_in_range (K : Nat) (hK : 0 < K) (pts : List ((Nat → α) × α)) :
    ∀ l ∈ (viterbi K pts).1, l < K := by
  cases pts with
  | nil => simp [viterbi]
  | cons p rest =>
    simp only [viterbi, List.mem_cons]
    rintro l (rfl | hl)
    · exact argmin_lt _ hK
    · exact follow_back_lt K hK (p :: rest) _ (argmin_lt _ hK) l hl

/-- the reported cost is the total cost of exactly the returned sequence.

The hypothesis `hb : BetaNonneg pts` was ADDED: without it the statement is false, see
`viterbi_cost_of_path_needs_nonneg_beta` below. -/
theorem viterbi_cost_is_cost_of_path (K : Nat) (hK : 0 < K)
    (pts : List ((Nat → α) × α)) (h : pts ≠ []) (hb : BetaNonneg pts) :
    (viterbi K pts).2 = totalCost pts (viterbi K pts).1 := by
  have _ := hK
  cases pts with
  | nil => exact absurd rfl h
  | cons p rest =>
    simp only [viterbi]
    exact back_cost_eq K p rest hb _

/-- with a negative switching cost the reported cost is not the cost of the returned
labelling (`K = 1`, two points, `beta = -1`: reported `-1`, actual `0`). -/
theorem viterbi_cost_of_path_needs_nonneg_beta :
    ∃ (K : Nat) (pts : List ((Nat → Int) × Int)),
      0 < K ∧ pts ≠ [] ∧ (viterbi K pts).2 ≠ totalCost pts (viterbi K pts).1 :=
  ⟨1, [(fun _ => 0, -1), (fun _ => 0, 0)], by decide, List.cons_ne_nil _ _, by decide⟩

/-- optimality: no labelling with labels `< K` is cheaper (for all `K^T` of them).
(`hb` is in fact not needed for this direction: `viterbi_cost_lower_bound`.) -/
theorem viterbi_optimal (K : Nat) (hK : 0 < K) (pts : List ((Nat → α) × α))
    (hb : BetaNonneg pts) (q : List Nat) (hq : ValidLabels K pts.length q) :
    (viterbi K pts).2 ≤ totalCost pts q := by
  have _ := hK
  have _ := hb
  exact viterbi_cost_lower_bound K pts q hq.1 hq.2

/-- the returned labelling is itself a valid candidate, so it is a minimiser. -/
theorem viterbi_returns_minimiser (K : Nat) (hK : 0 < K) (pts : List ((Nat → α) × α))
    (h : pts ≠ []) (hb : BetaNonneg pts) :
    ValidLabels K pts.length (viterbi K pts).1 ∧
    ∀ q, ValidLabels K pts.length q → totalCost pts (viterbi K pts).1 ≤ totalCost pts q := by
  refine ⟨⟨viterbi_length K pts h, viterbi_labels_in_range K hK pts⟩, fun q hq => ?_⟩
  rw [← viterbi_cost_is_cost_of_path K hK pts h hb]
  exact viterbi_optimal K hK pts hb q hq

/-- scalar switching cost (`np.zeros(T) + beta`) is the per-pair vector filled with it. -/
theorem viterbi_scalar_beta (K : Nat) (rows : List (Nat → α)) (b : α) :
    viterbi K (withScalarBeta rows b)
      = viterbi K (withVectorBeta rows (List.replicate rows.length b)) := by
  rw [withScalarBeta_eq]

omit [IsOrderedAddMonoid α] in
/-- the executable refinement returns exactly what the specification-level model returns.
(Holds for the bare operations `[Add α] [Sub α] [LT α] [DecidableLT α] [Zero α]`:
`viterbiFast_eq_viterbi` in `Proofs/Viterbi.lean`.  `0 < K` is necessary.) -/
theorem viterbiFast_eq (K : Nat) (hK : 0 < K) (pts : List ((Nat → α) × α)) :
    viterbiFast K pts = viterbi K pts :=
  viterbiFast_eq_viterbi K hK pts

/-- `0 < K` is needed in `viterbiFast_eq`: for `K = 0` the stored rows are empty. -/
theorem viterbiFast_eq_needs_pos_K :
    ∃ pts : List ((Nat → Int) × Int), viterbiFast 0 pts ≠ viterbi 0 pts :=
  ⟨[(fun _ => 0, 0), (fun _ => 1, 0)], by decide⟩

/-- `beta ≥ 0` is needed: with a negative switching cost the kernel is not optimal —
some valid labelling is strictly cheaper than the returned one
(`K = 2`, two all-zero points, `beta = -5`: returned `[0, 0]` costs `0`, `[0, 1]` costs `-5`).

RESTATED: the seeded form compared against the *reported* cost,
`totalCost pts q < (viterbi K pts).2`; that form is false (the reported cost is a lower
bound whatever the sign of beta), see `viterbi_reported_cost_never_beaten`. -/
theorem viterbi_needs_nonneg_beta :
    ∃ (K : Nat) (pts : List ((Nat → Int) × Int)) (q : List Nat),
      0 < K ∧ ValidLabels K pts.length q ∧
        totalCost pts q < totalCost pts (viterbi K pts).1 :=
  ⟨2, [(rowOfList [0, 0], -5), (rowOfList [0, 0], 0)], [0, 1],
    by decide, ⟨rfl, by decide⟩, by decide⟩

/-- the seeded form of `viterbi_needs_nonneg_beta` is refutable: no valid labelling is
ever strictly cheaper than the *reported* cost, even for negative switching costs. -/
theorem viterbi_reported_cost_never_beaten :
    ¬ ∃ (K : Nat) (pts : List ((Nat → Int) × Int)) (q : List Nat),
      0 < K ∧ ValidLabels K pts.length q ∧ totalCost pts q < (viterbi K pts).2 := by
  rintro ⟨K, pts, q, _, hq, hlt⟩
  exact absurd (viterbi_cost_lower_bound K pts q hq.1 hq.2) (not_le.mpr hlt)

/-- non-vacuity: a concrete instance with ties, a negative cost and per-pair betas
meets every hypothesis, and its optimum differs from the greedy labelling. -/
example :
    let pts : List ((Nat → Int) × Int) :=
      [(rowOfList [0, 3], 2), (rowOfList [5, -1], 0), (rowOfList [1, 1], 4), (rowOfList [2, 0], 7)]
    BetaNonneg pts ∧ (viterbi 2 pts).1.length = 4 := by
  intro pts
  refine ⟨?_, by decide⟩
  unfold BetaNonneg
  decide

/-- the same instance, spelled out: the optimum `[0, 1, 1, 1]` (cost `2`) differs from the
per-point greedy labelling `[0, 1, 0, 1]` (cost `6`). -/
example :
    let pts : List ((Nat → Int) × Int) :=
      [(rowOfList [0, 3], 2), (rowOfList [5, -1], 0), (rowOfList [1, 1], 4), (rowOfList [2, 0], 7)]
    viterbi 2 pts = ([0, 1, 1, 1], 2) ∧ totalCost pts [0, 1, 0, 1] = 6 := by
  decide

end FastTicc.Viterbi

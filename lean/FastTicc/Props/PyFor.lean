/-
The translator's reading of a Python `for x in xs: body` whose body may `break` - a monadic fold `Py.forEachE` over the
loop-carried state extended by a flag, every iteration guarded by `if flag then pure state else …` - against the direct
semantics of such a loop: iterate over the list, leave the loop at the first state in which a `break` was executed, stop at
the first error.
-/
import FastTicc.Model.Py
open FastTicc

namespace FastTicc.PyFor
section
variable {β σ : Type}

/-- `for x in xs: s = step(x, s)`, leaving the loop once `broke s` holds, propagating the first error -/
def forBreak (step : β → σ → Except String σ) (broke : σ → Bool) : List β → σ → Except String σ
  | [], s => .ok s
  | x :: xs, s =>
    if broke s then .ok s
    else match step x s with
      | .error e => .error e
      | .ok s' => forBreak step broke xs s'

/-- once the flag is set, the remaining guarded iterations do nothing -/
theorem forEachE_frozen (step : β → σ → Except String σ) (broke : σ → Bool) :
    ∀ (xs : List β) (s : σ), broke s = true →
      Py.forEachE xs s (fun x st => if broke st then pure st else step x st) = .ok s := by
  intro xs
  induction xs with
  | nil => intro s _; rfl
  | cons x t ih =>
    intro s hs
    unfold Py.forEachE at ih ⊢
    rw [List.foldlM_cons]
    simp only [hs, if_true]
    exact ih s hs

/-- **the guarded fold is the `for … break` loop** -/
theorem forEachE_guarded_eq_forBreak (step : β → σ → Except String σ) (broke : σ → Bool) :
    ∀ (xs : List β) (s : σ),
      Py.forEachE xs s (fun x st => if broke st then pure st else step x st) = forBreak step broke xs s := by
  intro xs
  induction xs with
  | nil => intro s; rfl
  | cons x t ih =>
    intro s
    by_cases hs : broke s = true
    · rw [forEachE_frozen step broke (x :: t) s hs]
      simp [forBreak, hs]
    · have hs' : broke s = false := by simpa using hs
      unfold Py.forEachE at ih ⊢
      rw [List.foldlM_cons]
      simp only [hs', Bool.false_eq_true, if_false, forBreak]
      cases hstep : step x s with
      | error e => rfl
      | ok s' => exact ih s'

/-- a loop that never breaks and never fails is the plain fold -/
theorem forBreak_no_break (step : β → σ → σ) (broke : σ → Bool) (hnever : ∀ s, broke s = false) :
    ∀ (xs : List β) (s : σ), forBreak (fun x st => .ok (step x st)) broke xs s = .ok (xs.foldl (fun st x => step x st) s) := by
  intro xs
  induction xs with
  | nil => intro s; rfl
  | cons x t ih => intro s; simp [forBreak, hnever s, ih]
end
end FastTicc.PyFor

/-
Property C02 — the cluster MRF is the block-Toeplitz graphical-lasso optimum
(algebra of one ADMM iteration and of its fixed points; convergence within the budget is
explored, not proved; global optimality from the KKT certificate is cited, not proved).
Property theorems only; helper lemmas live in `FastTicc/Proofs/Admm.lean`.
-/
import FastTicc.Model.Numeric
import FastTicc.Proofs.Admm
import Mathlib.Analysis.Real.Sqrt
import Mathlib.Algebra.BigOperators.Group.Finset.Basic

namespace FastTicc.Numeric
open FastTicc.Index

section soft
variable {α : Type} [Field α] [LinearOrder α] [IsStrictOrderedRing α]

/-- closed form: the soft threshold is `sign(s) · max(|s| − Λ, 0) / (ρ r)`. -/
theorem softThreshold_closed_form (s lam rr : α) (hl : 0 ≤ lam) (hr : 0 < rr) :
    softThreshold s lam rr =
      if lam < s then (s - lam) / rr else if s < -lam then (s + lam) / rr else 0 := by
  exact Aux.softThreshold_closed_form s lam rr hl hr

/-- the objective of one class in the Z-update: `Λ|z| + (ρ/2) Σ_l (z − s_l)²`. -/
def classObjective (lam rho : α) (ss : List α) (z : α) : α :=
  lam * |z| + rho / 2 * (ss.map (fun s => (z - s) * (z - s))).sum

/-- the value the Z-update writes minimises the class objective over all `z`
(`ρ > 0`, `Λ ≥ 0`, any non-empty list `s₁ … s_r` of the entries `x_l + u_l`). -/
theorem soft_threshold_minimises (lam rho : α) (ss : List α) (hl : 0 ≤ lam) (hrho : 0 < rho)
    (hne : ss ≠ []) (z : α) :
    classObjective lam rho ss (softThreshold (rho * ss.sum) lam (rho * (ss.length : α)))
      ≤ classObjective lam rho ss z := by
  have hlen : (0 : α) < (ss.length : α) := by
    have : 0 < ss.length := List.length_pos_iff.2 hne
    exact_mod_cast this
  have ha : 0 < rho * (ss.length : α) := mul_pos hrho hlen
  rw [softThreshold_closed_form _ _ _ hl ha]
  have key := Aux.prox_min lam (rho * (ss.length : α)) (rho * ss.sum) hl ha z
  unfold classObjective
  rw [Aux.sum_sq_expand, Aux.sum_sq_expand]
  linarith [key]

/-- class-wise KKT at a fixed point: if every entry of the class already equals the value the
Z-update writes (`x_l = z*`), then with `g = ρ Σ_l u_l` (the class sum of `X⁻¹ − S`):
`g = Λ·sign(z*)` when `z* ≠ 0` and `|g| ≤ Λ` when `z* = 0`. -/
theorem fixed_point_class_kkt (lam rho zs : α) (us : List α) (hl : 0 ≤ lam) (hrho : 0 < rho)
    (hne : us ≠ [])
    (hfix : softThreshold (rho * (us.map (fun u => zs + u)).sum) lam (rho * (us.length : α)) = zs) :
    (0 < zs → rho * us.sum = lam) ∧ (zs < 0 → rho * us.sum = -lam) ∧
    (zs = 0 → |rho * us.sum| ≤ lam) := by
  have hlen : (0 : α) < (us.length : α) := by
    have : 0 < us.length := List.length_pos_iff.2 hne
    exact_mod_cast this
  have ha : 0 < rho * (us.length : α) := mul_pos hrho hlen
  rw [softThreshold_closed_form _ _ _ hl ha, Aux.sum_shift] at hfix
  by_cases h1 : lam < rho * ((us.length : α) * zs + us.sum)
  · rw [if_pos h1, div_eq_iff (ne_of_gt ha)] at hfix
    have hU : rho * us.sum = lam := by linarith
    have hz : 0 < zs := by
      by_contra hz
      have := mul_nonpos_of_nonpos_of_nonneg (not_lt.1 hz) ha.le
      linarith
    exact ⟨fun _ => hU, fun h => absurd h (not_lt.2 hz.le), fun h => absurd h (ne_of_gt hz)⟩
  · rw [if_neg h1] at hfix
    by_cases h2 : rho * ((us.length : α) * zs + us.sum) < -lam
    · rw [if_pos h2, div_eq_iff (ne_of_gt ha)] at hfix
      have hU : rho * us.sum = -lam := by linarith
      have hz : zs < 0 := by
        by_contra hz
        have := mul_nonneg (not_lt.1 hz) ha.le
        linarith
      exact ⟨fun h => absurd h (not_lt.2 hz.le), fun _ => hU, fun h => absurd h (ne_of_lt hz)⟩
    · rw [if_neg h2] at hfix
      subst hfix
      refine ⟨fun h => absurd h (lt_irrefl _), fun h => absurd h (lt_irrefl _), fun _ => ?_⟩
      rw [mul_zero, zero_add] at h1 h2
      exact abs_le.2 ⟨not_lt.1 h2, not_lt.1 h1⟩

/-- the scaled dual update `u + x − z` leaves `u` unchanged exactly when `x = z` (zero primal residual). -/
theorem uUpdate_fixed_iff (u x z : List α) (hx : x.length = u.length) (hz : z.length = u.length) :
    uUpdate u x z = u ↔ x = z := by
  exact Aux.uUpdate_fixed_iff u x z hx hz
end soft

section toeplitz
variable {α : Type} [Field α] [LinearOrder α] [IsStrictOrderedRing α]

/-- the Z-update output has the right length … -/
theorem zUpdate_length (rho : α) (lam : Lambda α) (N W : Nat) (u x : List α) :
    (zUpdate rho lam N W u x).length = x.length := by
  unfold zUpdate
  rw [Aux.foldl_blocks_length (classes N W) (fun k => locCompressed k.1 k.2.1 k.2.2 N W)
    (fun k => classValue rho lam (fun i => x.getD i 0 + u.getD i 0) k.1 k.2.1 k.2.2 N W)]
  exact List.length_replicate

/-- … and is block-Toeplitz: it is constant on every class, namely the class value
(later classes never overwrite earlier ones, by C11's partition). -/
theorem zUpdate_toeplitz (rho : α) (lam : Lambda α) (N W : Nat) (hN : 0 < N) (u x : List α)
    (hx : x.length = (N * W) * (N * W + 1) / 2)
    (k : Nat × Nat × Nat) (hk : k ∈ classes N W) :
    ∀ i ∈ locCompressed k.1 k.2.1 k.2.2 N W,
      (zUpdate rho lam N W u x)[i]? =
        some (classValue rho lam (fun i => x.getD i 0 + u.getD i 0) k.1 k.2.1 k.2.2 N W) := by
  intro i hi
  unfold zUpdate
  exact Aux.foldl_blocks_mem (classes N W) (fun k => locCompressed k.1 k.2.1 k.2.2 N W)
    (fun k => classValue rho lam (fun i => x.getD i 0 + u.getD i 0) k.1 k.2.1 k.2.2 N W)
    (List.replicate x.length 0) k hk i hi
    (by rw [List.length_replicate, hx]; exact Aux.locCompressed_lt N W k hk i hi)
    (fun k' hk' hne => Aux.locCompressed_disjoint N W hN k k' hk hk' hne i hi)
end toeplitz

section xupdate
/-- stationarity of the X-update, eigenvalue by eigenvalue: for `A = Q diag(d) Qᵀ` the update sets
eigenvalue `e_i = (d_i + √(d_i² + 4ρ))/(2ρ)`, which satisfies `ρ e_i − 1/e_i = d_i` and `e_i > 0`;
so `X = Q diag(e) Qᵀ` is positive definite with `ρ X − X⁻¹ = A = ρ(Z − U) − S`. -/
theorem xUpdate_eigenvalues (rho : ℝ) (hrho : 0 < rho) (d : ℕ → ℝ) (i : ℕ) :
    0 < eigPinned Real.sqrt rho (d i) ∧
    rho * eigPinned Real.sqrt rho (d i) - (eigPinned Real.sqrt rho (d i))⁻¹ = d i := by
  exact ⟨Aux.eig_pos rho (d i) hrho, Aux.eig_stationary rho (d i) hrho⟩
end xupdate

/-- non-vacuity of the fixed-point hypothesis: a class of two entries at its soft-threshold value. -/
example : softThreshold ((1 : ℚ) * ([1 + 1/2, 1 + 1/2].sum)) 1 (1 * 2) = 1 := by
  norm_num [softThreshold, pyMax, pyMin]

end FastTicc.Numeric

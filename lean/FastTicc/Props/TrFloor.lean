/-
TRANSLATED CODE = MODEL (`_zero_small_elements` of graphical_lasso.py, property C03: the covariance floor).
`Generated/Kernels.lean` is rewritten from the Python AST of `$REPO/src/fast_ticc` by `harness/py2lean.py` on every run; the
theorem below is about that generated definition.  Arrays are values (`np.copy` is the identity and the `copy` flag, which
only decides whose buffer is written, drops out); `(M < eps) & (M > -eps)` is a boolean matrix and `M[mask] = 0` the masked
store of `Model/Py.lean`.
-/
import FastTicc.Generated.Kernels
import FastTicc.Model.Numeric
import Mathlib.Algebra.Order.Field.Basic
open FastTicc

namespace FastTicc.Translated
section
variable {α : Type} [Field α] [LinearOrder α]

/-- **the translated covariance floor is `Numeric.floorFilter`, entry by entry**: for every matrix, threshold and value of the
`copy` flag the translated `_zero_small_elements` returns the matrix of the same shape whose entries strictly inside
`(-eps, eps)` are `0` and whose other entries are untouched - the filter `floorFilter_*` of `Props/C03` are about. -/
theorem zero_small_elements_eq (M : Py.Arr2 α) (eps : α) (copy : Bool) :
    Gen._zero_small_elements M eps copy = ⟨M.rows, M.cols, fun r c => Numeric.floorFilter eps (M.get r c)⟩ := by
  unfold Gen._zero_small_elements Py.Arr2.setWhere Py.Mask2.and Py.Arr2.ltScalar Py.Arr2.gtScalar Numeric.floorFilter
  cases copy <;>
  · simp only [Bool.false_eq_true, if_false, if_true, zero_sub, Bool.and_eq_true, decide_eq_true_eq]

/-- the flag does not matter for the value (it matters for WHOSE array is written: C13 / C19) -/
theorem zero_small_elements_copy_irrelevant (M : Py.Arr2 α) (eps : α) :
    Gen._zero_small_elements M eps true = Gen._zero_small_elements M eps false := by
  rw [zero_small_elements_eq, zero_small_elements_eq]

end
end FastTicc.Translated

/-
Property C04 (continued) — composition of the padding theorems with the labelling kernel's range
theorem: the label list a front end returns for a series consists of exactly `⌊(W-1)/2⌋` leading and
`(W-1) − ⌊(W-1)/2⌋` trailing `-1` markers around labels that are all in `[0, K)`.
Helper lemmas live in `FastTicc/Proofs/Stack.lean` / `FastTicc/Proofs/Viterbi.lean`.
-/
import FastTicc.Props.C04
import FastTicc.Props.C01

namespace FastTicc.Stack
open FastTicc.Viterbi

variable {α : Type} [AddCommGroup α] [LinearOrder α] [IsOrderedAddMonoid α]

/-- the labels the single-series front end returns, as a function of the final cost table. -/
def frontEndLabels (K W : ℕ) (pts : List ((ℕ → α) × α)) : List Int :=
  padMissing ((viterbi K pts).1.map (fun (l : ℕ) => (l : Int))) W

/-- exactly `T = (number of stacked points) + W − 1` labels; markers exactly at the margins; every
other label is an integer in `[0, K)`. -/
theorem frontEndLabels_shape (K W : ℕ) (hK : 0 < K) (hW : 1 ≤ W) (pts : List ((ℕ → α) × α))
    (hne : pts ≠ []) :
    (frontEndLabels K W pts).length = pts.length + W - 1 ∧
    (∀ i, i < frontLen W → (frontEndLabels K W pts)[i]? = some (-1)) ∧
    (∀ i, i < backLen W → (frontEndLabels K W pts)[frontLen W + pts.length + i]? = some (-1)) ∧
    (∀ i, i < pts.length → ∃ l : ℕ, (frontEndLabels K W pts)[frontLen W + i]? = some (l : Int) ∧ l < K) ∧
    (frontEndLabels K W pts).count (-1) = W - 1 := by
  have hlen := viterbi_length K pts hne
  have hrange := viterbi_labels_in_range K hK pts
  have hmlen : ((viterbi K pts).1.map (fun (l : ℕ) => (l : Int))).length = pts.length := by
    rw [List.length_map, hlen]
  unfold frontEndLabels
  refine ⟨?_, ?_, ?_, ?_, ?_⟩
  · rw [pad_length _ W hW, hmlen]
  · intro i hi
    exact pad_front _ W i hi
  · intro i hi
    have := pad_back ((viterbi K pts).1.map (fun (l : ℕ) => (l : Int))) W i hi
    rwa [hmlen] at this
  · intro i hi
    have hi' : i < (viterbi K pts).1.length := by rw [hlen]; exact hi
    refine ⟨(viterbi K pts).1[i], ?_, hrange _ (List.getElem_mem hi')⟩
    rw [pad_middle _ W i (by rw [hmlen]; exact hi), List.getElem?_map,
      List.getElem?_eq_getElem hi']
    rfl
  · apply pad_marker_count
    intro x hx
    rw [List.mem_map] at hx
    obtain ⟨l, _, rfl⟩ := hx
    exact Int.natCast_nonneg l

end FastTicc.Stack

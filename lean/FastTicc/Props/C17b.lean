/-
Property C17 (continued) — the hypothesis `Consistent` of `between_decomposition` /
`chPinned_eq_chSpec_plus` is established by what the algorithm actually has: member lists that
partition the `T` points and cluster means that are the means of their members.
Helper lemmas live in `FastTicc/Proofs/StatsPartition.lean`.
-/
import FastTicc.Props.C17
import FastTicc.Props.C12
import FastTicc.Proofs.StatsPartition

namespace FastTicc.Numeric

variable {α : Type} [Field α] [LinearOrder α] [IsStrictOrderedRing α]

/-- the member lists of clusters `0..K-1` form a partition of the points `0..T-1`. -/
def IsPartition (T K : ℕ) (members : ℕ → List ℕ) : Prop :=
  ((List.range K).flatMap members).Perm (List.range T)

/-- if the member lists partition the points, every cluster is non-empty, and each cluster mean is
the mean of its members (what the statistics phase computes, C12), then sizes and means are
`Consistent` with the data — so the exact-deviation theorems of C17 apply to every real run. -/
theorem consistent_of_partition (T K d : ℕ) (members : ℕ → List ℕ) (data : ℕ → ℕ → α)
    (hT : 0 < T) (hpart : IsPartition T K members) (hne : ∀ k, k < K → members k ≠ []) :
    Consistent T K d (fun k => (members k).length)
      (fun k j => clusterMean data (members k) j) data := by
  have _ := hne -- not needed: an empty cluster contributes `0 * (0 / 0) = 0`
  exact ⟨partition_total T K members hpart, partition_centroid T K members data hT hpart⟩

/-- the labelling-derived member lists (C13's invariant) do partition the points. -/
theorem members_partition (labels : List ℕ) (K : ℕ) (hK : ∀ l ∈ labels, l < K) :
    IsPartition labels.length K (fun k => Repop.members labels k) := by
  exact members_flatMap_perm labels K hK

/-- hence, for a real run: reported (pinned) index = definition + the proved deviation. -/
theorem chPinned_deviation_of_labels (labels : List ℕ) (K d : ℕ) (data : ℕ → ℕ → α)
    (hT : 0 < labels.length) (hK : ∀ l ∈ labels, l < K)
    (hne : ∀ k, k < K → Repop.members labels k ≠ []) :
    let members := fun k => Repop.members labels k
    let means := fun k j => clusterMean data (members k) j
    let T := labels.length
    chPinned T K d members means data =
      chSpec T K d members means data +
        ((T : α) * sqDist d (centroid T data) (fun _ => scalarMean T d data)
          / within K d members means data) * (((T : α) - (K : α)) / ((K : α) - 1)) := by
  intro members means T
  have hcons : Consistent T K d (fun k => (members k).length) means data :=
    consistent_of_partition T K d members data hT (members_partition labels K hK) hne
  unfold chPinned chSpec
  rw [between_decomposition T K d _ means data hcons]
  unfold chIndex
  rw [Nat.cast_one]
  ring

end FastTicc.Numeric
